(* Refinement of the sharded ring of safequeue.go to a plain list, for every
   shard size > 0 and every operation sequence (no bound on depth). *)
From Coq Require Import List Arith NArith Lia Bool.
Import ListNotations.
From GMQ Require Import Data.SafeQueue.

Section SQ.
Variable sz : nat.
Hypothesis Spos : 0 < sz.

Definition cells (q : sq) := concat (shards q).
Definition nsh (q : sq) := length (shards q).

Definition Inv (q : sq) (xs : list N) : Prop :=
  Forall (fun sh => length sh = sz) (shards q) /\ 1 <= nsh q /\
  headPos q < sz /\ tailPos q < sz /\
  headPos q + length xs = (nsh q - 1) * sz + tailPos q /\
  cells q = repeat None (headPos q) ++ map Some xs ++ repeat None (sz - tailPos q) /\
  len q = length xs.

(* generic list lemmas *)
Lemma set_nth_length {A} (l : list A) n x : length (set_nth l n x) = length l.
Proof. revert n; induction l as [|a l IH]; intros [|n]; simpl; auto. Qed.

Lemma set_nth_app_r {A} (l1 l2 : list A) n x : length l1 <= n ->
  set_nth (l1 ++ l2) n x = l1 ++ set_nth l2 (n - length l1) x.
Proof. revert n; induction l1 as [|a l1 IH]; intros n Hn; simpl in *.
  - now rewrite Nat.sub_0_r.
  - destruct n as [|n]; [lia|]. simpl. f_equal. apply IH. lia. Qed.

Lemma set_nth_app_l {A} (l1 l2 : list A) n x : n < length l1 ->
  set_nth (l1 ++ l2) n x = set_nth l1 n x ++ l2.
Proof. revert n; induction l1 as [|a l1 IH]; intros n Hn; simpl in *; [lia|].
  destruct n as [|n]; simpl; auto. f_equal. apply IH. lia. Qed.

Lemma concat_upd_last {A} (ss : list (list A)) f : ss <> [] ->
  concat (upd_last ss f) = concat (removelast ss) ++ f (last ss []).
Proof. induction ss as [|h t IH]; [congruence|]. intros _. destruct t as [|h2 t].
  - simpl. now rewrite app_nil_r.
  - assert (IH' := IH ltac:(congruence)). clear IH.
    change (upd_last (h :: h2 :: t) f) with (h :: upd_last (h2 :: t) f).
    change (removelast (h :: h2 :: t)) with (h :: removelast (h2 :: t)).
    change (last (h :: h2 :: t) []) with (last (h2 :: t) []).
    cbn [concat]. rewrite IH'. now rewrite app_assoc. Qed.

Lemma concat_split_last {A} (ss : list (list A)) : ss <> [] ->
  concat ss = concat (removelast ss) ++ last ss [].
Proof. intros H. rewrite (app_removelast_last [] H) at 1. rewrite concat_app. simpl. now rewrite app_nil_r. Qed.

Lemma length_concat_uniform {A} (ss : list (list A)) n : Forall (fun sh => length sh = n) ss ->
  length (concat ss) = length ss * n.
Proof. induction 1; simpl; auto. rewrite app_length. lia. Qed.

Lemma Forall_removelast {A} (P : A -> Prop) l : Forall P l -> Forall P (removelast l).
Proof. induction 1 as [|a l Ha Hl IH]; simpl; auto. destruct l; auto. Qed.

Lemma Forall_last {A} (P : A -> Prop) l d : l <> [] -> Forall P l -> P (last l d).
Proof. intros Hne H. induction H as [|a l Ha Hl IH]; [congruence|]. destruct l; simpl; auto. apply IH. congruence. Qed.

Lemma upd_last_length {A} (ss : list A) f : length (upd_last ss f) = length ss.
Proof. induction ss as [|h [|h2 t] IH]; simpl in *; auto. Qed.

Lemma Forall_upd_last {A} (P : A -> Prop) ss f : (forall a, P a -> P (f a)) -> Forall P ss -> Forall P (upd_last ss f).
Proof. intros Hf. induction 1 as [|a l Ha Hl IH]; simpl; auto. destruct l; auto. Qed.

Lemma set_nth_repeat_None_0 (k : nat) (x : option N) : 0 < k -> set_nth (repeat None k) 0 x = x :: repeat None (k - 1).
Proof. destruct k; [lia|]. simpl. now rewrite Nat.sub_0_r. Qed.

Lemma removelast_length {A} (l : list A) : length (removelast l) = length l - 1.
Proof. induction l as [|a [|b l] IH]; simpl in *; auto. lia. Qed.

Lemma repeat_snoc {A} (a : A) n : repeat a n ++ [a] = repeat a (S n).
Proof. induction n; simpl; auto. now rewrite IHn. Qed.

Lemma Inv_ne q xs : Inv q xs -> exists h t, shards q = h :: t /\ length h = sz.
Proof. intros (HF & Hn & _). unfold nsh in Hn. destruct (shards q) as [|h t]; simpl in *; [lia|].
  exists h, t. split; auto. now inversion HF. Qed.

(* new *)
Lemma new_inv : Inv (sq_new sz) [].
Proof. unfold Inv, sq_new, nsh, cells, blank; simpl. repeat split; try lia.
  - constructor; auto. apply repeat_length.
  - rewrite app_nil_r, Nat.sub_0_r. reflexivity. Qed.

(* push *)
Lemma push_inv q xs x : Inv q xs -> Inv (sq_push sz q x) (xs ++ [x]).
Proof.
  intros (HF & Hn & Hh & Ht & Hidx & Hc & Hl).
  assert (Hne : shards q <> []) by (unfold nsh in Hn; destruct (shards q); simpl in *; [lia|congruence]).
  pose proof (Forall_last _ _ [] Hne HF) as Hlast.
  pose proof (Forall_removelast _ _ HF) as HFr.
  pose proof (length_concat_uniform _ _ HFr) as Hlr. rewrite removelast_length in Hlr. fold (nsh q) in Hlr.
  unfold cells in Hc. rewrite (concat_split_last _ Hne) in Hc.
  assert (Hcells' : concat (upd_last (shards q) (fun t => set_nth t (tailPos q) (Some x)))
           = repeat None (headPos q) ++ map Some (xs ++ [x]) ++ repeat None (sz - tailPos q - 1)).
  { rewrite concat_upd_last by assumption.
    assert (E : concat (removelast (shards q)) ++ set_nth (last (shards q) []) (tailPos q) (Some x)
              = set_nth (concat (removelast (shards q)) ++ last (shards q) []) ((nsh q - 1) * sz + tailPos q) (Some x)).
    { rewrite set_nth_app_r. 2:{ rewrite Hlr. lia. } rewrite Hlr. f_equal. f_equal. lia. }
    rewrite E, Hc.
    rewrite app_assoc. rewrite set_nth_app_r by (rewrite app_length, repeat_length, map_length; lia).
    rewrite app_length, repeat_length, map_length.
    replace ((nsh q - 1) * sz + tailPos q - (headPos q + length xs)) with 0 by lia.
    rewrite set_nth_repeat_None_0 by lia. rewrite map_app. simpl. rewrite <- !app_assoc. simpl.
    reflexivity. }
  unfold sq_push. destruct (Nat.eqb (S (tailPos q)) sz) eqn:E.
  - apply Nat.eqb_eq in E. unfold Inv, nsh, cells; simpl.
    rewrite app_length, upd_last_length. simpl. fold (nsh q).
    repeat split; try lia.
    + apply Forall_app. split. apply Forall_upd_last; auto. intros a Ha; now rewrite set_nth_length.
      constructor; auto. unfold blank. apply repeat_length.
    + rewrite app_length. simpl. nia.
    + rewrite concat_app. simpl. rewrite app_nil_r. rewrite Hcells'. unfold blank.
      replace (sz - tailPos q - 1) with 0 by lia. simpl. rewrite app_nil_r. rewrite Nat.sub_0_r. now rewrite <- app_assoc.
    + rewrite app_length. simpl. lia.
  - apply Nat.eqb_neq in E. unfold Inv, nsh, cells; simpl. rewrite upd_last_length. fold (nsh q).
    repeat split; try lia.
    + apply Forall_upd_last; auto. intros a Ha; now rewrite set_nth_length.
    + rewrite app_length. simpl. lia.
    + rewrite Hcells'. replace (sz - S (tailPos q)) with (sz - tailPos q - 1) by lia. reflexivity.
    + rewrite app_length. simpl. lia.
Qed.

(* push_head *)
Lemma set_nth_repeat_last (k : nat) (v : option N) r :
  set_nth (repeat None (S k) ++ r) k v = repeat None k ++ v :: r.
Proof. induction k as [|k IH]; simpl; auto. f_equal. exact IH. Qed.

Lemma push_head_inv q xs x : Inv q xs -> Inv (sq_push_head sz q x) (x :: xs).
Proof.
  intros HI. destruct (Inv_ne _ _ HI) as (h & t & Hs & Hlh).
  destruct HI as (HF & Hn & Hh & Ht & Hidx & Hc & Hl).
  unfold sq_push_head. unfold cells in Hc. rewrite Hs in *. unfold nsh in *. rewrite Hs in *. simpl in Hn, Hidx.
  destruct (Nat.eqb (headPos q) 0) eqn:E.
  - apply Nat.eqb_eq in E. unfold Inv, nsh, cells; simpl.
    repeat split; try lia.
    + constructor; [|exact HF]. rewrite set_nth_length. apply repeat_length.
    + simpl in Hc. rewrite Hc, E. simpl. unfold blank.
      replace sz with (S (sz - 1)) at 1 by lia.
      rewrite <- (app_nil_r (repeat None (S (sz - 1)))).
      rewrite set_nth_repeat_last. rewrite <- app_assoc. simpl. reflexivity.
  - apply Nat.eqb_neq in E. unfold Inv, nsh, cells; simpl.
    repeat split; try lia.
    + inversion HF; subst. constructor; auto. now rewrite set_nth_length.
    + simpl in Hc. rewrite <- set_nth_app_l by lia. rewrite Hc.
      replace (headPos q) with (S (headPos q - 1)) at 1 by lia.
      rewrite set_nth_repeat_last. reflexivity.
Qed.

(* head_item *)
Lemma nth_repeat_app_hit {A} (a d : A) n r : nth n (repeat a n ++ r) d = nth 0 r d.
Proof. induction n; simpl; auto. Qed.

Lemma head_item_spec q xs : Inv q xs -> sq_head_item q = hd_error xs.
Proof.
  intros HI. destruct (Inv_ne _ _ HI) as (h & t & Hs & Hlh).
  destruct HI as (HF & Hn & Hh & Ht & Hidx & Hc & Hl).
  unfold sq_head_item. rewrite Hs. unfold cells in Hc. rewrite Hs in Hc. simpl in Hc.
  assert (E : nth (headPos q) h None = nth (headPos q) (h ++ concat t) None) by (rewrite app_nth1; auto; lia).
  rewrite E, Hc, nth_repeat_app_hit. destruct xs as [|x xs]; simpl; auto.
  destruct (sz - tailPos q); reflexivity.
Qed.

(* pop *)
Lemma pop_inv q xs : Inv q xs ->
  fst (sq_pop sz q) = hd_error xs /\ Inv (snd (sq_pop sz q)) (tl xs).
Proof.
  intros HI. pose proof (head_item_spec _ _ HI) as Hhd.
  destruct (Inv_ne _ _ HI) as (h & t & Hs & Hlh).
  unfold sq_pop. rewrite Hhd. destruct xs as [|x xs]; [cbn; split; auto|].
  cbn [hd_error tl].
  destruct HI as (HF & Hn & Hh & Ht & Hidx & Hc & Hl).
  unfold cells in Hc. unfold nsh in *. rewrite Hs in *. cbn [length concat upd_first tl] in *.
  assert (Hc' : set_nth h (headPos q) None ++ concat t
               = repeat None (S (headPos q)) ++ map Some xs ++ repeat None (sz - tailPos q)).
  { rewrite <- set_nth_app_l by lia. rewrite Hc.
    rewrite set_nth_app_r by (rewrite repeat_length; lia). rewrite repeat_length, Nat.sub_diag. cbn [map app set_nth].
    change (repeat None (headPos q) ++ None :: map Some xs ++ repeat None (sz - tailPos q))
      with (repeat None (headPos q) ++ [None] ++ map Some xs ++ repeat None (sz - tailPos q)).
    rewrite app_assoc, repeat_snoc. reflexivity. }
  inversion HF as [|? ? Hh1 HFt]. clear H H0.
  destruct (Nat.eqb (S (headPos q)) sz) eqn:E; cbn [fst snd]; (split; [reflexivity|]).
  - apply Nat.eqb_eq in E. unfold Inv, nsh, cells; cbn [shards headPos tailPos len].
    assert (Hlt : 1 <= length t) by (destruct t; cbn [length] in *; [nia|lia]).
    assert (Hcut : concat t = map Some xs ++ repeat None (sz - tailPos q)).
    { apply (f_equal (skipn sz)) in Hc'.
      rewrite skipn_app in Hc'. rewrite set_nth_length in Hc'. rewrite Hlh in Hc'.
      rewrite skipn_all2 in Hc' by (rewrite set_nth_length; lia).
      rewrite Nat.sub_diag in Hc'. cbn [app skipn] in Hc'.
      rewrite Hc'. rewrite skipn_app. rewrite repeat_length.
      rewrite skipn_all2 by (rewrite repeat_length; lia).
      replace (sz - S (headPos q)) with 0 by lia. reflexivity. }
    cbn [length] in *.
    repeat split; try lia; auto. nia.
  - apply Nat.eqb_neq in E. unfold Inv, nsh, cells; cbn [shards headPos tailPos len length concat].
    cbn [length] in *.
    repeat split; try lia; auto.
    constructor; auto. now rewrite set_nth_length.
Qed.

(* purge, for the code that resets both positions *)
Lemma purge_inv q : Inv (sq_purge true sz q) [].
Proof. cbn. apply new_inv. Qed.

(* one step *)
Lemma step_refines q xs o : Inv q xs ->
  snd (sq_step true sz q o) = snd (lq_step xs o) /\
  Inv (fst (sq_step true sz q o)) (fst (lq_step xs o)).
Proof.
  intros HI. destruct o as [x|x| | | |]; simpl.
  - split; auto. now apply push_inv.
  - split; auto. now apply push_head_inv.
  - destruct (pop_inv _ _ HI) as [Hf Hs]. destruct (sq_pop sz q) as [r q']. simpl in *. subst. auto.
  - rewrite (head_item_spec _ _ HI). auto.
  - pose proof HI as (_ & _ & _ & _ & _ & _ & Hl). rewrite Hl. split; auto.
  - split; auto. apply new_inv.
Qed.

Lemma run_refines ops : forall q xs, Inv q xs ->
  snd (sq_run true sz q ops) = snd (lq_run xs ops) /\
  Inv (fst (sq_run true sz q ops)) (fst (lq_run xs ops)).
Proof.
  induction ops as [|o ops IH]; intros q xs HI; simpl; [auto|].
  destruct (step_refines _ _ o HI) as [Ho Hi'].
  destruct (sq_step true sz q o) as [q1 r]. destruct (lq_step xs o) as [l1 r']. simpl in *.
  destruct (IH _ _ Hi') as [Ho2 Hi2].
  destruct (sq_run true sz q1 ops) as [q2 rs]. destruct (lq_run l1 ops) as [l2 rs']. simpl in *.
  subst. auto.
Qed.

(* draining the ring by pops yields exactly the abstract list *)
Lemma drain_spec : forall xs q fuel, Inv q xs -> length xs <= fuel -> sq_drain fuel sz q = xs.
Proof.
  induction xs as [|x xs IH]; intros q fuel HI Hf.
  - destruct fuel; simpl; auto. destruct (pop_inv _ _ HI) as [Hp _]. destruct (sq_pop sz q) as [[y|] q']; simpl in *; congruence.
  - destruct fuel as [|fuel]; simpl in *; [lia|].
    destruct (pop_inv _ _ HI) as [Hp Hi']. destruct (sq_pop sz q) as [r q']; simpl in *. subst r.
    f_equal. apply IH; auto. lia.
Qed.

End SQ.

Theorem ring_refines_list : forall sz ops, 0 < sz ->
  snd (sq_run true sz (sq_new sz) ops) = snd (lq_run [] ops) /\
  (let q := fst (sq_run true sz (sq_new sz) ops) in
   let l := fst (lq_run [] ops) in
   len q = length l /\ sq_drain (length l) sz q = l).
Proof.
  intros sz ops Hs.
  destruct (run_refines sz Hs ops _ _ (new_inv sz Hs)) as [Ho Hi]. split; auto.
  cbv zeta. split.
  - destruct Hi as (_ & _ & _ & _ & _ & _ & Hl). exact Hl.
  - apply (drain_spec sz Hs); auto.
Qed.

(* The code as it stood before the repair of F01 (DirtyPurge left headPos and
   tailPos untouched) does NOT refine the list: a concrete witness. *)
Theorem ring_without_pos_reset_refuted : exists sz ops, 0 < sz /\
  snd (sq_run false sz (sq_new sz) ops) <> snd (lq_run [] ops).
Proof.
  exists 4, [OPush 1%N; OPush 2%N; OPop; OPurge; OPush 3%N; OPop]. split; [lia|].
  vm_compute. congruence.
Qed.
