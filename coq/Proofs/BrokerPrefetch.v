(* C06: prefetch windows.  What a delivery charges, what a settlement frees, and that no-ack consumers are unlimited. *)
From Coq Require Import List String NArith ZArith Bool Lia.
From RecordUpdate Require Import RecordUpdate.
Import ListNotations.
From GMQ Require Import Broker.Model Proofs.BrokerFrames Proofs.BrokerTags Proofs.BrokerChanInv.
Open Scope N_scope.

(* ---- the window arithmetic (qos/qos.go as modelled in Broker/Model.v) ---- *)
Definition no_wrap (w : qosw) (size : N) : Prop := cc w + 1 < two16 /\ cs w + size < two32.
Definition admits (w : qosw) (size : N) : Prop :=
  (pc w = 0 \/ cc w + 1 <= pc w) /\ (ps w = 0 \/ cs w + size <= ps w).

Definition admitsb (w : qosw) (size : N) : bool :=
  ((pc w =? 0) || (cc w + 1 <=? pc w)) && ((ps w =? 0) || (cs w + size <=? ps w)).

Lemma admitsb_spec w size : admitsb w size = true <-> admits w size.
Proof.
  unfold admitsb, admits. rewrite andb_true_iff, !orb_true_iff, !N.eqb_eq, !N.leb_le. tauto.
Qed.

Lemma qos_inc_eq w size : no_wrap w size ->
  qos_inc w size = if admitsb w size then Some (w <| cc := cc w + 1 |> <| cs := cs w + size |>) else None.
Proof.
  intros [Hc Hs]. unfold qos_inc, admitsb. rewrite (N.mod_small _ _ Hc), (N.mod_small _ _ Hs). reflexivity.
Qed.

Lemma qos_inc_spec w size : no_wrap w size ->
  (admits w size -> qos_inc w size = Some (w <| cc := cc w + 1 |> <| cs := cs w + size |>)) /\
  (~ admits w size -> qos_inc w size = None).
Proof.
  intros Hn. rewrite (qos_inc_eq w size Hn). split; intros H.
  - apply admitsb_spec in H. rewrite H. reflexivity.
  - destruct (admitsb w size) eqn:E; auto. apply admitsb_spec in E. contradiction.
Qed.

(* a charge admitted under a limit stays within it *)
Lemma qos_inc_within w size w' : no_wrap w size -> qos_inc w size = Some w' ->
  pc w' = pc w /\ ps w' = ps w /\ cc w' = cc w + 1 /\ cs w' = cs w + size /\
  (pc w <> 0 -> cc w' <= pc w) /\ (ps w <> 0 -> cs w' <= ps w).
Proof.
  intros Hn H. rewrite (qos_inc_eq w size Hn) in H. destruct (admitsb w size) eqn:E; [|discriminate].
  apply admitsb_spec in E. inversion H; subst. cbn. destruct E as [[?|?] [?|?]]; repeat split; auto; try lia; try congruence.
Qed.

Lemma qos_inc_unlimited w size : pc w = 0 -> ps w = 0 -> qos_inc w size <> None.
Proof. intros Hp Hs. unfold qos_inc. rewrite Hp, Hs. cbn. congruence. Qed.

(* settling frees exactly the share that was charged *)
Lemma qos_dec_inc w size w' : no_wrap w size -> qos_inc w size = Some w' -> qos_dec w' size = w.
Proof.
  intros Hn H. rewrite (qos_inc_eq w size Hn) in H. destruct (admitsb w size); [|discriminate]. inversion H; subst. clear H.
  unfold qos_dec. cbn.
  assert (E1 : (cc w + 1 <? 1) = false) by (apply N.ltb_ge; lia).
  assert (E2 : (cs w + size <? size) = false) by (apply N.ltb_ge; lia).
  rewrite E1, E2. destruct w as [p1 p2 c1 c2]. cbv [set pc ps cc cs]. cbn. f_equal; lia.
Qed.

(* ---- the reservation loop of PopQos: all windows or none ---- *)
Lemma reserve_success ws : forall size ws' ws'',
  reserve true ws size = (Some ws', ws'') ->
  ws'' = ws' /\ Forall2 (fun w w' => qos_inc w size = Some w') ws ws'.
Proof.
  induction ws as [|w t IH]; intros size ws' ws'' H; simpl in H.
  - inversion H; subst. split; auto.
  - destruct (qos_inc w size) as [w1|] eqn:Ei; [|inversion H].
    destruct (reserve true t size) as [r t'] eqn:Er. destruct r as [l|]; inversion H; subst.
    destruct (IH size l t' Er) as [E F]. subst. split; auto.
Qed.

Lemma reserve_refusal ws : forall size ws'',
  Forall (fun w => no_wrap w size) ws ->
  reserve true ws size = (None, ws'') -> ws'' = ws.
Proof.
  induction ws as [|w t IH]; intros size ws'' Hn H; simpl in H; [inversion H|].
  inversion Hn as [|? ? Hw Ht]; subst.
  destruct (qos_inc w size) as [w1|] eqn:Ei; [|inversion H; reflexivity].
  destruct (reserve true t size) as [r t'] eqn:Er. destruct r as [l|]; inversion H; subst.
  rewrite (IH size t' Ht Er). rewrite (qos_dec_inc w size w1 Hw Ei). reflexivity.
Qed.

(* ---- channel windows through the broker primitives ---- *)
Definition Wq (s : state) (c h : N) : option qosw := match get_chan s c h with Some ch => Some (ch_qos ch) | None => None end.

Lemma Wq_same_conns s s' c h : conns s' = conns s -> Wq s' c h = Wq s c h.
Proof. unfold Wq. intros E. rewrite (get_chan_same_conns _ _ _ _ E). reflexivity. Qed.

Lemma Wq_set_chan s c0 h0 ch0 ch1 c h :
  get_chan s c0 h0 = Some ch0 ->
  Wq (set_chan s c0 h0 ch1) c h = if (c =? c0) && (h =? h0) then Some (ch_qos ch1) else Wq s c h.
Proof.
  intros E. unfold Wq. rewrite get_chan_set_chan. pose proof (get_chan_conn _ _ _ _ E). destruct (get_conn s c0); [|congruence].
  destruct ((c =? c0) && (h =? h0)); reflexivity.
Qed.

Lemma Wq_upd_chan s c0 h0 f c h :
  Wq (upd_chan s c0 h0 f) c h =
  if (c =? c0) && (h =? h0) then match get_chan s c0 h0 with Some ch => Some (ch_qos (f ch)) | None => None end else Wq s c h.
Proof.
  unfold upd_chan. destruct (get_chan s c0 h0) as [ch0|] eqn:E.
  - erewrite Wq_set_chan; eauto.
  - destruct ((c =? c0) && (h =? h0)) eqn:Eb; auto. apply andb_prop in Eb. destruct Eb as [E1 E2]. apply N.eqb_eq in E1, E2. subst.
    unfold Wq. rewrite E. reflexivity.
Qed.

Lemma Wq_upd_chan_keep s c0 h0 f c h : (forall ch, ch_qos (f ch) = ch_qos ch) -> Wq (upd_chan s c0 h0 f) c h = Wq s c h.
Proof.
  intros Hf. rewrite Wq_upd_chan. destruct ((c =? c0) && (h =? h0)) eqn:Eb; auto.
  apply andb_prop in Eb. destruct Eb as [E1 E2]. apply N.eqb_eq in E1, E2. subst. unfold Wq. destruct (get_chan s c0 h0); [rewrite Hf|]; reflexivity.
Qed.

Lemma Wq_set_conn_qos s c0 cn f c h : get_conn s c0 = Some cn ->
  Wq (s <| conns := aset N.eqb c0 (cn <| cn_qos ::= f |>) (conns s) |>) c h = Wq s c h.
Proof. intros E. unfold Wq. rewrite (get_chan_set_conn_qos _ _ _ _ _ _ E). reflexivity. Qed.

Lemma Wq_wake s c0 h0 tag c h : Wq (fst (wake_consumer s c0 h0 tag)) c h = Wq s c h.
Proof.
  unfold wake_consumer. destruct (get_chan s c0 h0) as [ch|] eqn:E; [|reflexivity].
  destruct (find_consumer ch tag) as [cm|]; [|reflexivity]. destruct (consume_msg cm). cbn [fst].
  erewrite Wq_set_chan; eauto. destruct ((c =? c0) && (h =? h0)) eqn:Eb; auto.
  apply andb_prop in Eb. destruct Eb as [E1 E2]. apply N.eqb_eq in E1, E2. subst. unfold Wq. rewrite E. reflexivity.
Qed.

Lemma Wq_wake_consumers cfg s c0 h0 c h : Wq (wake_consumers cfg s c0 h0) c h = Wq s c h.
Proof.
  unfold wake_consumers, wake_all_of_chan. destruct (cfg_rabbit cfg); [apply Wq_upd_chan_keep; reflexivity|].
  destruct (get_conn _ c0) as [cn|]; [|apply Wq_upd_chan_keep; reflexivity].
  match goal with |- Wq (fold_left ?F ?l ?st) c h = _ => assert (H : forall l0 st0, Wq (fold_left F l0 st0) c h = Wq st0 c h) end.
  { induction l0 as [|x t IH]; intros st0; simpl; auto. rewrite IH. destruct (fst x =? h0); auto. apply Wq_upd_chan_keep; reflexivity. }
  rewrite H. apply Wq_upd_chan_keep; reflexivity.
Qed.

(* settling one delivery frees exactly its own share of its channel's window, and touches no other channel's window *)
Theorem settle_frees_own_share cfg s c h u c' h' :
  Wq (dec_qos_and_consume_next cfg s c h u) c' h' =
  if (c' =? c) && (h' =? h)
  then match Wq s c h with Some w => Some (qos_dec w (msg_size s (u_msg u) mod two32)) | None => None end
  else Wq s c' h'.
Proof.
  unfold dec_qos_and_consume_next. destruct (get_chan s c h) as [ch|] eqn:Ech.
  - assert (W0 : Wq s c h = Some (ch_qos ch)) by (unfold Wq; rewrite Ech; reflexivity).
    rewrite Wq_wake_consumers.
    destruct (find_consumer ch (u_ctag u)).
    + destruct (cfg_rabbit cfg).
      * rewrite Wq_upd_chan_keep by reflexivity. rewrite Wq_upd_chan. rewrite Ech, W0.
        destruct ((c' =? c) && (h' =? h)); reflexivity.
      * destruct (get_conn _ c) as [cn|] eqn:Ec.
        -- rewrite (Wq_set_conn_qos _ _ _ _ _ _ Ec). rewrite Wq_upd_chan. rewrite Ech, W0. destruct ((c' =? c) && (h' =? h)); reflexivity.
        -- rewrite Wq_upd_chan. rewrite Ech, W0. destruct ((c' =? c) && (h' =? h)); reflexivity.
    + destruct (get_conn _ c) as [cn|] eqn:Ec.
      * rewrite (Wq_set_conn_qos _ _ _ _ _ _ Ec). rewrite Wq_upd_chan. rewrite Ech, W0. destruct ((c' =? c) && (h' =? h)); reflexivity.
      * rewrite Wq_upd_chan. rewrite Ech, W0. destruct ((c' =? c) && (h' =? h)); reflexivity.
  - destruct ((c' =? c) && (h' =? h)) eqn:Eb; auto. apply andb_prop in Eb. destruct Eb as [E1 E2]. apply N.eqb_eq in E1, E2. subst.
    unfold Wq. rewrite Ech. reflexivity.
Qed.

Lemma Wq_store_windows cfg s c h tag w1 w2 c' h' ch :
  get_chan s c h = Some ch ->
  Wq (store_windows cfg s c h tag [w1; w2]) c' h' = if (c' =? c) && (h' =? h) then Some w1 else Wq s c' h'.
Proof.
  intros Ech. unfold store_windows.
  assert (E1 : Wq (upd_chan s c h (fun ch => ch <| ch_qos := w1 |>)) c' h' = if (c' =? c) && (h' =? h) then Some w1 else Wq s c' h').
  { rewrite Wq_upd_chan. rewrite Ech. reflexivity. }
  destruct (cfg_rabbit cfg).
  - rewrite Wq_upd_chan_keep by reflexivity. exact E1.
  - destruct (get_conn _ c) eqn:Ec; [rewrite (Wq_set_conn_qos _ _ _ _ _ _ Ec)|]; exact E1.
Qed.

Ltac wq_step :=
  match goal with
  | |- context [Wq (@set ?a ?b ?cc ?dd ?ee ?st) ?c ?h] => rewrite (Wq_same_conns st (@set a b cc dd ee st) c h eq_refl)
  | |- context [Wq (if ?b then _ else _) _ _] => destruct b
  | |- context [Wq (upd_queue ?st ?q ?f) ?c ?h] => rewrite (Wq_same_conns st (upd_queue st q f) c h (conns_upd_queue st q f))
  | |- context [Wq (upd_chan ?st ?c0 ?h0 ?f) ?c ?h] => rewrite (Wq_upd_chan_keep st c0 h0 f c h) by reflexivity
  | |- context [Wq (queue_ackmsg ?st ?q ?u) ?c ?h] => rewrite (Wq_same_conns st (queue_ackmsg st q u) c h (proj1 (proj2 conns_queue_ops) st q u))
  end.

(* no-ack consumers are not limited: their turn consults and changes no window of any channel *)
Theorem noack_turn_ignores_windows cfg fx s c h tag ch cm c' h' :
  get_chan s c h = Some ch -> find_consumer ch tag = Some cm -> c_noack cm = true ->
  Wq (fst (consumer_turn cfg fx s c h tag)) c' h' = Wq s c' h'.
Proof.
  intros Ech Efc Ena. unfold consumer_turn. rewrite Ech, Efc.
  destruct (negb (c_token cm)); auto.
  set (s0 := set_chan s c h _).
  assert (W0 : forall c1 h1, Wq s0 c1 h1 = Wq s c1 h1).
  { intros. subst s0. erewrite Wq_set_chan; eauto. destruct ((c1 =? c) && (h1 =? h)) eqn:Eb; auto.
    apply andb_prop in Eb. destruct Eb as [E1 E2]. apply N.eqb_eq in E1, E2. subst. unfold Wq. rewrite Ech. reflexivity. }
  clearbody s0.
  destruct (c_status cm); auto; try apply W0.
  all: destruct (get_queue s0 (c_queue cm)) as [qu|]; [|apply W0].
  all: destruct (negb (q_active qu)); [apply W0|].
  all: destruct (q_ready qu) as [|u rest]; [apply W0|].
  all: rewrite Ena; cbn [fst].
  all: match goal with |- context [wake_consumer ?st ?c0 ?h0 ?tag0] => destruct (wake_consumer st c0 h0 tag0) as [s9 b9] eqn:Ew;
         apply fst_pair in Ew; cbn [fst]; subst s9; rewrite Wq_wake end.
  all: repeat wq_step; apply W0.
Qed.

Lemma Forall2_two {A B} (R : A -> B -> Prop) a b l : Forall2 R [a; b] l -> exists a' b', l = [a'; b'] /\ R a a' /\ R b b'.
Proof.
  intros H. inversion H as [|x y t t' Hxy Ht]; subst. inversion Ht as [|x2 y2 t2 t2' Hxy2 Ht2]; subst. inversion Ht2; subst. eauto.
Qed.

(* an ack-mode delivery is made only if EVERY window of the consumer admits it, and then charges each of them with
   exactly (1, body size); a refused attempt delivers nothing *)
Theorem ack_turn_charges_channel_window cfg fx s c h tag ch cm d r ex k :
  cfg_rollback cfg = true ->
  get_chan s c h = Some ch -> find_consumer ch tag = Some cm -> c_noack cm = false ->
  In (c, h, SDeliver tag d r ex k) (snd (consumer_turn cfg fx s c h tag)) ->
  exists size w', qos_inc (ch_qos ch) size = Some w' /\ Wq (fst (consumer_turn cfg fx s c h tag)) c h = Some w'.
Proof.
  intros Hrb Ech Efc Ena. unfold consumer_turn. rewrite Ech, Efc.
  destruct (negb (c_token cm)); [intros []|].
  set (s0 := set_chan s c h _).
  assert (G0 : get_chan s0 c h = Some (upd_consumer ch tag (fun cm => cm <| c_token := false |>))).
  { subst s0. rewrite get_chan_set_chan. pose proof (get_chan_conn _ _ _ _ Ech). destruct (get_conn s c); [|congruence]. rewrite !N.eqb_refl. reflexivity. }
  clearbody s0.
  destruct (c_status cm); try (intros []).
  all: destruct (get_queue s0 (c_queue cm)) as [qu|]; [|intros []].
  all: destruct (negb (q_active qu)); [intros []|].
  all: destruct (q_ready qu) as [|u rest]; [intros []|].
  all: rewrite Ena, Hrb.
  all: unfold window_list; rewrite G0; cbn [ch_qos upd_consumer].
  all: destruct (get_conn s0 c) as [cn|] eqn:Ecn; [|pose proof (get_chan_conn _ _ _ _ G0); congruence].
  all: destruct (cfg_rabbit cfg) eqn:Erab.
  all: match goal with |- context [reserve true ?ws ?sz] => destruct (reserve true ws sz) as [okr ws'] eqn:Er end.
  all: destruct okr as [l|]; [|intros []].
  all: apply reserve_success in Er; destruct Er as [-> F2].
  all: apply Forall2_two in F2; destruct F2 as (w0' & w1' & -> & Hinc & Hinc1).
  all: intros _; exists (msg_size s0 u mod two32), w0'; split; [exact Hinc|].
  all: match goal with |- context [wake_consumer ?st ?c0 ?h0 ?tag0] => destruct (wake_consumer st c0 h0 tag0) as [s9 b9] eqn:Ew;
         apply fst_pair in Ew; cbn [fst]; subst s9; rewrite Wq_wake end.
  all: repeat wq_step.
  all: erewrite Wq_store_windows by exact G0; rewrite !N.eqb_refl; reflexivity.
Qed.

(* basic.cancel detaches the consumer's unsettled deliveries from its tag: afterwards no unsettled delivery of the
   channel names the tag, so a consumer started later under the same tag never has its own window released by them *)
Lemma orphan_not_tag tag u : tag <> ""%string -> u_ctag (orphan tag u) <> tag.
Proof.
  intros Hne. unfold orphan. destruct (seqb (u_ctag u) tag) eqn:E; cbn.
  - intros X. apply Hne. symmetry. exact X.
  - intros X. apply (proj2 (seqb_spec _ _)) in X. congruence.
Qed.

Theorem cancel_detaches cfg fx s c h tag nowait s' evs :
  tag <> ""%string ->
  handle_method cfg fx s c h (MCancel tag nowait) = (s', evs, None) ->
  forall u, In u (U s' c h) -> u_ctag u <> tag.
Proof.
  intros Hne Hm u Hu. unfold handle_method in Hm. destruct (get_chan s c h) as [ch|] eqn:Ech.
  - destruct (find_consumer ch tag); unfold ok, refuse in Hm; [|discriminate].
    inversion Hm; subst s'. clear Hm. rewrite U_upd_chan, !N.eqb_refl in Hu. cbn [andb] in Hu.
    match type of Hu with In u (match ?g with _ => _ end) => destruct g as [ch1|] end; [|destruct Hu].
    cbn in Hu. apply in_map_iff in Hu. destruct Hu as (u0 & <- & _). apply orphan_not_tag. exact Hne.
  - inversion Hm; subst s'. unfold U in Hu. rewrite Ech in Hu. destruct Hu.
Qed.
