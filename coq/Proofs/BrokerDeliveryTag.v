(* C15: the tag carried by a delivery is the channel's counter plus one, and the counter then holds it. *)
From Coq Require Import List String NArith ZArith Bool Lia.
From RecordUpdate Require Import RecordUpdate.
Import ListNotations.
From GMQ Require Import Broker.Model Proofs.BrokerFrames Proofs.BrokerTags Proofs.BrokerChanInv.
Open Scope N_scope.

Definition Dt (s : state) (c h : N) : N := match get_chan s c h with Some ch => ch_dtag ch | None => 0 end.

Lemma Dt_same_conns s s' c h : conns s' = conns s -> Dt s' c h = Dt s c h.
Proof. unfold Dt. intros E. rewrite (get_chan_same_conns _ _ _ _ E). reflexivity. Qed.

Lemma Dt_set_chan s c0 h0 ch0 ch1 c h :
  get_chan s c0 h0 = Some ch0 -> ch_dtag ch1 = ch_dtag ch0 -> Dt (set_chan s c0 h0 ch1) c h = Dt s c h.
Proof.
  intros E Hd. unfold Dt. rewrite get_chan_set_chan. pose proof (get_chan_conn _ _ _ _ E). destruct (get_conn s c0); [|congruence].
  destruct ((c =? c0) && (h =? h0)) eqn:Eb; [|reflexivity].
  apply andb_prop in Eb. destruct Eb as [E1 E2]. apply N.eqb_eq in E1, E2. subst. rewrite E. exact Hd.
Qed.

Lemma Dt_upd_chan_keep s c0 h0 f c h : (forall ch, ch_dtag (f ch) = ch_dtag ch) -> Dt (upd_chan s c0 h0 f) c h = Dt s c h.
Proof.
  intros Hf. unfold upd_chan. destruct (get_chan s c0 h0) as [ch0|] eqn:E; [|reflexivity].
  eapply Dt_set_chan; eauto.
Qed.

Lemma Dt_upd_chan_set s c h d : get_chan s c h <> None -> Dt (upd_chan s c h (fun ch => ch <| ch_dtag := d |>)) c h = d.
Proof.
  intros Hc. unfold upd_chan. destruct (get_chan s c h) as [ch|] eqn:E; [|congruence].
  unfold Dt. rewrite get_chan_set_chan. pose proof (get_chan_conn _ _ _ _ E). destruct (get_conn s c); [|congruence].
  rewrite !N.eqb_refl. reflexivity.
Qed.

Lemma Dt_set_conn_qos s c0 cn f c h : get_conn s c0 = Some cn ->
  Dt (s <| conns := aset N.eqb c0 (cn <| cn_qos ::= f |>) (conns s) |>) c h = Dt s c h.
Proof. intros E. unfold Dt. rewrite (get_chan_set_conn_qos _ _ _ _ _ _ E). reflexivity. Qed.

Lemma Dt_store_windows cfg s c0 h0 tag ws c h : Dt (store_windows cfg s c0 h0 tag ws) c h = Dt s c h.
Proof.
  unfold store_windows. destruct ws as [|w1 [|w2 [|]]]; auto. destruct (cfg_rabbit cfg).
  - rewrite !Dt_upd_chan_keep; auto.
  - destruct (get_conn _ c0) eqn:Ec; [rewrite (Dt_set_conn_qos _ _ _ _ _ _ Ec)|]; apply Dt_upd_chan_keep; auto.
Qed.

Lemma Dt_wake s c0 h0 tag c h : Dt (fst (wake_consumer s c0 h0 tag)) c h = Dt s c h.
Proof.
  unfold wake_consumer. destruct (get_chan s c0 h0) as [ch|] eqn:E; [|reflexivity].
  destruct (find_consumer ch tag) as [cm|]; [|reflexivity]. destruct (consume_msg cm). cbn [fst].
  eapply Dt_set_chan; eauto.
Qed.

Lemma get_chan_keep_some s c0 h0 f c h : get_chan s c h <> None -> get_chan (upd_chan s c0 h0 f) c h <> None.
Proof.
  intros Hc. unfold upd_chan. destruct (get_chan s c0 h0) as [ch0|] eqn:E; auto.
  rewrite get_chan_set_chan. destruct (get_conn s c0); auto. destruct ((c =? c0) && (h =? h0)); congruence.
Qed.

Ltac dt_step :=
  match goal with
  | |- context [Dt (@set ?a ?b ?cc ?dd ?ee ?st) ?c ?h] => rewrite (Dt_same_conns st (@set a b cc dd ee st) c h eq_refl)
  | |- context [Dt (if ?b then _ else _) _ _] => destruct b
  | |- context [Dt (upd_queue ?st ?q ?f) ?c ?h] => rewrite (Dt_same_conns st (upd_queue st q f) c h (conns_upd_queue st q f))
  | |- context [Dt (upd_chan ?st ?c0 ?h0 ?f) ?c ?h] => rewrite (Dt_upd_chan_keep st c0 h0 f c h) by reflexivity
  | |- context [Dt (queue_ackmsg ?st ?q ?u) ?c ?h] => rewrite (Dt_same_conns st (queue_ackmsg st q u) c h (proj1 (proj2 conns_queue_ops) st q u))
  end.

(* a consumer turn emits at most one delivery; its tag is the counter plus one and the counter then holds it *)
Theorem consumer_turn_tag cfg fx s c h tag s' evs ct d r ex k c1 h1 :
  consumer_turn cfg fx s c h tag = (s', evs) ->
  In (c1, h1, SDeliver ct d r ex k) evs ->
  c1 = c /\ h1 = h /\ ct = tag /\ d = Dt s c h + 1 /\ Dt s' c h = d.
Proof.
  unfold consumer_turn. intros H Hin.
  destruct (get_chan s c h) as [ch|] eqn:Ech; [|inversion H; subst; contradiction].
  destruct (find_consumer ch tag) as [cm|] eqn:Efc; [|inversion H; subst; contradiction].
  destruct (negb (c_token cm)); [inversion H; subst; contradiction|].
  set (s0 := set_chan s c h _) in H.
  assert (D0 : Dt s0 c h = Dt s c h) by (subst s0; eapply Dt_set_chan; eauto).
  assert (N0 : get_chan s0 c h <> None).
  { subst s0. rewrite get_chan_set_chan. pose proof (get_chan_conn _ _ _ _ Ech). destruct (get_conn s c); [|congruence].
    rewrite !N.eqb_refl. cbn. congruence. }
  clearbody s0.
  destruct (c_status cm); try (inversion H; subst; contradiction).
  all: destruct (get_queue s0 (c_queue cm)) as [qu|]; [|inversion H; subst; contradiction].
  all: destruct (negb (q_active qu)); [inversion H; subst; contradiction|].
  all: destruct (q_ready qu) as [|u rest]; [inversion H; subst; contradiction|].
  all: match type of H with context [if c_noack ?cm0 then (Some [], []) else ?r] => destruct (if c_noack cm0 then (Some [], []) else r) as [okr ws] end.
  all: set (s1 := if c_noack cm then s0 else store_windows cfg s0 c h tag ws) in H.
  all: assert (D1 : Dt s1 c h = Dt s c h) by (subst s1; destruct (c_noack cm); auto; rewrite Dt_store_windows; auto).
  all: assert (N1 : get_chan s1 c h <> None).
  all: try (subst s1; destruct (c_noack cm); auto; unfold store_windows; destruct ws as [|w1 [|w2 [|]]]; auto;
            destruct (cfg_rabbit cfg); [repeat apply get_chan_keep_some; auto|];
            destruct (get_conn _ c) eqn:Ec; [rewrite (get_chan_set_conn_qos _ _ _ _ _ _ Ec)|]; apply get_chan_keep_some; auto).
  all: clearbody s1.
  all: destruct okr; [|inversion H; subst; contradiction].
  all: set (s3 := if c_noack cm then queue_ackmsg (upd_queue s1 (c_queue cm) _) (c_queue cm) u else upd_queue s1 (c_queue cm) _) in H.
  all: assert (E3 : conns s3 = conns s1) by (subst s3; destruct (c_noack cm); [rewrite (proj1 (proj2 conns_queue_ops))|]; apply conns_upd_queue).
  all: assert (D3 : Dt s3 c h = Dt s c h) by (rewrite (Dt_same_conns _ _ _ _ E3); auto).
  all: assert (N3 : get_chan s3 c h <> None) by (rewrite (get_chan_same_conns _ _ _ _ E3); auto).
  all: clearbody s3.
  all: assert (Dg : match get_chan s3 c h with Some ch => ch_dtag ch + 1 | None => 0 end = Dt s c h + 1)
         by (rewrite <- D3; unfold Dt; destruct (get_chan s3 c h); [reflexivity|congruence]).
  all: rewrite Dg in H.
  all: set (s4 := upd_chan s3 c h (fun ch => ch <| ch_dtag := Dt s c h + 1 |>)) in H.
  all: assert (D4 : Dt s4 c h = Dt s c h + 1) by (subst s4; apply Dt_upd_chan_set; auto).
  all: assert (N4 : get_chan s4 c h <> None) by (subst s4; apply get_chan_keep_some; auto).
  all: clearbody s4.
  all: match type of H with context [wake_consumer ?st ?cc ?hh ?tt] =>
         assert (D5 : Dt st cc hh = Dt s cc hh + 1);
         [ repeat dt_step; exact D4
         | destruct (wake_consumer st cc hh tt) as [s9 b9] eqn:Ew; apply fst_pair in Ew; subst s9 ] end.
  all: inversion H; subst s' evs; clear H.
  all: rewrite Dt_wake, D5.
  all: match type of Hin with In _ (match ?m with Some _ => _ | None => [] end) => destruct m as [mm|]; [|contradiction] end.
  all: cbn [out1 app] in Hin; destruct Hin as [Hin|Hin]; [inversion Hin; subst; auto|].
  all: exfalso; unfold content_frames in Hin;
       match type of Hin with In _ (match ?m with Some _ => _ | None => [] end) => destruct m; [|contradiction] end;
       destruct Hin as [Hin|Hin]; [inversion Hin|]; apply in_map_iff in Hin; destruct Hin as (x & Hx & _); inversion Hx.
Qed.

Theorem get_ok_tag cfg fx s c h q noack s' evs e d r ex k mc c1 h1 :
  handle_method cfg fx s c h (MGet q noack) = (s', evs, e) ->
  In (c1, h1, SGetOk d r ex k mc) evs ->
  c1 = c /\ h1 = h /\ d = Dt s c h + 1 /\ Dt s' c h = d.
Proof.
  unfold handle_method. intros H Hin.
  destruct (get_chan s c h) as [ch|] eqn:Ech; [|inversion H; subst; contradiction].
  unfold ok, refuse in H.
  destruct (queue_found s q) as [qu|]; [|inversion H; subst; contradiction].
  destruct (fx_excl_owner fx && locked qu c); [inversion H; subst; contradiction|].
  destruct (q_ready qu) as [|u rest]; [inversion H; subst; destruct Hin as [Hin|[]]; inversion Hin|].
  match type of H with context [if noack then (Some [], []) else ?r] => destruct (if noack then (Some [], []) else r) as [okr ws] end.
  set (s1 := match ws with [w1; w2] => _ | _ => s end) in H.
  assert (D1 : Dt s1 c h = Dt s c h).
  { subst s1. destruct ws as [|w1 [|w2 [|]]]; auto.
    destruct (get_conn _ c) eqn:Ec; [rewrite (Dt_set_conn_qos _ _ _ _ _ _ Ec)|]; eapply Dt_set_chan; eauto. }
  assert (N1 : get_chan s1 c h <> None).
  { subst s1. destruct ws as [|w1 [|w2 [|]]]; try congruence.
    assert (Hn : get_chan (set_chan s c h (ch <| ch_qos := w1 |>)) c h <> None).
    { rewrite get_chan_set_chan. pose proof (get_chan_conn _ _ _ _ Ech). destruct (get_conn s c); [|congruence]. rewrite !N.eqb_refl. cbn. congruence. }
    destruct (get_conn _ c) eqn:Ec; [rewrite (get_chan_set_conn_qos _ _ _ _ _ _ Ec)|]; exact Hn. }
  clearbody s1.
  destruct okr; [|inversion H; subst; destruct Hin as [Hin|[]]; inversion Hin].
  set (s3 := upd_queue s1 q _) in H.
  assert (E3 : conns s3 = conns s1) by (subst s3; apply conns_upd_queue).
  assert (D3 : Dt s3 c h = Dt s c h) by (rewrite (Dt_same_conns _ _ _ _ E3); auto).
  assert (N3 : get_chan s3 c h <> None) by (rewrite (get_chan_same_conns _ _ _ _ E3); auto).
  clearbody s3.
  assert (Dg : match get_chan s3 c h with Some ch => ch_dtag ch + 1 | None => 0 end = Dt s c h + 1)
    by (rewrite <- D3; unfold Dt; destruct (get_chan s3 c h); [reflexivity|congruence]).
  rewrite Dg in H.
  set (s4 := upd_chan s3 c h (fun ch => ch <| ch_dtag := Dt s c h + 1 |>)) in H.
  assert (D4 : Dt s4 c h = Dt s c h + 1) by (subst s4; apply Dt_upd_chan_set; auto).
  clearbody s4.
  inversion H; subst s' evs; clear H.
  assert (Hd : c1 = c /\ h1 = h /\ d = Dt s c h + 1).
  { match type of Hin with In _ (match ?m with Some _ => _ | None => _ end) => destruct m as [mm|] end;
      [|cbn [out1] in Hin; destruct Hin as [Hin|[]]; inversion Hin; subst; auto].
    cbn [out1 app] in Hin; destruct Hin as [Hin|Hin]; [inversion Hin; subst; auto|].
    exfalso; unfold content_frames in Hin;
       match type of Hin with In _ (match ?m with Some _ => _ | None => [] end) => destruct m; [|contradiction] end;
       destruct Hin as [Hin|Hin]; [inversion Hin|]; apply in_map_iff in Hin; destruct Hin as (x & Hx & _); inversion Hx. }
  destruct Hd as (-> & -> & ->). repeat split; auto.
  repeat dt_step; exact D4.
Qed.

(* reachable-state versions of the multiple-settle theorems and the unknown-tag refusal *)
Lemma U_nodup_reachable cfg fx ls c h : NoDup (map u_tag (U (fst (run cfg fx (init cfg) ls)) c h)).
Proof.
  unfold U. destruct (get_chan _ c h) as [ch|] eqn:E; [|constructor].
  destruct (tags_invariant_reachable cfg fx ls c h ch E). auto.
Qed.

Theorem ack_multiple_reachable cfg fx ls c h tag s' e :
    let s := fst (run cfg fx (init cfg) ls) in
    handle_ack cfg s c h tag true = (s', e) ->
    e = None /\
    U s' c h = filter (fun u => negb (covered tag u)) (U s c h) /\
    (forall c' h', (c', h') <> (c, h) -> U s' c' h' = U s c' h').
Proof. intros s H. eapply ack_multiple_exact; eauto. apply U_nodup_reachable. Qed.

Theorem reject_multiple_reachable cfg fx ls c h tag requeue cls mth s' e :
    let s := fst (run cfg fx (init cfg) ls) in
    handle_reject cfg s c h tag true requeue cls mth = (s', e) ->
    e = None /\
    U s' c h = filter (fun u => negb (covered tag u)) (U s c h) /\
    (forall c' h', (c', h') <> (c, h) -> U s' c' h' = U s c' h').
Proof. intros s H. eapply reject_multiple_exact; eauto. apply U_nodup_reachable. Qed.

Lemma find_none_tag l tag : (forall u, In u l -> u_tag u <> tag) -> find (fun u => u_tag u =? tag) l = None.
Proof.
  induction l as [|a l IH]; simpl; auto. intros H.
  destruct (u_tag a =? tag) eqn:E; [apply N.eqb_eq in E; exfalso; eapply H; eauto|]. apply IH. intros u Hu. apply H. auto.
Qed.

Theorem unknown_tag_refused cfg s c h tag ch :
    get_chan s c h = Some ch -> (forall u, In u (ch_unacked ch) -> u_tag u <> tag) ->
    handle_ack cfg s c h tag false = (s, Some (ChanErr PreconditionFailed 60 80)) /\
    (forall requeue cls mth, handle_reject cfg s c h tag false requeue cls mth = (s, Some (ChanErr PreconditionFailed cls mth))).
Proof.
  intros Hc Hn. unfold handle_ack, handle_reject. rewrite Hc. rewrite (find_none_tag _ _ Hn). auto.
Qed.
