(* The re-cutting component (Data/Reframe.v) meets the broker model (Broker/Model.v): the body frames of the model's
   content block are the STORED frames of the message; what a receiver with frame-max fmax gets is `reframe fmax` of
   them, and that still carries exactly the announced body-size. *)
From Coq Require Import List NArith Bool Lia.
Import ListNotations.
From GMQ Require Import Broker.Model Proofs.BrokerFrames Proofs.BrokerStream Data.Reframe Proofs.ReframeProofs.
Local Open Scope N_scope.

Lemma fold_left_add_sumN (l : list N) : fold_left N.add l 0 = sumN l.
Proof.
  unfold sumN. apply fold_symmetric.
  - intros x y z. lia.
  - intros y. lia.
Qed.

Lemma recut_block_has_announced_size s u m fmax :
  get_msg s u = Some m -> msg_complete m -> sumN (reframe fmax (m_body m)) = m_hsize m.
Proof.
  intros Hm Hc. destruct (content_frames_sizes s 0 0 u m Hm Hc) as [_ Hs].
  rewrite reframe_sum, Hs, fold_left_add_sumN. reflexivity.
Qed.

Lemma recut_block_within_frame_max s u m fmax :
  get_msg s u = Some m -> 8 < fmax -> Forall (fun n => wire_size n <= fmax) (reframe fmax (m_body m)).
Proof. intros _ H. apply reframe_within_frame_max_gen. exact H. Qed.
