(* C20 over whole histories: the counters the broker reports are the truth in every reachable state.
     q_len = q_mready = number of ready messages (QI, BrokerQueueInv.v);
     q_munacked = number of unsettled deliveries, over all channels, that came from this queue object
                  (u_queue = the queue's name and u_qid = its id: what channel.ackMsg / rejectMsg look up);
     q_mtotal = q_mready + q_munacked;
     srv_unacked = number of unsettled deliveries of all channels (those of deleted queues included: the model, like the
                  code, takes them out of the server figures only when they are settled);
     srv_ready = sum of the ready lengths of the queues in the table; srv_total = srv_ready + srv_unacked;
     queue names are distinct.
   Needs the repairs fx_noack_total_once (F29a), fx_delete_checks_first (F26), and fx_stage / fx_chan_open /
   fx_closeok_releases (without them channel 0 or a closed channel can hold unsettled deliveries, which vanish with the
   connection while the counters keep them). *)
From Coq Require Import List String NArith ZArith Bool Lia ZifyBool ZifyN Permutation.
From RecordUpdate Require Import RecordUpdate.
Import ListNotations.
From GMQ Require Import Broker.Model Proofs.BrokerFrames Proofs.BrokerTags Proofs.BrokerChanInv Proofs.BrokerQueueInv
  Proofs.BrokerHeld Proofs.BrokerRelease Proofs.BrokerRestart Proofs.BrokerLedger Proofs.BrokerLedger2
  Proofs.BrokerConserveView Proofs.BrokerConserveOps Proofs.BrokerConserve Proofs.BrokerRegistry.
Open Scope N_scope.

(* ------------------------------------------------------------------ *)
(* Part A: the invariant and its frame *)
Definition uk (u : unacked) : string * N := (u_queue u, u_qid u).
Definition keqb (k k' : string * N) : bool := seqb (fst k) (fst k') && (snd k =? snd k').
Definition cntk (k : string * N) (l : list (string * N)) : Z := Z.of_nat (List.length (filter (keqb k) l)).
Definition UV (s : state) : list (string * N) := map uk (all_unacked s).
Definition qc (qu : queue) : N * nat * Z * Z * Z := (q_id qu, List.length (q_ready qu), q_mready qu, q_munacked qu, q_mtotal qu).
Definition QC (s : state) : list (string * (N * nat * Z * Z * Z)) := vmap qc (queues s).
Definition srv3 (s : state) : Z * Z * Z := (srv_ready s, srv_unacked s, srv_total s).
Definition rsumv (l : list (string * (N * nat * Z * Z * Z))) : Z :=
  fold_right (fun kq z => (Z.of_nat (snd (fst (fst (fst (snd kq))))) + z)%Z) 0%Z l.

Definition CNV (uv : list (string * N)) (qv : list (string * (N * nat * Z * Z * Z))) (sv : Z * Z * Z) : Prop :=
  (forall qn i n r u t, alookup seqb qn qv = Some (i, n, r, u, t) -> u = cntk (qn, i) uv /\ t = (r + u)%Z) /\
  snd (fst sv) = Z.of_nat (List.length uv) /\
  fst (fst sv) = rsumv qv /\
  snd sv = (fst (fst sv) + snd (fst sv))%Z /\
  NoDup (map fst qv).
(* the keys of the connection table and of every channel table are distinct (read by all_unacked when a connection goes) *)
Definition ck (s : state) : list (N * list N) := vmap (fun cn => map fst (cn_chans cn)) (conns s).
Definition WFk (l : list (N * list N)) : Prop := NoDup (map fst l) /\ forall c ks, In (c, ks) l -> NoDup ks.
Definition CN (s : state) : Prop := CNV (UV s) (QC s) (srv3 s) /\ WFk (ck s).

Lemma CN_frame s s' : UV s' = UV s -> QC s' = QC s -> srv3 s' = srv3 s -> ck s' = ck s -> CN s -> CN s'.
Proof. unfold CN. intros -> -> -> ->. auto. Qed.

(* reading CN back on the records *)
Lemma QC_get s qn : alookup seqb qn (QC s) = option_map qc (get_queue s qn).
Proof. unfold QC, get_queue. apply alookup_vmap. Qed.
Lemma CN_queue s qn qu : CN s -> get_queue s qn = Some qu ->
  q_munacked qu = cntk (qn, q_id qu) (UV s) /\ q_mtotal qu = (q_mready qu + q_munacked qu)%Z.
Proof. intros ((A & _) & _) Hq. apply (A qn (q_id qu) (List.length (q_ready qu))). rewrite QC_get, Hq. reflexivity. Qed.

(* the pieces that do not read the connections *)
Definition NC (s : state) : list (string * queue) * ((Z * Z * Z) * list string) := (queues s, (srv3 s, autodel s)).
Lemma NC_QC s s' : NC s' = NC s -> QC s' = QC s /\ srv3 s' = srv3 s.
Proof. unfold NC, QC. intros E. pose proof (f_equal fst E) as E1. pose proof (f_equal (fun p => fst (snd p)) E) as E2. cbn [fst snd] in E1, E2. rewrite E1. auto. Qed.

Lemma UV_view s s' : view s' = view s -> UV s' = UV s.
Proof. intros E. apply view_inv in E. destruct E as (A & _). unfold UV. rewrite !all_unacked_cv, A. reflexivity. Qed.

Lemma ck_view s s' : view s' = view s -> ck s' = ck s.
Proof.
  intros E. apply view_inv in E. destruct E as (A & _).
  assert (X : forall st, ck st = vmap (fun n : np => map fst (snd n)) (cv st)).
  { intros st. unfold ck, cv, vmap. rewrite List.map_map. apply map_ext. intros [c cn]. cbn. unfold vmap. rewrite List.map_map. reflexivity. }
  rewrite !X, A. reflexivity.
Qed.
Lemma ck_same_conns s s' : conns s' = conns s -> ck s' = ck s.
Proof. unfold ck. intros ->. reflexivity. Qed.
Lemma CN_frame_chan s s' : view s' = view s -> NC s' = NC s -> CN s -> CN s'.
Proof. intros Ev En. destruct (NC_QC _ _ En). apply CN_frame; auto; [apply UV_view|apply ck_view]; exact Ev. Qed.

Lemma NC_set_chan s c h ch : NC (set_chan s c h ch) = NC s.
Proof. unfold set_chan. destruct (get_conn s c); reflexivity. Qed.
Lemma NC_upd_chan s c h f : NC (upd_chan s c h f) = NC s.
Proof. unfold upd_chan. destruct (get_chan s c h); [apply NC_set_chan|reflexivity]. Qed.
Lemma NC_upd_msg s u f : NC (upd_msg s u f) = NC s.
Proof. unfold upd_msg. destruct (get_msg s u); reflexivity. Qed.
Lemma NC_fold {A} (f : state -> A -> state) l : (forall s a, NC (f s a) = NC s) -> forall s, NC (fold_left f l s) = NC s.
Proof. intros Hf. induction l as [|a t IH]; intros s; cbn; auto. rewrite IH. apply Hf. Qed.
Lemma NC_wake_consumer s c h tag : NC (fst (wake_consumer s c h tag)) = NC s.
Proof.
  unfold wake_consumer. destruct (get_chan s c h); auto. destruct (find_consumer _ _); auto. destruct (consume_msg _). cbn [fst]. apply NC_set_chan.
Qed.
Lemma NC_wake_all s c h : NC (wake_all_of_chan s c h) = NC s.
Proof. apply NC_upd_chan. Qed.
Lemma NC_wake_consumers cfg s c h : NC (wake_consumers cfg s c h) = NC s.
Proof.
  unfold wake_consumers. destruct (cfg_rabbit cfg); [apply NC_wake_all|]. destruct (get_conn _ c); [|apply NC_wake_all].
  rewrite NC_fold; [apply NC_wake_all|]. intros s0 a. destruct (fst a =? h); auto. apply NC_wake_all.
Qed.
Lemma NC_dec_qos cfg s c h u : NC (dec_qos_and_consume_next cfg s c h u) = NC s.
Proof.
  unfold dec_qos_and_consume_next. destruct (get_chan s c h) as [ch|]; auto. rewrite NC_wake_consumers.
  destruct (find_consumer ch (u_ctag u)).
  - destruct (cfg_rabbit cfg); [rewrite !NC_upd_chan; reflexivity|].
    destruct (get_conn _ c); [|apply NC_upd_chan]. transitivity (NC (upd_chan s c h (fun ch => ch <| ch_qos ::= fun w => qos_dec w (msg_size s (u_msg u) mod two32) |>))); [reflexivity|apply NC_upd_chan].
  - destruct (get_conn _ c); [|apply NC_upd_chan]. transitivity (NC (upd_chan s c h (fun ch => ch <| ch_qos ::= fun w => qos_dec w (msg_size s (u_msg u) mod two32) |>))); [reflexivity|apply NC_upd_chan].
Qed.
Lemma NC_store_windows cfg s c h tag ws : NC (store_windows cfg s c h tag ws) = NC s.
Proof.
  unfold store_windows. destruct ws as [|w1 [|w2 [|]]]; auto. destruct (cfg_rabbit cfg); [rewrite !NC_upd_chan; reflexivity|].
  destruct (get_conn _ c); [|apply NC_upd_chan]. transitivity (NC (upd_chan s c h (fun ch => ch <| ch_qos := w1 |>))); [reflexivity|apply NC_upd_chan].
Qed.
Lemma NC_add_confirm s c h t : NC (add_confirm s c h t) = NC s.
Proof.
  unfold add_confirm. destruct (get_chan s c h) as [ch|]; auto. destruct (negb _); auto.
  destruct (ch_status ch); auto; destruct t as [[[? ?] ?]|]; auto; apply NC_set_chan.
Qed.
Lemma NC_store_confirm s u : NC (store_confirm s u) = NC s.
Proof.
  unfold store_confirm. destruct (get_msg s u) as [m|]; auto. destruct (m_conf m); auto.
  destruct (_ =? _)%Z; [transitivity (NC (upd_msg s u (fun m => m <| m_actual ::= Z.succ |>))); [reflexivity|]|]; apply NC_upd_msg.
Qed.
Lemma NC_ensure s c h : NC (ensure_chan s c h) = NC s.
Proof. unfold ensure_chan. destruct (get_conn s c); auto. destruct (alookup _ _ _); reflexivity. Qed.
Lemma NC_set_stage s c st : NC (set_stage s c st) = NC s.
Proof. unfold set_stage. destruct (get_conn s c); reflexivity. Qed.

(* ------------------------------------------------------------------ *)
(* Part B: every message a queue, a delivery or the store refers to is in the heap *)
Definition Pr (s : state) (u : N) : Prop := get_msg s u <> None.
Definition PRI (s : state) : Prop := IG (Pr s) s.
Definition ple (s s' : state) : Prop := forall u, Pr s u -> Pr s' u.

Lemma ple_veq s s' : veq s s' -> ple s s'.
Proof. intros [_ E] u H. unfold Pr in *. specialize (E u). destruct (get_msg s u); [|congruence]. destruct (get_msg s' u); [discriminate|discriminate]. Qed.
Lemma ple_upd_msg s u F : ple s (upd_msg s u F).
Proof.
  intros x H. unfold Pr, upd_msg in *. destruct (get_msg s u) as [m|] eqn:E; [|exact H].
  unfold get_msg in *. cbn. rewrite (alookup_aset N.eqb Neqb_spec). destruct (x =? u); [discriminate|exact H].
Qed.
Lemma PRI_lift s s' : ple s s' -> IG (Pr s) s' -> PRI s'.
Proof. intros Hp Hi. eapply IG_mono; [|exact Hi]. exact Hp. Qed.
Lemma PRI_veq s s' : veq s s' -> IG (Pr s) s' -> PRI s'.
Proof. intros Hv. apply PRI_lift. apply ple_veq. exact Hv. Qed.

Lemma PRI_queue_push s qn u : PRI s -> PRI (queue_push s qn u).
Proof.
  intros H. destruct (get_msg s u) as [m|] eqn:Em.
  - eapply PRI_veq; [apply veq_queue_push|]. apply IG_queue_push; auto. unfold Pr. congruence.
  - unfold queue_push. rewrite Em. destruct (get_queue s qn); exact H.
Qed.

Lemma PRI_restart cfg s : PRI s -> PRI (fst (restart cfg s)).
Proof.
  intros Hi. apply (PRI_lift s).
  - intros x Hx. unfold Pr, get_msg, restart in *. cbn [fst heap].
    rewrite (alookup_map_snd (fun m => m <| m_conf := None |>)). destruct (alookup N.eqb x (heap s)); [discriminate|congruence].
  - destruct Hi as (_ & _ & _ & Hd). unfold restart. cbn [fst]. split; [|split; [|split]].
    + intros c h ch Hg. unfold get_chan, get_conn in Hg. cbn in Hg. discriminate.
    + intros qn qu Hin u Hu. cbn [queues] in Hin. apply in_map_iff in Hin. destruct Hin as ([q0 qu0] & E & _). inversion E; subst. clear E.
      cbn in Hu. unfold stored_of, sort_asc_N in Hu. apply in_rev in Hu. apply in_sort_desc_N in Hu. apply in_map_iff in Hu.
      destruct Hu as (k & <- & Hk). apply filter_In in Hk. apply Hd. tauto.
    + intros k [].
    + intros k Hk. cbn in Hk. apply filter_In in Hk. apply Hd. tauto.
Qed.

Lemma PRI_persist cfg fx s : PRI s -> PRI (fst (step cfg fx s LPersistTick)).
Proof.
  intros Hi. cbn [step fst].
  set (add := filter _ (st_add s)). set (settled := filter _ (st_add s)). set (del := filter _ (st_del s)).
  set (fresh := filter _ add). set (db := filter _ (st_db s ++ fresh)).
  set (s1 := s <| st_db := db |> <| st_add := [] |> <| st_del := [] |>).
  assert (V1 : veq s s1) by (apply veq_hn; reflexivity).
  assert (I1 : IG (Pr s) s1).
  { destruct Hi as (Hc & Hq & Ha & Hd). split; [exact Hc|]. split; [exact Hq|]. split; [intros k []|].
    intros k Hk. change (st_db s1) with db in Hk. subst db. apply filter_In in Hk. destruct Hk as [Hk _]. apply in_app_or in Hk.
    destruct Hk as [Hk|Hk]; [auto|]. subst fresh add. apply filter_In in Hk. destruct Hk as [Hk _]. apply filter_In in Hk. apply Ha. tauto. }
  clearbody s1.
  assert (X : veq s (fold_left (fun s k => store_confirm s (fst k)) (add ++ settled) s1) /\ IG (Pr s) (fold_left (fun s k => store_confirm s (fst k)) (add ++ settled) s1)).
  { apply (fold_left_preserves (fun st => veq s st /\ IG (Pr s) st)); [|split; auto].
    intros s0 k [A B]. split; [eapply veq_trans; [exact A|apply veq_store_confirm]|eapply IG_same; [apply conns_store_confirm|apply qst_store_confirm|exact B]]. }
  destruct X as [A B]. eapply PRI_veq; eauto.
Qed.

Lemma PRI_handle_method cfg fx s c h m : PRI s -> PRI (fst (fst (handle_method cfg fx s c h m))).
Proof.
  intros Hi. pose proof (IG_handle_method (Pr s) cfg fx s c h m Hi) as Hi'.
  destruct (is_publish m) eqn:Ep; [|eapply PRI_veq; [apply veq_handle_method; exact Ep|exact Hi']].
  destruct m; try discriminate Ep.
  destruct (publish_heap cfg fx s c h ex key mand imm) as [E|(En & m0 & Eh & Ez & Eg)]; cbv zeta in *.
  - eapply PRI_veq; [apply veq_hn; exact E|exact Hi'].
  - eapply PRI_lift; [|exact Hi']. intros x Hx. unfold Pr in *. rewrite Eg. destruct (x =? next_uid s); [discriminate|exact Hx].
Qed.

Theorem PRI_step cfg fx s l : fx_stage fx = true -> fx_chan_open fx = true -> PRI s -> PRI (fst (step cfg fx s l)).
Proof.
  intros Hst Hco H.
  apply (D2_step cfg fx PRI Pr Hst Hco).
  - intros s0 c h B. eapply PRI_veq; [apply veq_channel_close|apply IG_channel_close; exact B].
  - intros b s0 qn iu ie B. eapply PRI_veq; [apply veq_hn, hn_vhost_delete_queue|apply IG_vhost_delete_queue; exact B].
  - intros s0 c B. eapply PRI_veq; [apply veq_hn; reflexivity|].
    apply (IG_of_chan _ s0); [reflexivity|apply allch_del_conn; exact (proj1 B)|exact B].
  - intros s0 c h B. eapply PRI_veq; [apply veq_hn, hn_upd_chan|apply IG_upd_chan_same; [reflexivity|exact B]].
  - intros s0 c h B. eapply PRI_veq; [apply veq_hn, hn_ensure_chan|].
    apply (IG_of_chan _ s0); [apply qst_ensure_chan| |exact B]. apply allch_ensure; [|exact (proj1 B)]. intros ? ? x [].
  - intros s0 c h B. eapply PRI_veq; [apply veq_hn, hn_upd_chan|apply IG_upd_chan_same; [reflexivity|exact B]].
  - intros s0 c h t B. eapply PRI_veq; [apply veq_hn, hn_add_confirm|apply IG_add_confirm; exact B].
  - intros s0 c h tag B. eapply PRI_veq; [apply veq_hn, hn_wake_consumer|apply IG_wake; exact B].
  - intros s0 c st En B. eapply PRI_veq; [apply veq_hn; reflexivity|].
    apply (IG_of_chan _ s0); [reflexivity| |exact B]. apply allch_newconn; [|exact (proj1 B)]. intros ? x [].
  - intros s0. apply PRI_restart.
  - intros s0 c h ch E B. split; (eapply PRI_veq; [apply veq_hn, hn_set_chan|eapply IG_set_chan_same; eauto]).
  - intros s0 qn u _ B. apply PRI_queue_push. exact B.
  - intros s0 qn u v Hv. eapply ple_veq; [apply veq_queue_push|exact Hv].
  - intros s0 c h t v Hv. eapply ple_veq; [apply veq_hn, hn_add_confirm|exact Hv].
  - intros s0 u z B. eapply PRI_lift; [apply ple_upd_msg|]. eapply IG_same; [apply conns_upd_msg|apply qst_upd_msg|exact B].
  - intros s0 u z v Hv. apply ple_upd_msg. exact Hv.
  - intros s0 qn qu qu' Eq Er B. eapply PRI_veq; [apply veq_hn; reflexivity|eapply IG_set_queue_same; eauto].
  - intros s0 rest B. eapply PRI_veq; [apply veq_hn; reflexivity|eapply IG_same; [| |exact B]; reflexivity].
  - intros s0 rest B. eapply PRI_veq; [apply veq_hn; reflexivity|eapply IG_same; [| |exact B]; reflexivity].
  - intros s0. apply PRI_persist.
  - intros c h m Hg. apply PRI_handle_method.
  - intros c h tag. eapply PRI_veq; [apply veq_hn, hn_consumer_turn|apply IG_consumer_turn; exact H].
  - (* header *)
    intros c h ch u m mid size pers Ech Ecur Em Ehh B. split.
    + eapply PRI_lift; [apply ple_upd_msg|]. eapply IG_same; [apply conns_upd_msg|apply qst_upd_msg|exact B].
    + intros _. apply ple_upd_msg. unfold Pr. congruence.
  - (* body *)
    intros c h ch u m len Ech Ecur Em Ehh Elt B. split.
    + eapply PRI_lift; [apply ple_upd_msg|]. eapply IG_same; [apply conns_upd_msg|apply qst_upd_msg|exact B].
    + intros _. apply ple_upd_msg. unfold Pr. congruence.
  - exact H.
Qed.

Lemma PRI_init cfg : PRI (init cfg).
Proof.
  split; [|split; [|split]].
  - intros c h ch Hg. unfold get_chan, get_conn in Hg. cbn in Hg. discriminate.
  - intros qn qu [].
  - intros k [].
  - intros k [].
Qed.

(* ------------------------------------------------------------------ *)
(* Part C: counting *)
Lemma keqb_true k k' : keqb k k' = true <-> k = k'.
Proof.
  destruct k as [a b], k' as [a' b']. unfold keqb. cbn. split.
  - intros E. apply andb_prop in E. destruct E as [E1 E2]. apply seqb_spec in E1. apply N.eqb_eq in E2. congruence.
  - intros E. inversion E. subst. rewrite N.eqb_refl, (proj2 (seqb_spec _ _) eq_refl). reflexivity.
Qed.
Lemma keqb_false k k' : k <> k' -> keqb k k' = false.
Proof. intros H. destruct (keqb k k') eqn:E; auto. apply keqb_true in E. contradiction. Qed.
Lemma keqb_refl k : keqb k k = true. Proof. apply keqb_true. reflexivity. Qed.
Lemma cntk_app k l1 l2 : cntk k (l1 ++ l2) = (cntk k l1 + cntk k l2)%Z.
Proof. unfold cntk. rewrite filter_app, app_length. lia. Qed.
Lemma cntk_cons k a l : cntk k (a :: l) = ((if keqb k a then 1 else 0) + cntk k l)%Z.
Proof. unfold cntk. cbn. destruct (keqb k a); cbn [List.length]; lia. Qed.
Lemma cntk_nil k : cntk k [] = 0%Z. Proof. reflexivity. Qed.
Lemma cntk_mid k P a Q : cntk k (P ++ a :: Q) = ((if keqb k a then 1 else 0) + cntk k (P ++ Q))%Z.
Proof. rewrite !cntk_app, cntk_cons. lia. Qed.
Lemma len_mid {A} (P Q : list A) a : List.length (P ++ a :: Q) = S (List.length (P ++ Q)).
Proof. rewrite !app_length. cbn. lia. Qed.

Lemma AU_set_chan s c h ch ch' : get_chan s c h = Some ch ->
  exists A B, all_unacked s = A ++ ch_unacked ch ++ B /\ all_unacked (set_chan s c h ch') = A ++ ch_unacked ch' ++ B.
Proof.
  intros Hg. rewrite !all_unacked_cv, cv_set_chan.
  apply (au_cv_set c h (cproj ch) (cproj ch') (cv s)). rewrite cv_get_cv, Hg. reflexivity.
Qed.

Lemma filter_tag_split l u : NoDup (map u_tag l) -> In u l ->
  exists l1 l2, l = l1 ++ u :: l2 /\ filter (fun x => negb (u_tag x =? u_tag u)) l = l1 ++ l2.
Proof.
  intros Hn Hin. destruct (in_split _ _ Hin) as (l1 & l2 & ->). exists l1, l2. split; auto.
  rewrite map_app in Hn. cbn in Hn. apply NoDup_remove in Hn. destruct Hn as [_ Hn].
  assert (K : forall r, (forall x, In x r -> u_tag x <> u_tag u) -> filter (fun x => negb (u_tag x =? u_tag u)) r = r).
  { induction r as [|x r IH]; intros Hr; cbn; auto. destruct (u_tag x =? u_tag u) eqn:E.
    - apply N.eqb_eq in E. exfalso. apply (Hr x); [left; reflexivity|exact E].
    - cbn. f_equal. apply IH. intros y Hy. apply Hr. right. exact Hy. }
  rewrite filter_app. cbn. rewrite N.eqb_refl. cbn. rewrite !K; auto.
  - intros x Hx E. apply Hn. apply in_or_app. right. rewrite <- E. apply in_map. exact Hx.
  - intros x Hx E. apply Hn. apply in_or_app. left. rewrite <- E. apply in_map. exact Hx.
Qed.

Definition nn (v : N * nat * Z * Z * Z) : nat := snd (fst (fst (fst v))).
Lemma rsumv_app l1 l2 : rsumv (l1 ++ l2) = (rsumv l1 + rsumv l2)%Z.
Proof. induction l1 as [|a t IH]; cbn; [reflexivity|]. fold (rsumv (t ++ l2)). fold (rsumv t). rewrite IH. lia. Qed.
Lemma rsumv_aset qn v v' l : alookup seqb qn l = Some v -> rsumv (aset seqb qn v' l) = (rsumv l - Z.of_nat (nn v) + Z.of_nat (nn v'))%Z.
Proof.
  intros H. destruct (aset_split seqb seqb_spec qn v v' l H) as (l1 & l2 & E1 & E2 & _). rewrite E2. rewrite E1 at 1.
  rewrite !rsumv_app. cbn. fold (rsumv l2). unfold nn. lia.
Qed.
Lemma rsumv_fresh qn v l : alookup seqb qn l = None -> rsumv (aset seqb qn v l) = (rsumv l + Z.of_nat (nn v))%Z.
Proof. intros H. rewrite (aset_fresh seqb qn v l H), rsumv_app. cbn. unfold nn. lia. Qed.

Lemma CNV_upd uv qv sv qn i n r u t uv' n' r' u' t' sv' :
  CNV uv qv sv -> alookup seqb qn qv = Some (i, n, r, u, t) ->
  (forall qn0 i0, (qn0, i0) <> (qn, i) -> cntk (qn0, i0) uv' = cntk (qn0, i0) uv) ->
  u' = cntk (qn, i) uv' -> t' = (r' + u')%Z ->
  snd (fst sv') = Z.of_nat (List.length uv') ->
  fst (fst sv') = (fst (fst sv) - Z.of_nat n + Z.of_nat n')%Z ->
  snd sv' = (fst (fst sv') + snd (fst sv'))%Z ->
  CNV uv' (aset seqb qn (i, n', r', u', t') qv) sv'.
Proof.
  intros (A & B & C & D & E) Hl Hoth Hu Ht Hun Hrd Htot. split; [|split; [|split; [|split]]]; auto.
  - intros qn0 i0 n0 r0 u0 t0 H0. rewrite (alookup_aset seqb seqb_spec) in H0. destruct (seqb qn0 qn) eqn:Eq.
    + apply seqb_spec in Eq. subst qn0. inversion H0; subst. auto.
    + destruct (A _ _ _ _ _ _ H0) as [A1 A2]. split; auto. rewrite Hoth; auto.
      intros X. inversion X. subst. rewrite (proj2 (seqb_spec _ _) eq_refl) in Eq. discriminate.
  - rewrite Hrd, C, (rsumv_aset _ _ _ _ Hl). unfold nn. cbn. lia.
  - rewrite (keys_aset seqb seqb_spec), Hl. exact E.
Qed.

Lemma CNV_keep uv qv sv uv' sv' :
  CNV uv qv sv -> (forall qn i n r u t, alookup seqb qn qv = Some (i, n, r, u, t) -> cntk (qn, i) uv' = cntk (qn, i) uv) ->
  snd (fst sv') = Z.of_nat (List.length uv') -> fst (fst sv') = fst (fst sv) ->
  snd sv' = (fst (fst sv') + snd (fst sv'))%Z -> CNV uv' qv sv'.
Proof.
  intros (A & B & C & D & E) Hoth Hun Hrd Htot. split; [|split; [|split; [|split]]]; auto; [|congruence].
  intros qn i n r u t H0. destruct (A _ _ _ _ _ _ H0) as [A1 A2]. split; auto. rewrite (Hoth _ _ _ _ _ _ H0). exact A1.
Qed.

(* effects of the queue operations on the three components *)
Lemma UV_same_conns s s' : conns s' = conns s -> UV s' = UV s.
Proof. unfold UV, all_unacked. intros ->. reflexivity. Qed.
Lemma QC_set_queue s q qu : QC (set_queue s q qu) = aset seqb q (qc qu) (QC s).
Proof. unfold QC, set_queue. cbn. apply vmap_aset. Qed.

Lemma queue_ackmsg_eff s qn x qu m : get_queue s qn = Some qu -> get_msg s x = Some m -> q_active qu = true ->
  UV (queue_ackmsg s qn x) = UV s /\
  QC (queue_ackmsg s qn x) = aset seqb qn (q_id qu, List.length (q_ready qu), q_mready qu, Z.pred (q_munacked qu), Z.pred (q_mtotal qu)) (QC s) /\
  srv3 (queue_ackmsg s qn x) = (srv_ready s, Z.pred (srv_unacked s), Z.pred (srv_total s)).
Proof.
  intros Hq Hm Ha. split; [apply UV_same_conns; apply (proj1 (proj2 conns_queue_ops))|].
  unfold queue_ackmsg. rewrite Hq, Hm, Ha. cbn [negb]. cbv zeta. rewrite QC_set_queue.
  destruct (q_durable qu && m_pers m); split; reflexivity.
Qed.
Lemma queue_requeue_eff s qn x qu : get_queue s qn = Some qu -> q_active qu = true ->
  UV (queue_requeue s qn x) = UV s /\
  QC (queue_requeue s qn x) = aset seqb qn (q_id qu, S (List.length (q_ready qu)), Z.succ (q_mready qu), Z.pred (q_munacked qu), q_mtotal qu) (QC s) /\
  srv3 (queue_requeue s qn x) = (Z.succ (srv_ready s), Z.pred (srv_unacked s), srv_total s).
Proof.
  intros Hq Ha. split; [apply UV_same_conns; apply (proj1 (proj2 (proj2 conns_queue_ops)))|].
  unfold queue_requeue. rewrite Hq, Ha. cbn [negb]. cbv zeta. rewrite QC_set_queue.
  destruct (store_writeback_frame s qn x (q_durable qu)) as (_ & F2 & _ & _ & F5 & F6 & F7).
  split.
  - unfold QC. cbn. rewrite queues_upd_msg, F2. unfold call_consumers. cbn. rewrite Ha. reflexivity.
  - unfold srv3. cbn.
    assert (X : forall st u f, srv3 (upd_msg st u f) = srv3 st) by (intros; unfold upd_msg; destruct (get_msg st u); reflexivity).
    pose proof (X (store_writeback s qn x (q_durable qu)) x (fun m => m <| m_dc ::= N.succ |>)) as Y. unfold srv3 in Y. inversion Y as [[Y1 Y2 Y3]].
    rewrite Y1, Y2, Y3, F5, F6, F7. reflexivity.
Qed.
Lemma queue_push_eff s qn x qu m : get_queue s qn = Some qu -> get_msg s x = Some m -> q_active qu = true ->
  UV (queue_push s qn x) = UV s /\
  QC (queue_push s qn x) = aset seqb qn (q_id qu, List.length (q_ready qu ++ [x]), Z.succ (q_mready qu), q_munacked qu, Z.succ (q_mtotal qu)) (QC s) /\
  srv3 (queue_push s qn x) = (Z.succ (srv_ready s), srv_unacked s, Z.succ (srv_total s)).
Proof.
  intros Hq Hm Ha. split; [apply UV_same_conns; apply (proj1 conns_queue_ops)|].
  unfold queue_push. rewrite Hq, Hm, Ha. cbn [negb]. cbv zeta. rewrite QC_set_queue.
  assert (X : forall st u f, srv3 (upd_msg st u f) = srv3 st /\ QC (upd_msg st u f) = QC st)
    by (intros; unfold upd_msg; destruct (get_msg st u); split; reflexivity).
  split.
  - unfold call_consumers. cbn. rewrite Ha. cbn. f_equal.
    destruct (q_durable qu && m_pers m); [reflexivity|]. destruct (m_conf m); [|reflexivity]. rewrite (proj2 (X _ _ _)). reflexivity.
  - destruct (q_durable qu && m_pers m); [reflexivity|]. destruct (m_conf m); [|reflexivity].
    transitivity (srv3 (upd_msg (s <| srv_total ::= Z.succ |> <| srv_ready ::= Z.succ |>) x (fun m => m <| m_actual ::= Z.succ |>))); [reflexivity|].
    rewrite (proj1 (X _ _ _)). reflexivity.
Qed.

Lemma CN_parts s : CN s -> CNV (UV s) (QC s) (srv3 s). Proof. intros [A _]. exact A. Qed.

Lemma QC_lookup s qn i n r u t : alookup seqb qn (QC s) = Some (i, n, r, u, t) ->
  exists qu, get_queue s qn = Some qu /\ q_id qu = i /\ List.length (q_ready qu) = n /\ q_mready qu = r /\ q_munacked qu = u /\ q_mtotal qu = t.
Proof.
  rewrite QC_get. destruct (get_queue s qn) as [qu|]; [|discriminate]. cbn. unfold qc. intros E. inversion E. exists qu. repeat split; auto.
Qed.

Theorem CN_queue_push s qn x : QI s -> CN s -> CN (queue_push s qn x).
Proof.
  intros Hq H. destruct (get_queue s qn) as [qu|] eqn:Eq; [|unfold queue_push; rewrite Eq; exact H].
  destruct (get_msg s x) as [m|] eqn:Em; [|unfold queue_push; rewrite Eq, Em; exact H].
  pose proof (allq_get _ _ _ _ Hq Eq) as (Q1 & Q2 & _ & Ha).
  destruct (queue_push_eff s qn x qu m Eq Em Ha) as (E1 & E2 & E3). unfold CN. rewrite E1, E2, E3.
  rewrite (ck_same_conns _ _ (proj1 conns_queue_ops s qn x)).
  destruct (CN_queue s qn qu H Eq) as [C1 C2]. destruct H as ((A & B & C & D & E) & Hck). split; [|exact Hck].
  eapply CNV_upd; [exact (conj A (conj B (conj C (conj D E))))|rewrite QC_get, Eq; reflexivity|auto|exact C1|lia| | |]; cbn [fst snd].
  - exact B.
  - rewrite app_length. cbn. unfold srv3 in *. cbn [fst snd] in *. lia.
  - unfold srv3 in *. cbn [fst snd] in *. lia.
Qed.

Lemma settle_del_eff s c h ch u : get_chan s c h = Some ch -> In u (ch_unacked ch) -> NoDup (map u_tag (ch_unacked ch)) ->
  exists P Q, UV s = P ++ uk u :: Q /\ UV (upd_chan s c h (fun ch => del_unacked ch (u_tag u))) = P ++ Q.
Proof.
  intros Hg Hin Hn. unfold upd_chan. rewrite Hg.
  destruct (AU_set_chan s c h ch (del_unacked ch (u_tag u)) Hg) as (A & B & E1 & E2).
  destruct (filter_tag_split _ _ Hn Hin) as (l1 & l2 & F1 & F2).
  assert (F2' : ch_unacked (del_unacked ch (u_tag u)) = l1 ++ l2) by exact F2.
  exists (map uk (A ++ l1)), (map uk (l2 ++ B)). unfold UV. rewrite E1, E2, F2', F1.
  rewrite !List.map_app. cbn [map]. rewrite ?List.map_app, <- ?app_assoc. cbn [app]. split; reflexivity.
Qed.

Lemma origin_queue_spec s u : 
  match origin_queue s u with
  | Some qu => get_queue s (u_queue u) = Some qu /\ q_id qu = u_qid u
  | None => forall qu, get_queue s (u_queue u) = Some qu -> q_id qu <> u_qid u
  end.
Proof.
  unfold origin_queue. destruct (get_queue s (u_queue u)) as [qu|]; [|intros; discriminate].
  destruct (q_id qu =? u_qid u) eqn:E; [apply N.eqb_eq in E; auto|]. intros qu' X. inversion X; subst. apply N.eqb_neq. exact E.
Qed.

Lemma srv3_eq s : srv3 s = (srv_ready s, srv_unacked s, srv_total s). Proof. reflexivity. Qed.

(* one settlement, after the entry has been taken off the channel *)
Lemma CN_settle_step s s1 u r P Q :
  CN s -> UV s = P ++ uk u :: Q -> UV s1 = P ++ Q -> NC s1 = NC s -> ck s1 = ck s -> QI s1 -> Pr s1 (u_msg u) ->
  CN (chan_ackmsg s1 u) /\ CN (chan_rejectmsg s1 u r).
Proof.
  intros [H Hck] E0 E1 En Ek Hq Hp. destruct (NC_QC _ _ En) as [Eq Es].
  assert (H' := H). rewrite E0, <- Eq, <- Es in H'. rewrite <- Ek in Hck.
  assert (Hoth : forall k, k <> uk u -> cntk k (P ++ Q) = cntk k (P ++ uk u :: Q)).
  { intros k Hk. rewrite cntk_mid, keqb_false; auto. }
  assert (Hlen : Z.of_nat (List.length (P ++ uk u :: Q)) = Z.succ (Z.of_nat (List.length (P ++ Q)))) by (rewrite len_mid; lia).
  pose proof (origin_queue_spec s1 u) as Ho.
  assert (Hnone : origin_queue s1 u = None -> CN (s1 <| srv_total ::= Z.pred |> <| srv_unacked ::= Z.pred |>)).
  { intros En0. rewrite En0 in Ho. split; [|exact Hck].
    change (UV (s1 <| srv_total ::= Z.pred |> <| srv_unacked ::= Z.pred |>)) with (UV s1).
    change (QC (s1 <| srv_total ::= Z.pred |> <| srv_unacked ::= Z.pred |>)) with (QC s1).
    change (srv3 (s1 <| srv_total ::= Z.pred |> <| srv_unacked ::= Z.pred |>)) with (srv_ready s1, Z.pred (srv_unacked s1), Z.pred (srv_total s1)).
    rewrite E1.
    eapply CNV_keep; [exact H'| | | |].
    - intros qn i n r0 u0 t Hl. apply Hoth. intros X. destruct (QC_lookup _ _ _ _ _ _ _ Hl) as (qu & Hg & Hi & _).
      unfold uk in X. inversion X as [[X1 X2]]. subst qn. apply (Ho qu Hg). congruence.
    - destruct H' as (_ & B & _). unfold srv3 in *. cbn [fst snd] in *. lia.
    - reflexivity.
    - destruct H' as (_ & B & _ & D & _). unfold srv3 in *. cbn [fst snd] in *. lia. }
  assert (Hack : forall qu, origin_queue s1 u = Some qu -> CN (queue_ackmsg s1 (u_queue u) (u_msg u))).
  { intros qu Eo. rewrite Eo in Ho. destruct Ho as [Hg Hi].
    destruct (get_msg s1 (u_msg u)) as [m|] eqn:Em; [|exfalso; apply Hp; exact Em].
    pose proof (allq_get _ _ _ _ Hq Hg) as (_ & _ & _ & Ha).
    destruct (queue_ackmsg_eff s1 _ _ qu m Hg Em Ha) as (F1 & F2 & F3).
    split; [|rewrite (ck_same_conns _ _ (proj1 (proj2 conns_queue_ops) s1 _ _)); exact Hck]. rewrite F1, F2, F3, E1.
    assert (Hk : (u_queue u, q_id qu) = uk u) by (unfold uk; rewrite Hi; reflexivity).
    destruct H' as (A & B & C & D & E).
    assert (Hl : alookup seqb (u_queue u) (QC s1) = Some (qc qu)) by (rewrite QC_get, Hg; reflexivity).
    destruct (A _ _ _ _ _ _ Hl) as [A1 A2]. rewrite Hk, cntk_mid, keqb_refl in A1.
    eapply CNV_upd; [exact (conj A (conj B (conj C (conj D E))))|exact Hl| | | | | |]; cbn [fst snd].
    - intros qn0 i0 Hne. apply Hoth. rewrite <- Hk. exact Hne.
    - rewrite Hk. lia.
    - lia.
    - unfold srv3 in *. cbn [fst snd] in *. lia.
    - unfold srv3 in *. cbn [fst snd] in *. lia.
    - unfold srv3 in *. cbn [fst snd] in *. lia. }
  split.
  - unfold chan_ackmsg. destruct (origin_queue s1 u) as [qu|] eqn:Eo; [eapply Hack; reflexivity|apply Hnone; reflexivity].
  - unfold chan_rejectmsg. destruct (origin_queue s1 u) as [qu|] eqn:Eo; [|apply Hnone; reflexivity].
    destruct r; [|eapply Hack; reflexivity].
    try rewrite Eo in Ho. destruct Ho as [Hg Hi].
    pose proof (allq_get _ _ _ _ Hq Hg) as (_ & _ & _ & Ha).
    destruct (queue_requeue_eff s1 _ (u_msg u) qu Hg Ha) as (F1 & F2 & F3).
    split; [|rewrite (ck_same_conns _ _ (proj1 (proj2 (proj2 conns_queue_ops)) s1 _ _)); exact Hck]. rewrite F1, F2, F3, E1.
    assert (Hk : (u_queue u, q_id qu) = uk u) by (unfold uk; rewrite Hi; reflexivity).
    destruct H' as (A & B & C & D & E).
    assert (Hl : alookup seqb (u_queue u) (QC s1) = Some (qc qu)) by (rewrite QC_get, Hg; reflexivity).
    destruct (A _ _ _ _ _ _ Hl) as [A1 A2]. rewrite Hk, cntk_mid, keqb_refl in A1.
    eapply CNV_upd; [exact (conj A (conj B (conj C (conj D E))))|exact Hl| | | | | |]; cbn [fst snd].
    + intros qn0 i0 Hne. apply Hoth. rewrite <- Hk. exact Hne.
    + rewrite Hk. lia.
    + lia.
    + unfold srv3 in *. cbn [fst snd] in *. lia.
    + unfold srv3 in *. cbn [fst snd] in *. lia.
    + unfold srv3 in *. cbn [fst snd] in *. lia.
Qed.

Lemma ck_set_chan s c h ch : get_chan s c h <> None -> ck (set_chan s c h ch) = ck s.
Proof.
  intros Hg. unfold set_chan, ck. unfold get_chan in Hg. destruct (get_conn s c) as [cn|] eqn:E; [|reflexivity]. cbn.
  rewrite vmap_aset. apply (aset_same N.eqb Neqb_spec). rewrite alookup_vmap. unfold get_conn in E. rewrite E. cbn. f_equal.
  rewrite (keys_aset N.eqb Neqb_spec). destruct (alookup N.eqb h (cn_chans cn)); [reflexivity|congruence].
Qed.
Lemma ck_upd_chan s c h f : ck (upd_chan s c h f) = ck s.
Proof. unfold upd_chan. destruct (get_chan s c h) eqn:E; [apply ck_set_chan; congruence|reflexivity]. Qed.

(* ------------------------------------------------------------------ *)
(* Part D: settlement *)
Definition J (s : state) : Prop := CI s /\ QI s /\ PRI s /\ CN s.
Definition sg (r : option bool) (s : state) (u : unacked) : state :=
  match r with None => chan_ackmsg s u | Some b => chan_rejectmsg s u b end.

Lemma J_settle1 r s c h u : J s -> In u (U s c h) ->
  J (sg r (upd_chan s c h (fun ch => del_unacked ch (u_tag u))) u).
Proof.
  intros (Hc & Hq & Hp & Hn) Hin. unfold U in Hin. destruct (get_chan s c h) as [ch|] eqn:Eg; [|destruct Hin].
  set (s1 := upd_chan s c h (fun ch => del_unacked ch (u_tag u))).
  assert (Hc1 : CI s1) by (apply (G_del_unacked chinvp chinvp_del); exact Hc).
  assert (Hq1 : QI s1) by (eapply allq_same_queues; [apply queues_upd_chan|exact Hq]).
  assert (Hi1 : IG (Pr s) s1) by (apply IG_upd_chan; [intros ch0; apply PG_del|exact Hp]).
  assert (Hp1 : PRI s1) by (eapply PRI_veq; [apply veq_upd_chan|exact Hi1]).
  assert (Hu : Pr s (u_msg u)) by (exact (proj1 Hp _ _ _ Eg u Hin)).
  assert (Hu1 : Pr s1 (u_msg u)) by (eapply ple_veq; [apply veq_upd_chan|exact Hu]).
  destruct (settle_del_eff s c h ch u Eg Hin (proj1 (Hc _ _ _ Eg))) as (P & Q & E0 & E1).
  destruct (CN_settle_step s s1 u (match r with Some b => b | None => false end) P Q Hn E0 E1 (NC_upd_chan _ _ _ _) (ck_upd_chan _ _ _ _) Hq1 Hu1) as [Na Nr].
  destruct r as [b|]; cbn [sg].
  - split; [apply G_chan_rejectmsg; exact Hc1|]. split; [apply QI_chan_rejectmsg; exact Hq1|]. split; [|exact Nr].
    eapply PRI_veq; [apply veq_chan_rejectmsg|]. apply IG_chan_rejectmsg; [exact Hu1|exact Hp1].
  - split; [apply G_chan_ackmsg; exact Hc1|]. split; [apply QI_chan_ackmsg; exact Hq1|]. split; [|exact Na].
    eapply PRI_veq; [apply veq_chan_ackmsg|]. apply IG_chan_ackmsg. exact Hp1.
Qed.

Lemma U_sg r s u c h : U (sg r s u) c h = U s c h.
Proof. destruct r; [apply U_chan_rejectmsg|apply U_chan_ackmsg]. Qed.

Lemma J_settle_fold r c h sel : forall s, J s -> NoDup (map u_tag sel) -> (forall u, In u sel -> In u (U s c h)) ->
  J (fold_left (fun s u => sg r (upd_chan s c h (fun ch => del_unacked ch (u_tag u))) u) sel s).
Proof.
  induction sel as [|u rest IH]; intros s Hj Hn Hin; cbn [fold_left]; [exact Hj|].
  cbn [map] in Hn. inversion Hn as [|? ? Hni Hnr]; subst.
  apply IH; [apply J_settle1; [exact Hj|apply Hin; left; reflexivity]|exact Hnr|].
  intros u' Hu'. rewrite U_sg, del_unacked_U. apply filter_In. split; [apply Hin; right; exact Hu'|].
  apply Bool.negb_true_iff. apply N.eqb_neq. intros E. apply Hni. rewrite <- E. apply in_map. exact Hu'.
Qed.

Lemma J_dec_qos cfg s c h u : J s -> J (dec_qos_and_consume_next cfg s c h u).
Proof.
  intros (Hc & Hq & Hp & Hn). split; [apply CI_dec_qos; exact Hc|]. split; [apply QI_dec_qos; exact Hq|]. split.
  - eapply PRI_veq; [apply veq_hn, hn_dec_qos|apply IG_dec_qos; exact Hp].
  - eapply CN_frame_chan; [apply view_dec_qos|apply NC_dec_qos|exact Hn].
Qed.

Theorem J_handle_ack cfg s c h tag mult : J s -> J (fst (handle_ack cfg s c h tag mult)).
Proof.
  intros Hj. unfold handle_ack. destruct (get_chan s c h) as [ch|] eqn:Eg; [|exact Hj].
  assert (HU : U s c h = ch_unacked ch) by (unfold U; rewrite Eg; reflexivity).
  pose proof (proj1 ((proj1 Hj) _ _ _ Eg)) as Hnd.
  destruct mult.
  - cbn [fst]. apply fold_left_preserves; [intros; apply J_dec_qos; auto|].
    apply (J_settle_fold None c h); [exact Hj|apply NoDup_map_filter; exact Hnd|].
    intros u Hu. rewrite HU. apply filter_In in Hu. tauto.
  - destruct (find _ _) as [u|] eqn:Ef; cbn [fst]; [|exact Hj].
    apply J_dec_qos. apply find_some in Ef. destruct Ef as [Hin Et]. apply N.eqb_eq in Et. subst tag.
    apply (J_settle1 None); [exact Hj|rewrite HU; exact Hin].
Qed.

Theorem J_handle_reject cfg s c h tag mult requeue cls mth : J s -> J (fst (handle_reject cfg s c h tag mult requeue cls mth)).
Proof.
  intros Hj. unfold handle_reject. destruct (get_chan s c h) as [ch|] eqn:Eg; [|exact Hj].
  assert (HU : U s c h = ch_unacked ch) by (unfold U; rewrite Eg; reflexivity).
  pose proof (proj1 ((proj1 Hj) _ _ _ Eg)) as Hnd.
  destruct mult.
  - cbn [fst]. apply fold_left_preserves; [intros; apply J_dec_qos; auto|].
    apply (J_settle_fold (Some requeue) c h); [exact Hj|apply NoDup_map_filter; apply NoDup_sort_desc; exact Hnd|].
    intros u Hu. rewrite HU. apply filter_In in Hu. apply sort_desc_perm. tauto.
  - destruct (find _ _) as [u|] eqn:Ef; cbn [fst]; [|exact Hj].
    apply J_dec_qos. apply find_some in Ef. destruct Ef as [Hin Et]. apply N.eqb_eq in Et. subst tag.
    apply (J_settle1 (Some requeue)); [exact Hj|rewrite HU; exact Hin].
Qed.

(* ------------------------------------------------------------------ *)
(* Part E: the compound operations *)
Lemma UV_upd_chan_same s c h f : (forall ch, ch_unacked (f ch) = ch_unacked ch) -> UV (upd_chan s c h f) = UV s.
Proof.
  intros Hf. unfold upd_chan. destruct (get_chan s c h) as [ch|] eqn:Eg; [|reflexivity].
  destruct (AU_set_chan s c h ch (f ch) Eg) as (A & B & E1 & E2). unfold UV. rewrite E1, E2, Hf. reflexivity.
Qed.
Lemma UV_set_chan_same s c h ch ch' : get_chan s c h = Some ch -> ch_unacked ch' = ch_unacked ch -> UV (set_chan s c h ch') = UV s.
Proof. intros Eg Hf. destruct (AU_set_chan s c h ch ch' Eg) as (A & B & E1 & E2). unfold UV. rewrite E1, E2, Hf. reflexivity. Qed.

Lemma CN_upd_chan_same s c h f : (forall ch, ch_unacked (f ch) = ch_unacked ch) -> CN s -> CN (upd_chan s c h f).
Proof.
  intros Hf. destruct (NC_QC _ _ (NC_upd_chan s c h f)). apply CN_frame; auto; [apply UV_upd_chan_same; exact Hf|apply ck_upd_chan].
Qed.
Lemma CN_set_chan_same s c h ch ch' : get_chan s c h = Some ch -> ch_unacked ch' = ch_unacked ch -> CN s -> CN (set_chan s c h ch').
Proof.
  intros Eg Hf. destruct (NC_QC _ _ (NC_set_chan s c h ch')). apply CN_frame; auto; [eapply UV_set_chan_same; eauto|apply ck_set_chan; congruence].
Qed.

Lemma J_upd_chan_same s c h f :
  (forall ch, ch_unacked (f ch) = ch_unacked ch) -> (forall ch, ch_dtag (f ch) = ch_dtag ch) -> J s -> J (upd_chan s c h f).
Proof.
  intros Hu Hd (Hc & Hq & Hp & Hn). split; [|split; [|split]].
  - apply allch_upd_chan; [|exact Hc]. intros ch0 H0. eapply chinvp_set; [apply Hu|apply Hd|exact H0].
  - eapply allq_same_queues; [apply queues_upd_chan|exact Hq].
  - eapply PRI_veq; [apply veq_upd_chan|]. apply IG_upd_chan_same; auto.
  - apply CN_upd_chan_same; auto.
Qed.
Lemma J_set_chan_same s c h ch ch' :
  get_chan s c h = Some ch -> ch_unacked ch' = ch_unacked ch -> ch_dtag ch' = ch_dtag ch -> J s -> J (set_chan s c h ch').
Proof.
  intros Eg Hu Hd (Hc & Hq & Hp & Hn). split; [|split; [|split]].
  - apply allch_set_chan; [|exact Hc]. eapply chinvp_set; [exact Hu|exact Hd|exact (Hc _ _ _ Eg)].
  - eapply allq_same_queues; [apply queues_set_chan|exact Hq].
  - eapply PRI_veq; [apply veq_hn, hn_set_chan|]. eapply IG_set_chan_same; eauto.
  - eapply CN_set_chan_same; eauto.
Qed.

(* a step that keeps the view, the counters and the heap *)
Lemma J_frame s s' : view s' = view s -> NC s' = NC s -> CI s' -> QI s' -> PRI s' -> J s -> J s'.
Proof. intros Ev En Hc Hq Hp (_ & _ & _ & Hn). split; [|split; [|split]]; auto. eapply CN_frame_chan; eauto. Qed.

Lemma QC_set_queue_same s q qu qu' : get_queue s q = Some qu -> qc qu' = qc qu -> QC (set_queue s q qu') = QC s.
Proof. intros Hg E. rewrite QC_set_queue, E. apply (aset_same seqb seqb_spec). rewrite QC_get, Hg. reflexivity. Qed.

Lemma XS_queue_remove_consumer s qn c h tag :
  QC (queue_remove_consumer s qn c h tag) = QC s /\ srv3 (queue_remove_consumer s qn c h tag) = srv3 s.
Proof.
  unfold queue_remove_consumer. destruct (get_queue s qn) as [qu|] eqn:Eq; [|auto]. cbv zeta.
  match goal with |- QC (if ?b then ?a <| autodel ::= ?f |> else ?a') = _ /\ _ =>
    assert (X : QC (if b then a <| autodel ::= f |> else a') = QC a /\ srv3 (if b then a <| autodel ::= f |> else a') = srv3 a) by (destruct b; auto);
    destruct X as [X1 X2]; rewrite X1, X2 end.
  split; [|reflexivity]. eapply QC_set_queue_same; [exact Eq|]. destruct (Nat.eqb _ 0); reflexivity.
Qed.
Lemma XS_consumer_stop s c h tag : QC (consumer_stop s c h tag) = QC s /\ srv3 (consumer_stop s c h tag) = srv3 s.
Proof.
  unfold consumer_stop. destruct (get_chan s c h) as [ch|]; auto. destruct (find_consumer ch tag) as [cm|]; auto.
  destruct (c_status cm); auto; destruct (XS_queue_remove_consumer (set_chan s c h (upd_consumer ch tag (fun cm0 => cm0 <| c_status := CStopped |>))) (c_queue cm) c h tag) as [A B];
    rewrite A, B; destruct (NC_QC _ _ (NC_set_chan s c h (upd_consumer ch tag (fun cm0 => cm0 <| c_status := CStopped |>)))); auto.
Qed.

Lemma CN_consumer_stop s c h tag : CN s -> CN (consumer_stop s c h tag).
Proof.
  destruct (XS_consumer_stop s c h tag). apply CN_frame; auto; [apply UV_view|apply ck_view]; apply view_consumer_stop.
Qed.
Lemma J_consumer_stop s c h tag : J s -> J (consumer_stop s c h tag).
Proof.
  intros (Hc & Hq & Hp & Hn). split; [apply CI_consumer_stop; exact Hc|]. split; [apply QI_consumer_stop; exact Hq|]. split.
  - eapply PRI_veq; [apply veq_hn, hn_consumer_stop|apply IG_consumer_stop; exact Hp].
  - apply CN_consumer_stop. exact Hn.
Qed.

Theorem J_channel_close cfg s c h : J s -> J (channel_close cfg s c h).
Proof.
  intros Hj. unfold channel_close. destruct (get_chan s c h) as [ch|]; [|exact Hj].
  apply J_upd_chan_same; try reflexivity.
  assert (H1 : J (upd_chan (fold_left (fun s cm => consumer_stop s c h (c_tag cm)) (ch_consumers ch) s) c h (fun ch => ch <| ch_consumers := [] |>))).
  { apply J_upd_chan_same; try reflexivity. apply fold_left_preserves; [intros; apply J_consumer_stop; auto|exact Hj]. }
  destruct (0 <? h); [apply J_handle_reject; exact H1|exact H1].
Qed.

Lemma keys_adel {V} q (l : list (string * V)) : NoDup (map fst l) -> NoDup (map fst (adel seqb q l)).
Proof.
  induction l as [|[k v] t IH]; cbn; auto. intros Hn. inversion Hn; subst. destruct (seqb q k); auto.
  cbn. constructor; auto. intros Hin. apply in_map_iff in Hin. destruct Hin as ([k' v'] & E & Hin). cbn in E. subst k'.
  apply (in_adel seqb) in Hin. apply H1. apply in_map_iff. exists (k, v'). auto.
Qed.
Lemma adel_notin {V} q (l : list (string * V)) : ~ In q (map fst l) -> adel seqb q l = l.
Proof.
  induction l as [|[k v] t IH]; cbn; auto. intros Hn. destruct (seqb q k) eqn:E.
  - apply seqb_spec in E. subst. exfalso. apply Hn. left. reflexivity.
  - f_equal. apply IH. intros X. apply Hn. right. exact X.
Qed.
Lemma rsumv_adel q v l : NoDup (map fst l) -> alookup seqb q l = Some v -> rsumv (adel seqb q l) = (rsumv l - Z.of_nat (nn v))%Z.
Proof.
  induction l as [|[k x] t IH]; cbn; [discriminate|]. intros Hn. inversion Hn; subst. destruct (seqb q k) eqn:E.
  - intros X. inversion X; subst. apply seqb_spec in E. subst. rewrite adel_notin by assumption. fold (rsumv t). unfold nn. lia.
  - intros X. cbn. fold (rsumv (adel seqb q t)). fold (rsumv t). rewrite (IH H2 X). lia.
Qed.

Lemma CN_delete_queue s s' qn qu : CN s -> get_queue s qn = Some qu ->
  UV s' = UV s -> ck s' = ck s -> QC s' = adel seqb qn (QC s) ->
  srv3 s' = ((srv_ready s - Z.of_nat (List.length (q_ready qu)))%Z, srv_unacked s, (srv_total s - Z.of_nat (List.length (q_ready qu)))%Z) ->
  CN s'.
Proof.
  intros [(A & B & C & D & E) Hk] Hq E1 E2 E3 E4. split; [|rewrite E2; exact Hk]. rewrite E1, E3, E4.
  assert (Hl : alookup seqb qn (QC s) = Some (qc qu)) by (rewrite QC_get, Hq; reflexivity).
  split; [|split; [|split; [|split]]]; cbn [fst snd].
  - intros qn0 i n r u t H0. rewrite (alookup_adel seqb seqb_spec) in H0. destruct (seqb qn0 qn); [discriminate|]. eauto.
  - exact B.
  - rewrite (rsumv_adel _ _ _ E Hl). unfold srv3 in C. cbn [fst snd] in C. rewrite C. unfold nn, qc. cbn. reflexivity.
  - unfold srv3 in *. cbn [fst snd] in *. lia.
  - apply keys_adel. exact E.
Qed.

Lemma J_cancel_fold (l : list (N * N * string)) : forall s evs, J s ->
  J (fst (fold_left (fun acc x => let '(s, evs) := acc in let '(s', e) := consumer_cancel s x in (s', evs ++ e)) l (s, evs))).
Proof. induction l as [|[[c h] tag] t IH]; intros s evs H; cbn [fold_left]; auto. cbn [consumer_cancel]. apply IH. apply J_consumer_stop. exact H. Qed.

Lemma QC_cancel_fold (l : list (N * N * string)) : forall s evs,
  QC (fst (fold_left (fun acc x => let '(s, evs) := acc in let '(s', e) := consumer_cancel s x in (s', evs ++ e)) l (s, evs))) = QC s.
Proof.
  induction l as [|[[c h] tag] t IH]; intros s evs; cbn [fold_left]; [reflexivity|].
  cbn [consumer_cancel]. rewrite IH. exact (proj1 (XS_consumer_stop s c h tag)).
Qed.

Theorem J_vhost_delete_queue s qn iu ie : J s -> J (fst (fst (vhost_delete_queue false s qn iu ie))).
Proof.
  intros Hj. assert (Hj0 := Hj). destruct Hj0 as (Hc & Hq & Hp & Hn).
  split; [apply CI_vhost_delete_queue; exact Hc|]. split; [apply QI_vhost_delete_queue; exact Hq|]. split.
  { eapply PRI_veq; [apply veq_hn, hn_vhost_delete_queue|apply IG_vhost_delete_queue; exact Hp]. }
  unfold vhost_delete_queue. destruct (get_queue s qn) as [qu|] eqn:Eq; [|exact Hn].
  destruct (_ || _); [exact Hn|].
  pose proof (J_cancel_fold (q_consumers qu) s [] Hj) as H1.
  pose proof (QC_cancel_fold (q_consumers qu) s []) as Hqc.
  destruct (fold_left _ (q_consumers qu) (s, [])) as [s1 e1]. cbn [fst] in *.
  destruct H1 as (_ & Hq1 & _ & Hn1).
  assert (Hg1 : exists qu1, get_queue s1 qn = Some qu1 /\ qc qu1 = qc qu).
  { pose proof (QC_get s1 qn) as X. rewrite Hqc, QC_get, Eq in X. cbn [option_map] in X. destruct (get_queue s1 qn) as [qu1|]; [|discriminate]. exists qu1. split; [reflexivity|]. cbn [option_map] in X. congruence. }
  destruct Hg1 as (qu1 & Hg1 & Hqq).
  eapply (CN_delete_queue s1 _ qn qu1 Hn1 Hg1).
  - apply UV_same_conns. destruct (q_durable qu); reflexivity.
  - apply ck_same_conns. destruct (q_durable qu); reflexivity.
  - unfold QC.
    match goal with |- BrokerConserveView.vmap qc (queues (?st <| queues := ?l |>)) = _ => change (queues (st <| queues := l |>)) with l end.
    rewrite vmap_adel. f_equal. destruct (q_durable qu); reflexivity.
  - pose proof (allq_get _ _ _ _ Hq Eq) as (Ql & _). unfold qc in Hqq. inversion Hqq as [[I1 I2 I3 I4 I5]]. rewrite I2, <- Ql.
    unfold srv3. destruct (q_durable qu); reflexivity.
Qed.

(* ------------------------------------------------------------------ *)
(* Part F: the end of a connection *)
Definition K (s : state) : Prop := BI s /\ J s.

Lemma K_channel_close cfg s c h : K s -> K (channel_close cfg s c h).
Proof. intros [Hb Hj]. split; [apply BI_channel_close; [exact (proj1 Hj)|exact Hb]|apply J_channel_close; exact Hj]. Qed.
Lemma K_vhost_delete_queue s qn iu ie : K s -> K (fst (fst (vhost_delete_queue false s qn iu ie))).
Proof. intros [Hb Hj]. split; [apply BI_vhost_delete_queue; exact Hb|apply J_vhost_delete_queue; exact Hj]. Qed.

Definition closedat (c0 h0 : N) (c h : N) (ch : channel) : Prop := c = c0 -> h = h0 -> ch_status ch = ChClosed.
Lemma closedat_keep c0 h0 : forall c h ch ch',
  ch_unacked ch' = ch_unacked ch -> ch_status ch' = ch_status ch -> ch_dtag ch <= ch_dtag ch' ->
  (ch_consumers ch = [] -> ch_consumers ch' = []) -> closedat c0 h0 c h ch -> closedat c0 h0 c h ch'.
Proof. unfold closedat. intros c h ch ch' _ E _ _ H Hc Hh. rewrite E. auto. Qed.
Lemma closedat_del c0 h0 : forall c h ch tag, closedat c0 h0 c h ch -> closedat c0 h0 c h (del_unacked ch tag).
Proof. unfold closedat. intros c h ch tag H Hc Hh. cbn. auto. Qed.

Lemma closedat_channel_close cfg s c0 h0 c h :
  allch (closedat c0 h0) s \/ (c = c0 /\ h = h0) -> allch (closedat c0 h0) (channel_close cfg s c h).
Proof.
  intros H. unfold channel_close. destruct (get_chan s c h) as [ch|] eqn:Eg.
  2:{ destruct H as [H|[-> ->]]; [exact H|]. intros c' h' ch' Hg -> ->. congruence. }
  set (s1 := fold_left _ (ch_consumers ch) s).
  assert (H1 : allch (closedat c0 h0) s1 \/ (c = c0 /\ h = h0)).
  { destruct H as [H|H]; [left|right; exact H]. subst s1. apply fold_left_preserves; auto.
    intros. apply (G_consumer_stop _ (closedat_keep c0 h0)). auto. }
  clearbody s1.
  set (s2 := upd_chan s1 c h (fun ch => ch <| ch_consumers := [] |>)).
  assert (H2 : allch (closedat c0 h0) s2 \/ (c = c0 /\ h = h0)).
  { destruct H1 as [H1|H1]; [left|right; exact H1]. subst s2. apply allch_upd_chan; auto. }
  clearbody s2.
  set (s3 := if 0 <? h then fst (handle_reject cfg s2 c h 0 true true 60 120) else s2).
  assert (H3 : allch (closedat c0 h0) s3 \/ (c = c0 /\ h = h0)).
  { destruct H2 as [H2|H2]; [left|right; exact H2]. subst s3. destruct (0 <? h); auto.
    apply (G_handle_reject _ (closedat_keep c0 h0) (closedat_del c0 h0)). exact H2. }
  clearbody s3.
  intros c' h' ch' Hg Hc Hh. subst c' h'. rewrite get_chan_upd_chan in Hg.
  destruct ((c0 =? c) && (h0 =? h)) eqn:Eb.
  - destruct (get_chan s3 c h); cbn in Hg; inversion Hg. reflexivity.
  - destruct H3 as [H3|[-> ->]]; [exact (H3 _ _ _ Hg eq_refl eq_refl)|]. rewrite !N.eqb_refl in Eb. discriminate.
Qed.
Lemma closedat_vdq b s qn iu ie c0 h0 : allch (closedat c0 h0) s -> allch (closedat c0 h0) (fst (fst (vhost_delete_queue b s qn iu ie))).
Proof.
  intros H. unfold vhost_delete_queue. destruct (get_queue s qn) as [qu|] eqn:Eq; auto.
  destruct (_ || _).
  - cbn [fst]. destruct b; [eapply allch_same_conns; [apply conns_set_queue|exact H]|exact H].
  - assert (Hf : forall l s0 evs, allch (closedat c0 h0) s0 ->
       allch (closedat c0 h0) (fst (fold_left (fun acc x => let '(s, evs) := acc in let '(s', e) := consumer_cancel s x in (s', evs ++ e)) l (s0, evs)))).
    { induction l as [|[[c h] tag] t IH]; intros s0 evs H0; cbn [fold_left]; auto. cbn [consumer_cancel]. apply IH.
      apply (G_consumer_stop _ (closedat_keep c0 h0)). exact H0. }
    specialize (Hf (q_consumers qu) s [] H).
    destruct (fold_left _ (q_consumers qu) (s, [])) as [s1 e1]. cbn [fst] in *.
    eapply allch_same_conns; [|exact Hf]. destruct (q_durable qu); reflexivity.
Qed.

Lemma flat_map_nil {A B} (f : A -> list B) l : (forall x, In x l -> f x = []) -> flat_map f l = [].
Proof. induction l as [|a t IH]; cbn; auto. intros H. rewrite (H a (or_introl eq_refl)). cbn. apply IH. intros x Hx. apply H. right. exact Hx. Qed.

Lemma AU_del_conn s c : WFk (ck s) -> (forall h ch, get_chan s c h = Some ch -> ch_unacked ch = []) ->
  all_unacked (s <| conns := adel N.eqb c (conns s) |>) = all_unacked s.
Proof.
  intros [W1 W2] Hu. unfold all_unacked. cbn [conns].
  assert (Hc : forall cn, get_conn s c = Some cn -> chan_unacked_all cn = []).
  { intros cn Hg. unfold chan_unacked_all. apply flat_map_nil. intros [h ch] Hin. cbn.
    apply (Hu h). unfold get_chan. rewrite Hg.
    apply (nodup_in_alookup N.eqb Neqb_spec); [|exact Hin].
    apply (W2 c). unfold ck, vmap. apply in_map_iff. exists (c, cn). split; [reflexivity|]. eapply alookup_in; [apply Neqb_spec|exact Hg]. }
  unfold ck in W1. rewrite keys_vmap in W1. unfold get_conn in Hc. clear W2 Hu.
  induction (conns s) as [|[k cn] t IH]; cbn; auto. cbn in W1. inversion W1 as [|? ? Hni Hnd]; subst.
  cbn in Hc. destruct (c =? k) eqn:E.
  - apply N.eqb_eq in E. subst k. rewrite (Hc cn eq_refl). cbn.
    assert (X : adel N.eqb c t = t).
    { clear -Hni. induction t as [|[k v] r IHr]; cbn; auto. destruct (c =? k) eqn:E.
      - apply N.eqb_eq in E. subst. exfalso. apply Hni. left. reflexivity.
      - f_equal. apply IHr. intros X. apply Hni. right. exact X. }
    rewrite X. reflexivity.
  - cbn. f_equal. apply IH; auto.
Qed.

Lemma WFk_adel c l : WFk l -> WFk (adel N.eqb c l).
Proof.
  intros [W1 W2]. split.
  - clear W2. induction l as [|[k v] t IH]; cbn; auto. cbn in W1. inversion W1; subst. destruct (c =? k); auto.
    cbn. constructor; auto. intros Hin. apply in_map_iff in Hin. destruct Hin as ([k' v'] & E & Hin). cbn in E. subst k'.
    apply (in_adel N.eqb) in Hin. apply H1. apply in_map_iff. exists (k, v'). auto.
  - intros c' ks Hin. apply (in_adel N.eqb) in Hin. eauto.
Qed.

Section ConnClose.
Variables (cfg : config) (fx : fixes).
Hypothesis Hst : fx_stage fx = true.
Hypothesis Hco : fx_chan_open fx = true.
Hypothesis Hcr : fx_closeok_releases fx = true.
Hypothesis Hdc : fx_delete_checks_first fx = true.

Theorem K_conn_close s c : K s -> K (fst (conn_close cfg fx s c)).
Proof.
  intros Hk. unfold conn_close. destruct (get_conn s c) as [cn|] eqn:Ec; [|exact Hk].
  set (ids := sort_desc_N (map fst (cn_chans cn))).
  assert (Hids : forall h, get_chan s c h <> None -> In h ids).
  { intros h Hg. unfold get_chan in Hg. rewrite Ec in Hg. destruct (alookup N.eqb h (cn_chans cn)) as [ch|] eqn:Eh; [|congruence].
    apply (alookup_in N.eqb Neqb_spec) in Eh. apply (Permutation_in _ (Permutation_sym (sort_desc_N_perm _))).
    apply in_map_iff. exists (h, ch). auto. }
  assert (X : forall l s0, K s0 ->
              K (fold_left (fun s h => channel_close cfg s c h) l s0) /\
              forall h, (In h l \/ allch (closedat c h) s0) -> allch (closedat c h) (fold_left (fun s h => channel_close cfg s c h) l s0)).
  { induction l as [|h0 r IH]; intros s0 H0; cbn [fold_left].
    - split; auto. intros h [[]|Hn]; exact Hn.
    - destruct (IH _ (K_channel_close cfg s0 c h0 H0)) as [A B]. split; auto.
      intros h [[E|Hin]|Hn]; apply B; auto.
      + right. apply closedat_channel_close. right. auto.
      + right. apply closedat_channel_close. left. exact Hn. }
  destruct (X ids s Hk) as [H1 N1]. clear X.
  assert (N1' : forall h, allch (closedat c h) (fold_left (fun s h => channel_close cfg s c h) ids s)).
  { intros h. apply N1. destruct (get_chan s c h) eqn:E; [left; apply Hids; congruence|right]. intros c' h' ch' Hg -> ->. congruence. }
  clear N1 Hids. set (s1 := fold_left _ ids s) in *. clearbody s1.
  set (owned := map fst (filter _ (queues s1))). clearbody owned. rewrite Hdc. cbn [negb].
  assert (X : K (fst (fold_left (fun acc qn => let '(s, evs) := acc in
                                             let '(s', e, _) := vhost_delete_queue false s qn false false in
                                             (s', evs ++ e)) owned (s1, []))) /\
              forall h, allch (closedat c h) (fst (fold_left (fun acc qn => let '(s, evs) := acc in
                                             let '(s', e, _) := vhost_delete_queue false s qn false false in
                                             (s', evs ++ e)) owned (s1, [])))).
  { generalize (@nil event). revert s1 H1 N1'. induction owned as [|qn r IH]; intros s1 H1 N1 evs; cbn [fold_left fst]; [auto|].
    pose proof (K_vhost_delete_queue s1 qn false false H1) as H2.
    pose proof (fun h => closedat_vdq false s1 qn false false c h (N1 h)) as N2.
    destruct (vhost_delete_queue false s1 qn false false) as [[s2 e2] r2]. cbn [fst] in *. apply IH; auto. }
  destruct X as [H2 N2]. destruct (fold_left _ owned (s1, [])) as [s2 e2]. cbn [fst] in *.
  destruct H2 as (Hb & Hc & Hq & Hp & Hn).
  assert (Hu : forall h ch, get_chan s2 c h = Some ch -> ch_unacked ch = []).
  { intros h ch Hg. apply (Hb _ _ _ Hg). left. exact (N2 h _ _ _ Hg eq_refl eq_refl). }
  split; [apply allch_del_conn; exact Hb|]. split; [apply allch_del_conn; exact Hc|]. split; [exact Hq|]. split.
  - eapply PRI_veq; [apply veq_hn; reflexivity|]. apply (IG_of_chan _ s2); [reflexivity|apply allch_del_conn; exact (proj1 Hp)|exact Hp].
  - destruct Hn as [Hv Hw]. split.
    + unfold UV. rewrite (AU_del_conn s2 c Hw Hu). exact Hv.
    + unfold ck. change (conns (s2 <| conns := adel N.eqb c (conns s2) |>)) with (adel N.eqb c (conns s2)). rewrite vmap_adel. apply WFk_adel. exact Hw.
Qed.
End ConnClose.

(* ------------------------------------------------------------------ *)
(* Part G: deliveries.  Rewriting kit: how the elementary updates act on the components CN reads *)
Lemma gq_upd_chan s c h f q : get_queue (upd_chan s c h f) q = get_queue s q.
Proof. unfold get_queue. rewrite queues_upd_chan. reflexivity. Qed.
Lemma gq_set_chan s c h ch q : get_queue (set_chan s c h ch) q = get_queue s q.
Proof. unfold get_queue. rewrite queues_set_chan. reflexivity. Qed.
Lemma gq_upd_queue_same s q f : get_queue (upd_queue s q f) q = option_map f (get_queue s q).
Proof.
  unfold upd_queue. destruct (get_queue s q) as [qu|] eqn:E; cbn [option_map]; [|exact E].
  rewrite get_queue_set_queue', (proj2 (seqb_spec _ _) eq_refl). reflexivity.
Qed.
Lemma gc_upd_queue s q f c h : get_chan (upd_queue s q f) c h = get_chan s c h.
Proof. apply get_chan_same_conns. apply conns_upd_queue. Qed.
Lemma gm_upd_queue s q f x : get_msg (upd_queue s q f) x = get_msg s x.
Proof. unfold upd_queue. destruct (get_queue s q); reflexivity. Qed.
Lemma gm_upd_chan s c h f x : get_msg (upd_chan s c h f) x = get_msg s x.
Proof. unfold get_msg. rewrite heap_upd_chan. reflexivity. Qed.

Lemma QC_upd_chan s c h f : QC (upd_chan s c h f) = QC s.
Proof. unfold QC. rewrite queues_upd_chan. reflexivity. Qed.
Lemma QC_upd_queue s q f qu : get_queue s q = Some qu -> QC (upd_queue s q f) = aset seqb q (qc (f qu)) (QC s).
Proof. intros E. unfold upd_queue. rewrite E. apply QC_set_queue. Qed.
Lemma srv3_upd_chan s c h f : srv3 (upd_chan s c h f) = srv3 s.
Proof. exact (proj2 (NC_QC _ _ (NC_upd_chan s c h f))). Qed.
Lemma srv3_upd_queue s q f : srv3 (upd_queue s q f) = srv3 s.
Proof. unfold upd_queue. destruct (get_queue s q); reflexivity. Qed.
Lemma UV_upd_queue s q f : UV (upd_queue s q f) = UV s.
Proof. apply UV_same_conns. apply conns_upd_queue. Qed.
Lemma ck_upd_queue s q f : ck (upd_queue s q f) = ck s.
Proof. apply ck_same_conns. apply conns_upd_queue. Qed.

Lemma UV_append s c h ch x : get_chan s c h = Some ch ->
  exists P Q, UV s = P ++ Q /\ UV (upd_chan s c h (fun ch => ch <| ch_unacked ::= fun l => l ++ [x] |>)) = P ++ uk x :: Q.
Proof.
  intros Eg. unfold upd_chan. rewrite Eg.
  destruct (AU_set_chan s c h ch (ch <| ch_unacked ::= fun l => l ++ [x] |>) Eg) as (A & B & E1 & E2).
  exists (map uk (A ++ ch_unacked ch)), (map uk B). unfold UV. rewrite E1, E2. cbn [ch_unacked].
  change (ch_unacked (ch <| ch_unacked ::= fun l => l ++ [x] |>)) with (ch_unacked ch ++ [x]).
  rewrite !List.map_app. cbn [map]. rewrite <- !app_assoc. cbn [app]. split; reflexivity.
Qed.

(* the record of one queue, the server counters and (by at most one entry of that queue) the unsettled deliveries change *)
Lemma CN_change s s' q qu v' (ins : list (string * N)) P Q :
  CN s -> get_queue s q = Some qu -> QC s' = aset seqb q v' (QC s) -> fst (fst (fst (fst v'))) = q_id qu -> ck s' = ck s ->
  UV s = P ++ Q -> UV s' = P ++ ins ++ Q -> (forall k, In k ins -> k = (q, q_id qu)) ->
  snd (fst v') = (q_munacked qu + Z.of_nat (List.length ins))%Z -> snd v' = (snd (fst (fst v')) + snd (fst v'))%Z ->
  srv3 s' = ((srv_ready s - Z.of_nat (List.length (q_ready qu)) + Z.of_nat (nn v'))%Z, (srv_unacked s + Z.of_nat (List.length ins))%Z,
             (srv_ready s - Z.of_nat (List.length (q_ready qu)) + Z.of_nat (nn v') + (srv_unacked s + Z.of_nat (List.length ins)))%Z) ->
  CN s'.
Proof.
  intros [H Hk] Hq E1 Ei E2 E3 E4 Hins Hu Ht E5. split; [|rewrite E2; exact Hk].
  destruct v' as [[[[i' n'] r'] u'] t']. cbn [fst snd nn] in *. subst i'. rewrite E1, E4, E5.
  assert (Hl : alookup seqb q (QC s) = Some (qc qu)) by (rewrite QC_get, Hq; reflexivity).
  assert (Hc : forall k, cntk k (P ++ ins ++ Q) = (cntk k (P ++ Q) + (if keqb k (q, q_id qu) then Z.of_nat (List.length ins) else 0))%Z).
  { intros k. rewrite !cntk_app. assert (X : cntk k ins = if keqb k (q, q_id qu) then Z.of_nat (List.length ins) else 0%Z).
    { clear -Hins. induction ins as [|a t IH]; [destruct (keqb _ _); reflexivity|]. rewrite cntk_cons, IH by (intros; apply Hins; right; auto).
      rewrite (Hins a (or_introl eq_refl)). destruct (keqb k (q, q_id qu)); cbn [List.length]; lia. }
    rewrite X. lia. }
  destruct H as (A & B & C & D & E). rewrite E3 in A, B.
  destruct (A _ _ _ _ _ _ Hl) as [A1 A2].
  eapply CNV_upd; [exact (conj A (conj B (conj C (conj D E))))|exact Hl| | | | | |]; cbn [fst snd].
  - intros qn0 i0 Hne. rewrite Hc, keqb_false; [lia|exact Hne].
  - rewrite Hc, keqb_refl. lia.
  - exact Ht.
  - rewrite !app_length in *. unfold srv3 in B. cbn [fst snd] in B. lia.
  - unfold srv3. cbn [fst snd]. reflexivity.
  - lia.
Qed.

Lemma qc_popped rest qu : qc (popped rest qu) = (q_id qu, List.length rest, Z.pred (q_mready qu), q_munacked qu, q_mtotal qu).
Proof. destruct (popped_call rest qu) as [b ->]. reflexivity. Qed.
Lemma popped_active rest qu : q_active (popped rest qu) = q_active qu.
Proof. apply popped_keeps. Qed.

Lemma CN_deliver_ack s c h q qu u rest (mk : N -> N -> unacked) d :
  CN s -> get_queue s q = Some qu -> q_ready qu = u :: rest -> get_chan s c h <> None ->
  (forall d i, u_queue (mk d i) = q /\ u_qid (mk d i) = i) ->
  CN (upd_queue (upd_chan (upd_chan (upd_queue s q (popped rest)) c h (fun ch => ch <| ch_dtag := d |>)) c h
                   (fun ch => ch <| ch_unacked ::= fun l => l ++ [mk d (qid_of (upd_chan (upd_queue s q (popped rest)) c h (fun ch => ch <| ch_dtag := d |>)) q)] |>)
                   <| srv_unacked ::= Z.succ |>) q (fun qu => qu <| q_munacked ::= Z.succ |>) <| srv_ready ::= Z.pred |>).
Proof.
  intros Hn Hq Hr Hg Hmk.
  set (s1 := upd_queue s q (popped rest)).
  assert (G1 : get_queue s1 q = Some (popped rest qu)) by (subst s1; rewrite gq_upd_queue_same, Hq; reflexivity).
  set (s2 := upd_chan s1 c h (fun ch => ch <| ch_dtag := d |>)).
  assert (G2 : get_queue s2 q = Some (popped rest qu)) by (subst s2; rewrite gq_upd_chan; exact G1).
  assert (Eid : qid_of s2 q = q_id qu) by (unfold qid_of; rewrite G2; apply popped_keeps).
  rewrite Eid. set (x := mk d (q_id qu)).
  assert (C2 : exists ch2, get_chan s2 c h = Some ch2).
  { subst s2. rewrite get_chan_upd_chan, !N.eqb_refl. cbn [andb]. subst s1. rewrite gc_upd_queue. destruct (get_chan s c h); [eexists; reflexivity|congruence]. }
  destruct C2 as (ch2 & C2).
  destruct (UV_append s2 c h ch2 x C2) as (P & Q & U1 & U2).
  set (s3 := upd_chan s2 c h (fun ch => ch <| ch_unacked ::= fun l => l ++ [x] |>)) in *.
  assert (G3 : get_queue (s3 <| srv_unacked ::= Z.succ |>) q = Some (popped rest qu)) by (change (get_queue s3 q = Some (popped rest qu)); subst s3; rewrite gq_upd_chan; exact G2).
  destruct (CN_queue s q qu Hn Hq) as [M1 M2].
  eapply (CN_change s _ q qu (q_id qu, List.length rest, Z.pred (q_mready qu), Z.succ (q_munacked qu), q_mtotal qu) [(q, q_id qu)] P Q Hn Hq).
  - change (QC (upd_queue (s3 <| srv_unacked ::= Z.succ |>) q (fun qu0 => qu0 <| q_munacked ::= Z.succ |>)) = aset seqb q (q_id qu, List.length rest, Z.pred (q_mready qu), Z.succ (q_munacked qu), q_mtotal qu) (QC s)).
    rewrite (QC_upd_queue _ _ _ _ G3).
    change (QC (s3 <| srv_unacked ::= Z.succ |>)) with (QC s3). subst s3 s2. rewrite !QC_upd_chan. subst s1. rewrite (QC_upd_queue _ _ _ _ Hq).
    rewrite (aset_aset seqb seqb_spec). f_equal. destruct (popped_call rest qu) as [b ->]. reflexivity.
  - reflexivity.
  - change (ck (upd_queue (s3 <| srv_unacked ::= Z.succ |>) q (fun qu0 => qu0 <| q_munacked ::= Z.succ |>)) = ck s).
    rewrite ck_upd_queue. change (ck s3 = ck s). subst s3 s2. rewrite !ck_upd_chan. subst s1. apply ck_upd_queue.
  - rewrite <- U1. subst s2. rewrite UV_upd_chan_same by reflexivity. subst s1. symmetry. apply UV_upd_queue.
  - change (UV (upd_queue (s3 <| srv_unacked ::= Z.succ |>) q (fun qu0 => qu0 <| q_munacked ::= Z.succ |>)) = P ++ [(q, q_id qu)] ++ Q).
    rewrite UV_upd_queue. change (UV s3 = P ++ [(q, q_id qu)] ++ Q). rewrite U2. unfold uk, x. destruct (Hmk d (q_id qu)) as [-> ->]. reflexivity.
  - intros k [<-|[]]. reflexivity.
  - cbn [fst snd List.length]. lia.
  - cbn [fst snd]. lia.
  - assert (S3 : srv3 s3 = srv3 s) by (subst s3 s2; rewrite !srv3_upd_chan; subst s1; apply srv3_upd_queue).
    unfold srv3 in S3 |- *. inversion S3 as [[S31 S32 S33]].
    assert (S5 : forall st f, srv3 (upd_queue st q f) = srv3 st) by (intros; apply srv3_upd_queue).
    pose proof (S5 (s3 <| srv_unacked ::= Z.succ |>) (fun qu0 => qu0 <| q_munacked ::= Z.succ |>)) as S6. unfold srv3 in S6. inversion S6 as [[S61 S62 S63]].
    cbn [srv_ready srv_unacked srv_total]. 
    change (srv_ready (upd_queue (s3 <| srv_unacked ::= Z.succ |>) q (fun qu0 => qu0 <| q_munacked ::= Z.succ |>) <| srv_ready ::= Z.pred |>))
      with (Z.pred (srv_ready (upd_queue (s3 <| srv_unacked ::= Z.succ |>) q (fun qu0 => qu0 <| q_munacked ::= Z.succ |>)))).
    change (srv_unacked (upd_queue (s3 <| srv_unacked ::= Z.succ |>) q (fun qu0 => qu0 <| q_munacked ::= Z.succ |>) <| srv_ready ::= Z.pred |>))
      with (srv_unacked (upd_queue (s3 <| srv_unacked ::= Z.succ |>) q (fun qu0 => qu0 <| q_munacked ::= Z.succ |>))).
    change (srv_total (upd_queue (s3 <| srv_unacked ::= Z.succ |>) q (fun qu0 => qu0 <| q_munacked ::= Z.succ |>) <| srv_ready ::= Z.pred |>))
      with (srv_total (upd_queue (s3 <| srv_unacked ::= Z.succ |>) q (fun qu0 => qu0 <| q_munacked ::= Z.succ |>))).
    rewrite S61, S62, S63.
    change (srv_ready (s3 <| srv_unacked ::= Z.succ |>)) with (srv_ready s3). change (srv_unacked (s3 <| srv_unacked ::= Z.succ |>)) with (Z.succ (srv_unacked s3)).
    change (srv_total (s3 <| srv_unacked ::= Z.succ |>)) with (srv_total s3). rewrite S31, S32, S33.
    destruct Hn as [(_ & _ & _ & D & _) _]. unfold srv3 in D. cbn [fst snd] in D. rewrite Hr. unfold nn. cbn [fst snd List.length].
    f_equal; [f_equal|]; lia.
Qed.

Lemma QC_upd_queue_munacked s q i n r u t : alookup seqb q (QC s) = Some (i, n, r, u, t) ->
  QC (upd_queue s q (fun qu => qu <| q_munacked ::= Z.succ |>)) = aset seqb q (i, n, r, Z.succ u, t) (QC s).
Proof.
  intros Hl. destruct (QC_lookup _ _ _ _ _ _ _ Hl) as (qu & Hg & <- & <- & <- & <- & <-). rewrite (QC_upd_queue _ _ _ _ Hg). reflexivity.
Qed.

Lemma srv3_set_ready s f : srv3 (s <| srv_ready ::= f |>) = (f (srv_ready s), srv_unacked s, srv_total s). Proof. reflexivity. Qed.
Lemma srv3_set_unacked s f : srv3 (s <| srv_unacked ::= f |>) = (srv_ready s, f (srv_unacked s), srv_total s). Proof. reflexivity. Qed.

(* no-ack delivery: the message leaves the queue and the broker (fx_noack_total_once) *)
Lemma CN_noack_core s q qu u rest (X : state) (m : msg) :
  CN s -> get_queue s q = Some qu -> q_ready qu = u :: rest -> q_active qu = true ->
  get_queue X q = Some (popped rest qu) -> get_msg X u = Some m ->
  QC X = aset seqb q (qc (popped rest qu)) (QC s) -> UV X = UV s -> ck X = ck s -> srv3 X = srv3 s ->
  forall Y, QC Y = QC (queue_ackmsg X q u) -> UV Y = UV (queue_ackmsg X q u) -> ck Y = ck (queue_ackmsg X q u) -> srv3 Y = srv3 (queue_ackmsg X q u) ->
  CN (upd_queue (Y <| srv_unacked ::= Z.succ |>) q (fun qu => qu <| q_munacked ::= Z.succ |>) <| srv_ready ::= Z.pred |>).
Proof.
  intros Hn Hq Hr Ha GX MX QX UX KX SX Y QY UY KY SY.
  assert (Ha' : q_active (popped rest qu) = true) by (rewrite popped_active; exact Ha).
  destruct (queue_ackmsg_eff X q u (popped rest qu) m GX MX Ha') as (F1 & F2 & F3).
  rewrite F2 in QY. rewrite F1 in UY. rewrite F3 in SY.
  assert (KA : ck (queue_ackmsg X q u) = ck X) by (apply ck_same_conns; apply (proj1 (proj2 conns_queue_ops))). rewrite KA in KY.
  rewrite QX, (aset_aset seqb seqb_spec) in QY.
  assert (Hpop : q_id (popped rest qu) = q_id qu /\ q_mready (popped rest qu) = Z.pred (q_mready qu) /\ q_munacked (popped rest qu) = q_munacked qu /\
                 q_mtotal (popped rest qu) = q_mtotal qu /\ q_ready (popped rest qu) = rest).
  { destruct (popped_call rest qu) as [b ->]. cbn. auto. }
  destruct Hpop as (P1 & P2 & P3 & P4 & P5). rewrite P1, P2, P3, P4, P5 in QY.
  destruct (CN_queue s q qu Hn Hq) as [M1 M2].
  eapply (CN_change s _ q qu (q_id qu, List.length rest, Z.pred (q_mready qu), q_munacked qu, Z.pred (q_mtotal qu)) [] [] (UV s) Hn Hq).
  - change (QC (upd_queue (Y <| srv_unacked ::= Z.succ |>) q (fun qu0 => qu0 <| q_munacked ::= Z.succ |>)) = aset seqb q (q_id qu, List.length rest, Z.pred (q_mready qu), q_munacked qu, Z.pred (q_mtotal qu)) (QC s)).
    assert (Hl : alookup seqb q (QC (Y <| srv_unacked ::= Z.succ |>)) = Some (q_id qu, List.length rest, Z.pred (q_mready qu), Z.pred (q_munacked qu), Z.pred (q_mtotal qu))).
    { change (QC (Y <| srv_unacked ::= Z.succ |>)) with (QC Y). rewrite QY, (alookup_aset seqb seqb_spec), (proj2 (seqb_spec _ _) eq_refl). reflexivity. }
    etransitivity; [exact (QC_upd_queue_munacked _ _ _ _ _ _ _ Hl)|]. change (QC (Y <| srv_unacked ::= Z.succ |>)) with (QC Y). rewrite QY, (aset_aset seqb seqb_spec).
    f_equal. f_equal. f_equal. lia.
  - reflexivity.
  - change (ck (upd_queue (Y <| srv_unacked ::= Z.succ |>) q (fun qu0 => qu0 <| q_munacked ::= Z.succ |>)) = ck s). rewrite ck_upd_queue.
    change (ck Y = ck s). congruence.
  - reflexivity.
  - change (UV (upd_queue (Y <| srv_unacked ::= Z.succ |>) q (fun qu0 => qu0 <| q_munacked ::= Z.succ |>)) = UV s). rewrite UV_upd_queue.
    change (UV Y = UV s). congruence.
  - intros k [].
  - cbn [fst snd List.length]. lia.
  - cbn [fst snd]. lia.
  - rewrite srv3_set_ready.
    pose proof (srv3_upd_queue (Y <| srv_unacked ::= Z.succ |>) q (fun qu0 => qu0 <| q_munacked ::= Z.succ |>)) as S6. rewrite srv3_set_unacked in S6.
    unfold srv3 in S6, SY, SX. inversion S6 as [[S61 S62 S63]]. inversion SY as [[Y1 Y2 Y3]]. inversion SX as [[X1 X2 X3]].
    rewrite S61, S62, S63, Y1, Y2, Y3, X1, X2, X3.
    destruct Hn as [(_ & _ & _ & D & _) _]. unfold srv3 in D. cbn [fst snd] in D. rewrite Hr. unfold nn. cbn [fst snd List.length].
    f_equal; [f_equal|]; lia.
Qed.

Lemma get_chan_view_some s s' c h : view s' = view s -> get_chan s c h <> None -> get_chan s' c h <> None.
Proof.
  intros Ev Hg. apply view_inv in Ev. destruct Ev as (A & _). pose proof (get_chan_proj s s' c h A) as X.
  destruct (get_chan s c h); [|congruence]. destruct (get_chan s' c h); [discriminate|discriminate].
Qed.

Lemma CN_wake s c h tag : CN s -> CN (fst (wake_consumer s c h tag)).
Proof. apply CN_frame_chan; [apply view_wake_consumer|apply NC_wake_consumer]. Qed.

Section Deliver.
Variables (cfg : config) (fx : fixes).
Hypothesis Hna : fx_noack_total_once fx = true.

Lemma CN_turn_rest s c h tag cm : J s -> get_chan s c h <> None -> CN (fst (turn_rest cfg fx s c h tag cm)).
Proof.
  intros (Hc & Hq & Hp & Hn) Hg. unfold turn_rest.
  destruct (get_queue s (c_queue cm)) as [qu|] eqn:Eq; [|exact Hn].
  pose proof (allq_get _ _ _ _ Hq Eq) as (_ & _ & _ & Ha). rewrite Ha. cbn [negb].
  destruct (q_ready qu) as [|u rest] eqn:Er; [exact Hn|].
  assert (Hu : get_msg s u <> None).
  { apply (allq_get _ _ _ _ (proj1 (proj2 Hp)) Eq). rewrite Er. left. reflexivity. }
  destruct (c_noack cm) eqn:En.
  - (* no-ack *)
    cbv zeta. rewrite Hna.
    match goal with |- CN (fst (let '(s2, _) := wake_consumer ?st c h tag in _)) => assert (X : CN st) end.
    2:{ pose proof (CN_wake _ c h tag X) as Y. destruct (wake_consumer _ c h tag). exact Y. }
    destruct (get_msg s u) as [m|] eqn:Em; [|congruence].
    set (X := upd_queue s (c_queue cm) (popped rest)).
    assert (GX : get_queue X (c_queue cm) = Some (popped rest qu)) by (subst X; rewrite gq_upd_queue_same, Eq; reflexivity).
    eapply (CN_noack_core s (c_queue cm) qu u rest X m Hn Eq Er Ha GX).
    + subst X. rewrite gm_upd_queue. exact Em.
    + subst X. apply QC_upd_queue. exact Eq.
    + subst X. apply UV_upd_queue.
    + subst X. apply ck_upd_queue.
    + subst X. apply srv3_upd_queue.
    + apply QC_upd_chan.
    + apply UV_upd_chan_same. reflexivity.
    + apply ck_upd_chan.
    + apply srv3_upd_chan.
  - (* ack *)
    destruct (reserve (cfg_rollback cfg) (window_list cfg s c h cm) (msg_size s u mod two32)) as [ok ws].
    set (s1 := store_windows cfg s c h tag ws).
    assert (N1 : CN s1) by (apply (CN_frame_chan s); [apply view_store_windows|apply NC_store_windows|exact Hn]).
    destruct ok; [|exact N1].
    match goal with |- CN (fst (let '(s2, _) := wake_consumer ?st c h tag in _)) => assert (X : CN st) end.
    2:{ pose proof (CN_wake _ c h tag X) as Y. destruct (wake_consumer _ c h tag). exact Y. }
    assert (G1 : get_queue s1 (c_queue cm) = Some qu) by (unfold get_queue in *; subst s1; rewrite queues_store_windows; exact Eq).
    assert (C1 : get_chan s1 c h <> None) by (apply (get_chan_view_some s); [apply view_store_windows|exact Hg]).
    apply (CN_deliver_ack s1 c h (c_queue cm) qu u rest
             (fun d i => {| u_tag := d; u_ctag := tag; u_queue := c_queue cm; u_qid := i; u_msg := u |})); auto.
Qed.

Theorem CN_consumer_turn s c h tag : J s -> CN (fst (consumer_turn cfg fx s c h tag)).
Proof.
  intros Hj. assert (Hn := proj2 (proj2 (proj2 Hj))). rewrite consumer_turn_eq. destruct (get_chan s c h) as [ch|] eqn:Ech; [|exact Hn].
  destruct (find_consumer ch tag) as [cm|] eqn:Ef; [|exact Hn]. destruct (negb (c_token cm)); [exact Hn|].
  cbv zeta. set (s0 := set_chan s c h _).
  assert (J0 : J s0) by (subst s0; eapply J_set_chan_same; [exact Ech| | |exact Hj]; reflexivity).
  assert (C0 : get_chan s0 c h <> None).
  { subst s0. rewrite get_chan_set_chan. pose proof (get_chan_conn _ _ _ _ Ech). destruct (get_conn s c); [|congruence]. rewrite !N.eqb_refl. discriminate. }
  clearbody s0.
  destruct (c_status cm); [apply CN_turn_rest; auto|exact (proj2 (proj2 (proj2 J0)))|apply CN_turn_rest; auto].
Qed.
End Deliver.

(* ------------------------------------------------------------------ *)
(* Part H: the method handlers *)
Definition FR (s : state) : Prop := forall u, In u (all_unacked s) -> u_qid u < next_qid s.

Lemma cntk_zero k l : (forall x, In x l -> x <> k) -> cntk k l = 0%Z.
Proof.
  intros H. unfold cntk. rewrite (filter_all_false (keqb k) l); [reflexivity|].
  intros x Hx. apply keqb_false. intros E. apply (H x Hx). congruence.
Qed.

Lemma CNV_new uv qv sv name i : CNV uv qv sv -> alookup seqb name qv = None -> cntk (name, i) uv = 0%Z ->
  CNV uv (aset seqb name (i, O, 0%Z, 0%Z, 0%Z) qv) sv.
Proof.
  intros (A & B & C & D & E) Hl Hz. split; [|split; [|split; [|split]]]; auto.
  - intros qn0 i0 n0 r0 u0 t0 H0. rewrite (alookup_aset seqb seqb_spec) in H0. destruct (seqb qn0 name) eqn:Eq; [|eauto].
    apply seqb_spec in Eq. subst qn0. inversion H0; subst. rewrite Hz. split; reflexivity.
  - rewrite (rsumv_fresh _ _ _ Hl). unfold nn. cbn. lia.
  - rewrite (keys_aset seqb seqb_spec), Hl. apply NoDup_snoc; [exact E|]. apply (alookup_none_notin seqb seqb_spec). exact Hl.
Qed.

Lemma UV_upd_chan_uk s c h f : (forall ch, map uk (ch_unacked (f ch)) = map uk (ch_unacked ch)) -> UV (upd_chan s c h f) = UV s.
Proof.
  intros Hf. unfold upd_chan. destruct (get_chan s c h) as [ch|] eqn:Eg; [|reflexivity].
  destruct (AU_set_chan s c h ch (f ch) Eg) as (A & B & E1 & E2). unfold UV. rewrite E1, E2, !List.map_app, Hf. reflexivity.
Qed.
Lemma uk_orphan tag l : map uk (map (orphan tag) l) = map uk l.
Proof. rewrite List.map_map. apply map_ext. intros u. unfold uk, orphan. destruct (seqb (u_ctag u) tag); reflexivity. Qed.

Lemma AU_set_stage s c st : all_unacked (set_stage s c st) = all_unacked s.
Proof.
  unfold set_stage. destruct (get_conn s c) as [cn|] eqn:Ec; [|reflexivity]. unfold all_unacked.
  change (flat_map (fun kc : N * conn => chan_unacked_all (snd kc)) (aset N.eqb c (cn <| cn_stage := st |>) (conns s)) =
          flat_map (fun kc : N * conn => chan_unacked_all (snd kc)) (conns s)).
  destruct (flat_map_aset_split N.eqb Neqb_spec chan_unacked_all c cn (cn <| cn_stage := st |>) (conns s) Ec) as (A & B & E1 & E2).
  rewrite E1, E2. reflexivity.
Qed.
Lemma CN_set_stage s c st : CN s -> CN (set_stage s c st).
Proof.
  destruct (NC_QC _ _ (NC_set_stage s c st)). apply CN_frame; auto; [unfold UV; rewrite AU_set_stage; reflexivity|].
  unfold set_stage, ck. destruct (get_conn s c) as [cn|] eqn:Ec; [|reflexivity].
  change (conns (s <| conns := aset N.eqb c (cn <| cn_stage := st |>) (conns s) |>)) with (aset N.eqb c (cn <| cn_stage := st |>) (conns s)). rewrite vmap_aset.
  apply (aset_same N.eqb Neqb_spec). rewrite alookup_vmap. unfold get_conn in Ec. rewrite Ec. reflexivity.
Qed.

Section Methods.
Variables (cfg : config) (fx : fixes).
Hypothesis Hna : fx_noack_total_once fx = true.
Hypothesis Hcr : fx_closeok_releases fx = true.
Hypothesis Hdc : fx_delete_checks_first fx = true.

Theorem CN_handle_method s c h m : K s -> FR s -> CN (fst (fst (handle_method cfg fx s c h m))).
Proof.
  intros [Hb Hj] Hfr. assert (Hj0 := Hj). destruct Hj0 as (Hc & Hq & Hp & Hn).
  unfold handle_method. destruct (get_chan s c h) as [ch|] eqn:Ech; [|exact Hn].
  assert (Hgn : get_chan s c h <> None) by congruence.
  destruct m; unfold ok, refuse.
  - (* MChannelOpen *) destruct (ch_status ch) eqn:Es; cbn [fst]; try exact Hn; try (eapply CN_set_chan_same; [exact Ech|reflexivity|exact Hn]).
    eapply CN_set_chan_same; [exact Ech| |exact Hn]. destruct (fx_reopen_resets fx); [|reflexivity].
    cbn. symmetry. apply (Hb _ _ _ Ech). left. exact Es.
  - cbn [fst]. apply J_channel_close. exact Hj.
  - cbn [fst]. rewrite Hcr. apply J_channel_close. exact Hj.
  - (* MChannelFlow *) cbn [fst]. destruct (Bool.eqb _ _); [exact Hn|]. destruct a; (eapply CN_set_chan_same; [exact Ech|reflexivity|exact Hn]).
  - (* MExDeclare *) destruct (extype_of type); [|exact Hn].
    repeat match goal with |- context [if ?b then _ else _] => destruct b end; cbn [fst]; auto.
    all: repeat match goal with |- context [match ?x with _ => _ end] => destruct x end; cbn [fst]; auto.
    all: try (eapply CN_frame; [| | | |exact Hn]; reflexivity).
  - destruct (fx_not_impl fx); exact Hn.
  - (* MQDeclare *) destruct (seqb name ""); [exact Hn|].
    destruct (queue_found s name) as [qu|] eqn:Ef.
    + repeat match goal with |- context [if ?b then _ else _] => destruct b end; cbn [fst]; auto.
    + destruct passive; [destruct nowait; exact Hn|]. cbn [fst].
      pose proof (queue_found_none _ _ Hq Ef) as Eg.
      destruct Hn as [Hv Hk]. split; [|exact Hk].
      match goal with |- CNV (UV ?st) (QC ?st) (srv3 ?st) =>
        change (UV st) with (UV s); change (srv3 st) with (srv3 s);
        change (QC st) with (QC (set_queue (s <| next_qid ::= N.succ |>) name (new_queue (next_qid s) c dur excl ad))) end.
      rewrite QC_set_queue. change (QC (s <| next_qid ::= N.succ |>)) with (QC s).
      apply CNV_new; [exact Hv|rewrite QC_get, Eg; reflexivity|].
      apply cntk_zero. intros x Hx E. unfold UV in Hx. apply in_map_iff in Hx. destruct Hx as (u & Eu & Hu). subst x. unfold uk in E. inversion E as [[E1 E2]].
      pose proof (Hfr u Hu). lia.
  - (* MQBind *) destruct (alookup _ _ _); [|exact Hn]. destruct (seqb ex ""); [exact Hn|].
    destruct (queue_found s q); [|exact Hn]. destruct (locked _ _); [exact Hn|]. destruct (bad_xmatch _); [exact Hn|]. destruct (extype_eqb _ ExTopic && bad_pattern _)%bool; [exact Hn|]. cbn [fst].
    eapply CN_frame; [| | | |exact Hn]; reflexivity.
  - destruct (alookup _ _ _); [|exact Hn]. destruct (queue_found s q); [|exact Hn]. destruct (locked _ _); [exact Hn|]. destruct (bad_xmatch _); [exact Hn|]. destruct (extype_eqb _ ExTopic && bad_pattern _)%bool; [exact Hn|]. cbn [fst].
    eapply CN_frame; [| | | |exact Hn]; reflexivity.
  - (* MQPurge *)
    destruct (queue_found s q) as [qu|] eqn:Ef; [|exact Hn]. apply queue_found_get in Ef. destruct (locked _ _); [exact Hn|]. cbn [fst].
    pose proof (allq_get _ _ _ _ Hq Ef) as (Ql & Qr & _).
    destruct (CN_queue s q qu Hn Ef) as [M1 M2].
    eapply (CN_change s _ q qu (q_id qu, O, (q_mready qu - q_len qu)%Z, q_munacked qu, (q_mtotal qu - q_len qu)%Z) [] [] (UV s) Hn Ef).
    + rewrite QC_set_queue. f_equal. unfold QC. destruct (q_durable qu); reflexivity.
    + reflexivity.
    + apply ck_same_conns. destruct (q_durable qu); reflexivity.
    + reflexivity.
    + apply UV_same_conns. destruct (q_durable qu); reflexivity.
    + intros k [].
    + cbn [fst snd List.length]. lia.
    + cbn [fst snd]. lia.
    + destruct Hn as [(_ & _ & _ & D & _) _]. unfold srv3 in D |- *. cbn [fst snd] in D. unfold nn. cbn [fst snd].
      destruct (q_durable qu); cbn; (apply f_equal2; [apply f_equal2|]; lia).
  - (* MQDelete *) destruct (queue_found s q); [|exact Hn]. destruct (locked _ _); [exact Hn|]. rewrite Hdc. cbn [negb].
    pose proof (J_vhost_delete_queue s q ifunused ifempty Hj) as Hd.
    destruct (vhost_delete_queue false s q ifunused ifempty) as [[s1 e1] r1]. cbn [fst] in *. destruct r1; exact (proj2 (proj2 (proj2 Hd))).
  - (* MQos *)
    cbn [fst]. eapply CN_frame_chan; [apply view_wake_consumers|apply NC_wake_consumers|].
    destruct (cfg_rabbit cfg); [destruct glob; (eapply CN_set_chan_same; [exact Ech|reflexivity|exact Hn])|].
    destruct glob; [|eapply CN_set_chan_same; [exact Ech|reflexivity|exact Hn]]. destruct (get_conn s c) eqn:Ec; [|exact Hn].
    eapply CN_frame_chan; [apply view_set_conn_qos; exact Ec|reflexivity|exact Hn].
  - (* MPublish *)
    destruct imm; [exact Hn|]. destruct (alookup _ _ _); [|exact Hn].
    destruct (ch_confirm ch); cbn [fst];
      (eapply CN_set_chan_same; [erewrite get_chan_same_conns; [exact Ech|reflexivity]|reflexivity|]);
      (eapply CN_frame; [| | | |exact Hn]; reflexivity).
  - (* MConsume *)
    destruct (queue_found s q) as [qu|] eqn:Eqf; [|exact Hn]. apply queue_found_get in Eqf.
    destruct (fx_excl_owner fx && locked qu c); [exact Hn|].
    destruct (find_consumer ch _); [exact Hn|].
    destruct (_ && _)%bool; cbn [fst].
    + eapply CN_frame; [| | | |exact Hn]; try reflexivity. eapply QC_set_queue_same; [exact Eqf|reflexivity].
    + eapply CN_set_chan_same; [erewrite get_chan_same_conns; [exact Ech|destruct (seqb tag ""); reflexivity]|reflexivity|].
      eapply CN_frame; [| | | |exact Hn]; try (destruct (seqb tag ""); reflexivity).
      transitivity (QC (set_queue s q (call_consumers ((if excl then qu <| q_wasconsumed := true |> <| q_cexcl := true |> else qu <| q_wasconsumed := true |>)
                                                        <| q_consumers ::= fun l => l ++ [(c, h, eff_tag s tag)] |>)))); [destruct (seqb tag ""); reflexivity|].
      eapply QC_set_queue_same; [exact Eqf|]. unfold call_consumers. destruct excl; destruct (q_active _); reflexivity.
  - (* MCancel *)
    destruct (find_consumer ch tag); [|exact Hn]. cbn [fst].
    eapply CN_frame; [apply UV_upd_chan_uk; intros; cbn; apply uk_orphan|apply QC_upd_chan|apply srv3_upd_chan|apply ck_upd_chan|].
    apply CN_upd_chan_same; [reflexivity|]. apply CN_consumer_stop. exact Hn.
  - (* MGet *)
    destruct (queue_found s q) as [qu|] eqn:Eqf; [|exact Hn]. apply queue_found_get in Eqf.
    destruct (fx_excl_owner fx && locked qu c); [exact Hn|].
    destruct (q_ready qu) as [|u rest] eqn:Erd; [exact Hn|].
    pose proof (allq_get _ _ _ _ Hq Eqf) as (_ & _ & _ & Ha).
    assert (Hu : get_msg s u <> None).
    { apply (allq_get _ _ _ _ (proj1 (proj2 Hp)) Eqf). rewrite Erd. left. reflexivity. }
    match goal with |- context [if noack then (Some [], []) else ?r] => destruct (if noack then (Some [], []) else r) as [okr ws] end.
    set (s1 := match ws with [w1; w2] => _ | _ => s end).
    assert (X1 : CN s1 /\ get_queue s1 q = Some qu /\ get_chan s1 c h <> None /\ (forall x, get_msg s1 x = get_msg s x)).
    { subst s1. destruct ws as [|w1 [|w2 [|]]]; try (split; [exact Hn|split; [exact Eqf|split; [exact Hgn|reflexivity]]]).
      assert (N0 : CN (set_chan s c h (ch <| ch_qos := w1 |>))) by (eapply CN_set_chan_same; [exact Ech|reflexivity|exact Hn]).
      assert (G0 : get_chan (set_chan s c h (ch <| ch_qos := w1 |>)) c h <> None).
      { rewrite get_chan_set_chan. pose proof (get_chan_conn _ _ _ _ Ech). destruct (get_conn s c); [|congruence]. rewrite !N.eqb_refl. discriminate. }
      destruct (get_conn _ c) eqn:Ec.
      - split; [eapply CN_frame_chan; [apply view_set_conn_qos'; exact Ec|reflexivity|exact N0]|].
        split; [unfold get_queue in *; cbn; rewrite queues_set_chan; exact Eqf|]. split.
        + apply (get_chan_view_some (set_chan s c h (ch <| ch_qos := w1 |>))); [apply view_set_conn_qos'; exact Ec|exact G0].
        + intros x. unfold get_msg. cbn. rewrite heap_set_chan'. reflexivity.
      - split; [exact N0|]. split; [rewrite gq_set_chan; exact Eqf|]. split; [exact G0|]. intros x. unfold get_msg. rewrite heap_set_chan'. reflexivity. }
    clearbody s1. destruct X1 as (N1 & G1 & C1 & M1).
    destruct okr; cbn [fst]; [|exact N1].
    destruct noack.
    + rewrite Hna. destruct (get_msg s u) as [m|] eqn:Em; [|congruence].
      set (X := upd_chan (upd_queue s1 q (popped rest)) c h _).
      assert (GX : get_queue X q = Some (popped rest qu)) by (subst X; rewrite gq_upd_chan, gq_upd_queue_same, G1; reflexivity).
      eapply (CN_noack_core s1 q qu u rest X m N1 G1 Erd Ha GX); try reflexivity.
      * subst X. rewrite gm_upd_chan, gm_upd_queue, M1. exact Em.
      * subst X. rewrite QC_upd_chan. apply QC_upd_queue. exact G1.
      * subst X. rewrite UV_upd_chan_same by reflexivity. apply UV_upd_queue.
      * subst X. rewrite ck_upd_chan. apply ck_upd_queue.
      * subst X. rewrite srv3_upd_chan. apply srv3_upd_queue.
    + apply (CN_deliver_ack s1 c h q qu u rest
               (fun d i => {| u_tag := d; u_ctag := ""%string; u_queue := q; u_qid := i; u_msg := u |})); auto.
  - pose proof (proj2 (proj2 (proj2 (J_handle_ack cfg s c h tag mult Hj)))) as X. destruct (handle_ack cfg s c h tag mult). exact X.
  - pose proof (proj2 (proj2 (proj2 (J_handle_reject cfg s c h tag mult requeue 60 120 Hj)))) as X. destruct (handle_reject cfg s c h tag mult requeue 60 120). exact X.
  - pose proof (proj2 (proj2 (proj2 (J_handle_reject cfg s c h tag false requeue 60 90 Hj)))) as X. destruct (handle_reject cfg s c h tag false requeue 60 90). exact X.
  - exact Hn.
  - cbn [fst]. eapply CN_set_chan_same; [exact Ech|reflexivity|exact Hn].
  - destruct (fx_not_impl fx); exact Hn.
  - exact Hn.
  - exact Hn.
  - destruct good; [cbn [fst]|exact Hn]. apply CN_set_stage. exact Hn.
  - destruct within; [cbn [fst]|exact Hn]. apply CN_set_stage. exact Hn.
  - destruct vhost_ok; [cbn [fst]|exact Hn]. apply CN_set_stage. exact Hn.
Qed.
End Methods.

(* ------------------------------------------------------------------ *)
(* Part I: the remaining primitives, and every label *)
Lemma WFk_aset c ks ks' l : alookup N.eqb c l = Some ks -> NoDup ks' -> WFk l -> WFk (aset N.eqb c ks' l).
Proof.
  intros Hl Hn [W1 W2]. split.
  - rewrite (keys_aset N.eqb Neqb_spec), Hl. exact W1.
  - intros c' k Hin. apply (in_aset N.eqb) in Hin. destruct Hin as [E|Hin]; [inversion E; subst; exact Hn|eauto].
Qed.
Lemma WFk_fresh c ks l : alookup N.eqb c l = None -> NoDup ks -> WFk l -> WFk (aset N.eqb c ks l).
Proof.
  intros Hl Hn [W1 W2]. split.
  - rewrite (keys_aset N.eqb Neqb_spec), Hl. apply NoDup_snoc; [exact W1|]. apply (alookup_none_notin N.eqb Neqb_spec). exact Hl.
  - intros c' k Hin. apply (in_aset N.eqb) in Hin. destruct Hin as [E|Hin]; [inversion E; subst; exact Hn|eauto].
Qed.

Lemma CN_ensure s c h : CN s -> CN (ensure_chan s c h).
Proof.
  intros Hn. unfold ensure_chan. destruct (get_conn s c) as [cn|] eqn:Ec; [|exact Hn].
  destruct (alookup N.eqb h (cn_chans cn)) eqn:Eh; [exact Hn|].
  set (cn' := cn <| cn_chans := aset N.eqb h channel0 (cn_chans cn) |>).
  destruct Hn as [Hv Hw]. split.
  - assert (E : UV (s <| conns := aset N.eqb c cn' (conns s) |>) = UV s).
    { unfold UV, all_unacked.
      change (conns (s <| conns := aset N.eqb c cn' (conns s) |>)) with (aset N.eqb c cn' (conns s)).
      destruct (flat_map_aset_split N.eqb Neqb_spec chan_unacked_all c cn cn' (conns s) Ec) as (A & B & E1 & E2).
      rewrite E1, E2. f_equal. f_equal. f_equal. subst cn'. unfold chan_unacked_all. cbn [cn_chans].
      change (cn_chans (cn <| cn_chans := aset N.eqb h channel0 (cn_chans cn) |>)) with (aset N.eqb h channel0 (cn_chans cn)).
      rewrite (aset_fresh N.eqb h channel0 _ Eh), flat_map_app. cbn. rewrite app_nil_r. reflexivity. }
    rewrite E. exact Hv.
  - unfold ck. change (conns (s <| conns := aset N.eqb c cn' (conns s) |>)) with (aset N.eqb c cn' (conns s)). rewrite vmap_aset.
    eapply WFk_aset; [rewrite alookup_vmap; unfold get_conn in Ec; rewrite Ec; reflexivity| |exact Hw].
    subst cn'. change (cn_chans (cn <| cn_chans := aset N.eqb h channel0 (cn_chans cn) |>)) with (aset N.eqb h channel0 (cn_chans cn)).
    rewrite (keys_aset N.eqb Neqb_spec), Eh. apply NoDup_snoc.
    + apply (proj2 Hw c). unfold ck, vmap. apply in_map_iff. exists (c, cn). split; [reflexivity|]. eapply alookup_in; [apply Neqb_spec|exact Ec].
    + apply (alookup_none_notin N.eqb Neqb_spec). exact Eh.
Qed.

Lemma CN_newconn s c st : get_conn s c = None -> CN s ->
  CN (s <| conns := aset N.eqb c {| cn_chans := [(0, channel0 <| ch_status := ChNew |>)]; cn_qos := qos0; cn_stage := st |} (conns s) |>).
Proof.
  intros Ec [Hv Hw]. set (cn' := {| cn_chans := [(0, channel0 <| ch_status := ChNew |>)]; cn_qos := qos0; cn_stage := st |}). split.
  - assert (E : UV (s <| conns := aset N.eqb c cn' (conns s) |>) = UV s).
    { unfold UV, all_unacked. change (conns (s <| conns := aset N.eqb c cn' (conns s) |>)) with (aset N.eqb c cn' (conns s)).
      rewrite (aset_fresh N.eqb c cn' _ Ec), flat_map_app. cbn. rewrite app_nil_r. reflexivity. }
    rewrite E. exact Hv.
  - unfold ck. change (conns (s <| conns := aset N.eqb c cn' (conns s) |>)) with (aset N.eqb c cn' (conns s)). rewrite vmap_aset.
    apply WFk_fresh; [rewrite alookup_vmap; unfold get_conn in Ec; rewrite Ec; reflexivity| |exact Hw].
    cbn. constructor; [intros []|constructor].
Qed.

Lemma fold_left_sum {A} (f : A -> Z) l : forall a, fold_left (fun z x => (z + f x)%Z) l a = (a + fold_right (fun x z => (f x + z)%Z) 0%Z l)%Z.
Proof. induction l as [|x t IH]; intros a; cbn; [lia|]. rewrite IH. lia. Qed.

Lemma CN_restart cfg s : CN s -> CN (fst (restart cfg s)).
Proof.
  intros [(_ & _ & _ & _ & Hnd) _]. unfold restart. cbn [fst]. split; [|split; [constructor|intros ? ? []]].
  set (durq := filter (fun kv : string * queue => q_durable (snd kv)) (queues s)).
  set (rq := fun kv : string * queue => (fst kv, new_queue (q_id (snd kv)) 0 true false (q_autodel (snd kv))
               <| q_ready := stored_of s (fst kv) |> <| q_len := Z.of_nat (List.length (stored_of s (fst kv))) |>
               <| q_mready := Z.of_nat (List.length (stored_of s (fst kv))) |> <| q_mtotal := Z.of_nat (List.length (stored_of s (fst kv))) |>)).
  unfold UV, all_unacked, QC, srv3. cbn [conns queues srv_ready srv_unacked srv_total flat_map map].
  change (map (fun kv : string * queue => _) durq) with (map rq durq).
  split; [|split; [|split; [|split]]]; cbn [fst snd].
  - intros qn i n r u t Hl. apply (alookup_in seqb seqb_spec) in Hl. unfold vmap in Hl. rewrite List.map_map in Hl. apply in_map_iff in Hl.
    destruct Hl as (kv & E & _). cbn in E. inversion E; subst. split; [reflexivity|lia].
  - reflexivity.
  - rewrite fold_left_sum. cbn. unfold rsumv, vmap. induction durq as [|kv t IH]; cbn; [reflexivity|]. rewrite <- IH. reflexivity.
  - lia.
  - rewrite keys_vmap. rewrite List.map_map. cbn. subst durq. apply NoDup_map_filter. unfold QC in Hnd. rewrite keys_vmap in Hnd. exact Hnd.
Qed.

Lemma XS_queue_loop_turn s qn : QC (queue_loop_turn s qn) = QC s /\ srv3 (queue_loop_turn s qn) = srv3 s.
Proof.
  unfold queue_loop_turn. destruct (get_queue s qn) as [qu|] eqn:Eq; auto. destruct (negb (q_call qu)); auto.
  assert (X : QC (set_queue s qn (qu <| q_call := false |>)) = QC s /\ srv3 (set_queue s qn (qu <| q_call := false |>)) = srv3 s)
    by (split; [eapply QC_set_queue_same; [exact Eq|reflexivity]|reflexivity]).
  destruct (Nat.eqb _ 0); [exact X|].
  set (s2 := fold_left _ (q_consumers qu) _).
  assert (X2 : NC s2 = NC (set_queue s qn (qu <| q_call := false |>))).
  { subst s2. apply NC_fold. intros s0 [[c h] tag]. apply NC_wake_consumer. }
  destruct (NC_QC _ _ X2) as [A B]. clearbody s2.
  unfold upd_queue. destruct (get_queue s2 qn) as [qu2|] eqn:E2; [|rewrite A, B; exact X].
  split; [|change (srv3 s2 = srv3 s); rewrite B; exact (proj2 X)].
  rewrite (QC_set_queue_same _ _ qu2); [rewrite A; exact (proj1 X)|exact E2|reflexivity].
Qed.

Lemma FR_of_Inv s : Inv s -> FR s.
Proof.
  intros [V _] u Hu. rewrite all_unacked_cv in Hu. exact (proj1 (vi_uq _ _ _ V u Hu)).
Qed.
Lemma FR_ensure s c h : FR s -> FR (ensure_chan s c h).
Proof.
  intros H u Hu. assert (E : all_unacked (ensure_chan s c h) = all_unacked s /\ next_qid (ensure_chan s c h) = next_qid s).
  { unfold ensure_chan. destruct (get_conn s c) as [cn|] eqn:Ec; [|auto]. destruct (alookup N.eqb h (cn_chans cn)) eqn:Eh; [auto|]. split; [|reflexivity].
    set (cn' := cn <| cn_chans := aset N.eqb h channel0 (cn_chans cn) |>). unfold all_unacked.
    change (conns (s <| conns := aset N.eqb c cn' (conns s) |>)) with (aset N.eqb c cn' (conns s)).
    destruct (flat_map_aset_split N.eqb Neqb_spec chan_unacked_all c cn cn' (conns s) Ec) as (A & B & E1 & E2).
    rewrite E1, E2. f_equal. f_equal. subst cn'. unfold chan_unacked_all.
    change (cn_chans (cn <| cn_chans := aset N.eqb h channel0 (cn_chans cn) |>)) with (aset N.eqb h channel0 (cn_chans cn)).
    rewrite (aset_fresh N.eqb h channel0 _ Eh), flat_map_app. cbn. rewrite app_nil_r. reflexivity. }
  destruct E as [E1 E2]. rewrite E1 in Hu. rewrite E2. auto.
Qed.

Definition KK (s : state) : Prop := CB s /\ QI s /\ PRI s /\ CN s.
Lemma KK_K s : KK s <-> K s.
Proof. unfold KK, K, J, CB. tauto. Qed.
Lemma KK_J s : KK s -> J s.
Proof. unfold KK, J, CB. tauto. Qed.

Section KStep.
Variables (cfg : config) (fx : fixes).
Hypothesis Hst : fx_stage fx = true.
Hypothesis Hco : fx_chan_open fx = true.
Hypothesis Hcr : fx_closeok_releases fx = true.
Hypothesis Hdc : fx_delete_checks_first fx = true.
Hypothesis Hna : fx_noack_total_once fx = true.

Lemma fst_socket_loss s c : fst (step cfg fx s (LSocketLoss c)) = fst (conn_close cfg fx s c).
Proof. rewrite socket_loss_is_conn_close. reflexivity. Qed.

Theorem KK_step s l : Inv s -> KK s -> KK (fst (step cfg fx s l)).
Proof.
  intros Hinv.
  assert (Hm : forall c h m, guardf fx (ensure_chan s c h) c h m -> KK (ensure_chan s c h) -> KK (fst (fst (handle_method cfg fx (ensure_chan s c h) c h m)))).
  { intros c h m [G1 G2] (Hcb & Hq & Hp & Hn).
    assert (Hg : guard (ensure_chan s c h) c h m) by (split; [apply G1; exact Hst|apply G2; exact Hco]).
    split; [split; [apply CI_handle_method; exact (proj1 Hcb)|apply BI_handle_method; [exact Hcr|exact Hg|exact (proj1 Hcb)|exact (proj2 Hcb)]]|].
    split; [apply QI_handle_method; auto|]. split; [apply PRI_handle_method; exact Hp|].
    apply (CN_handle_method cfg fx Hna Hcr Hdc).
    - apply (proj1 (KK_K _)). unfold KK. auto.
    - apply FR_ensure. apply FR_of_Inv. exact Hinv. }
  assert (Ht : forall c h tag, KK s -> KK (fst (consumer_turn cfg fx s c h tag))).
  { intros c h tag (Hcb & Hq & Hp & Hn).
    split; [split; [apply CI_consumer_turn; exact (proj1 Hcb)|apply BI_consumer_turn; exact (proj2 Hcb)]|].
    split; [apply QI_consumer_turn; exact Hq|]. split.
    - eapply PRI_veq; [apply veq_hn, hn_consumer_turn|apply IG_consumer_turn; exact Hp].
    - apply (CN_consumer_turn cfg fx Hna). unfold J. destruct Hcb. auto. }
  revert Hm Ht. apply (R_step cfg fx KK); clear s l Hinv.
  - (* conn_close *) intros s c Hk. apply (proj2 (KK_K _)). apply (K_conn_close cfg fx Hdc). apply (proj1 (KK_K _)). exact Hk.
  - (* closing *) intros s c h (Hcb & Hq & Hp & Hn).
    assert (X : J (upd_chan s c h (fun ch => ch <| ch_status := ChClosing |>)))
      by (apply J_upd_chan_same; [intros; reflexivity|intros; reflexivity|destruct Hcb; unfold J; auto]).
    destruct X as (_ & X2 & X3 & X4). split; [apply CB_closing; exact Hcb|exact (conj X2 (conj X3 X4))].
  - (* ensure *) intros s c h (Hcb & Hq & Hp & Hn). split; [apply CB_ensure; exact Hcb|]. split; [sq|]. split; [|apply CN_ensure; exact Hn].
    eapply PRI_veq; [apply veq_hn, hn_ensure_chan|].
    apply (IG_of_chan _ s); [apply qst_ensure_chan| |exact Hp]. apply allch_ensure; [|exact (proj1 Hp)]. intros ? ? x [].
  - (* cur *) intros s c h (Hcb & Hq & Hp & Hn).
    assert (X : J (upd_chan s c h (fun ch => ch <| ch_cur := None |>)))
      by (apply J_upd_chan_same; [intros; reflexivity|intros; reflexivity|destruct Hcb; unfold J; auto]).
    destruct X as (_ & X2 & X3 & X4). split; [apply CB_cur; exact Hcb|exact (conj X2 (conj X3 X4))].
  - (* add_confirm *) intros s c h t (Hcb & Hq & Hp & Hn). split; [apply CB_add_confirm; exact Hcb|]. split; [sq|]. split.
    + eapply PRI_veq; [apply veq_hn, hn_add_confirm|apply IG_add_confirm; exact Hp].
    + eapply CN_frame_chan; [apply view_add_confirm|apply NC_add_confirm|exact Hn].
  - (* newconn *) intros s c st Ec (Hcb & Hq & Hp & Hn). split; [apply CB_newconn; auto|]. split; [sq|]. split; [|apply CN_newconn; auto].
    eapply PRI_veq; [apply veq_hn; reflexivity|].
    apply (IG_of_chan _ s); [reflexivity| |exact Hp]. apply allch_newconn; [|exact (proj1 Hp)]. intros ? x [].
  - (* restart *) intros s (Hcb & Hq & Hp & Hn). split; [apply CB_restart|]. split; [exact (QI_step cfg fx s LRestart Hdc Hq)|].
    split; [apply PRI_restart; exact Hp|apply CN_restart; exact Hn].
  - (* tick *) intros s c h ch Ech (Hcb & Hq & Hp & Hn). destruct (CB_tick s c h ch Ech Hcb) as [T1 T2].
    assert (Hj : J s) by (destruct Hcb; unfold J; auto).
    assert (XA : J (set_chan s c h (ch <| ch_ticker := false |>))) by (eapply J_set_chan_same; [exact Ech|reflexivity|reflexivity|exact Hj]).
    assert (XB : J (set_chan s c h (ch <| ch_confirmq := [] |>))) by (eapply J_set_chan_same; [exact Ech|reflexivity|reflexivity|exact Hj]).
    destruct XA as (_ & A2 & A3 & A4). destruct XB as (_ & B2 & B3 & B4).
    split; [exact (conj T1 (conj A2 (conj A3 A4)))|exact (conj T2 (conj B2 (conj B3 B4)))].
  - (* push *) intros s qn u (Hcb & Hq & Hp & Hn). split; [eapply CB_conns; [apply (proj1 conns_queue_ops)|exact Hcb]|].
    split; [apply QI_queue_push; exact Hq|]. split; [apply PRI_queue_push; exact Hp|apply CN_queue_push; auto].
  - (* upd_msg *) intros s u f (Hcb & Hq & Hp & Hn). split; [eapply CB_conns; [apply conns_upd_msg|exact Hcb]|]. split; [sq|]. split.
    + eapply PRI_lift; [apply ple_upd_msg|]. eapply IG_same; [apply conns_upd_msg|apply qst_upd_msg|exact Hp].
    + eapply CN_frame_chan; [apply view_upd_msg|apply NC_upd_msg|exact Hn].
  - (* queue loop *) intros s qn (Hcb & Hq & Hp & Hn). split; [exact (CB_step cfg fx Hst Hco Hcr s (LQueueLoop qn) Hcb)|].
    split; [apply QI_queue_loop_turn; exact Hq|]. split; [exact (PRI_step cfg fx s (LQueueLoop qn) Hst Hco Hp)|].
    destruct (XS_queue_loop_turn s qn). apply (CN_frame s); auto; [apply UV_view|apply ck_view]; apply view_queue_loop_turn.
  - (* auto-delete *) intros s Hk. cbn [step]. destruct (autodel s) as [|qn rest]; [exact Hk|].
    assert (H0 : KK (s <| autodel := rest |>)).
    { destruct Hk as (Hcb & Hq & Hp & Hn). split; [eapply CB_conns; [|exact Hcb]; reflexivity|]. split; [sq|]. split.
      - eapply PRI_veq; [apply veq_hn; reflexivity|eapply IG_same; [| |exact Hp]; reflexivity].
      - eapply CN_frame; [| | | |exact Hn]; reflexivity. }
    rewrite Hdc. cbn [negb].
    destruct (get_queue _ qn) as [qu0|]; [|exact H0]. destruct (q_autodel qu0); [|exact H0].
    pose proof (K_vhost_delete_queue _ qn true false (proj1 (KK_K _) H0)) as Hd.
    destruct (vhost_delete_queue false (s <| autodel := rest |>) qn true false) as [[s1 e1] r1]. apply (proj2 (KK_K _)). exact Hd.
  - (* relay *) intros s rest (Hcb & Hq & Hp & Hn). split; [eapply CB_conns; [|exact Hcb]; reflexivity|]. split; [sq|]. split.
    + eapply PRI_veq; [apply veq_hn; reflexivity|eapply IG_same; [| |exact Hp]; reflexivity].
    + eapply CN_frame; [| | | |exact Hn]; reflexivity.
  - (* persist *) intros s (Hcb & Hq & Hp & Hn). split; [exact (CB_step cfg fx Hst Hco Hcr s LPersistTick Hcb)|].
    split; [exact (QI_step cfg fx s LPersistTick Hdc Hq)|]. split; [apply PRI_persist; exact Hp|].
    cbn [step fst].
    match goal with |- CN (fold_left _ _ ?s1) => assert (X : CN s1) by (eapply CN_frame; [| | | |exact Hn]; reflexivity); revert X; generalize s1 end.
    match goal with |- forall s0, CN s0 -> CN (fold_left _ ?l s0) => generalize l end.
    intros l. induction l as [|k t IH]; intros s0 H0; cbn [fold_left]; [exact H0|]. apply IH.
    eapply CN_frame_chan; [apply view_store_confirm|apply NC_store_confirm|exact H0].
Qed.

Lemma KK_init : KK (init cfg).
Proof.
  split; [apply CB_init|]. split; [apply QI_init|]. split; [apply PRI_init|].
  split; [|split; [constructor|intros ? ? []]].
  split; [intros ? ? ? ? ? ? X; discriminate X|]. cbn. repeat split; try reflexivity. constructor.
Qed.

Theorem KK_run ls : forall s, Inv s -> KK s -> KK (fst (run cfg fx s ls)).
Proof.
  induction ls as [|l t IH]; intros s Hi H; cbn [run fst]; auto.
  pose proof (KK_step s l Hi H) as H1. pose proof (Inv_step cfg fx s l Hst Hco Hcr Hdc Hi) as I1.
  destruct (step cfg fx s l) as [s1 e1]. cbn [fst] in *.
  specialize (IH s1 I1 H1). destruct (run cfg fx s1 t) as [s2 e2]. exact IH.
Qed.

Theorem KK_reachable ls : KK (fst (run cfg fx (init cfg) ls)).
Proof. apply KK_run; [apply Inv_init|apply KK_init]. Qed.
End KStep.

(* ------------------------------------------------------------------ *)
(* Part J: the statements *)
Definition from_queue (qn : string) (qid : N) (u : unacked) : bool := seqb (u_queue u) qn && (u_qid u =? qid).
Definition ready_sum (l : list (string * queue)) : Z := fold_right (fun kq z => (Z.of_nat (List.length (q_ready (snd kq))) + z)%Z) 0%Z l.

Lemma cntk_filter qn i l : cntk (qn, i) (map uk l) = Z.of_nat (List.length (filter (from_queue qn i) l)).
Proof.
  unfold cntk. f_equal. induction l as [|u t IH]; cbn; auto.
  assert (E : keqb (qn, i) (uk u) = from_queue qn i u).
  { unfold keqb, from_queue, uk. cbn. rewrite (String.eqb_sym qn), (N.eqb_sym i). reflexivity. }
  rewrite E. destruct (from_queue qn i u); cbn; rewrite IH; reflexivity.
Qed.
Lemma rsumv_QC l : rsumv (vmap qc l) = ready_sum l.
Proof.
  induction l as [|kq t IH]; [reflexivity|].
  change (rsumv (vmap qc (kq :: t))) with (Z.of_nat (List.length (q_ready (snd kq))) + rsumv (vmap qc t))%Z.
  rewrite IH. reflexivity.
Qed.

Theorem counts_exact_reachable cfg fx ls :
  fx_stage fx = true -> fx_chan_open fx = true -> fx_closeok_releases fx = true -> fx_delete_checks_first fx = true ->
  fx_noack_total_once fx = true ->
  let s := fst (run cfg fx (init cfg) ls) in
  (forall qn qu, get_queue s qn = Some qu ->
     q_len qu = Z.of_nat (List.length (q_ready qu)) /\ q_mready qu = Z.of_nat (List.length (q_ready qu)) /\
     q_munacked qu = Z.of_nat (List.length (filter (from_queue qn (q_id qu)) (all_unacked s))) /\
     q_munacked qu = Z.of_nat (List.length (filter (fun u => u_qid u =? q_id qu) (all_unacked s))) /\
     q_mtotal qu = (q_mready qu + q_munacked qu)%Z) /\
  srv_unacked s = Z.of_nat (List.length (all_unacked s)) /\
  srv_ready s = ready_sum (queues s) /\
  srv_total s = (srv_ready s + srv_unacked s)%Z /\
  NoDup (map fst (queues s)).
Proof.
  intros Hst Hco Hcr Hdc Hna s.
  pose proof (KK_reachable cfg fx Hst Hco Hcr Hdc Hna ls) as (Hcb & Hq & Hp & Hn). fold s in Hcb, Hq, Hp, Hn.
  pose proof (Inv_run cfg fx ls (init cfg) Hst Hco Hcr Hdc (Inv_init cfg)) as [V _]. fold s in V. unfold VI in V.
  split; [|destruct Hn as [(A & B & C & D & E) _]; unfold srv3, UV, QC in *; cbn [fst snd] in *; rewrite map_length in B; rewrite rsumv_QC in C; rewrite keys_vmap in E; auto].
  intros qn qu Hg. pose proof (allq_get _ _ _ _ Hq Hg) as (Ql & Qr & _). destruct (CN_queue s qn qu Hn Hg) as [M1 M2].
  unfold UV in M1. rewrite cntk_filter in M1. repeat split; auto.
  rewrite M1. f_equal. f_equal. apply filter_ext_in. intros u Hu. unfold from_queue.
  destruct (u_qid u =? q_id qu) eqn:E; [|apply andb_false_r]. rewrite andb_true_r. apply N.eqb_eq in E.
  rewrite all_unacked_cv in Hu. destruct (vi_uq _ _ _ V u Hu) as [_ X].
  rewrite (X qn (qproj qu)); [apply String.eqb_refl| |exact (eq_sym E)].
  unfold qv, vmap. apply in_map_iff. exists (qn, qu). split; [reflexivity|]. eapply alookup_in; [apply seqb_spec|exact Hg].
Qed.

(* ------------------------------------------------------------------ *)
(* each of the five repairs is needed: with one of them switched off a reachable state reports an unsettled delivery
   (queue figure and server figure) that does not exist *)
Definition fx_off (k : nat) : fixes :=
  {| fx_direct_all := true; fx_redelivered := true; fx_delete_checks_first := negb (Nat.eqb k 1); fx_noack_total_once := negb (Nat.eqb k 2);
     fx_get_count := true; fx_closeok_releases := negb (Nat.eqb k 3); fx_excl_owner := true; fx_clear_current := true; fx_not_impl := true;
     fx_empty_body := true; fx_discard_closing := true; fx_nowait := true; fx_stage := negb (Nat.eqb k 4); fx_reopen_resets := true;
     fx_chan_open := negb (Nat.eqb k 5) |}.
Definition figures (s : state) : list (string * (Z * Z * Z * Z) * nat) * (Z * Z * Z) * nat :=
  (map (fun kq => (fst kq, (q_len (snd kq), q_mready (snd kq), q_munacked (snd kq), q_mtotal (snd kq)), List.length (q_ready (snd kq)))) (queues s),
   (srv_ready s, srv_unacked s, srv_total s), List.length (all_unacked s)).
Definition rcfg : config := {| cfg_rabbit := true; cfg_rollback := true; cfg_release_first := false |}.
Definition rpre : list label :=
  [LConnect 1; LConnect 2; LMethod 1 1 MChannelOpen; LMethod 2 1 MChannelOpen; LMethod 1 1 (MQDeclare "q" false false false false false);
   LMethod 1 1 (MPublish "" "q" false false); LHeader 1 1 7 3 false; LBody 1 1 3].

Example counts_refuted_delete_checks :
  figures (fst (run rcfg (fx_off 1) (init rcfg)
    (rpre ++ [LMethod 1 1 (MConsume "q" "t" false false false); LQueueLoop "q"; LConsumerTurn 1 1 "t";
              LMethod 2 1 (MQDelete "q" true false false); LMethod 1 1 (MAck 1 false)])))
  = ([("q"%string, (0, 0, 1, 1)%Z, O)], (0, 1, 1)%Z, O).
Proof. vm_compute. reflexivity. Qed.
Example counts_refuted_noack_total_once :
  figures (fst (run rcfg (fx_off 2) (init rcfg)
    (rpre ++ [LMethod 1 1 (MConsume "q" "t" true false false); LQueueLoop "q"; LConsumerTurn 1 1 "t"])))
  = ([("q"%string, (0, 0, -1, -1)%Z, O)], (0, -1, -1)%Z, O).
Proof. vm_compute. reflexivity. Qed.
Example counts_refuted_closeok_releases :
  figures (fst (run rcfg (fx_off 3) (init rcfg)
    (rpre ++ [LMethod 2 1 (MGet "q" false); LMethod 2 1 MChannelCloseOk; LMethod 2 1 MChannelOpen])))
  = ([("q"%string, (0, 0, 1, 1)%Z, O)], (0, 1, 1)%Z, O).
Proof. vm_compute. reflexivity. Qed.
Example counts_refuted_stage :
  figures (fst (run rcfg (fx_off 4) (init rcfg)
    (rpre ++ [LMethod 2 0 MChannelOpen; LMethod 2 0 (MGet "q" false); LSocketLoss 2])))
  = ([("q"%string, (0, 0, 1, 1)%Z, O)], (0, 1, 1)%Z, O).
Proof. vm_compute. reflexivity. Qed.
Example counts_refuted_chan_open :
  figures (fst (run rcfg (fx_off 5) (init rcfg)
    (rpre ++ [LMethod 2 1 MChannelClose; LMethod 2 1 (MGet "q" false); LMethod 2 1 MChannelOpen])))
  = ([("q"%string, (0, 0, 1, 1)%Z, O)], (0, 1, 1)%Z, O).
Proof. vm_compute. reflexivity. Qed.

(* ------------------------------------------------------------------ *)
(* the consumer count: the registry of a queue is, up to order, the list of the consumer records (over all channels) that
   consume from it and are not stopped *)
Definition live_on (qn : string) (cm : consumer) : bool := seqb (c_queue cm) qn && negb (stopped cm).
Definition live_entries (s : state) (qn : string) : list (N * N * string) :=
  flat_map (fun kc => flat_map (fun kh => map (fun cm => (fst kc, fst kh, c_tag cm)) (filter (live_on qn) (ch_consumers (snd kh))))
                                (cn_chans (snd kc))) (conns s).
Definition live_records (s : state) (qn : string) : list consumer :=
  flat_map (fun kc => flat_map (fun kh => filter (live_on qn) (ch_consumers (snd kh))) (cn_chans (snd kc))) (conns s).

Lemma live_entries_length s qn : List.length (live_entries s qn) = List.length (live_records s qn).
Proof.
  unfold live_entries, live_records. induction (conns s) as [|kc t IH]; cbn; auto. rewrite !app_length, IH. f_equal.
  induction (cn_chans (snd kc)) as [|kh r IHr]; cbn; auto. rewrite !app_length, IHr, map_length. reflexivity.
Qed.

Lemma NoDup_app' {A} (l1 l2 : list A) : NoDup l1 -> NoDup l2 -> (forall x, In x l1 -> ~ In x l2) -> NoDup (l1 ++ l2).
Proof.
  induction l1 as [|a t IH]; intros H1 H2 Hd; [exact H2|]. inversion H1 as [|? ? Hna Hnt]; subst. cbn [app]. constructor.
  - intros Hin. apply in_app_or in Hin. destruct Hin as [Hin|Hin].
    + exact (Hna Hin).
    + exact (Hd a (or_introl eq_refl) Hin).
  - apply IH; [exact Hnt|exact H2|]. intros x Hx. apply Hd. right. exact Hx.
Qed.
Lemma NoDup_flat_map_keyed {A B K} (ka : A -> K) (kb : B -> K) (f : A -> list B) l :
  NoDup (map ka l) -> (forall a, In a l -> NoDup (f a)) -> (forall a b, In a l -> In b (f a) -> kb b = ka a) -> NoDup (flat_map f l).
Proof.
  induction l as [|a t IH]; intros Hn Hf Hk; cbn [flat_map]; [constructor|]. cbn [map] in Hn. inversion Hn as [|? ? Hna Hnt]; subst.
  apply NoDup_app'; [apply Hf; left; reflexivity| |].
  - apply IH; [exact Hnt|intros a0 Ha0; apply Hf; right; exact Ha0|intros a0 b Ha Hb; apply Hk; [right; exact Ha|exact Hb]].
  - intros x Hx Hin. apply in_flat_map in Hin. destruct Hin as (a' & Ha' & Hx').
    apply Hna. rewrite <- (Hk a x (or_introl eq_refl) Hx), (Hk a' x (or_intror Ha') Hx'). apply in_map. exact Ha'.
Qed.

Theorem consumer_count_exact_reachable cfg fx ls :
  fx_stage fx = true -> fx_chan_open fx = true -> fx_closeok_releases fx = true -> fx_delete_checks_first fx = true ->
  let s := fst (run cfg fx (init cfg) ls) in
  forall qn qu, get_queue s qn = Some qu ->
    Permutation (q_consumers qu) (live_entries s qn) /\ List.length (q_consumers qu) = List.length (live_records s qn).
Proof.
  intros Hst Hco Hcr Hdc s qn qu Hq.
  pose proof (Inv_run cfg fx ls (init cfg) Hst Hco Hcr Hdc (Inv_init cfg)) as [V _]. fold s in V. unfold VI in V.
  pose proof (registry_link_reachable cfg fx ls Hdc) as (L1 & L2 & L3 & L4). fold s in L1, L2, L3, L4.
  assert (Kc : NoDup (map fst (conns s))) by (pose proof (vi_ckeys _ _ _ V) as X; unfold cv in X; rewrite keys_vmap in X; exact X).
  assert (Kh : forall c cn, In (c, cn) (conns s) -> NoDup (map fst (cn_chans cn))).
  { intros c cn Hin. pose proof (vi_hkeys _ _ _ V c (cn_stage cn) (vmap cproj (cn_chans cn))) as X. rewrite keys_vmap in X. apply X.
    unfold cv, vmap. apply in_map_iff. exists (c, cn). auto. }
  assert (Hin : forall c h tag, In (c, h, tag) (live_entries s qn) <->
            exists ch cm, get_chan s c h = Some ch /\ In cm (ch_consumers ch) /\ c_tag cm = tag /\ c_queue cm = qn /\ c_status cm <> CStopped).
  { intros c h tag. unfold live_entries. rewrite in_flat_map. split.
    - intros ([c0 cn] & Hc & Hx). cbn [fst snd] in Hx. apply in_flat_map in Hx. destruct Hx as ([h0 ch] & Hh & Hx). cbn [fst snd] in Hx.
      apply in_map_iff in Hx. destruct Hx as (cm & E & Hcm). inversion E; subst. apply filter_In in Hcm. destruct Hcm as [Hcm Hl].
      unfold live_on in Hl. apply andb_prop in Hl. destruct Hl as [Hl1 Hl2]. apply seqb_spec in Hl1. apply Bool.negb_true_iff in Hl2.
      exists ch, cm. split.
      + unfold get_chan, get_conn. rewrite (nodup_in_alookup N.eqb Neqb_spec _ _ _ Kc Hc). apply (nodup_in_alookup N.eqb Neqb_spec); [eapply Kh; eauto|exact Hh].
      + repeat split; auto. apply stopped_false. exact Hl2.
    - intros (ch & cm & Hg & Hcm & Ht & Hqn & Hs). unfold get_chan in Hg. destruct (get_conn s c) as [cn|] eqn:Ec; [|discriminate].
      exists (c, cn). split; [eapply alookup_in; [apply Neqb_spec|exact Ec]|]. cbn [fst snd]. apply in_flat_map. exists (h, ch).
      split; [eapply alookup_in; [apply Neqb_spec|exact Hg]|]. cbn [fst snd]. apply in_map_iff. exists cm. split; [rewrite Ht; reflexivity|].
      apply filter_In. split; auto. unfold live_on. rewrite Hqn, (proj2 (seqb_spec _ _) eq_refl). cbn. apply Bool.negb_true_iff. apply stopped_false. exact Hs. }
  assert (Hnd : NoDup (live_entries s qn)).
  { unfold live_entries. apply (NoDup_flat_map_keyed fst (fun x : N * N * string => fst (fst x))); [exact Kc| |].
    - intros [c cn] Hc. cbn [fst snd]. apply (NoDup_flat_map_keyed fst (fun x : N * N * string => snd (fst x))); [eapply Kh; eauto| |].
      + intros [h ch] Hh. cbn [fst snd].
        assert (Hg : get_chan s c h = Some ch).
        { unfold get_chan, get_conn. rewrite (nodup_in_alookup N.eqb Neqb_spec _ _ _ Kc Hc). apply (nodup_in_alookup N.eqb Neqb_spec); [eapply Kh; eauto|exact Hh]. }
        pose proof (L4 _ _ _ Hg) as Ht. clear -Ht. induction (ch_consumers ch) as [|cm t IH]; cbn; [constructor|]. cbn in Ht. inversion Ht; subst.
        destruct (live_on qn cm); cbn; auto. constructor; auto. intros Hin. apply in_map_iff in Hin. destruct Hin as (cm' & E & Hin'). inversion E.
        apply filter_In in Hin'. apply H1. rewrite <- H0. apply in_map. tauto.
      + intros [h ch] x Hh Hx. cbn [fst snd] in *. apply in_map_iff in Hx. destruct Hx as (cm & <- & _). reflexivity.
    - intros [c cn] x Hc Hx. cbn [fst snd] in *. apply in_flat_map in Hx. destruct Hx as ([h ch] & _ & Hx). cbn [fst snd] in Hx.
      apply in_map_iff in Hx. destruct Hx as (cm & <- & _). reflexivity. }
  assert (P : Permutation (q_consumers qu) (live_entries s qn)).
  { apply NoDup_Permutation; [eapply L3; eauto|exact Hnd|]. intros [[c h] tag]. rewrite Hin. apply L1. exact Hq. }
  split; [exact P|]. rewrite <- live_entries_length. apply Permutation_length. exact P.
Qed.
