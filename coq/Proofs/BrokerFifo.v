(* C03 over whole histories: per-queue FIFO order of first deliveries, returned messages at the head.

   The model does not record who published a message nor whether a queue object has delivered it before (the delivery
   count m_dc lives in the heap and is SHARED by every queue the message was routed to, so "m_dc = 0" does not mean
   "never delivered from this queue"), so both are ghost state computed along the run (gstep / grun):
     - g_dlv : the pairs (queue object id, message id) delivered since the last restart of the broker;
     - g_done : for every message id the value of next_uid when its most recent content frame (header / body) was handled by
       the channel assembling it - for a message that was routed this is the moment its publish COMPLETED;
     - g_pub : for every message id the channel (c, h) whose basic.publish allocated it.
   Message ids are allocated when basic.publish arrives, so "n <= u2" for n = done_at u1 says: the publish of u1 was complete
   before the publish of u2 began.  On ONE channel this holds for any two messages u1 < u2 that were both routed (part 5:
   cur_step - a channel's current message is set only by basic.publish on that channel; same_channel_sequential;
   first_deliveries_same_channel).  Every waiting message, unsettled delivery and store key has a completion point
   (waiting_has_done_at).

   Invariant (FQ, every reachable state, every label incl. restart): the waiting list of every queue object is
       returned ++ fresh
   where every message of [returned] has been delivered from this queue object since the last restart, no message of [fresh]
   has, and [fresh] is in completion order: a ahead of b implies a was allocated before b's publish completed.
   A restart rebuilds the list in ascending id order and forgets the deliveries (g_dlv := []): the invariant is re-established
   with returned = [] because ascending id order refines completion-before-allocation order. *)
From Coq Require Import List String NArith ZArith Bool Lia ZifyBool ZifyN Sorted Permutation.
From RecordUpdate Require Import RecordUpdate.
Import ListNotations.
From GMQ Require Import Broker.Model Proofs.BrokerFrames Proofs.BrokerTags Proofs.BrokerConfirm Proofs.BrokerConfirmHist
  Proofs.BrokerChanInv Proofs.BrokerQueueInv Proofs.BrokerReady Proofs.BrokerHeld Proofs.BrokerRestart Proofs.BrokerHolder.
Open Scope N_scope.

(* ================================================================== *)
(* 0. ghost state *)
Record ghost := { g_dlv : list (N * N); g_done : list (N * N); g_pub : list (N * (N * N)) }.
Definition ghost0 : ghost := {| g_dlv := []; g_done := []; g_pub := [] |}.

Definition D (g : ghost) (qid u : N) : Prop := In (qid, u) (g_dlv g).
Definition Db (g : ghost) (qid u : N) : bool := existsb (fun p => (fst p =? qid) && (snd p =? u)) (g_dlv g).
Definition done_at (g : ghost) (u : N) : option N := alookup N.eqb u (g_done g).
Definition pub_of (g : ghost) (u : N) : option (N * N) := alookup N.eqb u (g_pub g).

Definition head_of (s : state) (q : string) : list (N * N) :=
  match get_queue s q with
  | Some qu => match q_ready qu with u :: _ => [(q_id qu, u)] | [] => [] end
  | None => []
  end.
Definition rlen (s : state) (q : string) : nat :=
  match get_queue s q with Some qu => List.length (q_ready qu) | None => O end.
Definition turn_queue (s : state) (c h : N) (tag : string) : option string :=
  match get_chan s c h with
  | Some ch => match find_consumer ch tag with Some cm => Some (c_queue cm) | None => None end
  | None => None
  end.
Definition cur_of (s : state) (c h : N) : option N :=
  match get_chan s c h with Some ch => ch_cur ch | None => None end.

(* the ghost update of one step s --l--> s' that sent evs *)
Definition gstep (s : state) (l : label) (s' : state) (evs : list event) (g : ghost) : ghost :=
  match l with
  | LRestart => {| g_dlv := []; g_done := g_done g; g_pub := g_pub g |}
  | LConsumerTurn c h tag =>
    match turn_queue s c h tag with
    | Some q => if Nat.ltb (rlen s' q) (rlen s q)
                then {| g_dlv := head_of s q ++ g_dlv g; g_done := g_done g; g_pub := g_pub g |} else g
    | None => g
    end
  | LMethod c h (MGet q _) =>
    if existsb is_delivery evs then {| g_dlv := head_of s q ++ g_dlv g; g_done := g_done g; g_pub := g_pub g |} else g
  | LMethod c h (MPublish _ _ _ _) =>
    {| g_dlv := g_dlv g; g_done := g_done g; g_pub := (next_uid s, (c, h)) :: g_pub g |}
  | LHeader c h _ _ _ | LBody c h _ =>
    match cur_of s c h with
    | Some u => {| g_dlv := g_dlv g; g_done := (u, next_uid s) :: g_done g; g_pub := g_pub g |}
    | None => g
    end
  | _ => g
  end.

Fixpoint grun (cfg : config) (fx : fixes) (s : state) (g : ghost) (ls : list label) : state * ghost :=
  match ls with
  | [] => (s, g)
  | l :: t => let '(s1, e1) := step cfg fx s l in grun cfg fx s1 (gstep s l s1 e1 g) t
  end.

Lemma grun_run cfg fx ls : forall s g, fst (grun cfg fx s g ls) = fst (run cfg fx s ls).
Proof.
  induction ls as [|l t IH]; intros s g; cbn [grun run]; [reflexivity|].
  destruct (step cfg fx s l) as [s1 e1]. rewrite IH. destruct (run cfg fx s1 t) as [s2 e2]. reflexivity.
Qed.

(* ------------------------------------------------------------------ *)
(* the invariant, and a boolean rendering of it for experiments *)
Definition before (g : ghost) (a b : N) : Prop := forall n, done_at g b = Some n -> a < n.
Definition shape (g : ghost) (qid : N) (rdy : list N) : Prop :=
  exists ret fresh, rdy = ret ++ fresh /\ (forall x, In x ret -> D g qid x) /\ (forall x, In x fresh -> ~ D g qid x) /\
                    ForallOrdPairs (before g) fresh.
Definition FQ (g : ghost) (s : state) : Prop :=
  forall qn qu, get_queue s qn = Some qu -> shape g (q_id qu) (q_ready qu).

Fixpoint drop_while {A} (p : A -> bool) (l : list A) : list A :=
  match l with [] => [] | x :: t => if p x then drop_while p t else l end.
Fixpoint ordpairsb {A} (r : A -> A -> bool) (l : list A) : bool :=
  match l with [] => true | x :: t => forallb (r x) t && ordpairsb r t end.
Definition beforeb (g : ghost) (a b : N) : bool := match done_at g b with Some n => a <? n | None => true end.
Definition shapeb (g : ghost) (qid : N) (rdy : list N) : bool :=
  let fresh := drop_while (Db g qid) rdy in
  forallb (fun x => negb (Db g qid x)) fresh && ordpairsb (beforeb g) fresh.
Definition FQb (g : ghost) (s : state) : bool := forallb (fun kq => shapeb g (q_id (snd kq)) (q_ready (snd kq))) (queues s).

(* ================================================================== *)
(* 1. lists *)
Lemma FOP_app_one {A} (R : A -> A -> Prop) l x :
  ForallOrdPairs R l -> Forall (fun a => R a x) l -> ForallOrdPairs R (l ++ [x]).
Proof.
  induction l as [|a t IH]; intros H F; cbn; [constructor; constructor|].
  inversion H as [|? ? Ha Ht]; subst. inversion F as [|? ? Fa Ft]; subst.
  constructor; [apply Forall_app; split; [exact Ha|constructor; [exact Fa|constructor]]|apply IH; assumption].
Qed.

Lemma FOP_of_sorted g l :
  (forall b m, done_at g b = Some m -> b < m) -> StronglySorted N.le l -> ForallOrdPairs (before g) l.
Proof.
  intros Hd. induction 1 as [|a t Hs IH Ha]; constructor; auto.
  eapply Forall_impl; [|exact Ha]. intros b Hab m Hm. cbn in Hab. specialize (Hd b m Hm). lia.
Qed.

Lemma In_ready_of s qn qu x : get_queue s qn = Some qu -> In x (q_ready qu) -> In x (ready_of s (q_id qu)).
Proof.
  intros Hq Hx. apply (alookup_in seqb seqb_spec) in Hq. unfold ready_of. apply in_flat_map. exists (qn, qu). split; [exact Hq|].
  cbn [snd]. rewrite N.eqb_refl. exact Hx.
Qed.

Lemma ready_sub s qn qu : get_queue s qn = Some qu -> exists l1 l2, ready_of s (q_id qu) = l1 ++ q_ready qu ++ l2.
Proof.
  intros Hq. apply (alookup_in seqb seqb_spec) in Hq. unfold ready_of. induction (queues s) as [|[k v] t IH]; [destruct Hq|].
  destruct Hq as [E|Hin].
  - inversion E; subst. exists [], (flat_map (fun kq : string * queue => if q_id (snd kq) =? q_id qu then q_ready (snd kq) else []) t).
    cbn [flat_map snd app]. rewrite N.eqb_refl. reflexivity.
  - destruct (IH Hin) as (l1 & l2 & E). cbn [flat_map]. rewrite E.
    exists ((if q_id (snd (k, v)) =? q_id qu then q_ready (snd (k, v)) else []) ++ l1), l2. rewrite <- app_assoc. reflexivity.
Qed.

Lemma NoDup_app_l {A} (l1 l2 : list A) : NoDup (l1 ++ l2) -> NoDup l1.
Proof.
  induction l1 as [|a t IH]; intros H; [constructor|]. cbn in H. inversion H as [|? ? Hn Ht]; subst.
  constructor; [intros Hin; apply Hn; apply in_or_app; left; exact Hin|apply IH; exact Ht].
Qed.
Lemma NoDup_app_r {A} (l1 l2 : list A) : NoDup (l1 ++ l2) -> NoDup l2.
Proof. induction l1 as [|a t IH]; intros H; [exact H|]. cbn in H. inversion H; subst. apply IH. assumption. Qed.
Lemma NoDup_app_mid {A} (l1 m l2 : list A) : NoDup (l1 ++ m ++ l2) -> NoDup m.
Proof. intros H. apply NoDup_app_r in H. apply NoDup_app_l in H. exact H. Qed.

Lemma ready_nodup s qn qu : HI s -> get_queue s qn = Some qu -> NoDup (q_ready qu).
Proof.
  intros H Hq. destruct (ready_sub s qn qu Hq) as (l1 & l2 & E).
  pose proof (hi_nodup _ H (q_id qu)) as Hn. unfold held in Hn. apply NoDup_app_l in Hn. rewrite E in Hn.
  eapply NoDup_app_mid; eauto.
Qed.

(* ================================================================== *)
(* 2. the invariant of one step: ghost g and bound n fixed *)
Section Inv.
Variables (g : ghost) (n : N).

Definition DN (x : N) : Prop := done_at g x <> None.
Definition shapeN (qid : N) (rdy : list N) : Prop := shape g qid rdy /\ forall x, In x rdy -> x < n /\ DN x.
Definition Pq (qu : queue) : Prop := shapeN (q_id qu) (q_ready qu).
Definition P2 (c h : N) (ch : channel) : Prop := forall e, In e (ch_unacked ch) -> D g (u_qid e) (u_msg e) /\ u_msg e < n /\ DN (u_msg e).
(* every key of the message store belongs to a message whose publish completed *)
Definition ST (s : state) : Prop := forall k, In k (store s) -> DN (fst k).
Definition IV2 (s : state) : Prop := allq Pq s /\ allch P2 s.
Definition IV (s : state) : Prop := allq Pq s /\ allch P2 s /\ ST s.
(* what a message must satisfy when its publish completes *)
Definition Gu (u : N) : Prop := (forall qid, ~ D g qid u) /\ (forall m, done_at g u = Some m -> n <= m) /\ u < n /\ DN u.

Lemma Pq_keep qu qu' : qk qu' = qk qu -> Pq qu -> Pq qu'.
Proof. unfold qk, Pq. intros E. injection E as E1 E2. rewrite E1, E2. auto. Qed.

Lemma Pq_nil qu : q_ready qu = [] -> Pq qu.
Proof.
  intros E. unfold Pq, shapeN, shape. rewrite E. split; [|intros x []].
  exists [], []. split; [reflexivity|]. split; [intros x []|]. split; [intros x []|constructor].
Qed.

Lemma shapeN_requeue qid rdy u : shapeN qid rdy -> D g qid u -> u < n -> DN u -> shapeN qid (u :: rdy).
Proof.
  intros [(ret & fresh & E & A & B & C) Hb] Hd Hu Hdn. split.
  - exists (u :: ret), fresh. split; [rewrite E; reflexivity|]. split; [|split; assumption].
    intros x [<-|Hx]; auto.
  - intros x [<-|Hx]; auto.
Qed.

Lemma shapeN_pop qid u rest : shapeN qid (u :: rest) -> D g qid u -> shapeN qid rest.
Proof.
  intros [(ret & fresh & E & A & B & C) Hb] Hd. split; [|intros x Hx; apply Hb; right; exact Hx].
  destruct ret as [|r ret'].
  - cbn in E. subst fresh. exfalso. apply (B u); [left; reflexivity|exact Hd].
  - cbn in E. injection E as E1 E2. exists ret', fresh. split; [exact E2|]. split; [intros x Hx; apply A; right; exact Hx|]. split; assumption.
Qed.

Lemma shapeN_push qid rdy u : shapeN qid rdy -> Gu u -> shapeN qid (rdy ++ [u]).
Proof.
  intros [(ret & fresh & E & A & B & C) Hb] (G1 & G2 & G3 & G4). split.
  - exists ret, (fresh ++ [u]). split; [rewrite E, app_assoc; reflexivity|]. split; [exact A|]. split.
    + intros x Hx. apply in_app_or in Hx. destruct Hx as [Hx|[<-|[]]]; [apply B; exact Hx|apply G1].
    + apply FOP_app_one; [exact C|]. apply Forall_forall. intros a Ha m Hm. specialize (G2 m Hm).
      assert (a < n) by (apply Hb; rewrite E; apply in_or_app; right; exact Ha). lia.
  - intros x Hx. apply in_app_or in Hx. destruct Hx as [Hx|[<-|[]]]; auto.
Qed.

Lemma P2_keep c h ch ch' : ch_unacked ch' = ch_unacked ch -> P2 c h ch -> P2 c h ch'.
Proof. unfold P2. intros ->. auto. Qed.
Lemma P2_keepG : forall c h ch ch',
  ch_unacked ch' = ch_unacked ch -> ch_status ch' = ch_status ch -> ch_dtag ch <= ch_dtag ch' ->
  (ch_consumers ch = [] -> ch_consumers ch' = []) -> P2 c h ch -> P2 c h ch'.
Proof. intros c h ch ch' E _ _ _. apply P2_keep. exact E. Qed.
Lemma P2_del : forall c h ch tag, P2 c h ch -> P2 c h (del_unacked ch tag).
Proof. unfold P2, del_unacked. intros c h ch tag H e He. cbn in He. apply filter_In in He. apply H. apply He. Qed.
Lemma P2_nil c h ch : ch_unacked ch = [] -> P2 c h ch.
Proof. unfold P2. intros -> e []. Qed.

Definition AC_wake := G_wake P2 P2_keepG.
Definition AC_consumer_stop := G_consumer_stop P2 P2_keepG.
Definition AC_dec_qos := G_dec_qos P2 P2_keepG.
Definition AC_wake_consumers := G_wake_consumers P2 P2_keepG.
Definition AC_handle_reject := G_handle_reject P2 P2_keepG P2_del.
Definition AC_handle_ack := G_handle_ack P2 P2_keepG P2_del.

Ltac keep2 :=
  first [ apply allch_upd_chan; [intros ch0 Hch0; eapply P2_keep; [|exact Hch0]; reflexivity|]
        | eapply allch_set_conn_qos; [eassumption|] ].
Ltac sc2 := repeat (first [ assumption
                          | match goal with |- allch _ (if ?b then _ else _) => destruct b end
                          | match goal with |- allch _ (match ?x with _ => _ end) => destruct x eqn:? end
                          | same_conns | keep2 ]).
Ltac set_keep2 Ech H := apply allch_set_chan; [eapply P2_keep; [|exact (H _ _ _ Ech)]; reflexivity|].

(* ---- channels ---- *)
Lemma AC_channel_close cfg s c h : allch P2 s -> allch P2 (channel_close cfg s c h).
Proof.
  intros H. unfold channel_close. destruct (get_chan s c h) as [ch|] eqn:Ech; auto.
  keep2.
  assert (H2 : allch P2 (upd_chan (fold_left (fun s cm => consumer_stop s c h (c_tag cm)) (ch_consumers ch) s) c h
                     (fun ch => ch <| ch_consumers := [] |>))).
  { keep2. apply fold_left_preserves; auto. intros; apply AC_consumer_stop; auto. }
  destruct (0 <? h); auto. apply AC_handle_reject; auto.
Qed.

Lemma AC_cancel_fold l : forall s evs, allch P2 s ->
  allch P2 (fst (fold_left (fun acc x => let '(s, evs) := acc in let '(s', e) := consumer_cancel s x in (s', evs ++ e)) l (s, evs))).
Proof.
  induction l as [|[[c h] tag] t IH]; intros s evs H; simpl; auto.
  apply IH. apply AC_consumer_stop; auto.
Qed.

Lemma AC_vhost_delete_queue b s qn iu ie : allch P2 s -> allch P2 (fst (fst (vhost_delete_queue b s qn iu ie))).
Proof.
  intros H. unfold vhost_delete_queue. destruct (get_queue s qn) as [qu|] eqn:Eq; auto.
  destruct (_ || _).
  - cbn [fst]. destruct b; [eapply allch_same_conns; [apply conns_set_queue|exact H]|exact H].
  - pose proof (AC_cancel_fold (q_consumers qu) s [] H) as Hf.
    destruct (fold_left _ (q_consumers qu) (s, [])) as [s1 e1]. cbn [fst] in *.
    repeat (first [ assumption | match goal with |- allch _ (if ?b then _ else _) => destruct b end | same_conns ]).
Qed.

Lemma AC_store_windows cfg s c h tag ws : allch P2 s -> allch P2 (store_windows cfg s c h tag ws).
Proof.
  intros H. unfold store_windows. destruct ws as [|w1 [|w2 [|]]]; auto.
  destruct (cfg_rabbit cfg); [sc2|]. destruct (get_conn _ c) eqn:Ec; sc2.
Qed.

Lemma AC_queue_loop_turn s qn : allch P2 s -> allch P2 (queue_loop_turn s qn).
Proof.
  intros H. unfold queue_loop_turn. destruct (get_queue s qn) as [qu|]; auto. destruct (negb (q_call qu)); auto.
  destruct (Nat.eqb _ 0); [same_conns; auto|]. same_conns.
  apply fold_left_preserves; [|same_conns; auto]. intros s0 [[c h] tag] H0. apply AC_wake; auto.
Qed.

Lemma AC_add_confirm s c h t : allch P2 s -> allch P2 (add_confirm s c h t).
Proof.
  intros H. unfold add_confirm. destruct (get_chan s c h) as [ch|] eqn:E; auto. destruct (negb _); auto.
  destruct (ch_status ch); auto; destruct t as [[[? ?] ?]|]; auto; (set_keep2 E H; auto).
Qed.

Lemma AC_route_and_push fx s c h u : allch P2 s -> allch P2 (fst (route_and_push fx s c h u)).
Proof.
  intros H. unfold route_and_push. destruct (get_msg s u) as [m|]; auto.
  destruct (alookup _ _ _) as [ex|]; cbn [fst]; [|apply AC_add_confirm; auto].
  destruct (matched_queues _ _ _) as [|q1 qs]; cbn [fst]; [apply AC_add_confirm; auto|].
  apply fold_left_preserves.
  - intros s0 qn H0. assert (H1 : allch P2 (queue_push s0 qn u)) by (same_conns; auto).
    unfold push_one. destruct (get_msg (queue_push s0 qn u) u); auto. destruct (_ && _)%bool; auto. apply AC_add_confirm; auto.
  - destruct (_ && _)%bool; [same_conns|]; auto.
Qed.

Lemma AC_finish_publish fx s c h u : allch P2 s -> allch P2 (fst (finish_publish fx s c h u)).
Proof.
  intros H. unfold finish_publish. pose proof (AC_route_and_push fx s c h u H) as H1.
  destruct (route_and_push fx s c h u) as [s1 e1]. cbn [fst] in *.
  destruct (fx_clear_current fx); auto. keep2. exact H1.
Qed.

Lemma AC_send_error s c h e : allch P2 s -> allch P2 (fst (send_error s c h e)).
Proof. intros H. destruct e; cbn [send_error fst]; auto. keep2. exact H. Qed.

Lemma AC_ensure_chan s c h : allch P2 s -> allch P2 (ensure_chan s c h).
Proof.
  intros H c' h' ch' Hg. apply get_chan_ensure in Hg. destruct Hg as [Hg|Hg]; [apply H; auto|subst; apply P2_nil; reflexivity].
Qed.

(* the delivery bookkeeping: tag counter, then the new entry *)
Lemma AC_deliver s c h d (e : unacked) : D g (u_qid e) (u_msg e) -> u_msg e < n -> DN (u_msg e) -> allch P2 s ->
  allch P2 (upd_chan (upd_chan s c h (fun ch => ch <| ch_dtag := d |>)) c h (fun ch => ch <| ch_unacked ::= fun l => l ++ [e] |>)).
Proof.
  intros Hd Hn Hdn H. apply allch_upd_chan; [|keep2; exact H].
  intros ch0 H0 x Hx. cbn in Hx. apply in_app_or in Hx. destruct Hx as [Hx|[<-|[]]]; auto.
Qed.

(* ---- queues ---- *)
Ltac pqk Hq := eapply Pq_keep; [|exact Hq]; reflexivity.

Lemma fold_left_preserves_in {A S} (I : S -> Prop) (f : S -> A -> S) l :
  (forall s a, In a l -> I s -> I (f s a)) -> forall s, I s -> I (fold_left f l s).
Proof.
  induction l as [|a t IH]; intros Hf s H; cbn [fold_left]; [exact H|].
  apply IH; [intros s0 a0 Ha; apply Hf; right; exact Ha|apply Hf; [left; reflexivity|exact H]].
Qed.

Lemma AQ_wake s c h tag : allq Pq s -> allq Pq (fst (wake_consumer s c h tag)).
Proof. intros H. same_queues. exact H. Qed.

Lemma AQ_queue_ackmsg s qn u : allq Pq s -> allq Pq (queue_ackmsg s qn u).
Proof.
  intros H. unfold queue_ackmsg. destruct (get_queue s qn) as [qu|] eqn:Eq; auto.
  destruct (get_msg s u) as [m|] eqn:Em; auto.
  destruct (negb (q_active qu)); auto.
  pose proof (allq_get _ _ _ _ H Eq) as Hq.
  apply allq_set_queue; [pqk Hq|]. sq.
Qed.

Lemma AQ_queue_requeue s qn u :
  (forall qu, get_queue s qn = Some qu -> D g (q_id qu) u /\ u < n /\ DN u) -> allq Pq s -> allq Pq (queue_requeue s qn u).
Proof.
  intros Hd H. unfold queue_requeue. destruct (get_queue s qn) as [qu|] eqn:Eq; auto.
  destruct (negb (q_active qu)); auto.
  pose proof (allq_get _ _ _ _ H Eq) as Hq. destruct (Hd qu eq_refl) as (D1 & D2 & D3).
  apply allq_set_queue.
  - eapply Pq_keep; [apply q_call_consumers|]. change (shapeN (q_id qu) (u :: q_ready qu)). apply shapeN_requeue; auto.
  - sq. eapply allq_same_queues; [apply store_writeback_frame|exact H].
Qed.

Lemma AQ_queue_remove_consumer s qn c h tag : allq Pq s -> allq Pq (queue_remove_consumer s qn c h tag).
Proof.
  intros H. unfold queue_remove_consumer. destruct (get_queue s qn) as [qu|] eqn:Eq; auto.
  pose proof (allq_get _ _ _ _ H Eq) as Hq.
  set (cs := remove_first _ _).
  destruct (Nat.eqb (List.length cs) 0) eqn:En; cbn [andb].
  - match goal with |- allq _ (if ?b then _ else _) => destruct b end.
    + same_queues. apply allq_set_queue; [pqk Hq|auto].
    + apply allq_set_queue; [pqk Hq|auto].
  - apply allq_set_queue; [pqk Hq|auto].
Qed.

Lemma AQ_consumer_stop s c h tag : allq Pq s -> allq Pq (consumer_stop s c h tag).
Proof.
  intros H. unfold consumer_stop. destruct (get_chan s c h) as [ch|]; auto.
  destruct (find_consumer ch tag) as [cm|]; auto.
  destruct (c_status cm); auto; apply AQ_queue_remove_consumer; sq.
Qed.

Lemma AQ_dec_qos cfg s c h u : allq Pq s -> allq Pq (dec_qos_and_consume_next cfg s c h u).
Proof.
  intros H. unfold dec_qos_and_consume_next. destruct (get_chan s c h) as [ch|]; auto.
  same_queues. sq.
Qed.

Lemma AQ_chan_ackmsg s u : allq Pq s -> allq Pq (chan_ackmsg s u).
Proof. intros H. unfold chan_ackmsg. destruct (origin_queue s u); [apply AQ_queue_ackmsg; auto|sq]. Qed.

Lemma AQ_chan_rejectmsg s e r : D g (u_qid e) (u_msg e) -> u_msg e < n -> DN (u_msg e) -> allq Pq s -> allq Pq (chan_rejectmsg s e r).
Proof.
  intros D1 D2 D3 H. unfold chan_rejectmsg. destruct (origin_queue s e) as [q0|] eqn:Eo.
  - apply origin_queue_some in Eo. destruct Eo as [Eg Ei].
    destruct r; [|apply AQ_queue_ackmsg; auto]. apply AQ_queue_requeue; auto.
    intros qu Hq. rewrite Eg in Hq. inversion Hq; subst. rewrite Ei. auto.
  - sq.
Qed.

Lemma AQ_handle_reject cfg s c h tag mult requeue cls mth :
  allch P2 s -> allq Pq s -> allq Pq (fst (handle_reject cfg s c h tag mult requeue cls mth)).
Proof.
  intros H2 H. unfold handle_reject. destruct (get_chan s c h) as [ch|] eqn:Ech; auto.
  pose proof (H2 _ _ _ Ech) as Hp.
  destruct mult.
  - cbn [fst]. apply fold_left_preserves; [intros; apply AQ_dec_qos; auto|].
    apply fold_left_preserves_in; auto. intros s0 a Ha H0.
    apply filter_In in Ha. destruct Ha as [Ha _]. apply (proj1 (sort_desc_perm _ _)) in Ha. destruct (Hp a Ha) as (D1 & D2 & D3).
    apply AQ_chan_rejectmsg; auto. sq.
  - destruct (find _ _) as [u|] eqn:Ef; cbn [fst]; auto. apply find_some in Ef. destruct Ef as [Ef _]. destruct (Hp u Ef) as (D1 & D2 & D3).
    apply AQ_dec_qos. apply AQ_chan_rejectmsg; auto. sq.
Qed.

Lemma AQ_handle_ack cfg s c h tag mult : allq Pq s -> allq Pq (fst (handle_ack cfg s c h tag mult)).
Proof.
  intros H. unfold handle_ack. destruct (get_chan s c h) as [ch|]; auto.
  destruct mult.
  - cbn [fst]. apply fold_left_preserves; [intros; apply AQ_dec_qos; auto|].
    apply fold_left_preserves; auto. intros s0 a H0. apply AQ_chan_ackmsg. sq.
  - destruct (find _ _); cbn [fst]; auto. apply AQ_dec_qos. apply AQ_chan_ackmsg. sq.
Qed.

(* ---- the message store ---- *)
Lemma ST_same s s' : st_add s' = st_add s -> st_db s' = st_db s -> ST s -> ST s'.
Proof. unfold ST, store. intros -> ->. auto. Qed.
Lemma ST_FR s s' : FR s s' -> ST s -> ST s'.
Proof. intros E. destruct (nexts_FR _ _ E) as (_ & _ & _ & A & B). apply ST_same; assumption. Qed.
Lemma sdb_set_chan s c h ch : st_add (set_chan s c h ch) = st_add s /\ st_db (set_chan s c h ch) = st_db s.
Proof. unfold set_chan. destruct (get_conn s c); auto. Qed.
Lemma sdb_upd_chan s c h f : st_add (upd_chan s c h f) = st_add s /\ st_db (upd_chan s c h f) = st_db s.
Proof. unfold upd_chan. destruct (get_chan s c h); [apply sdb_set_chan|auto]. Qed.
Lemma sdb_upd_msg s u f : st_add (upd_msg s u f) = st_add s /\ st_db (upd_msg s u f) = st_db s.
Proof. unfold upd_msg. destruct (get_msg s u); auto. Qed.
Lemma sdb_upd_queue s q f : st_add (upd_queue s q f) = st_add s /\ st_db (upd_queue s q f) = st_db s.
Proof. unfold upd_queue. destruct (get_queue s q); auto. Qed.
Lemma ST_upd_chan s c h f : ST s -> ST (upd_chan s c h f).
Proof. apply ST_same; apply sdb_upd_chan. Qed.
Lemma ST_upd_msg s u f : ST s -> ST (upd_msg s u f).
Proof. apply ST_same; apply sdb_upd_msg. Qed.

Lemma ST_queue_requeue s qn u : DN u -> ST s -> ST (queue_requeue s qn u).
Proof.
  intros Hu H. unfold queue_requeue. destruct (get_queue s qn) as [qu|]; auto. destruct (negb (q_active qu)); auto.
  assert (H1 : ST (store_writeback s qn u (q_durable qu))).
  { intros k Hk. apply store_writeback_store in Hk. destruct Hk as [Hk| ->]; [apply H; exact Hk|exact Hu]. }
  eapply ST_same; [| |exact H1]; cbn; apply sdb_upd_msg.
Qed.

Lemma ST_chan_rejectmsg s e r : DN (u_msg e) -> ST s -> ST (chan_rejectmsg s e r).
Proof.
  intros Hu H. unfold chan_rejectmsg. destruct (origin_queue s e).
  - destruct r; [apply ST_queue_requeue; auto|eapply ST_FR; [apply FR_queue_ackmsg|exact H]].
  - eapply ST_same; [| |exact H]; reflexivity.
Qed.

Lemma ST_handle_reject cfg s c h tag mult requeue cls mth :
  allch P2 s -> ST s -> ST (fst (handle_reject cfg s c h tag mult requeue cls mth)).
Proof.
  intros H2 H. unfold handle_reject. destruct (get_chan s c h) as [ch|] eqn:Ech; auto.
  pose proof (H2 _ _ _ Ech) as Hp.
  destruct mult.
  - cbn [fst]. apply fold_left_preserves; [intros s0 a H0; eapply ST_FR; [apply FR_dec_qos|exact H0]|].
    apply fold_left_preserves_in; auto. intros s0 a Ha H0.
    apply filter_In in Ha. destruct Ha as [Ha _]. apply (proj1 (sort_desc_perm _ _)) in Ha. destruct (Hp a Ha) as (_ & _ & D3).
    apply ST_chan_rejectmsg; auto. apply ST_upd_chan. exact H0.
  - destruct (find _ _) as [u|] eqn:Ef; cbn [fst]; auto. apply find_some in Ef. destruct Ef as [Ef _]. destruct (Hp u Ef) as (_ & _ & D3).
    eapply ST_FR; [apply FR_dec_qos|]. apply ST_chan_rejectmsg; auto. apply ST_upd_chan. exact H.
Qed.

Lemma ST_handle_ack cfg s c h tag mult : ST s -> ST (fst (handle_ack cfg s c h tag mult)).
Proof.
  intros H. unfold handle_ack. destruct (get_chan s c h) as [ch|]; auto.
  destruct mult.
  - cbn [fst]. apply fold_left_preserves; [intros s0 a H0; eapply ST_FR; [apply FR_dec_qos|exact H0]|].
    apply fold_left_preserves; auto. intros s0 a H0. eapply ST_FR; [apply FR_chan_ackmsg|]. apply ST_upd_chan. exact H0.
  - destruct (find _ _); cbn [fst]; auto. eapply ST_FR; [apply FR_dec_qos|]. eapply ST_FR; [apply FR_chan_ackmsg|]. apply ST_upd_chan. exact H.
Qed.

Lemma ST_channel_close cfg s c h : allch P2 s -> ST s -> ST (channel_close cfg s c h).
Proof.
  intros H2 H. unfold channel_close. destruct (get_chan s c h) as [ch|]; auto.
  apply ST_upd_chan.
  set (s2 := upd_chan (fold_left (fun s cm => consumer_stop s c h (c_tag cm)) (ch_consumers ch) s) c h
                     (fun ch => ch <| ch_consumers := [] |>)).
  assert (A1 : ST s2) by (subst s2; apply ST_upd_chan; apply fold_left_preserves; auto; intros s0 a H0; eapply ST_FR; [apply FR_consumer_stop|exact H0]).
  assert (A2 : allch P2 s2) by (subst s2; keep2; apply fold_left_preserves; auto; intros; apply AC_consumer_stop; auto).
  destruct (0 <? h); auto. apply ST_handle_reject; auto.
Qed.

Lemma ST_store_purge s qn : ST s -> ST (store_purge s qn).
Proof.
  intros H k Hk. apply H. unfold store_purge, store in *. cbn [st_add st_db set] in Hk. apply in_app_or in Hk. apply in_or_app.
  destruct Hk as [Hk|Hk]; [left; exact Hk|right]. apply filter_In in Hk. apply Hk.
Qed.

Lemma ST_vhost_delete_queue b s qn iu ie : ST s -> ST (fst (fst (vhost_delete_queue b s qn iu ie))).
Proof.
  intros H. unfold vhost_delete_queue. destruct (get_queue s qn) as [qu|] eqn:Eq; auto.
  destruct (_ || _).
  - cbn [fst]. destruct b; [|exact H]. eapply ST_same; [| |exact H]; reflexivity.
  - pose proof (FR_cancel_fold (q_consumers qu) s []) as Hf.
    destruct (fold_left _ (q_consumers qu) (s, [])) as [s1 e1]. cbn [fst] in *.
    assert (H1 : ST s1) by (eapply ST_FR; eauto).
    assert (H2 : ST (if q_durable qu then store_purge s1 qn else s1)) by (destruct (q_durable qu); [apply ST_store_purge|]; exact H1).
    eapply ST_same; [| |exact H2]; reflexivity.
Qed.

Lemma ST_queue_push s qn u : Gu u -> ST s -> ST (queue_push s qn u).
Proof.
  intros (_ & _ & _ & Hu) H.
  destruct (queue_push_effect s qn u) as [->|(qu & _ & _ & _ & _ & _ & _ & Edb & Eadd & _)]; [exact H|].
  intros k Hk. unfold store in Hk. rewrite Edb in Hk. destruct Eadd as [Ea|Ea]; rewrite Ea in Hk.
  - apply H. exact Hk.
  - rewrite <- app_assoc in Hk. apply in_app_or in Hk. destruct Hk as [Hk|Hk]; [apply H; apply in_or_app; left; exact Hk|].
    destruct Hk as [<-|Hk]; [exact Hu|apply H; apply in_or_app; right; exact Hk].
Qed.

Lemma ST_route_and_push fx s c h u : Gu u -> ST s -> ST (fst (route_and_push fx s c h u)).
Proof.
  intros Hu H. unfold route_and_push. destruct (get_msg s u) as [m|]; auto.
  destruct (alookup _ _ _) as [ex|]; cbn [fst]; [|eapply ST_FR; [apply FR_add_confirm|exact H]].
  destruct (matched_queues _ _ _) as [|q1 qs]; cbn [fst]; [eapply ST_FR; [apply FR_add_confirm|exact H]|].
  apply fold_left_preserves.
  - intros s0 qn H0. assert (H1 : ST (queue_push s0 qn u)) by (apply ST_queue_push; auto). unfold push_one.
    destruct (get_msg _ u); [|exact H1]. destruct (_ && _ && _); [|exact H1]. eapply ST_FR; [apply FR_add_confirm|exact H1].
  - destruct (_ && _)%bool; [apply ST_upd_msg|]; exact H.
Qed.

Lemma ST_finish_publish fx s c h u : Gu u -> ST s -> ST (fst (finish_publish fx s c h u)).
Proof.
  intros Hu H. unfold finish_publish. pose proof (ST_route_and_push fx s c h u Hu H) as H1.
  destruct (route_and_push fx s c h u) as [s1 e1]. cbn [fst] in *. destruct (fx_clear_current fx); [apply ST_upd_chan|]; exact H1.
Qed.

Lemma ST_handle_method cfg fx s c h m : is_get m = false -> allch P2 s -> ST s -> ST (fst (fst (handle_method cfg fx s c h m))).
Proof.
  intros Hm H2 H. unfold handle_method.
  destruct (get_chan s c h) as [ch|] eqn:Hch; [|exact H].
  assert (Hset : forall ch', ST (set_chan s c h ch')) by (intros ch'; eapply ST_same; [| |exact H]; apply sdb_set_chan).
  destruct m; try discriminate; unfold ok, refuse.
  - (* MChannelOpen *) destruct (ch_status ch); cbn [fst]; auto.
  - cbn [fst]. apply ST_channel_close; auto.
  - cbn [fst]. destruct (fx_closeok_releases fx); [apply ST_channel_close; auto|auto].
  - cbn [fst]. destruct (Bool.eqb _ _); auto. destruct a; auto.
  - destruct (extype_of type); [|exact H].
    repeat match goal with |- context [if ?b then _ else _] => destruct b end; cbn [fst]; auto.
    all: repeat match goal with |- context [match ?x with _ => _ end] => destruct x end; cbn [fst]; auto.
    all: try (eapply ST_same; [| |exact H]; reflexivity).
  - destruct (fx_not_impl fx); exact H.
  - (* MQDeclare *)
    destruct (seqb name ""); [exact H|].
    destruct (queue_found s name) as [qu|].
    + repeat match goal with |- context [if ?b then _ else _] => destruct b end; cbn [fst]; auto.
    + destruct passive; [destruct nowait; exact H|]. cbn [fst]. eapply ST_same; [| |exact H]; reflexivity.
  - destruct (alookup _ _ _); [|exact H]. destruct (seqb ex ""); [exact H|].
    destruct (queue_found s q); [|exact H]. destruct (locked _ _); [exact H|]. destruct (bad_xmatch _); [exact H|]. destruct (extype_eqb _ ExTopic && bad_pattern _)%bool; [exact H|]. cbn [fst].
    eapply ST_same; [| |exact H]; reflexivity.
  - destruct (alookup _ _ _); [|exact H]. destruct (queue_found s q); [|exact H]. destruct (locked _ _); [exact H|]. destruct (bad_xmatch _); [exact H|]. destruct (extype_eqb _ ExTopic && bad_pattern _)%bool; [exact H|]. cbn [fst].
    eapply ST_same; [| |exact H]; reflexivity.
  - (* MQPurge *)
    destruct (queue_found s q) as [qu|]; [|exact H]. destruct (locked _ _); [exact H|]. cbn [fst].
    assert (H1 : ST (if q_durable qu then store_purge s q else s)) by (destruct (q_durable qu); [apply ST_store_purge|]; exact H).
    eapply ST_same; [| |exact H1]; reflexivity.
  - (* MQDelete *)
    destruct (queue_found s q); [|exact H]. destruct (locked _ _); [exact H|].
    pose proof (ST_vhost_delete_queue (negb (fx_delete_checks_first fx)) s q ifunused ifempty H) as Hd.
    destruct (vhost_delete_queue _ s q ifunused ifempty) as [[s1 e1] r1]. cbn [fst] in *.
    destruct r1; exact Hd.
  - (* MQos *)
    cbn [fst]. eapply ST_FR; [apply FR_wake_consumers|].
    destruct (cfg_rabbit cfg); [destruct glob; auto|]. destruct glob; auto.
    destruct (get_conn s c); [|exact H]. eapply ST_same; [| |exact H]; reflexivity.
  - (* MPublish *)
    destruct imm; [exact H|]. destruct (alookup _ _ _); [|exact H].
    destruct (if ch_confirm ch then _ else _) as [conf ch']. cbn [fst].
    eapply ST_same; [| |exact H]; [rewrite (proj1 (sdb_set_chan _ _ _ _))|rewrite (proj2 (sdb_set_chan _ _ _ _))]; reflexivity.
  - (* MConsume *)
    destruct (queue_found s q) as [qu|]; [|exact H].
    destruct (fx_excl_owner fx && locked qu c); [exact H|].
    destruct (find_consumer ch _); [exact H|].
    destruct (_ && _)%bool; cbn [fst].
    + eapply ST_same; [| |exact H]; reflexivity.
    + eapply ST_same; [| |exact H]; [rewrite (proj1 (sdb_set_chan _ _ _ _))|rewrite (proj2 (sdb_set_chan _ _ _ _))];
        destruct (seqb tag ""%string); reflexivity.
  - (* MCancel *)
    destruct (find_consumer ch tag); [|exact H]. cbn [fst]. apply ST_upd_chan. apply ST_upd_chan.
    eapply ST_FR; [apply FR_consumer_stop|exact H].
  - pose proof (ST_handle_ack cfg s c h tag mult H) as Ha.
    destruct (handle_ack cfg s c h tag mult) as [s1 e1]. exact Ha.
  - pose proof (ST_handle_reject cfg s c h tag mult requeue 60 120 H2 H) as Ha.
    destruct (handle_reject cfg s c h tag mult requeue 60 120) as [s1 e1]. exact Ha.
  - pose proof (ST_handle_reject cfg s c h tag false requeue 60 90 H2 H) as Ha.
    destruct (handle_reject cfg s c h tag false requeue 60 90) as [s1 e1]. exact Ha.
  - exact H.
  - cbn [fst]. auto.
  - destruct (fx_not_impl fx); exact H.
  - exact H.
  - exact H.
  - destruct good; [cbn [fst]; eapply ST_FR; [apply FR_set_stage|exact H]|exact H].
  - destruct within; [cbn [fst]; eapply ST_FR; [apply FR_set_stage|exact H]|exact H].
  - destruct vhost_ok; [cbn [fst]; eapply ST_FR; [apply FR_set_stage|exact H]|exact H].
Qed.

Lemma ST_consumer_turn cfg fx s c h tag : ST s -> ST (fst (consumer_turn cfg fx s c h tag)).
Proof.
  intros H. destruct (consumer_turn_effect cfg fx s c h tag) as [[E _]|(ch & cm & qu & u & rest & dtag & _ & _ & _ & _ & Dv & _)].
  - eapply ST_FR; eauto.
  - eapply ST_same; [apply (dv_add _ _ _ _ _ _ _ _ Dv)|apply (dv_db _ _ _ _ _ _ _ _ Dv)|exact H].
Qed.
Lemma ST_get cfg fx s c h q noack : ST s -> ST (fst (fst (handle_method cfg fx s c h (MGet q noack)))).
Proof.
  intros H. destruct (get_effect cfg fx s c h q noack) as [[E _]|(qu & u & rest & dtag & _ & _ & _ & Dv & _)].
  - eapply ST_FR; eauto.
  - eapply ST_same; [apply (dv_add _ _ _ _ _ _ _ _ Dv)|apply (dv_db _ _ _ _ _ _ _ _ Dv)|exact H].
Qed.

Lemma IV_channel_close cfg s c h : IV s -> IV (channel_close cfg s c h).
Proof.
  intros (H & H2 & H3). split; [|split; [apply AC_channel_close; exact H2|apply ST_channel_close; assumption]].
  unfold channel_close. destruct (get_chan s c h) as [ch|]; auto.
  same_queues.
  set (s2 := upd_chan (fold_left (fun s cm => consumer_stop s c h (c_tag cm)) (ch_consumers ch) s) c h
                     (fun ch => ch <| ch_consumers := [] |>)).
  assert (A1 : allq Pq s2) by (subst s2; same_queues; apply fold_left_preserves; auto; intros; apply AQ_consumer_stop; auto).
  assert (A2 : allch P2 s2) by (subst s2; keep2; apply fold_left_preserves; auto; intros; apply AC_consumer_stop; auto).
  destruct (0 <? h); auto. apply AQ_handle_reject; auto.
Qed.

Lemma AQ_cancel_fold l : forall s evs, allq Pq s ->
  allq Pq (fst (fold_left (fun acc x => let '(s, evs) := acc in let '(s', e) := consumer_cancel s x in (s', evs ++ e)) l (s, evs))).
Proof.
  induction l as [|[[c h] tag] t IH]; intros s evs H; simpl; auto.
  apply IH. apply AQ_consumer_stop; auto.
Qed.

Lemma AQ_vhost_delete_queue b s qn iu ie : allq Pq s -> allq Pq (fst (fst (vhost_delete_queue b s qn iu ie))).
Proof.
  intros H. unfold vhost_delete_queue. destruct (get_queue s qn) as [qu|] eqn:Eq; auto.
  pose proof (allq_get _ _ _ _ H Eq) as Hq.
  destruct (_ || _).
  - cbn [fst]. destruct b; [|exact H]. apply allq_set_queue; [pqk Hq|auto].
  - pose proof (AQ_cancel_fold (q_consumers qu) s [] H) as Hf.
    destruct (fold_left _ (q_consumers qu) (s, [])) as [s1 e1]. cbn [fst] in *.
    apply allq_del_queue. unfold store_purge. sq.
Qed.

Lemma IV_vhost_delete_queue b s qn iu ie : IV s -> IV (fst (fst (vhost_delete_queue b s qn iu ie))).
Proof. intros (H & H2 & H3). split; [apply AQ_vhost_delete_queue; auto|split; [apply AC_vhost_delete_queue; auto|apply ST_vhost_delete_queue; auto]]. Qed.

Lemma AQ_queue_loop_turn s qn : allq Pq s -> allq Pq (queue_loop_turn s qn).
Proof.
  intros H. unfold queue_loop_turn. destruct (get_queue s qn) as [qu|] eqn:Eq; auto.
  destruct (negb (q_call qu)); auto.
  pose proof (allq_get _ _ _ _ H Eq) as Hq.
  assert (H1 : allq Pq (set_queue s qn (qu <| q_call := false |>))) by (apply allq_set_queue; [pqk Hq|auto]).
  destruct (Nat.eqb _ 0); auto.
  apply allq_upd_queue; [intros q0 Hq0; pqk Hq0|].
  apply fold_left_preserves; auto. intros s0 [[c h] tag] H0. apply AQ_wake; auto.
Qed.

Lemma AQ_queue_push s qn u : Gu u -> allq Pq s -> allq Pq (queue_push s qn u).
Proof.
  intros Hu H. unfold queue_push. destruct (get_queue s qn) as [qu|] eqn:Eq; auto.
  destruct (get_msg s u) as [m|] eqn:Em; auto.
  destruct (negb (q_active qu)); auto.
  pose proof (allq_get _ _ _ _ H Eq) as Hq.
  apply allq_set_queue; [|sq].
  eapply Pq_keep; [apply q_call_consumers|]. change (shapeN (q_id qu) (q_ready qu ++ [u])). apply shapeN_push; auto.
Qed.

Lemma AQ_route_and_push fx s c h u : Gu u -> allq Pq s -> allq Pq (fst (route_and_push fx s c h u)).
Proof.
  intros Hu H. unfold route_and_push. destruct (get_msg s u) as [m|]; auto.
  destruct (alookup _ _ _) as [ex|]; cbn [fst]; [|sq].
  destruct (matched_queues _ _ _) as [|q1 qs]; cbn [fst]; [sq|].
  apply fold_left_preserves.
  - intros s0 qn H0. assert (H1 : allq Pq (queue_push s0 qn u)) by (apply AQ_queue_push; auto). unfold push_one. sq.
  - sq.
Qed.

Lemma IV_finish_publish fx s c h u : Gu u -> IV s -> IV (fst (finish_publish fx s c h u)).
Proof.
  intros Hu (H & H2 & H3). split; [|split; [apply AC_finish_publish; exact H2|apply ST_finish_publish; assumption]].
  unfold finish_publish. pose proof (AQ_route_and_push fx s c h u Hu H) as H1.
  destruct (route_and_push fx s c h u) as [s1 e1]. cbn [fst] in *. sq.
Qed.

(* ---- method handlers (all but basic.get, which delivers) ---- *)
Lemma P2_orphan c h ch tag : P2 c h ch -> P2 c h (ch <| ch_unacked ::= map (orphan tag) |>).
Proof.
  unfold P2. intros H e He. cbn in He. apply in_map_iff in He. destruct He as (e0 & <- & He0).
  destruct (orphan_fields tag e0) as (_ & -> & -> & _). apply H. exact He0.
Qed.

Lemma AC_handle_method cfg fx s c h m : is_get m = false -> allch P2 s -> allch P2 (fst (fst (handle_method cfg fx s c h m))).
Proof.
  intros Hm H. unfold handle_method.
  destruct (get_chan s c h) as [ch|] eqn:Hch; [|exact H].
  destruct m; try discriminate; unfold ok, refuse.
  - (* MChannelOpen *)
    destruct (ch_status ch); cbn [fst]; auto.
    + set_keep2 Hch H. auto.
    + set_keep2 Hch H. auto.
    + apply allch_set_chan; auto. destruct (fx_reopen_resets fx).
      * apply P2_nil. reflexivity.
      * eapply P2_keep; [|exact (H _ _ _ Hch)]. reflexivity.
  - (* MChannelClose *) cbn [fst]. apply AC_channel_close; auto.
  - (* MChannelCloseOk *) cbn [fst]. destruct (fx_closeok_releases fx); [apply AC_channel_close; auto|set_keep2 Hch H; auto].
  - (* MChannelFlow *)
    cbn [fst]. destruct (Bool.eqb _ _); auto. destruct a; (set_keep2 Hch H; auto).
  - (* MExDeclare *)
    destruct (extype_of type); [|exact H].
    repeat match goal with |- context [if ?b then _ else _] => destruct b end; cbn [fst]; auto.
    all: repeat match goal with |- context [match ?x with _ => _ end] => destruct x end; cbn [fst]; auto.
    all: try (same_conns; auto).
  - (* MExDelete *) destruct (fx_not_impl fx); exact H.
  - (* MQDeclare *)
    destruct (seqb name ""); [exact H|].
    destruct (queue_found s name) as [qu|].
    + repeat match goal with |- context [if ?b then _ else _] => destruct b end; cbn [fst]; auto.
    + destruct passive; [destruct nowait; exact H|]. cbn [fst]. repeat same_conns. auto.
  - (* MQBind *)
    destruct (alookup _ _ _); [|exact H]. destruct (seqb ex ""); [exact H|].
    destruct (queue_found s q); [|exact H]. destruct (locked _ _); [exact H|]. destruct (bad_xmatch _); [exact H|]. destruct (extype_eqb _ ExTopic && bad_pattern _)%bool; [exact H|]. cbn [fst]. same_conns. auto.
  - (* MQUnbind *)
    destruct (alookup _ _ _); [|exact H]. destruct (queue_found s q); [|exact H]. destruct (locked _ _); [exact H|]. destruct (bad_xmatch _); [exact H|]. destruct (extype_eqb _ ExTopic && bad_pattern _)%bool; [exact H|]. cbn [fst]. same_conns. auto.
  - (* MQPurge *)
    destruct (queue_found s q) as [qu|]; [|exact H]. destruct (locked _ _); [exact H|]. cbn [fst]. unfold store_purge.
    repeat (first [assumption | same_conns | match goal with |- allch _ (if ?b then _ else _) => destruct b end]).
  - (* MQDelete *)
    destruct (queue_found s q); [|exact H]. destruct (locked _ _); [exact H|].
    pose proof (AC_vhost_delete_queue (negb (fx_delete_checks_first fx)) s q ifunused ifempty H) as Hd.
    destruct (vhost_delete_queue _ s q ifunused ifempty) as [[s1 e1] r1]. cbn [fst] in *.
    destruct r1; exact Hd.
  - (* MQos *)
    cbn [fst]. apply AC_wake_consumers. destruct (cfg_rabbit cfg); [destruct glob; (set_keep2 Hch H; auto)|].
    destruct glob; [|set_keep2 Hch H; auto]. destruct (get_conn s c) eqn:Ec; auto. eapply allch_set_conn_qos; eauto.
  - (* MPublish *)
    destruct imm; [exact H|]. destruct (alookup _ _ _); [|exact H].
    destruct (ch_confirm ch); cbn [fst].
    + apply allch_set_chan; [eapply P2_keep; [|exact (H _ _ _ Hch)]; reflexivity|]. repeat same_conns. auto.
    + apply allch_set_chan; [eapply P2_keep; [|exact (H _ _ _ Hch)]; reflexivity|]. repeat same_conns. auto.
  - (* MConsume *)
    destruct (queue_found s q) as [qu|]; [|exact H].
    destruct (fx_excl_owner fx && locked qu c); [exact H|].
    destruct (find_consumer ch _); [exact H|].
    destruct (_ && _)%bool; cbn [fst].
    + same_conns. auto.
    + apply allch_set_chan; [eapply P2_keep; [|exact (H _ _ _ Hch)]; reflexivity|].
      destruct (seqb tag ""%string); repeat same_conns; auto.
  - (* MCancel *)
    destruct (find_consumer ch tag); [|exact H]. cbn [fst].
    apply allch_upd_chan; [intros ch0 Hc0; apply P2_orphan; exact Hc0|].
    keep2. apply AC_consumer_stop. exact H.
  - (* MAck *)
    pose proof (AC_handle_ack cfg s c h tag mult H) as Ha.
    destruct (handle_ack cfg s c h tag mult) as [s1 e1]. exact Ha.
  - (* MNack *)
    pose proof (AC_handle_reject cfg s c h tag mult requeue 60 120 H) as Ha.
    destruct (handle_reject cfg s c h tag mult requeue 60 120) as [s1 e1]. exact Ha.
  - (* MReject *)
    pose proof (AC_handle_reject cfg s c h tag false requeue 60 90 H) as Ha.
    destruct (handle_reject cfg s c h tag false requeue 60 90) as [s1 e1]. exact Ha.
  - (* MRecover *) exact H.
  - (* MConfirmSelect *) cbn [fst]. set_keep2 Hch H. auto.
  - (* MTxSelect *) destruct (fx_not_impl fx); exact H.
  - (* MConnClose *) exact H.
  - (* MConnCloseOk *) exact H.
  - (* MStartOk *) destruct good; [cbn [fst]; apply allch_set_stage; exact H|exact H].
  - (* MTuneOk *) destruct within; [cbn [fst]; apply allch_set_stage; exact H|exact H].
  - (* MConnOpen *) destruct vhost_ok; [cbn [fst]; apply allch_set_stage; exact H|exact H].
Qed.

Lemma AQ_handle_method cfg fx s c h m : is_get m = false -> IV s -> allq Pq (fst (fst (handle_method cfg fx s c h m))).
Proof.
  intros Hm (H & H2 & H3). unfold handle_method.
  destruct (get_chan s c h) as [ch|] eqn:Hch; [|exact H].
  destruct m; try discriminate; unfold ok, refuse.
  - (* MChannelOpen *) destruct (ch_status ch); qm_leaf.
  - (* MChannelClose *) cbn [fst]. apply IV_channel_close. split; [assumption|split; assumption].
  - (* MChannelCloseOk *) cbn [fst]. destruct (fx_closeok_releases fx); [apply IV_channel_close; (split; [assumption|split; assumption])|]; sq.
  - (* MChannelFlow *) cbn [fst]. destruct (Bool.eqb _ _); [exact H|]. destruct a; sq.
  - (* MExDeclare *) destruct (extype_of type); [|exact H].
    repeat match goal with |- context [if ?b then _ else _] => destruct b end; qm_leaf.
    all: repeat match goal with |- context [match ?x with _ => _ end] => destruct x end; qm_leaf.
  - (* MExDelete *) destruct (fx_not_impl fx); exact H.
  - (* MQDeclare *)
    destruct (seqb name ""); [exact H|].
    destruct (queue_found s name) as [qu|] eqn:Ef.
    + repeat match goal with |- context [if ?b then _ else _] => destruct b end; qm_leaf.
    + destruct passive; [destruct nowait; exact H|]. cbn [fst].
      same_queues. apply allq_set_queue; [apply Pq_nil; reflexivity|sq].
  - (* MQBind *)
    destruct (alookup _ _ _); [|exact H]. destruct (seqb ex ""); [exact H|].
    destruct (queue_found s q); [|exact H]. destruct (locked _ _); [exact H|]. destruct (bad_xmatch _); [exact H|]. destruct (extype_eqb _ ExTopic && bad_pattern _)%bool; [exact H|]. cbn [fst]. sq.
  - (* MQUnbind *)
    destruct (alookup _ _ _); [|exact H]. destruct (queue_found s q); [|exact H]. destruct (locked _ _); [exact H|]. destruct (bad_xmatch _); [exact H|]. destruct (extype_eqb _ ExTopic && bad_pattern _)%bool; [exact H|]. cbn [fst]. sq.
  - (* MQPurge *)
    destruct (queue_found s q) as [qu|] eqn:Ef; [|exact H]. destruct (locked _ _); [exact H|]. cbn [fst].
    apply allq_set_queue; [apply Pq_nil; reflexivity|]. unfold store_purge. sq.
  - (* MQDelete *)
    destruct (queue_found s q); [|exact H]. destruct (locked _ _); [exact H|].
    pose proof (AQ_vhost_delete_queue (negb (fx_delete_checks_first fx)) s q ifunused ifempty H) as Hd.
    destruct (vhost_delete_queue _ s q ifunused ifempty) as [[s1 e1] r1]. cbn [fst] in *.
    destruct r1; exact Hd.
  - (* MQos *) cbn [fst]. same_queues. sq.
  - (* MPublish *)
    destruct imm; [exact H|]. destruct (alookup _ _ _); [|exact H].
    destruct (if ch_confirm ch then _ else _) as [conf ch']. cbn [fst]. sq.
  - (* MConsume *)
    destruct (queue_found s q) as [qu|] eqn:Ef; [|exact H].
    apply queue_found_get in Ef. pose proof (allq_get _ _ _ _ H Ef) as Hq.
    destruct (fx_excl_owner fx && locked qu c); [exact H|].
    destruct (find_consumer ch _); [exact H|].
    destruct (_ && _)%bool; cbn [fst].
    + apply allq_set_queue; [pqk Hq|exact H].
    + destruct (seqb tag ""%string); repeat same_queues; (apply allq_set_queue; [|exact H]);
        (eapply Pq_keep; [apply q_call_consumers|]); destruct excl; pqk Hq.
  - (* MCancel *)
    destruct (find_consumer ch tag); [|exact H]. cbn [fst]. repeat same_queues. apply AQ_consumer_stop. exact H.
  - (* MAck *)
    pose proof (AQ_handle_ack cfg s c h tag mult H) as Ha.
    destruct (handle_ack cfg s c h tag mult) as [s1 e1]. exact Ha.
  - (* MNack *)
    pose proof (AQ_handle_reject cfg s c h tag mult requeue 60 120 H2 H) as Ha.
    destruct (handle_reject cfg s c h tag mult requeue 60 120) as [s1 e1]. exact Ha.
  - (* MReject *)
    pose proof (AQ_handle_reject cfg s c h tag false requeue 60 90 H2 H) as Ha.
    destruct (handle_reject cfg s c h tag false requeue 60 90) as [s1 e1]. exact Ha.
  - (* MRecover *) exact H.
  - (* MConfirmSelect *) cbn [fst]. sq.
  - (* MTxSelect *) destruct (fx_not_impl fx); exact H.
  - (* MConnClose *) exact H.
  - (* MConnCloseOk *) exact H.
  - (* MStartOk *) destruct good; [cbn [fst]; eapply allq_same_queues; [apply queues_set_stage|exact H]|exact H].
  - (* MTuneOk *) destruct within; [cbn [fst]; eapply allq_same_queues; [apply queues_set_stage|exact H]|exact H].
  - (* MConnOpen *) destruct vhost_ok; [cbn [fst]; eapply allq_same_queues; [apply queues_set_stage|exact H]|exact H].
Qed.

Lemma IV_handle_method cfg fx s c h m : is_get m = false -> IV s -> IV (fst (fst (handle_method cfg fx s c h m))).
Proof. intros Hm H. split; [apply AQ_handle_method; auto|split; [apply AC_handle_method; [exact Hm|apply H]|apply ST_handle_method; [exact Hm|apply H|apply H]]]. Qed.

(* ---- teardown ---- *)
Lemma IV_delete_fold b l : forall s evs, IV s ->
  IV (fst (fold_left (fun acc qn => let '(s, evs) := acc in
                                    let '(s', e, _) := vhost_delete_queue b s qn false false in (s', evs ++ e)) l (s, evs))).
Proof.
  induction l as [|x t IH]; intros s evs H; simpl; auto.
  pose proof (IV_vhost_delete_queue b s x false false H) as Hd.
  destruct (vhost_delete_queue b s x false false) as [[s1 e1] r1]. cbn [fst] in Hd. apply IH. exact Hd.
Qed.

Lemma IV_conn_close cfg fx s c : IV s -> IV (fst (conn_close cfg fx s c)).
Proof.
  intros H. unfold conn_close. destruct (get_conn s c) as [cn|]; [|exact H].
  set (s1 := fold_left _ _ s).
  assert (H1 : IV s1) by (subst s1; apply fold_left_preserves; auto; intros; apply IV_channel_close; auto).
  clearbody s1.
  pose proof (IV_delete_fold (negb (fx_delete_checks_first fx))
                (map fst (filter (fun kv => q_excl (snd kv) && (q_owner (snd kv) =? c)) (queues s1))) s1 [] H1) as Hd.
  destruct (fold_left _ _ (s1, [])) as [s2 e2]. cbn [fst] in *. destruct Hd as (A & B & C). split; [sq|split; [apply allch_del_conn; exact B|eapply ST_same; [| |exact C]; reflexivity]].
Qed.

Lemma IV_send_error s c h e : IV s -> IV (fst (send_error s c h e)).
Proof.
  intros (A & B & C). split; [eapply allq_same_queues; [apply queues_send_error|exact A]|split; [apply AC_send_error; exact B|eapply ST_FR; [apply FR_send_error|exact C]]].
Qed.

Lemma IV_apply_err s c h r : IV (fst (fst r)) -> IV (fst (apply_err s c h r)).
Proof.
  destruct r as [[s1 e1] [e|]]; cbn [fst]; auto.
  intros H. unfold apply_err. pose proof (IV_send_error s1 c h e H) as Hs.
  destruct (send_error s1 c h e) as [s2 e2]. exact Hs.
Qed.

Lemma IV_apply_err_st cfg fx opened s c h r : IV (fst (fst r)) -> IV (fst (apply_err_st cfg fx opened s c h r)).
Proof.
  intros H. unfold apply_err_st. destruct opened; [apply IV_apply_err; auto|].
  destruct (snd r) as [[| ]|]; try (apply IV_apply_err; auto).
  pose proof (IV_apply_err s c h r H) as H1. destruct (apply_err s c h r) as [s1 e1]. cbn [fst] in H1.
  pose proof (IV_conn_close cfg fx s1 c H1) as H2. destruct (conn_close cfg fx s1 c) as [s2 e2]. exact H2.
Qed.

Lemma IV_ensure_chan s c h : IV s -> IV (ensure_chan s c h).
Proof. intros (A & B & C). split; [sq|split; [apply AC_ensure_chan; exact B|eapply ST_FR; [apply FR_ensure_chan|exact C]]]. Qed.

Lemma IV_same s s' : queues s' = queues s -> conns s' = conns s -> st_add s' = st_add s -> st_db s' = st_db s -> IV s -> IV s'.
Proof. intros E1 E2 E3 E4 (A & B & C). split; [eapply allq_same_queues; eauto|split; [eapply allch_same_conns; eauto|eapply ST_same; eauto]]. Qed.

(* ---- deliveries: the head leaves; it must already be marked as delivered in g ---- *)
Lemma Pq_pop qu u rest : Pq qu -> q_ready qu = u :: rest -> D g (q_id qu) u -> Pq (popped rest qu).
Proof.
  unfold Pq. intros Hq Er Hd. rewrite q_ready_popped. destruct (popped_keeps rest qu) as (-> & _).
  rewrite Er in Hq. eapply shapeN_pop; eauto.
Qed.

Ltac metric_upd2 := apply allq_upd_queue; [intros q0 Hq0; pqk Hq0|].

Lemma IV_turn cfg fx s c h tag : IV2 s ->
  ((forall q, R (fst (consumer_turn cfg fx s c h tag)) q = R s q) /\ IV2 (fst (consumer_turn cfg fx s c h tag))) \/
  (exists q qu u rest, turn_queue s c h tag = Some q /\ get_queue s q = Some qu /\ q_ready qu = u :: rest /\
     R (fst (consumer_turn cfg fx s c h tag)) q = Some rest /\
     (D g (q_id qu) u -> IV2 (fst (consumer_turn cfg fx s c h tag)))).
Proof.
  intros [H C]. unfold consumer_turn, turn_queue.
  destruct (get_chan s c h) as [ch|] eqn:Ech; [|left; split; [reflexivity|split; assumption]].
  destruct (find_consumer ch tag) as [cm|] eqn:Efc; [|left; split; [reflexivity|split; assumption]].
  destruct (negb (c_token cm)); [left; split; [reflexivity|split; assumption]|].
  set (s0 := set_chan s c h _).
  assert (R0 : forall q', R s0 q' = R s q') by (intros; subst s0; apply R_same_queues; apply queues_set_chan).
  assert (H0 : allq Pq s0) by (subst s0; sq).
  assert (C0 : allch P2 s0) by (subst s0; set_keep2 Ech C; exact C).
  assert (G0 : forall q', get_queue s0 q' = get_queue s q') by (intros; subst s0; apply get_queue_same_queues; apply queues_set_chan).
  clearbody s0.
  destruct (c_status cm); try (left; split; [exact R0|split; assumption]).
  all: destruct (get_queue s0 (c_queue cm)) as [qu|] eqn:Eq; [|left; split; [exact R0|split; assumption]].
  all: destruct (negb (q_active qu)); [left; split; [exact R0|split; assumption]|].
  all: destruct (q_ready qu) as [|u rest] eqn:Er; [left; split; [exact R0|split; assumption]|].
  all: pose proof (allq_get _ _ _ _ H0 Eq) as Hq.
  all: match goal with |- context [if c_noack ?cm0 then (Some [], []) else ?r] => destruct (if c_noack cm0 then (Some [], []) else r) as [okr ws] end.
  all: set (s1 := if c_noack cm then s0 else store_windows cfg s0 c h tag ws).
  all: assert (R1 : forall q', R s1 q' = R s q') by (intros; subst s1; destruct (c_noack cm); [|rewrite R_store_windows]; apply R0).
  all: assert (H1 : allq Pq s1) by (subst s1; sq).
  all: assert (C1 : allch P2 s1) by (subst s1; destruct (c_noack cm); auto; apply AC_store_windows; auto).
  all: assert (E1 : get_queue s1 (c_queue cm) = Some qu)
         by (subst s1; destruct (c_noack cm); auto; rewrite (get_queue_same_queues s0); auto; apply queues_store_windows).
  all: clearbody s1.
  all: destruct okr; cbn [fst]; [|left; split; [exact R1|split; assumption]].
  all: right; exists (c_queue cm), qu, u, rest.
  all: split; [reflexivity|]; split; [rewrite <- G0; exact Eq|]; split; [exact Er|].
  all: match goal with |- context [wake_consumer ?st ?c0 ?h0 ?tag0] => destruct (wake_consumer st c0 h0 tag0) as [s9 b9] eqn:Ew;
         apply fst_pair in Ew; cbn [fst]; subst s9 end.
  all: split.
  (* the ready list *)
  1,3: rewrite R_wake.
  1,2: match goal with |- R (@set ?a ?b ?cc ?dd ?ee ?st) ?qq = _ => rewrite (R_same_queues st (@set a b cc dd ee st) qq eq_refl) end.
  1,2: set (s2 := upd_queue s1 (c_queue cm) _).
  1,2: assert (R2 : R s2 (c_queue cm) = Some rest)
         by (subst s2; rewrite (R_upd_queue_at _ _ _ qu) by exact E1; rewrite seqb_refl, q_ready_popped; reflexivity).
  1,2: clearbody s2.
  1,2: rewrite <- R2.
  1,2: destruct (c_noack cm);
            repeat (first [ rewrite R_queue_ackmsg
                          | rewrite (R_upd_queue_keep _ _ _ (c_queue cm)) by reflexivity
                          | match goal with |- context [R (upd_chan ?st ?cc ?hh ?f) ?qq] => rewrite (R_same_queues st (upd_chan st cc hh f) qq (queues_upd_chan st cc hh f)) end
                          | match goal with |- context [R (@set ?a ?b ?cc ?dd ?ee ?st) ?qq] => rewrite (R_same_queues st (@set a b cc dd ee st) qq eq_refl) end
                          | match goal with |- context [R (if ?b then _ else _) _] => destruct b end ]); reflexivity.
  (* the invariant *)
  all: intros HD.
  all: assert (H2 : allq Pq (upd_queue s1 (c_queue cm) (popped rest)))
         by (eapply allq_upd_queue_at; eauto; eapply Pq_pop; eauto).
  all: assert (Q2 : qid_of (upd_queue s1 (c_queue cm) (popped rest)) (c_queue cm) = q_id qu)
         by (unfold qid_of; rewrite (get_queue_upd_queue_at _ _ _ _ E1); apply popped_keeps).
  all: assert (Hun : u < n /\ DN u) by (apply Hq; rewrite Er; left; reflexivity).
  all: split.
  1,3: apply AQ_wake; same_queues; destruct (c_noack cm);
         repeat (first [ metric_upd2 | same_queues | apply AQ_queue_ackmsg | assumption
                       | match goal with |- allq _ (if ?b then _ else _) => destruct b end ]).
  all: apply AC_wake; same_conns.
  all: destruct (c_noack cm).
  all: repeat (first [ assumption | same_conns | keep2 | match goal with |- allch _ (if ?b then _ else _) => destruct b end ]).
  all: apply AC_deliver; [cbn [u_qid u_msg]; rewrite (qid_of_same_queues (upd_queue s1 (c_queue cm) (popped rest))) by apply queues_upd_chan; rewrite Q2; exact HD
                         |apply Hun|apply Hun|same_conns; exact C1].
Qed.

Lemma IV_get cfg fx s c h q noack : IV2 s ->
  (nd (snd (fst (handle_method cfg fx s c h (MGet q noack)))) /\ IV2 (fst (fst (handle_method cfg fx s c h (MGet q noack))))) \/
  (exists qu u rest, get_queue s q = Some qu /\ q_ready qu = u :: rest /\ snd (handle_method cfg fx s c h (MGet q noack)) = None /\
     (exists e, In e (snd (fst (handle_method cfg fx s c h (MGet q noack)))) /\ is_delivery e = true) /\
     (D g (q_id qu) u -> IV2 (fst (fst (handle_method cfg fx s c h (MGet q noack)))))).
Proof.
  intros [H C]. unfold handle_method.
  destruct (get_chan s c h) as [ch|] eqn:Hch; [|left; split; [apply nd_nil|split; assumption]].
  unfold ok, refuse.
  destruct (queue_found s q) as [qu|] eqn:Ef; [|left; split; [apply nd_nil|split; assumption]].
  apply queue_found_get in Ef. pose proof (allq_get _ _ _ _ H Ef) as Hq.
  destruct (fx_excl_owner fx && locked qu c); [left; split; [apply nd_nil|split; assumption]|].
  destruct (q_ready qu) as [|u rest] eqn:Er; [left; split; [intros e [<-|[]]; reflexivity|split; assumption]|].
  match goal with |- context [if noack then (Some [], []) else ?r] => destruct (if noack then (Some [], []) else r) as [okr ws] end.
  set (s1 := match ws with [w1; w2] => _ | _ => s end).
  assert (H1 : allq Pq s1) by (subst s1; sq).
  assert (C1 : allch P2 s1).
  { subst s1. destruct ws as [|w1 [|w2 [|]]]; auto.
    destruct (get_conn _ c) eqn:Ec.
    - eapply allch_set_conn_qos; eauto. set_keep2 Hch C. auto.
    - set_keep2 Hch C. auto. }
  assert (E1 : get_queue s1 q = Some qu).
  { subst s1. destruct ws as [|w1 [|w2 [|]]]; auto.
    destruct (get_conn _ _); rewrite (get_queue_same_queues s); auto; cbn; rewrite ?queues_set_chan; auto. }
  clearbody s1.
  destruct okr; cbn [fst snd]; [|left; split; [intros e [<-|[]]; reflexivity|split; assumption]].
  right. exists qu, u, rest. split; [exact Ef|]. split; [exact Er|]. split; [reflexivity|]. split.
  { destruct (get_msg _ u); eexists; (split; [left; reflexivity|reflexivity]). }
  intros HD.
  assert (H2 : allq Pq (upd_queue s1 q (popped rest))) by (eapply allq_upd_queue_at; eauto; eapply Pq_pop; eauto).
  assert (Q2 : qid_of (upd_queue s1 q (popped rest)) q = q_id qu)
    by (unfold qid_of; rewrite (get_queue_upd_queue_at _ _ _ _ E1); apply popped_keeps).
  assert (Hun : u < n /\ DN u) by (apply Hq; rewrite Er; left; reflexivity).
  split.
  - same_queues. destruct noack.
    all: repeat (first [ metric_upd2 | same_queues | apply AQ_queue_ackmsg | assumption
                       | match goal with |- allq _ (if ?b then _ else _) => destruct b end ]).
  - same_conns. destruct noack.
    all: repeat (first [ assumption | same_conns | keep2 | match goal with |- allch _ (if ?b then _ else _) => destruct b end ]).
    apply AC_deliver; [cbn [u_qid u_msg]; rewrite (qid_of_same_queues (upd_queue s1 q (popped rest))) by apply queues_upd_chan; rewrite Q2; exact HD
                      |apply Hun|apply Hun|same_conns; exact C1].
Qed.

(* ---- every label that neither delivers nor restarts, for the fixed ghost ---- *)
Definition content_chan (l : label) : option (N * N) :=
  match l with LHeader c h _ _ _ | LBody c h _ => Some (c, h) | _ => None end.

Lemma IV_newconn s c st : get_conn s c = None -> IV s ->
  IV (s <| conns := aset N.eqb c {| cn_chans := [(0, channel0 <| ch_status := ChNew |>)]; cn_qos := qos0; cn_stage := st |} (conns s) |>).
Proof.
  intros Ec (A & B & C). split; [sq|split; [|eapply ST_same; [| |exact C]; reflexivity]].
  intros c' h' ch' Hg. unfold get_chan, get_conn in Hg. cbn in Hg. rewrite (alookup_aset N.eqb Neqb_spec) in Hg.
  destruct (c' =? c) eqn:E1.
  - cbn in Hg. destruct (h' =? 0); inversion Hg; subst. apply P2_nil. reflexivity.
  - apply B. unfold get_chan, get_conn. exact Hg.
Qed.

Theorem IV_step cfg fx s l :
  delivering l = false -> is_restart l = false ->
  (forall c h ch u, content_chan l = Some (c, h) -> get_chan (ensure_chan s c h) c h = Some ch -> ch_cur ch = Some u -> Gu u) ->
  IV s -> IV (fst (step cfg fx s l)).
Proof.
  intros Hl Hr HG H. destruct l; try discriminate; cbn [step].
  - (* LConnect *) destruct (get_conn s c) eqn:Ec; cbn [fst]; auto. apply IV_newconn; auto.
  - (* LMethod *)
    cbn [delivering] in Hl.
    destruct (get_conn s c) as [cn0|]; [|exact H].
    destruct (negb _ && negb _)%bool; [apply IV_conn_close; auto|].
    assert (H0 : IV (ensure_chan s c h)) by (apply IV_ensure_chan; exact H).
    destruct m; try discriminate.
    all: try (repeat match goal with |- context [if ?b then _ else _] => destruct b end;
              first [ exact H0
                    | apply IV_apply_err; first [ apply IV_handle_method; [reflexivity|exact H0] | exact H0 ]
                    | apply IV_apply_err_st; first [ apply IV_handle_method; [reflexivity|exact H0] | exact H0 ] ]).
    + destruct (fx_stage fx && negb (h =? 0)); [apply IV_apply_err; exact H0|].
      pose proof (IV_conn_close cfg fx _ c H0) as Hc.
      destruct (conn_close cfg fx (ensure_chan s c h) c) as [s1 e1]. exact Hc.
    + destruct (fx_stage fx && negb (h =? 0)); [apply IV_apply_err; exact H0|]. apply IV_conn_close; auto.
  - (* LHeader *)
    destruct (get_conn s c) as [cn0|]; [|exact H].
    destruct (negb _ && negb _)%bool; [apply IV_conn_close; auto|].
    assert (H0 : IV (ensure_chan s c h)) by (apply IV_ensure_chan; exact H).
    destruct (get_chan _ c h) as [ch|] eqn:Ech; [|exact H0].
    destruct (_ && _)%bool; [exact H0|].
    destruct (ch_cur ch) as [u|] eqn:Ecur; [|apply IV_apply_err_st; exact H0].
    destruct (get_msg _ u) as [m|]; [|exact H0].
    destruct (m_has_header m); [apply IV_apply_err_st; exact H0|].
    assert (H1 : forall f, IV (upd_msg (ensure_chan s c h) u f))
      by (intros f; eapply IV_same; [apply queues_upd_msg|apply conns_upd_msg|apply sdb_upd_msg|apply sdb_upd_msg|exact H0]).
    destruct (_ && _)%bool; [|apply H1].
    apply IV_finish_publish; [|apply H1]. eapply HG; eauto. reflexivity.
  - (* LBody *)
    destruct (get_conn s c) as [cn0|]; [|exact H].
    destruct (negb _ && negb _)%bool; [apply IV_conn_close; auto|].
    assert (H0 : IV (ensure_chan s c h)) by (apply IV_ensure_chan; exact H).
    destruct (get_chan _ c h) as [ch|] eqn:Ech; [|exact H0].
    destruct (_ && _)%bool; [exact H0|].
    destruct (ch_cur ch) as [u|] eqn:Ecur; [|apply IV_apply_err_st; exact H0].
    destruct (get_msg _ u) as [m|]; [|exact H0].
    destruct (negb (m_has_header m)); [apply IV_apply_err_st; exact H0|].
    destruct (_ <? _).
    { apply IV_apply_err_st. cbn [fst]. destruct H0 as (A & B & C). split; [sq|split; [keep2; exact B|apply ST_upd_chan; exact C]]. }
    assert (H1 : forall f, IV (upd_msg (ensure_chan s c h) u f))
      by (intros f; eapply IV_same; [apply queues_upd_msg|apply conns_upd_msg|apply sdb_upd_msg|apply sdb_upd_msg|exact H0]).
    destruct (_ <? _); [apply H1|].
    apply IV_finish_publish; [|apply H1]. eapply HG; eauto. reflexivity.
  - (* LQueueLoop *) cbn [fst]. destruct H as (A & B & C). split; [apply AQ_queue_loop_turn; exact A|split; [apply AC_queue_loop_turn; exact B|eapply ST_FR; [apply FR_queue_loop_turn|exact C]]].
  - (* LAutoDelete *)
    destruct (autodel s) as [|qn rest]; [exact H|].
    assert (H0 : IV (s <| autodel := rest |>)) by (eapply IV_same; [| | | |exact H]; reflexivity).
    destruct (get_queue _ qn) as [qu0|]; [|exact H0]. destruct (q_autodel qu0); [|exact H0].
    pose proof (IV_vhost_delete_queue (negb (fx_delete_checks_first fx)) _ qn true false H0) as Hd.
    destruct (vhost_delete_queue _ (s <| autodel := rest |>) qn true false) as [[s1 e1] r1]. exact Hd.
  - (* LPersistTick *)
    cbn [fst]. apply fold_left_preserves.
    + intros s0 k (A & B & C). split; [eapply allq_same_queues; [apply queues_store_confirm|exact A]|].
      split; [eapply allch_same_conns; [apply conns_store_confirm|exact B]|eapply ST_FR; [apply FR_store_confirm|exact C]].
    + destruct H as (A & B & C). split; [sq|split; [repeat same_conns; exact B|]].
      intros k Hk. unfold store in Hk. cbn [st_add st_db set app] in Hk. apply filter_In in Hk. destruct Hk as [Hk _].
      apply in_app_or in Hk. destruct Hk as [Hk|Hk]; [apply C; apply in_or_app; right; exact Hk|].
      apply filter_In in Hk. destruct Hk as [Hk _]. apply filter_In in Hk. destruct Hk as [Hk _]. apply C. apply in_or_app. left. exact Hk.
  - (* LRelay *)
    destruct (relay s) as [|u rest]; [exact H|].
    assert (H0 : IV (s <| relay := rest |>)) by (eapply IV_same; [| | | |exact H]; reflexivity).
    destruct (get_msg _ u) as [m|]; cbn [fst]; auto.
    destruct (m_conf m) as [[[? ?] ?]|]; cbn [fst]; auto.
    destruct H0 as (A & B & C). split; [sq|split; [apply AC_add_confirm; exact B|eapply ST_FR; [apply FR_add_confirm|exact C]]].
  - (* LConfirmTick *)
    destruct (get_chan s c h) as [ch|] eqn:Ech; [|exact H]. destruct (negb _); [exact H|].
    destruct H as (A & B & C).
    destruct (ch_status ch); cbn [fst]; (split; [sq|split; [set_keep2 Ech B; exact B|eapply ST_same; [| |exact C]; apply sdb_set_chan]]).
  - (* LSocketLoss *)
    pose proof (IV_conn_close cfg fx s c H) as Hc. destruct (conn_close cfg fx s c) as [s1 e1]. exact Hc.
  - (* LAccept *) destruct (get_conn s c) eqn:Ec; cbn [fst]; auto. apply IV_newconn; auto.
  - (* LBadMethod *)
    destruct (get_conn s c) as [cn0|]; [|exact H].
    destruct (negb _ && negb _)%bool; [apply IV_conn_close; auto|].
    apply IV_apply_err_st. cbn [fst]. apply IV_ensure_chan; exact H.
  - (* LHeartbeat *)
    destruct (get_conn s c); [|exact H]. destruct (h =? 0); [exact H|apply IV_conn_close; auto].
Qed.

(* the step of basic.get: either nothing is delivered and every IV is kept, or the step is the handler *)
Lemma get_step_cases cfg fx s c h q noack :
  (nd (snd (step cfg fx s (LMethod c h (MGet q noack)))) /\ (IV s -> IV (fst (step cfg fx s (LMethod c h (MGet q noack)))))) \/
  (exists o, step cfg fx s (LMethod c h (MGet q noack)) =
             apply_err_st cfg fx o (ensure_chan s c h) c h (handle_method cfg fx (ensure_chan s c h) c h (MGet q noack))).
Proof.
  cbn [step]. destruct (get_conn s c) as [cn0|]; [|left; split; [apply nd_nil|auto]].
  destruct (negb _ && negb _)%bool; [left; split; [apply nd_conn_close|apply IV_conn_close]|].
  cbv zeta. cbn [is_conn_class meth_ids fst snd is_chan_close].
  repeat match goal with |- context [if ?b then _ else _] => destruct b end;
    try (right; eexists; reflexivity);
    left; (split; [first [apply nd_nil | apply nd_apply_err_st; apply nd_nil | apply nd_apply_err; apply nd_nil]
                  |intros H; first [ apply IV_ensure_chan; exact H
                                   | apply IV_apply_err_st; cbn [fst]; apply IV_ensure_chan; exact H
                                   | apply IV_apply_err; cbn [fst]; apply IV_ensure_chan; exact H ]]).
Qed.

End Inv.

(* ================================================================== *)
(* 3. changing the ghost *)
Lemma FOP_impl_in {A} (R R' : A -> A -> Prop) l :
  (forall a b, In a l -> R a b -> R' a b) -> ForallOrdPairs R l -> ForallOrdPairs R' l.
Proof.
  induction l as [|x t IH]; intros Hi H; [constructor|]. inversion H as [|? ? Hx Ht]; subst. constructor.
  - eapply Forall_impl; [|exact Hx]. intros b. apply Hi. left. reflexivity.
  - apply IH; [intros a b Ha; apply Hi; right; exact Ha|exact Ht].
Qed.

Lemma IV_IV2 g n s : IV g n s -> IV2 g n s. Proof. intros (A & B & _). split; assumption. Qed.
Lemma IV_ST g n s : IV g n s -> ST g s. Proof. intros (_ & _ & C). exact C. Qed.
Lemma IV_join g n s : IV2 g n s -> ST g s -> IV g n s. Proof. intros [A B] C. split; [exact A|split; assumption]. Qed.
Lemma IV_change g g' n n' s :
  (forall qid x, D g qid x <-> D g' qid x) ->
  (forall b m, done_at g' b = Some m -> done_at g b = Some m \/ n <= m) ->
  (forall b, done_at g b <> None -> done_at g' b <> None) ->
  n <= n' -> IV g n s -> IV g' n' s.
Proof.
  intros HD Hdn Hmo Hn (A & B & C). split; [|split; [|intros k Hk; apply Hmo; apply C; exact Hk]].
  - intros qn qu Hin. destruct (A qn qu Hin) as [(ret & fresh & E & R1 & R2 & R3) Hb]. split.
    + exists ret, fresh. split; [exact E|]. split; [intros x Hx; apply HD; apply R1; exact Hx|].
      split; [intros x Hx Hd; apply (R2 x Hx); apply HD; exact Hd|].
      eapply FOP_impl_in; [|exact R3]. intros a b Ha Hab m Hm.
      destruct (Hdn b m Hm) as [Hm'|Hm']; [apply Hab; exact Hm'|].
      assert (a < n) by (apply Hb; rewrite E; apply in_or_app; right; exact Ha). lia.
    + intros x Hx. destruct (Hb x Hx) as [Hb1 Hb2]. split; [lia|apply Hmo; exact Hb2].
  - intros c h ch Hg e He. destruct (B c h ch Hg e He) as (B1 & B2 & B3). split; [apply HD; exact B1|split; [lia|apply Hmo; exact B3]].
Qed.

Definition mark (g : ghost) (qid u : N) : ghost := {| g_dlv := (qid, u) :: g_dlv g; g_done := g_done g; g_pub := g_pub g |}.

Lemma ST_mark g qid u s : ST g s -> ST (mark g qid u) s. Proof. intros H. exact H. Qed.

Lemma D_mark g qid u qid' x : D (mark g qid u) qid' x <-> (qid' = qid /\ x = u) \/ D g qid' x.
Proof.
  unfold D, mark. cbn [g_dlv In]. split.
  - intros [E|H]; [left; inversion E; auto|right; exact H].
  - intros [[-> ->]|H]; [left; reflexivity|right; exact H].
Qed.

Lemma shape_mark g qid u rest : NoDup (u :: rest) -> shape g qid (u :: rest) -> shape (mark g qid u) qid (u :: rest).
Proof.
  intros Hn (ret & fresh & E & A & B & C). inversion Hn as [|? ? Hni Hn']; subst.
  destruct ret as [|r ret'].
  - cbn in E. subst fresh. exists [u], rest. split; [reflexivity|].
    split; [intros x [<-|[]]; apply D_mark; left; auto|].
    split; [|inversion C; assumption].
    intros x Hx Hd. apply D_mark in Hd. destruct Hd as [[_ ->]|Hd]; [contradiction|]. apply (B x); [right; exact Hx|exact Hd].
  - cbn in E. injection E as E1 E2. subst r. exists (u :: ret'), fresh. split; [rewrite E2; reflexivity|].
    split; [intros x Hx; apply D_mark; right; apply A; exact Hx|]. split; [|exact C].
    intros x Hx Hd. apply D_mark in Hd. destruct Hd as [[_ ->]|Hd]; [|exact (B x Hx Hd)].
    apply Hni. rewrite E2. apply in_or_app. right. exact Hx.
Qed.

Lemma shape_mark_other g qid u qid' rdy : qid' <> qid -> shape g qid' rdy -> shape (mark g qid u) qid' rdy.
Proof.
  intros Hne (ret & fresh & E & A & B & C). exists ret, fresh. split; [exact E|].
  split; [intros x Hx; apply D_mark; right; apply A; exact Hx|]. split; [|exact C].
  intros x Hx Hd. apply D_mark in Hd. destruct Hd as [[E1 _]|Hd]; [contradiction|exact (B x Hx Hd)].
Qed.

Lemma IV_mark g n s q qu u rest :
  HI s -> get_queue s q = Some qu -> q_ready qu = u :: rest -> IV g n s -> IV (mark g (q_id qu) u) n s.
Proof.
  intros Hhi Hq Er (A & B & C). split; [|split; [|exact C]].
  - intros qn' qu' Hin. destruct (A qn' qu' Hin) as [Hs Hb]. split; [|exact Hb].
    destruct (N.eq_dec (q_id qu') (q_id qu)) as [Ei|Ei].
    + assert (E : (qn', qu') = (q, qu)).
      { apply (alookup_in seqb seqb_spec) in Hq.
        apply (NoDup_map_inj (fun kq : string * queue => q_id (snd kq)) (queues s)); auto.
        rewrite <- qids_map. apply Hhi. }
      inversion E; subst. rewrite Er in *. apply shape_mark; [|exact Hs].
      rewrite <- Er. eapply ready_nodup; eauto.
    + apply shape_mark_other; auto.
  - intros c h ch Hg e He. destruct (B c h ch Hg e He) as (B1 & B2 & B3). split; [apply D_mark; right; exact B1|split; [exact B2|exact B3]].
Qed.

(* ================================================================== *)
(* 4. the invariant over steps and runs *)
Definition FI (g : ghost) (s : state) : Prop :=
  IV g (next_uid s) s /\
  (forall qid u, D g qid u -> u < next_uid s /\ ~ In u (all_cur s)) /\
  (forall b m, done_at g b = Some m -> b < m /\ m <= next_uid s).

Lemma head_of_spec s q qid u : In (qid, u) (head_of s q) ->
  exists qu rest, get_queue s q = Some qu /\ q_id qu = qid /\ q_ready qu = u :: rest.
Proof.
  unfold head_of. destruct (get_queue s q) as [qu|]; [|intros []]. destruct (q_ready qu) as [|x rest] eqn:Er; [intros []|].
  intros [E|[]]. inversion E; subst. exists qu, rest. auto.
Qed.

Lemma gstep_dlv s l s' evs g qid u : is_restart l = false ->
  D (gstep s l s' evs g) qid u -> D g qid u \/ exists q, In (qid, u) (head_of s q).
Proof.
  intros Hr. unfold D. destruct l; try discriminate; cbn [gstep]; auto.
  - destruct m; auto. destruct (existsb _ _); auto. cbn [g_dlv]. intros Hin. apply in_app_or in Hin. destruct Hin; eauto.
  - destruct (cur_of s c h); auto.
  - destruct (cur_of s c h); auto.
  - destruct (turn_queue s c h tag) as [q|]; auto. destruct (Nat.ltb _ _); auto.
    cbn [g_dlv]. intros Hin. apply in_app_or in Hin. destruct Hin; eauto.
Qed.

Lemma gstep_dlv_same s l s' evs g : delivering l = false -> is_restart l = false -> g_dlv (gstep s l s' evs g) = g_dlv g.
Proof.
  intros Hl Hr. destruct l; try discriminate; cbn [gstep]; auto.
  - destruct m; try discriminate; reflexivity.
  - destruct (cur_of s c h); reflexivity.
  - destruct (cur_of s c h); reflexivity.
Qed.

Lemma gstep_done s l s' evs g b m :
  done_at (gstep s l s' evs g) b = Some m ->
  done_at g b = Some m \/ (m = next_uid s /\ exists c h, content_chan l = Some (c, h) /\ cur_of s c h = Some b).
Proof.
  unfold done_at. destruct l; cbn [gstep]; auto.
  - destruct m0; auto. destruct (existsb _ _); auto.
  - destruct (cur_of s c h) as [u|] eqn:Ec; auto. cbn [g_done alookup]. destruct (b =? u) eqn:E; auto.
    apply N.eqb_eq in E. subst. intros Hm. inversion Hm; subst. right. split; [reflexivity|]. exists c, h. auto.
  - destruct (cur_of s c h) as [u|] eqn:Ec; auto. cbn [g_done alookup]. destruct (b =? u) eqn:E; auto.
    apply N.eqb_eq in E. subst. intros Hm. inversion Hm; subst. right. split; [reflexivity|]. exists c, h. auto.
  - destruct (turn_queue s c h tag) as [q|]; auto. destruct (Nat.ltb _ _); auto.
Qed.

Lemma gstep_done_cur s l s' evs g c h u :
  content_chan l = Some (c, h) -> cur_of s c h = Some u -> done_at (gstep s l s' evs g) u = Some (next_uid s).
Proof.
  intros Hc Hu. unfold done_at. destruct l; try discriminate; cbn [content_chan] in Hc; inversion Hc; subst; cbn [gstep];
    rewrite Hu; cbn [g_done alookup]; rewrite N.eqb_refl; reflexivity.
Qed.

Lemma gstep_done_mono s l s' evs g b : done_at g b <> None -> done_at (gstep s l s' evs g) b <> None.
Proof.
  unfold done_at. destruct l; cbn [gstep]; auto.
  - destruct m; auto. destruct (existsb _ _); auto.
  - destruct (cur_of s c h) as [u|]; auto. cbn [g_done alookup]. destruct (b =? u); [discriminate|auto].
  - destruct (cur_of s c h) as [u|]; auto. cbn [g_done alookup]. destruct (b =? u); [discriminate|auto].
  - destruct (turn_queue s c h tag) as [q|]; auto. destruct (Nat.ltb _ _); auto.
Qed.

Lemma cur_of_ensure s c h ch u :
  get_chan (ensure_chan s c h) c h = Some ch -> ch_cur ch = Some u -> cur_of s c h = Some u /\ In u (all_cur s).
Proof.
  intros Hg Hu. apply get_chan_ensure in Hg. destruct Hg as [Hg| ->]; [|discriminate].
  split; [unfold cur_of; rewrite Hg; exact Hu|eapply In_cur_of_chan; eauto].
Qed.

Lemma rlen_R s q : rlen s q = match R s q with Some l => List.length l | None => O end.
Proof. unfold rlen, R. destruct (get_queue s q); reflexivity. Qed.

Theorem FI_step cfg fx s l g :
  fx_clear_current fx = true -> CI s -> HI s -> FI g s ->
  FI (gstep s l (fst (step cfg fx s l)) (snd (step cfg fx s l)) g) (fst (step cfg fx s l)).
Proof.
  intros Hfx Hci Hhi (Hiv & Hd & Hdn).
  destruct (is_restart l) eqn:Hr.
  { (* restart *)
    destruct l; try discriminate. cbn [step gstep]. unfold FI. split; [|split].
    - split; [|split].
      3:{ intros k Hk. unfold store, restart in Hk. cbn [fst st_add st_db app] in Hk. apply filter_In in Hk. destruct Hk as [Hk _].
          apply (IV_ST _ _ _ Hiv). apply in_or_app. right. exact Hk. }
      + intros qn qu Hin. unfold restart in Hin. cbn [fst queues] in Hin. apply in_map_iff in Hin.
        destruct Hin as ([qn0 qu0] & E & _). cbn [fst snd] in E. inversion E; subst. clear E.
        destruct (restart_messages s qn) as [Hp Hs]. split.
        * exists [], (stored_of s qn). split; [reflexivity|]. split; [intros x []|]. split; [intros x _ []|].
          apply FOP_of_sorted; [|exact Hs]. intros b m Hm. apply (Hdn b m Hm).
        * cbn. intros x Hx. apply (Permutation_in _ Hp) in Hx. apply in_map_iff in Hx. destruct Hx as ([x0 q0] & <- & Hx).
          apply filter_In in Hx. destruct Hx as [Hx _].
          assert (Hst : In (x0, q0) (store s)) by (unfold store; apply in_or_app; right; exact Hx).
          split; [apply (hi_store_lt _ Hhi (x0, q0) Hst)|apply (IV_ST _ _ _ Hiv (x0, q0) Hst)].
      + intros c h ch Hg. unfold get_chan, get_conn in Hg. cbn in Hg. discriminate.
    - intros qid u [].
    - exact Hdn. }
  pose proof (growth_step cfg fx s l Hr Hci Hhi) as [G _].
  set (s' := fst (step cfg fx s l)) in *. set (evs := snd (step cfg fx s l)).
  assert (Hn : next_uid s <= next_uid s') by apply G.
  assert (Hfresh : forall u, u < next_uid s -> ~ In u (all_cur s) -> ~ In u (all_cur s')).
  { intros u Hu Hc Hin. apply (gr_cur _ _ G) in Hin. destruct Hin; [contradiction|lia]. }
  split; [|split].
  2:{ intros qid u Hu. apply gstep_dlv in Hu; [|exact Hr]. destruct Hu as [Hu|[q Hu]].
      - destruct (Hd qid u Hu) as [A B]. split; [lia|apply Hfresh; auto].
      - apply head_of_spec in Hu. destruct Hu as (qu & rest & Hq & <- & Er).
        assert (Hh : In u (held s (q_id qu))).
        { unfold held. apply in_or_app. left. eapply In_ready_of; eauto. rewrite Er. left. reflexivity. }
        pose proof (hi_held_lt _ Hhi _ _ Hh). split; [lia|]. apply Hfresh; [assumption|].
        intros Hc. exact (hi_cur_fresh _ Hhi u _ Hc Hh). }
  2:{ intros b m Hm. apply gstep_done in Hm. destruct Hm as [Hm|(-> & c & h & _ & Hc)].
      - destruct (Hdn b m Hm). split; [assumption|lia].
      - split; [|exact Hn]. unfold cur_of in Hc. destruct (get_chan s c h) as [ch|] eqn:Eg; [|discriminate].
        apply (hi_cur_lt _ Hhi). eapply In_cur_of_chan; eauto. }
  (* the queue / channel part *)
  destruct (delivering l) eqn:Hl.
  2:{ (* no delivery: the ghost of the step is fixed from the start *)
    set (g' := gstep s l s' evs g).
    assert (Hdl : g_dlv g' = g_dlv g) by (apply gstep_dlv_same; assumption).
    assert (HD : forall qid x, D g qid x <-> D g' qid x) by (intros; unfold D; rewrite Hdl; tauto).
    apply (IV_change g' g' (next_uid s)); [tauto|auto|auto|exact Hn|].
    apply IV_step; [exact Hl|exact Hr| |].
    - intros c h ch u Hc Hg Hu. destruct (cur_of_ensure _ _ _ _ _ Hg Hu) as [Hcu Hin]. split; [|split; [|split]].
      + intros qid Hx. apply HD in Hx. apply (Hd qid u Hx). exact Hin.
      + intros m Hm. unfold g' in Hm. rewrite (gstep_done_cur s l s' evs g c h u Hc Hcu) in Hm. inversion Hm. lia.
      + apply (hi_cur_lt _ Hhi). exact Hin.
      + unfold DN, g'. rewrite (gstep_done_cur s l s' evs g c h u Hc Hcu). discriminate.
    - apply (IV_change g g' (next_uid s)); [exact HD| |apply gstep_done_mono|lia|exact Hiv].
      intros b m Hm. apply gstep_done in Hm. destruct Hm as [Hm|[-> _]]; [left; exact Hm|right; lia]. }
  destruct l; try discriminate.
  - (* basic.get *)
    cbn [delivering] in Hl. destruct m; try discriminate. rename q into qn.
    destruct (get_step_cases g (next_uid s) cfg fx s c h qn noack) as [[Hnd Hk]|[o Eo]].
    + (* nothing delivered *)
      assert (Eg : gstep s (LMethod c h (MGet qn noack)) s' evs g = g).
      { cbn [gstep]. replace (existsb is_delivery evs) with false; [reflexivity|]. symmetry. apply Bool.not_true_iff_false. intros Hex.
        apply existsb_exists in Hex. destruct Hex as (e & He & Hde). rewrite (Hnd e He) in Hde. discriminate. }
      rewrite Eg. apply (IV_change g g (next_uid s)); [tauto|auto|auto|exact Hn|]. apply Hk. exact Hiv.
    + (* the step is the handler *)
      assert (Hiv0 : forall g0, IV g0 (next_uid s) s -> IV g0 (next_uid s) (ensure_chan s c h)) by (intros; apply IV_ensure_chan; assumption).
      assert (Gq : get_queue (ensure_chan s c h) qn = get_queue s qn) by (apply get_queue_same_queues; apply queues_ensure_chan).
      destruct (IV_get g (next_uid s) cfg fx (ensure_chan s c h) c h qn noack (IV_IV2 _ _ _ (Hiv0 g Hiv))) as [[Hnd Hk]|(qu & u & rest & Hq & Er & En & (e & He & Hde) & _)].
      * assert (Hnd' : nd evs) by (unfold evs; rewrite Eo; apply nd_apply_err_st; exact Hnd).
        assert (Eg : gstep s (LMethod c h (MGet qn noack)) s' evs g = g).
        { cbn [gstep]. replace (existsb is_delivery evs) with false; [reflexivity|]. symmetry. apply Bool.not_true_iff_false. intros Hex.
          apply existsb_exists in Hex. destruct Hex as (e & He & Hde). rewrite (Hnd' e He) in Hde. discriminate. }
        rewrite Eg. apply (IV_change g g (next_uid s)); [tauto|auto|auto|exact Hn|]. unfold s'. rewrite Eo. apply IV_apply_err_st.
        apply IV_join; [exact Hk|]. apply ST_get. apply (IV_ST _ _ _ (Hiv0 g Hiv)).
      * rewrite Gq in Hq.
        assert (Es : step cfg fx s (LMethod c h (MGet qn noack)) = fst (handle_method cfg fx (ensure_chan s c h) c h (MGet qn noack)))
          by (rewrite Eo; apply apply_err_st_ok; exact En).
        assert (Eg : gstep s (LMethod c h (MGet qn noack)) s' evs g = mark g (q_id qu) u).
        { cbn [gstep]. replace (existsb is_delivery evs) with true.
          - unfold head_of. rewrite Hq, Er. reflexivity.
          - symmetry. apply existsb_exists. exists e. split; [unfold evs; rewrite Es; exact He|exact Hde]. }
        rewrite Eg. apply (IV_change (mark g (q_id qu) u) (mark g (q_id qu) u) (next_uid s)); [tauto|auto|auto|exact Hn|].
        pose proof (IV_mark g (next_uid s) s qn qu u rest Hhi Hq Er Hiv) as Hm.
        unfold s'. rewrite Es.
        apply IV_join; [|apply ST_get; apply (IV_ST _ _ _ (Hiv0 _ Hm))].
        destruct (IV_get (mark g (q_id qu) u) (next_uid s) cfg fx (ensure_chan s c h) c h qn noack (IV_IV2 _ _ _ (Hiv0 _ Hm)))
          as [[_ Hk]|(qu' & u' & rest' & Hq' & Er' & _ & _ & Hk)]; [exact Hk|].
        rewrite Gq, Hq in Hq'. inversion Hq'; subst qu'. rewrite Er in Er'. inversion Er'; subst. apply Hk. apply D_mark. left. auto.
  - (* consumer turn *)
    cbn [step] in s', evs.
    destruct (IV_turn g (next_uid s) cfg fx s c h tag (IV_IV2 _ _ _ Hiv)) as [[HR Hk]|(q & qu & u & rest & Et & Hq & Er & HR & _)].
    + assert (Eg : gstep s (LConsumerTurn c h tag) s' evs g = g).
      { cbn [gstep]. destruct (turn_queue s c h tag) as [q|]; [|reflexivity].
        rewrite !rlen_R. unfold s'. rewrite HR. rewrite Nat.ltb_irrefl. reflexivity. }
      rewrite Eg. apply (IV_change g g (next_uid s)); [tauto|auto|auto|exact Hn|].
      apply IV_join; [exact Hk|apply ST_consumer_turn; apply (IV_ST _ _ _ Hiv)].
    + assert (Eg : gstep s (LConsumerTurn c h tag) s' evs g = mark g (q_id qu) u).
      { cbn [gstep]. rewrite Et. rewrite !rlen_R. unfold s'. rewrite HR. unfold R. rewrite Hq, Er. cbn [List.length].
        replace (Nat.ltb (List.length rest) (S (List.length rest))) with true by (symmetry; apply Nat.ltb_lt; lia).
        unfold head_of. rewrite Hq, Er. reflexivity. }
      rewrite Eg. apply (IV_change (mark g (q_id qu) u) (mark g (q_id qu) u) (next_uid s)); [tauto|auto|auto|exact Hn|].
      pose proof (IV_mark g (next_uid s) s q qu u rest Hhi Hq Er Hiv) as Hm.
      apply IV_join; [|apply ST_consumer_turn; apply (IV_ST _ _ _ Hm)].
      destruct (IV_turn (mark g (q_id qu) u) (next_uid s) cfg fx s c h tag (IV_IV2 _ _ _ Hm)) as [[_ Hk]|(q' & qu' & u' & rest' & Et' & Hq' & Er' & _ & Hk)]; [exact Hk|].
      rewrite Et in Et'. inversion Et'; subst q'. rewrite Hq in Hq'. inversion Hq'; subst qu'. rewrite Er in Er'. inversion Er'; subst.
      apply Hk. apply D_mark. left. auto.
Qed.

Lemma FI_init cfg : FI ghost0 (init cfg).
Proof.
  split; [split; [|split]|split].
  - intros qn qu Hin. cbn in Hin. contradiction.
  - intros c h ch Hg. unfold get_chan, get_conn in Hg. cbn in Hg. discriminate.
  - intros k [].
  - intros qid u [].
  - intros b m Hm. discriminate.
Qed.

Theorem FI_run cfg fx ls : forall s g,
  fx_clear_current fx = true -> CI s -> HI s -> FI g s ->
  FI (snd (grun cfg fx s g ls)) (fst (grun cfg fx s g ls)) /\ CI (fst (grun cfg fx s g ls)) /\ HI (fst (grun cfg fx s g ls)).
Proof.
  induction ls as [|l t IH]; intros s g Hfx Hci Hhi H; cbn [grun]; [auto|].
  pose proof (FI_step cfg fx s l g Hfx Hci Hhi H) as H1.
  pose proof (holder_step cfg fx s l Hfx Hci Hhi) as H2. pose proof (CI_step cfg fx s l Hci) as H3.
  destruct (step cfg fx s l) as [s1 e1]. cbn [fst snd] in *. apply IH; assumption.
Qed.

Theorem FI_reachable cfg fx ls : fx_clear_current fx = true ->
  FI (snd (grun cfg fx (init cfg) ghost0 ls)) (fst (grun cfg fx (init cfg) ghost0 ls)) /\
  CI (fst (grun cfg fx (init cfg) ghost0 ls)) /\ HI (fst (grun cfg fx (init cfg) ghost0 ls)).
Proof. intros Hfx. apply FI_run; [exact Hfx|apply CI_init|apply HI_init|apply FI_init]. Qed.

Lemma FI_FQ g s : FI g s -> FQ g s.
Proof. intros [[A _] _] qn qu Hq. apply (allq_get _ _ _ _ A Hq). Qed.

(* the invariant in every reachable state: every waiting list is  returned ++ fresh  *)
Theorem fifo_invariant_reachable cfg fx ls : fx_clear_current fx = true ->
  FQ (snd (grun cfg fx (init cfg) ghost0 ls)) (fst (grun cfg fx (init cfg) ghost0 ls)).
Proof. intros Hfx. apply FI_FQ. apply (FI_reachable cfg fx ls Hfx). Qed.

(* the same for one step from any state that satisfies the invariants (every label, restart included) *)
Theorem fifo_invariant_step cfg fx s l g : fx_clear_current fx = true -> CI s -> HI s -> FI g s ->
  FQ (gstep s l (fst (step cfg fx s l)) (snd (step cfg fx s l)) g) (fst (step cfg fx s l)).
Proof. intros Hfx Hci Hhi H. apply FI_FQ. apply FI_step; assumption. Qed.

(* ghost sanity: the recorded completion point of a message is after its allocation and not in the future; a recorded delivery
   concerns an allocated message that no channel is still assembling *)
Theorem ghost_facts_reachable cfg fx ls : fx_clear_current fx = true ->
  let s := fst (grun cfg fx (init cfg) ghost0 ls) in let g := snd (grun cfg fx (init cfg) ghost0 ls) in
  (forall b m, done_at g b = Some m -> b < m /\ m <= next_uid s) /\
  (forall qid u, D g qid u -> u < next_uid s /\ ~ In u (all_cur s)).
Proof. intros Hfx s g. destruct (FI_reachable cfg fx ls Hfx) as [(_ & A & B) _]. split; assumption. Qed.

(* ------------------------------------------------------------------ *)
(* first deliveries leave a queue object in the order in which the publishes completed / began:
   NO step from a reachable state delivers u2 from a queue object for the first time while u1 - whose publish was complete
   before the publish of u2 began - still waits there and has never been delivered from it. *)
Theorem first_delivery_order_step cfg fx s g l qn qu u1 u2 m :
  HI s -> FI g s ->
  get_queue s qn = Some qu -> In u1 (q_ready qu) -> ~ D g (q_id qu) u1 ->
  done_at g u1 = Some m -> m <= u2 ->
  ~ D g (q_id qu) u2 ->
  D (gstep s l (fst (step cfg fx s l)) (snd (step cfg fx s l)) g) (q_id qu) u2 ->
  False.
Proof.
  intros Hhi Hfi Hq Hu1 Hn1 Hm Hle Hn2 Hd2.
  destruct (is_restart l) eqn:Hr; [destruct l; try discriminate; cbn [gstep] in Hd2; destruct Hd2|].
  apply gstep_dlv in Hd2; [|exact Hr]. destruct Hd2 as [Hd2|[q Hd2]]; [contradiction|].
  apply head_of_spec in Hd2. destruct Hd2 as (qu2 & rest & Hq2 & Ei & Er).
  assert (Eq : q = qn).
  { destruct (string_dec q qn) as [E|E]; [exact E|]. exfalso.
    exact (get_queue_ids_distinct s q qn qu2 qu (hi_qids_nodup _ Hhi) Hq2 Hq E Ei). }
  subst q. rewrite Hq in Hq2. inversion Hq2; subst qu2. clear Hq2 Ei.
  destruct (FI_FQ _ _ Hfi qn qu Hq) as (ret & fresh & E & A & B & C).
  destruct Hfi as (_ & _ & Hdn). destruct (Hdn u1 m Hm) as [Hlt _].
  rewrite Er in E. destruct ret as [|r ret'].
  - cbn in E. subst fresh. rewrite Er in Hu1. destruct Hu1 as [->|Hu1]; [lia|].
    inversion C as [|? ? Hall _]; subst. rewrite Forall_forall in Hall. specialize (Hall u1 Hu1 m Hm). lia.
  - cbn in E. injection E as E1 E2. subst r. apply Hn2. apply A. left. reflexivity.
Qed.

Theorem first_deliveries_in_publication_order cfg fx ls l qn qu u1 u2 m :
  fx_clear_current fx = true ->
  let s := fst (grun cfg fx (init cfg) ghost0 ls) in
  let g := snd (grun cfg fx (init cfg) ghost0 ls) in
  get_queue s qn = Some qu -> In u1 (q_ready qu) -> ~ D g (q_id qu) u1 ->
  done_at g u1 = Some m -> m <= u2 ->
  ~ D g (q_id qu) u2 ->
  ~ D (gstep s l (fst (step cfg fx s l)) (snd (step cfg fx s l)) g) (q_id qu) u2.
Proof.
  intros Hfx s g Hq Hu1 Hn1 Hm Hle Hn2 Hd2. destruct (FI_reachable cfg fx ls Hfx) as (Hfi & _ & Hhi).
  exact (first_delivery_order_step cfg fx s g l qn qu u1 u2 m Hhi Hfi Hq Hu1 Hn1 Hm Hle Hn2 Hd2).
Qed.

(* a delivery recorded by a step is a delivery of the HEAD of a queue (so "the step delivers u from qid" above is not vacuous:
   see also the evaluated examples in Props/C03_history.v) *)
Theorem recorded_delivery_is_head s l s' evs g qid u :
  D (gstep s l s' evs g) qid u -> ~ D g qid u ->
  exists q qu rest, get_queue s q = Some qu /\ q_id qu = qid /\ q_ready qu = u :: rest.
Proof.
  intros Hd Hn. destruct (is_restart l) eqn:Hr; [destruct l; try discriminate; cbn [gstep] in Hd; destruct Hd|].
  apply gstep_dlv in Hd; [|exact Hr]. destruct Hd as [Hd|[q Hd]]; [contradiction|].
  apply head_of_spec in Hd. destruct Hd as (qu & rest & A & B & C). exists q, qu, rest. auto.
Qed.

(* ================================================================== *)
(* 5. one publisher channel.
   5a. a channel's current message (ch_cur) is set only by a basic.publish frame on that very channel, to the id the frame
   allocates; every other operation keeps it or clears it (completion, refusal, reopen, close).  CKN st st': the id counter is
   the same and every current message of st' is the current message of the same channel in st. *)
Definition CKN (st st' : state) : Prop :=
  next_uid st' = next_uid st /\ forall c h w, cur_of st' c h = Some w -> cur_of st c h = Some w.

Lemma CKN_refl st : CKN st st. Proof. split; auto. Qed.
Lemma CKN_trans s1 s2 s3 : CKN s1 s2 -> CKN s2 s3 -> CKN s1 s3.
Proof. intros [A1 B1] [A2 B2]. split; [congruence|auto]. Qed.

Lemma vle_CKN st st' : vle st st' -> CKN st st'.
Proof.
  intros V. split; [apply V|]. intros c h w. pose proof (v_chan _ _ V c h) as Hc. unfold cur_of.
  destruct (get_chan st' c h) as [ch'|]; [|discriminate]. destruct (get_chan st c h) as [ch|]; [|destruct Hc].
  destruct Hc as [E _]. unfold chw in E. injection E as _ _ _ _ _ E. rewrite E. auto.
Qed.

Lemma CKN_same st st' : conns st' = conns st -> next_uid st' = next_uid st -> CKN st st'.
Proof. intros E1 E2. split; [exact E2|]. intros c h w. unfold cur_of. rewrite (get_chan_same_conns _ _ _ _ E1). auto. Qed.

Lemma CKN_set_chan st c h ch ch' :
  get_chan st c h = Some ch -> (ch_cur ch' = ch_cur ch \/ ch_cur ch' = None) -> CKN st (set_chan st c h ch').
Proof.
  intros Hg Hc. split; [apply next_set_chan|]. intros c' h' w. unfold cur_of. rewrite get_chan_set_chan.
  pose proof (get_chan_conn _ _ _ _ Hg) as Hn. destruct (get_conn st c); [|congruence].
  destruct ((c' =? c) && (h' =? h)) eqn:Eb; [|auto].
  apply andb_prop in Eb. destruct Eb as [E1 E2]. apply N.eqb_eq in E1, E2. subst. rewrite Hg.
  destruct Hc as [-> | ->]; [auto|discriminate].
Qed.

Lemma CKN_upd_chan st c h f : (forall ch, ch_cur (f ch) = ch_cur ch \/ ch_cur (f ch) = None) -> CKN st (upd_chan st c h f).
Proof. intros Hf. unfold upd_chan. destruct (get_chan st c h) as [ch|] eqn:E; [|apply CKN_refl]. eapply CKN_set_chan; eauto. Qed.

Lemma next_uid_ensure_chan st c h : next_uid (ensure_chan st c h) = next_uid st.
Proof. unfold ensure_chan. destruct (get_conn st c) as [cn|]; [|reflexivity]. destruct (alookup _ _ _); reflexivity. Qed.

Lemma CKN_ensure st c h : CKN st (ensure_chan st c h).
Proof.
  split; [apply next_uid_ensure_chan|]. intros c' h' w. unfold cur_of.
  destruct (get_chan (ensure_chan st c h) c' h') as [ch'|] eqn:Hg; [|discriminate].
  apply get_chan_ensure in Hg. destruct Hg as [Hg| ->]; [rewrite Hg; auto|discriminate].
Qed.

Lemma CKN_delconn st c : CKN st (st <| conns := adel N.eqb c (conns st) |>).
Proof.
  split; [reflexivity|]. intros c' h' w. unfold cur_of. rewrite get_chan_del_conn. destruct (c' =? c); [discriminate|auto].
Qed.

Lemma CKN_newconn st c stg : get_conn st c = None ->
  CKN st (st <| conns := aset N.eqb c {| cn_chans := [(0, channel0 <| ch_status := ChNew |>)]; cn_qos := qos0; cn_stage := stg |} (conns st) |>).
Proof.
  intros Ec. split; [reflexivity|]. intros c' h' w. unfold cur_of, get_chan, get_conn. cbn. rewrite (alookup_aset N.eqb Neqb_spec).
  destruct (c' =? c) eqn:E1; [|auto]. cbn. destruct (h' =? 0); discriminate.
Qed.

Lemma CKN_add_confirm st c h t : CKN st (add_confirm st c h t).
Proof.
  unfold add_confirm. destruct (get_chan st c h) as [ch|] eqn:E; [|apply CKN_refl]. destruct (negb _); [apply CKN_refl|].
  destruct (ch_status ch); try apply CKN_refl; destruct t as [[[? ?] ?]|]; try apply CKN_refl;
    (eapply CKN_set_chan; [exact E|left; reflexivity]).
Qed.

Lemma next_uid_upd_msg' st u f : next_uid (upd_msg st u f) = next_uid st.
Proof. unfold upd_msg. destruct (get_msg st u); reflexivity. Qed.

Lemma CKN_queue_push st qn u : CKN st (queue_push st qn u).
Proof.
  destruct (queue_push_effect st qn u) as [->|(qu & _ & _ & E1 & _ & E2 & _)]; [apply CKN_refl|]. apply CKN_same; assumption.
Qed.

Lemma CKN_route_and_push fx st c h u : CKN st (fst (route_and_push fx st c h u)).
Proof.
  unfold route_and_push. destruct (get_msg st u) as [m|]; [|apply CKN_refl].
  destruct (alookup _ _ _) as [ex|]; cbn [fst]; [|apply CKN_add_confirm].
  destruct (matched_queues _ _ _) as [|q1 qs]; cbn [fst]; [apply CKN_add_confirm|].
  apply fold_left_preserves.
  - intros s1 qn H1. unfold push_one.
    assert (H2 : CKN st (queue_push s1 qn u)) by (eapply CKN_trans; [exact H1|apply CKN_queue_push]).
    destruct (get_msg _ u); [|exact H2]. destruct (_ && _ && _); [|exact H2]. eapply CKN_trans; [exact H2|apply CKN_add_confirm].
  - destruct (_ && _)%bool; [|apply CKN_refl]. apply CKN_same; [apply conns_upd_msg|apply next_uid_upd_msg'].
Qed.

Lemma CKN_finish_publish fx st c h u : CKN st (fst (finish_publish fx st c h u)).
Proof.
  unfold finish_publish. pose proof (CKN_route_and_push fx st c h u) as H1.
  destruct (route_and_push fx st c h u) as [s1 e1]. cbn [fst] in *.
  destruct (fx_clear_current fx); [|exact H1]. eapply CKN_trans; [exact H1|]. apply CKN_upd_chan. intros ch. right. reflexivity.
Qed.

Lemma CKN_store_confirm st u : CKN st (store_confirm st u).
Proof.
  apply CKN_same; [apply conns_store_confirm|]. unfold store_confirm. destruct (get_msg st u) as [m|]; [|reflexivity].
  destruct (m_conf m); [|reflexivity]. destruct (_ =? _)%Z; cbn; apply next_uid_upd_msg'.
Qed.

(* steps the confirm view does not see, and drops of the message being assembled (channel.close) *)
Lemma vld_CKN P st st' : vld P st st' -> CKN st st'.
Proof.
  intros H. induction H as [s1 Hv|s1 c1 h1 ch1 H IH Hp Hg|s1 s2 H IH Hv].
  - apply vle_CKN. exact Hv.
  - eapply CKN_trans; [exact IH|]. eapply CKN_set_chan; [exact Hg|right; reflexivity].
  - eapply CKN_trans; [exact IH|apply vle_CKN; exact Hv].
Qed.

Lemma CKN_restart cfg st : CKN st (fst (restart cfg st)).
Proof. split; [reflexivity|]. intros c h w. unfold cur_of, get_chan, get_conn, restart. cbn. discriminate. Qed.

Section CurStep.
Variables (cfg : config) (fx : fixes) (s : state) (l : label).
(* the state in which the handler of a method of the confirm machinery (channel.open, basic.publish, confirm.select) ends *)
Definition HS (c h : N) (m : meth) : state := fst (fst (handle_method cfg fx (ensure_chan s c h) c h m)).
Definition BC (st : state) : Prop :=
  CKN s st \/ exists c h m, l = LMethod c h m /\ confirm_method m = true /\ CKN (HS c h m) st.

Lemma BC_ckn st st' : CKN st st' -> BC st -> BC st'.
Proof.
  intros H [B|(c & h & m & E1 & E2 & B)]; [left; eapply CKN_trans; eauto|].
  right. exists c, h, m. split; [exact E1|]. split; [exact E2|]. eapply CKN_trans; eauto.
Qed.
Lemma BC_vle st st' : vle st st' -> BC st -> BC st'.
Proof. intros V. apply BC_ckn. apply vle_CKN. exact V. Qed.

Lemma BC_conn_close st c : BC st -> BC (fst (conn_close cfg fx st c)).
Proof.
  intros Hb. unfold conn_close. destruct (get_conn st c) as [cn|]; [|exact Hb].
  set (s1 := fold_left _ _ st).
  assert (H1 : BC s1) by (subst s1; eapply BC_ckn; [eapply vld_CKN; apply D_close_fold|exact Hb]).
  clearbody s1.
  pose proof (V_delete_fold s1 (negb (fx_delete_checks_first fx))
                (map fst (filter (fun kv => q_excl (snd kv) && (q_owner (snd kv) =? c)) (queues s1))) s1 [] (vle_refl s1)) as Hd.
  destruct (fold_left _ _ (s1, [])) as [s2 e2]. cbn [fst] in *. eapply BC_ckn; [apply CKN_delconn|]. eapply BC_vle; eauto.
Qed.
Lemma BC_apply_err st c h r : BC (fst (fst r)) -> BC (fst (apply_err st c h r)).
Proof. intros Hb. eapply BC_vle; [|exact Hb]. apply V_apply_err. apply vle_refl. Qed.
Lemma BC_apply_err_st opened st c h r : BC (fst (fst r)) -> BC (fst (apply_err_st cfg fx opened st c h r)).
Proof.
  intros H. unfold apply_err_st. destruct opened; [apply BC_apply_err; auto|].
  destruct (snd r) as [[| ]|]; try (apply BC_apply_err; auto).
  pose proof (BC_apply_err st c h r H) as H1. destruct (apply_err st c h r) as [s1 e1]. cbn [fst] in H1.
  pose proof (BC_conn_close s1 c H1) as H2. destruct (conn_close cfg fx s1 c) as [s2 e2]. exact H2.
Qed.

Lemma BC_handler c h m : l = LMethod c h m -> BC (fst (fst (handle_method cfg fx (ensure_chan s c h) c h m))).
Proof.
  intros El. destruct (confirm_method m) eqn:Hcm.
  - right. exists c, h, m. split; [exact El|]. split; [exact Hcm|apply CKN_refl].
  - left. eapply CKN_trans; [apply CKN_ensure|]. eapply vld_CKN. apply D_handle_method. exact Hcm.
Qed.

Theorem BC_step : BC (fst (step cfg fx s l)).
Proof.
  assert (Hb : BC s) by (left; apply CKN_refl).
  assert (Hens : forall c h, BC (ensure_chan s c h)) by (intros; left; apply CKN_ensure).
  destruct l eqn:El; cbn [step].
  - (* LConnect *) destruct (get_conn s c) eqn:Ec; cbn [fst]; [exact Hb|]. left. apply CKN_newconn. exact Ec.
  - (* LMethod *)
    destruct (get_conn s c) as [cn0|]; [|exact Hb].
    destruct (negb _ && negb _)%bool; [apply BC_conn_close; auto|].
    pose proof (Hens c h) as B0.
    destruct m.
    all: try (repeat match goal with |- context [if ?b then _ else _] => destruct b end;
              first [ exact B0
                    | apply BC_apply_err; first [ apply BC_handler; exact El | exact B0 ]
                    | apply BC_apply_err_st; first [ apply BC_handler; exact El | exact B0 ] ]).
    + destruct (fx_stage fx && negb (h =? 0)); [apply BC_apply_err; exact B0|].
      pose proof (BC_conn_close _ c B0) as Hc.
      destruct (conn_close cfg fx (ensure_chan s c h) c) as [s1 e1]. exact Hc.
    + destruct (fx_stage fx && negb (h =? 0)); [apply BC_apply_err; exact B0|]. apply BC_conn_close; auto.
  - (* LHeader *)
    destruct (get_conn s c) as [cn0|]; [|exact Hb].
    destruct (negb _ && negb _)%bool; [apply BC_conn_close; auto|].
    pose proof (Hens c h) as B0.
    destruct (get_chan _ c h) as [ch|] eqn:Ech; [|exact B0].
    destruct (_ && _)%bool; [exact B0|].
    destruct (ch_cur ch) as [u|] eqn:Ecur; [|apply BC_apply_err_st; exact B0].
    destruct (get_msg _ u) as [m|]; [|exact B0].
    destruct (m_has_header m); [apply BC_apply_err_st; exact B0|].
    assert (H1 : forall f, BC (upd_msg (ensure_chan s c h) u f))
      by (intros f; eapply BC_ckn; [apply CKN_same; [apply conns_upd_msg|apply next_uid_upd_msg']|exact B0]).
    destruct (_ && _)%bool; [|apply H1].
    eapply BC_ckn; [apply CKN_finish_publish|apply H1].
  - (* LBody *)
    destruct (get_conn s c) as [cn0|]; [|exact Hb].
    destruct (negb _ && negb _)%bool; [apply BC_conn_close; auto|].
    pose proof (Hens c h) as B0.
    destruct (get_chan _ c h) as [ch|] eqn:Ech; [|exact B0].
    destruct (_ && _)%bool; [exact B0|].
    destruct (ch_cur ch) as [u|] eqn:Ecur; [|apply BC_apply_err_st; exact B0].
    destruct (get_msg _ u) as [m|]; [|exact B0].
    destruct (negb (m_has_header m)); [apply BC_apply_err_st; exact B0|].
    destruct (_ <? _).
    { apply BC_apply_err_st. cbn [fst]. eapply BC_ckn; [|exact B0]. apply CKN_upd_chan. intros ch0. right. reflexivity. }
    assert (H1 : forall f, BC (upd_msg (ensure_chan s c h) u f))
      by (intros f; eapply BC_ckn; [apply CKN_same; [apply conns_upd_msg|apply next_uid_upd_msg']|exact B0]).
    destruct (_ <? _); [apply H1|].
    eapply BC_ckn; [apply CKN_finish_publish|apply H1].
  - (* LConsumerTurn *) eapply BC_vle; [|exact Hb]. apply V_consumer_turn. apply vle_refl.
  - (* LQueueLoop *) cbn [fst]. eapply BC_vle; [|exact Hb]. apply V_queue_loop_turn. apply vle_refl.
  - (* LAutoDelete *)
    destruct (autodel s) as [|qn rest]; [exact Hb|].
    assert (H0 : vle s (s <| autodel := rest |>)) by (vs; apply vle_refl).
    destruct (get_queue _ qn) as [qu0|]; [|eapply BC_vle; eauto]. destruct (q_autodel qu0); [|eapply BC_vle; eauto].
    pose proof (V_vhost_delete_queue s (negb (fx_delete_checks_first fx)) _ qn true false H0) as Hd.
    destruct (vhost_delete_queue _ (s <| autodel := rest |>) qn true false) as [[s1 e1] r1]. eapply BC_vle; eauto.
  - (* LPersistTick *)
    cbn [fst]. left. apply fold_left_preserves.
    + intros s0 k H0. eapply CKN_trans; [exact H0|apply CKN_store_confirm].
    + apply CKN_same; reflexivity.
  - (* LRelay *)
    destruct (relay s) as [|u rest]; [exact Hb|].
    assert (H0 : CKN s (s <| relay := rest |>)) by (apply CKN_same; reflexivity).
    destruct (get_msg _ u) as [m|]; cbn [fst]; [|left; exact H0].
    destruct (m_conf m) as [[[? ?] ?]|]; cbn [fst]; [|left; exact H0].
    left. eapply CKN_trans; [exact H0|apply CKN_add_confirm].
  - (* LConfirmTick *)
    destruct (get_chan s c h) as [ch|] eqn:Ech; [|exact Hb]. destruct (negb _); [exact Hb|].
    destruct (ch_status ch); cbn [fst]; left; (eapply CKN_set_chan; [exact Ech|left; reflexivity]).
  - (* LSocketLoss *)
    pose proof (BC_conn_close s c Hb) as Hc. destruct (conn_close cfg fx s c) as [s1 e1]. exact Hc.
  - (* LAccept *) destruct (get_conn s c) eqn:Ec; cbn [fst]; [exact Hb|]. left. apply CKN_newconn. exact Ec.
  - (* LBadMethod *)
    destruct (get_conn s c) as [cn0|]; [|exact Hb].
    destruct (negb _ && negb _)%bool; [apply BC_conn_close; auto|].
    apply BC_apply_err_st. cbn [fst]. apply Hens.
  - (* LHeartbeat *)
    destruct (get_conn s c); [|exact Hb]. destruct (h =? 0); [exact Hb|apply BC_conn_close; auto].
  - (* LRestart *) left. apply CKN_restart.
Qed.

(* what the three handlers of the confirm machinery do to the current messages *)
Lemma HS_cases c h m : confirm_method m = true ->
  CKN s (HS c h m) \/
  (exists ex k md im, m = MPublish ex k md im /\ next_uid (HS c h m) = next_uid s + 1 /\
     forall c' h' w, cur_of (HS c h m) c' h' = Some w -> cur_of s c' h' = Some w \/ (w = next_uid s /\ c' = c /\ h' = h)).
Proof.
  intros Hm. unfold HS. set (s1 := ensure_chan s c h). assert (H1 : CKN s s1) by apply CKN_ensure.
  unfold handle_method. destruct (get_chan s1 c h) as [ch|] eqn:Hch; [|left; exact H1].
  destruct m; try discriminate; unfold ok, refuse.
  - (* MChannelOpen *)
    left. eapply CKN_trans; [exact H1|].
    destruct (ch_status ch); cbn [fst]; try apply CKN_refl; try (eapply CKN_set_chan; [exact Hch|left; reflexivity]).
    eapply CKN_set_chan; [exact Hch|]. destruct (fx_reopen_resets fx); [right|left]; reflexivity.
  - (* MPublish *)
    destruct imm; [left; exact H1|]. destruct (alookup _ _ _); [|left; exact H1].
    right. exists ex, key, mand, false. split; [reflexivity|].
    destruct (if ch_confirm ch then _ else _) as [conf ch'] eqn:Ecf.
    cbn [fst]. split.
    + rewrite (proj1 (next_set_chan _ _ _ _)). cbn. rewrite (proj1 H1). reflexivity.
    + intros c' h' w. unfold cur_of. rewrite get_chan_set_chan.
      assert (Eg : forall c0 h0, get_chan (s1 <| heap := aset N.eqb (next_uid s1)
                  {| m_mid := 0; m_ex := ex; m_key := key; m_mand := mand; m_pers := false; m_has_header := false; m_hsize := 0; m_size := 0;
                     m_body := []; m_dc := 0; m_conf := conf; m_inst := ch_inst ch'; m_expected := 0; m_actual := 0 |} (heap s1) |>
                  <| next_uid := next_uid s1 + 1 |>) c0 h0 = get_chan s1 c0 h0) by reflexivity.
      unfold get_conn at 1. cbn [conns set]. fold (get_conn s1 c).
      pose proof (get_chan_conn _ _ _ _ Hch) as Hn. destruct (get_conn s1 c); [|congruence].
      destruct ((c' =? c) && (h' =? h)) eqn:Eb.
      * apply andb_prop in Eb. destruct Eb as [E1 E2]. apply N.eqb_eq in E1, E2. subst.
        cbn. intros Hw. inversion Hw. right. rewrite (proj1 H1). auto.
      * rewrite Eg. intros Hw. left. apply (proj2 H1). unfold cur_of. exact Hw.
  - (* MConfirmSelect *)
    left. eapply CKN_trans; [exact H1|]. cbn [fst]. eapply CKN_set_chan; [exact Hch|left; reflexivity].
Qed.
End CurStep.

(* every label: a current message after the step is the channel's current message before it, or the id that the
   basic.publish frame of this label allocated for this channel; the id counter moves only then, by one *)
Theorem cur_step cfg fx s l :
  (next_uid (fst (step cfg fx s l)) = next_uid s \/
   (next_uid (fst (step cfg fx s l)) = next_uid s + 1 /\ exists c h ex k md im, l = LMethod c h (MPublish ex k md im))) /\
  forall c h w, cur_of (fst (step cfg fx s l)) c h = Some w ->
    cur_of s c h = Some w \/ (w = next_uid s /\ exists ex k md im, l = LMethod c h (MPublish ex k md im)).
Proof.
  destruct (BC_step cfg fx s l) as [[A B]|(c0 & h0 & m & El & Hm & [A B])].
  - split; [left; exact A|]. intros c h w Hw. left. apply B. exact Hw.
  - destruct (HS_cases cfg fx s c0 h0 m Hm) as [[A1 B1]|(ex & k & md & im & -> & A1 & B1)].
    + split; [left; congruence|]. intros c h w Hw. left. apply B1. apply B. exact Hw.
    + split; [right; split; [congruence|exists c0, h0, ex, k, md, im; exact El]|].
      intros c h w Hw. apply B in Hw. destruct (B1 c h w Hw) as [Hc|(-> & -> & ->)]; [left; exact Hc|].
      right. split; [reflexivity|]. exists ex, k, md, im. exact El.
Qed.

Theorem cur_only_by_publish_holds cfg fx s l c h w :
  cur_of (fst (step cfg fx s l)) c h = Some w ->
  cur_of s c h = Some w \/ (w = next_uid s /\ exists ex k md im, l = LMethod c h (MPublish ex k md im)).
Proof. apply (cur_step cfg fx s l). Qed.

(* 5b. the order of one channel's publishes.  [cur_only_by_publish] was a hypothesis of the first version of this file; it is
   now proved (cur_only_by_publish_proved, from cur_step above); the theorems that took it as a premise keep their names with
   the suffix _partial, the unconditional ones follow them. *)
Definition cur_only_by_publish : Prop := forall cfg fx s l c h w,
  cur_of (fst (step cfg fx s l)) c h = Some w ->
  cur_of s c h = Some w \/ (w = next_uid s /\ exists ex k md im, l = LMethod c h (MPublish ex k md im)).

Definition KI (g : ghost) (s : state) : Prop :=
  (forall c h w, cur_of s c h = Some w -> pub_of g w = Some (c, h)) /\
  (forall u1 u2 p, pub_of g u1 = Some p -> pub_of g u2 = Some p -> u1 < u2 ->
     (done_at g u2 <> None \/ exists c h, cur_of s c h = Some u2) ->
     (forall c h, cur_of s c h <> Some u1) /\ (forall m, done_at g u1 = Some m -> m <= u2)).

Lemma cur_of_In s c h w : cur_of s c h = Some w -> In w (all_cur s).
Proof. unfold cur_of. destruct (get_chan s c h) as [ch|] eqn:E; [|discriminate]. intros Hc. eapply In_cur_of_chan; eauto. Qed.

Lemma gstep_pub_old s l s' evs g u : u <> next_uid s -> pub_of (gstep s l s' evs g) u = pub_of g u.
Proof.
  intros Hu. unfold pub_of. destruct l; cbn [gstep]; auto.
  - destruct m; auto.
    + cbn [g_pub alookup]. destruct (u =? next_uid s) eqn:E; [apply N.eqb_eq in E; contradiction|reflexivity].
    + destruct (existsb _ _); reflexivity.
  - destruct (cur_of s c h); reflexivity.
  - destruct (cur_of s c h); reflexivity.
  - destruct (turn_queue s c h tag); [destruct (Nat.ltb _ _)|]; reflexivity.
Qed.

Lemma gstep_pub_new s c h ex k md im s' evs g :
  pub_of (gstep s (LMethod c h (MPublish ex k md im)) s' evs g) (next_uid s) = Some (c, h).
Proof. unfold pub_of. cbn [gstep g_pub alookup]. rewrite N.eqb_refl. reflexivity. Qed.

Theorem KI_step cfg fx s l g :
  cur_only_by_publish -> HI s -> FI g s -> KI g s ->
  KI (gstep s l (fst (step cfg fx s l)) (snd (step cfg fx s l)) g) (fst (step cfg fx s l)).
Proof.
  intros CO Hhi (_ & _ & Hdn) [K1 K2].
  set (s' := fst (step cfg fx s l)). set (evs := snd (step cfg fx s l)). set (g' := gstep s l s' evs g).
  assert (Hlt : forall c h w, cur_of s c h = Some w -> w < next_uid s)
    by (intros c h w Hc; apply (hi_cur_lt _ Hhi); eapply cur_of_In; eauto).
  assert (Hold : forall u, u < next_uid s -> pub_of g' u = pub_of g u) by (intros u Hu; apply gstep_pub_old; lia).
  split.
  - intros c h w Hc. destruct (CO cfg fx s l c h w Hc) as [Hc0|(-> & ex & k & md & im & ->)].
    + rewrite Hold by (eapply Hlt; eauto). apply K1. exact Hc0.
    + apply gstep_pub_new.
  - intros u1 u2 p P1 P2 Hlt12 Hev.
    assert (Hcase : (u2 < next_uid s /\ (done_at g u2 <> None \/ exists c h, cur_of s c h = Some u2)) \/
                    (u2 = next_uid s /\ exists c h ex k md im, l = LMethod c h (MPublish ex k md im) /\ cur_of s' c h = Some u2)).
    { destruct Hev as [Hev|(c & h & Hev)].
      - destruct (done_at g' u2) as [m2|] eqn:Em; [|congruence]. apply gstep_done in Em.
        destruct Em as [Em|(_ & c & h & _ & Hc)].
        + left. split; [destruct (Hdn u2 m2 Em); lia|left; congruence].
        + left. split; [eapply Hlt; eauto|right; eauto].
      - destruct (CO cfg fx s l c h u2 Hev) as [Hc0|(-> & ex & k & md & im & ->)].
        + left. split; [eapply Hlt; eauto|right; eauto].
        + right. split; [reflexivity|]. exists c, h, ex, k, md, im. auto. }
    destruct Hcase as [[Hu2 Hev0]|(-> & c & h & ex & k & md & im & -> & Hc2)].
    + rewrite Hold in P1 by lia. rewrite Hold in P2 by lia.
      destruct (K2 u1 u2 p P1 P2 Hlt12 Hev0) as [A B]. split.
      * intros c h Hc. destruct (CO cfg fx s l c h u1 Hc) as [Hc0|[E _]]; [exact (A c h Hc0)|lia].
      * intros m Hm. apply gstep_done in Hm. destruct Hm as [Hm|(_ & c & h & _ & Hc)]; [exact (B m Hm)|exact (False_ind _ (A c h Hc))].
    + rewrite Hold in P1 by lia. unfold g' in P2. rewrite gstep_pub_new in P2. inversion P2; subst p. split.
      * intros c' h' Hc. destruct (CO cfg fx s _ c' h' u1 Hc) as [Hc0|[E _]]; [|lia].
        pose proof (K1 c' h' u1 Hc0) as P1'. rewrite P1 in P1'.
        assert (E : c' = c /\ h' = h) by (inversion P1'; auto). destruct E as [E1 E2]. rewrite E1, E2 in Hc.
        assert (E : Some u1 = Some (next_uid s)) by (rewrite <- Hc, <- Hc2; reflexivity). inversion E. lia.
      * intros m Hm. apply gstep_done in Hm. destruct Hm as [Hm|(_ & c' & h' & Hcc & _)]; [|discriminate Hcc].
        destruct (Hdn u1 m Hm). lia.
Qed.

Lemma KI_init cfg : KI ghost0 (init cfg).
Proof.
  split.
  - intros c h w Hc. unfold cur_of, get_chan, get_conn in Hc. cbn in Hc. discriminate.
  - intros u1 u2 p P1. discriminate.
Qed.

Theorem KI_run cfg fx ls : cur_only_by_publish -> fx_clear_current fx = true -> forall s g,
  CI s -> HI s -> FI g s -> KI g s -> KI (snd (grun cfg fx s g ls)) (fst (grun cfg fx s g ls)).
Proof.
  intros CO Hfx. induction ls as [|l t IH]; intros s g Hci Hhi Hfi Hk; cbn [grun]; [exact Hk|].
  pose proof (FI_step cfg fx s l g Hfx Hci Hhi Hfi) as H1.
  pose proof (holder_step cfg fx s l Hfx Hci Hhi) as H2. pose proof (CI_step cfg fx s l Hci) as H3.
  pose proof (KI_step cfg fx s l g CO Hhi Hfi Hk) as H4.
  destruct (step cfg fx s l) as [s1 e1]. cbn [fst snd] in *. apply IH; assumption.
Qed.

(* two messages allocated by basic.publish frames of one channel, both completely published: the earlier one was complete
   before the later one began *)
Theorem same_channel_sequential_partial cfg fx ls u1 u2 p m :
  cur_only_by_publish -> fx_clear_current fx = true ->
  let g := snd (grun cfg fx (init cfg) ghost0 ls) in
  pub_of g u1 = Some p -> pub_of g u2 = Some p -> u1 < u2 -> done_at g u2 <> None ->
  done_at g u1 = Some m -> m <= u2.
Proof.
  intros CO Hfx g P1 P2 Hlt Hd2 Hm.
  pose proof (KI_run cfg fx ls CO Hfx (init cfg) ghost0 (CI_init cfg) (HI_init cfg) (FI_init cfg) (KI_init cfg)) as [_ K2].
  destruct (K2 u1 u2 p P1 P2 Hlt (or_introl Hd2)) as [_ B]. exact (B m Hm).
Qed.

(* C03 for one publisher channel: no step delivers u2 for the first time while u1, published earlier by the same channel,
   still waits in the same queue object and has never been delivered from it *)
Theorem first_deliveries_same_channel_partial cfg fx ls l qn qu u1 u2 p :
  cur_only_by_publish -> fx_clear_current fx = true ->
  let s := fst (grun cfg fx (init cfg) ghost0 ls) in
  let g := snd (grun cfg fx (init cfg) ghost0 ls) in
  pub_of g u1 = Some p -> pub_of g u2 = Some p -> u1 < u2 -> done_at g u1 <> None -> done_at g u2 <> None ->
  get_queue s qn = Some qu -> In u1 (q_ready qu) -> ~ D g (q_id qu) u1 ->
  ~ D g (q_id qu) u2 ->
  ~ D (gstep s l (fst (step cfg fx s l)) (snd (step cfg fx s l)) g) (q_id qu) u2.
Proof.
  intros CO Hfx s g P1 P2 Hlt Hd1 Hd2 Hq Hin Hn1 Hn2.
  destruct (done_at g u1) as [m|] eqn:Em; [|congruence].
  apply (first_deliveries_in_publication_order cfg fx ls l qn qu u1 u2 m Hfx Hq Hin Hn1 Em); [|exact Hn2].
  exact (same_channel_sequential_partial cfg fx ls u1 u2 p m CO Hfx P1 P2 Hlt Hd2 Em).
Qed.

Theorem cur_only_by_publish_proved : cur_only_by_publish.
Proof. intros cfg fx s l c h w. apply cur_only_by_publish_holds. Qed.

(* every waiting message, every unsettled delivery and every key of the message store belongs to a message whose publish
   completed (it has a completion point) *)
Theorem waiting_has_done_at cfg fx ls qn qu x : fx_clear_current fx = true ->
  let s := fst (grun cfg fx (init cfg) ghost0 ls) in
  let g := snd (grun cfg fx (init cfg) ghost0 ls) in
  get_queue s qn = Some qu -> In x (q_ready qu) -> done_at g x <> None.
Proof.
  intros Hfx s g Hq Hx. destruct (FI_reachable cfg fx ls Hfx) as ((Hiv & _) & _).
  destruct Hiv as (A & _). destruct (allq_get _ _ _ _ A Hq) as [_ Hb]. apply (Hb x Hx).
Qed.
Theorem unsettled_and_stored_have_done_at cfg fx ls : fx_clear_current fx = true ->
  let s := fst (grun cfg fx (init cfg) ghost0 ls) in
  let g := snd (grun cfg fx (init cfg) ghost0 ls) in
  (forall c h ch e, get_chan s c h = Some ch -> In e (ch_unacked ch) -> D g (u_qid e) (u_msg e) /\ done_at g (u_msg e) <> None) /\
  (forall k, In k (st_add s ++ st_db s) -> done_at g (fst k) <> None).
Proof.
  intros Hfx s g. destruct (FI_reachable cfg fx ls Hfx) as ((Hiv & _) & _). destruct Hiv as (_ & B & C). split.
  - intros c h ch e Hg He. destruct (B c h ch Hg e He) as (B1 & _ & B3). split; assumption.
  - exact C.
Qed.

(* two messages allocated by basic.publish frames of one channel, the later one completely published: the earlier one, if it
   was completed at all, was complete before the later one began *)
Theorem same_channel_sequential cfg fx ls u1 u2 p m :
  fx_clear_current fx = true ->
  let g := snd (grun cfg fx (init cfg) ghost0 ls) in
  pub_of g u1 = Some p -> pub_of g u2 = Some p -> u1 < u2 -> done_at g u2 <> None ->
  done_at g u1 = Some m -> m <= u2.
Proof. intros Hfx. apply (same_channel_sequential_partial cfg fx ls u1 u2 p m cur_only_by_publish_proved Hfx). Qed.

(* C03 for ONE PUBLISHER CHANNEL: no step from a reachable state delivers u2 from a queue object for the first time while u1,
   allocated earlier by a basic.publish of the same channel, still waits in that queue object and has never been delivered from it *)
Theorem first_deliveries_same_channel cfg fx ls l qn qu u1 u2 p :
  fx_clear_current fx = true ->
  let s := fst (grun cfg fx (init cfg) ghost0 ls) in
  let g := snd (grun cfg fx (init cfg) ghost0 ls) in
  pub_of g u1 = Some p -> pub_of g u2 = Some p -> u1 < u2 ->
  get_queue s qn = Some qu -> In u1 (q_ready qu) -> ~ D g (q_id qu) u1 ->
  ~ D g (q_id qu) u2 ->
  ~ D (gstep s l (fst (step cfg fx s l)) (snd (step cfg fx s l)) g) (q_id qu) u2.
Proof.
  intros Hfx s g P1 P2 Hlt Hq Hin Hn1 Hn2 Hd2.
  pose proof (waiting_has_done_at cfg fx ls qn qu u1 Hfx Hq Hin) as Hd1.
  destruct (recorded_delivery_is_head _ _ _ _ _ _ _ Hd2 Hn2) as (q2 & qu2 & rest2 & Hq2 & _ & Er2).
  assert (Hdu2 : done_at g u2 <> None) by (apply (waiting_has_done_at cfg fx ls q2 qu2 u2 Hfx Hq2); rewrite Er2; left; reflexivity).
  exact (first_deliveries_same_channel_partial cfg fx ls l qn qu u1 u2 p cur_only_by_publish_proved Hfx P1 P2 Hlt Hd1 Hdu2 Hq Hin Hn1 Hn2 Hd2).
Qed.

(* ================================================================== *)
(* 6. a returned message goes back to the HEAD, a batch in its delivery order, the waiting list follows unchanged: per label.
   The frame arrives on an open channel (h <> 0) of an open connection (otherwise the broker does not run the handler). *)
Lemma reject_mult_no_error cfg s c h tag rq cls mth : snd (handle_reject cfg s c h tag true rq cls mth) = None.
Proof. unfold handle_reject. destruct (get_chan s c h); reflexivity. Qed.

Theorem nack_multiple_returns_to_head cfg fx s c h tag cn ch q :
  get_conn s c = Some cn -> cn_stage cn = StOpen -> get_chan s c h = Some ch -> ch_status ch = ChOpen -> h <> 0 ->
  R (fst (step cfg fx s (LMethod c h (MNack tag true true)))) q =
  match R s q with
  | Some l => Some (map u_msg (filter (goes_to s q) (rev (filter (covered tag) (sort_desc (U s c h))))) ++ l)
  | None => None
  end.
Proof.
  intros Hc Hs Hch Hst Hh.
  assert (En : snd (handle_method cfg fx s c h (MNack tag true true)) = None).
  { unfold handle_method. rewrite Hch. pose proof (reject_mult_no_error cfg s c h tag true 60 120) as E.
    destruct (handle_reject cfg s c h tag true true 60 120) as [s1 e1]. exact E. }
  rewrite (step_is_handler cfg fx s c h (MNack tag true true) cn ch Hc Hs Hch Hst Hh eq_refl En).
  rewrite <- (reject_multiple_requeue_returns cfg s c h tag 60 120 q).
  unfold handle_method. rewrite Hch. destruct (handle_reject cfg s c h tag true true 60 120) as [s1 e1]. reflexivity.
Qed.

Theorem reject_returns_to_head cfg fx s c h tag cn ch e q :
  get_conn s c = Some cn -> cn_stage cn = StOpen -> get_chan s c h = Some ch -> ch_status ch = ChOpen -> h <> 0 ->
  find (fun u => u_tag u =? tag) (U s c h) = Some e ->
  R (fst (step cfg fx s (LMethod c h (MReject tag true)))) q =
  match R s q with Some l => Some (if goes_to s q e then u_msg e :: l else l) | None => None end.
Proof.
  intros Hc Hs Hch Hst Hh Hf.
  assert (Eh : exists s1, handle_reject cfg s c h tag false true 60 90 = (s1, None)).
  { unfold handle_reject. rewrite Hch. unfold U in Hf. rewrite Hch in Hf. rewrite Hf. eexists. reflexivity. }
  destruct Eh as [s1 Eh].
  assert (En : snd (handle_method cfg fx s c h (MReject tag true)) = None) by (unfold handle_method; rewrite Hch, Eh; reflexivity).
  rewrite (step_is_handler cfg fx s c h (MReject tag true) cn ch Hc Hs Hch Hst Hh eq_refl En).
  rewrite <- (reject_single_requeue_head cfg s c h tag 60 90 s1 e q Eh Hf).
  unfold handle_method. rewrite Hch, Eh. reflexivity.
Qed.

Theorem nack_single_returns_to_head cfg fx s c h tag cn ch e q :
  get_conn s c = Some cn -> cn_stage cn = StOpen -> get_chan s c h = Some ch -> ch_status ch = ChOpen -> h <> 0 ->
  find (fun u => u_tag u =? tag) (U s c h) = Some e ->
  R (fst (step cfg fx s (LMethod c h (MNack tag false true)))) q =
  match R s q with Some l => Some (if goes_to s q e then u_msg e :: l else l) | None => None end.
Proof.
  intros Hc Hs Hch Hst Hh Hf.
  assert (Eh : exists s1, handle_reject cfg s c h tag false true 60 120 = (s1, None)).
  { unfold handle_reject. rewrite Hch. unfold U in Hf. rewrite Hch in Hf. rewrite Hf. eexists. reflexivity. }
  destruct Eh as [s1 Eh].
  assert (En : snd (handle_method cfg fx s c h (MNack tag false true)) = None) by (unfold handle_method; rewrite Hch, Eh; reflexivity).
  rewrite (step_is_handler cfg fx s c h (MNack tag false true) cn ch Hc Hs Hch Hst Hh eq_refl En).
  rewrite <- (reject_single_requeue_head cfg s c h tag 60 120 s1 e q Eh Hf).
  unfold handle_method. rewrite Hch, Eh. reflexivity.
Qed.

Theorem channel_close_returns_to_head cfg fx s c h cn ch q :
  get_conn s c = Some cn -> cn_stage cn = StOpen -> get_chan s c h = Some ch -> ch_status ch = ChOpen -> h <> 0 ->
  R (fst (step cfg fx s (LMethod c h MChannelClose))) q =
  match R s q with
  | Some l => Some (map u_msg (filter (goes_to s q) (rev (sort_desc (U s c h)))) ++ l)
  | None => None
  end.
Proof.
  intros Hc Hs Hch Hst Hh.
  assert (En : snd (handle_method cfg fx s c h MChannelClose) = None) by (unfold handle_method; rewrite Hch; reflexivity).
  rewrite (step_is_handler cfg fx s c h MChannelClose cn ch Hc Hs Hch Hst Hh eq_refl En).
  rewrite <- (channel_close_returns cfg s c h q) by lia.
  unfold handle_method. rewrite Hch. reflexivity.
Qed.

(* connection teardown (socket loss, connection.close, a connection error before the handshake is over): every surviving
   queue keeps its waiting list as a suffix, what is returned is put in front of it *)
Lemma channel_close_suffix cfg s c h q l : R s q = Some l -> exists blk, R (channel_close cfg s c h) q = Some (blk ++ l).
Proof.
  intros Hr. destruct (0 <? h) eqn:Eh.
  - apply N.ltb_lt in Eh. rewrite (channel_close_returns cfg s c h q Eh), Hr. eexists. reflexivity.
  - exists []. cbn [app]. rewrite <- Hr. unfold channel_close. destruct (get_chan s c h) as [ch|]; [|reflexivity]. rewrite Eh.
    rewrite (R_same_queues _ _ q (queues_upd_chan _ _ _ _)). rewrite (R_same_queues _ _ q (queues_upd_chan _ _ _ _)).
    generalize (ch_consumers ch). intros l0. revert s Hr. induction l0 as [|x t IH]; intros s Hr; cbn [fold_left]; [reflexivity|].
    rewrite IH; [apply R_consumer_stop|rewrite R_consumer_stop; exact Hr].
Qed.

Lemma R_cancel_fold l q : forall s evs,
  R (fst (fold_left (fun acc x => let '(s, evs) := acc in let '(s', e) := consumer_cancel s x in (s', evs ++ e)) l (s, evs))) q = R s q.
Proof.
  induction l as [|[[c h] tag] t IH]; intros s evs; cbn [fold_left]; [reflexivity|]. cbn [consumer_cancel]. rewrite IH. apply R_consumer_stop.
Qed.

Lemma vhost_delete_suffix b s qn iu ie q :
  R (fst (fst (vhost_delete_queue b s qn iu ie))) q = R s q \/ R (fst (fst (vhost_delete_queue b s qn iu ie))) q = None.
Proof.
  unfold vhost_delete_queue. destruct (get_queue s qn) as [qu|] eqn:Eq; [|left; reflexivity].
  destruct (_ || _).
  - left. cbn [fst]. destruct b; [|reflexivity]. unfold R. rewrite get_queue_set_queue. destruct (seqb q qn) eqn:E; [|reflexivity].
    apply seqb_spec in E. subst. rewrite Eq. reflexivity.
  - pose proof (R_cancel_fold (q_consumers qu) q s []) as Hf.
    destruct (fold_left _ (q_consumers qu) (s, [])) as [s1 e1]. cbn [fst] in *.
    match goal with |- R ?st q = _ \/ _ => assert (E : R st q = if seqb q qn then None else R s1 q) end.
    { unfold R, get_queue. cbn. rewrite (alookup_adel seqb seqb_spec). destruct (seqb q qn); [reflexivity|].
      destruct (q_durable qu); reflexivity. }
    rewrite E. destruct (seqb q qn); [right; reflexivity|left; exact Hf].
Qed.

Theorem conn_close_keeps_suffix cfg fx s c q l :
  R s q = Some l ->
  R (fst (conn_close cfg fx s c)) q = None \/ exists blk, R (fst (conn_close cfg fx s c)) q = Some (blk ++ l).
Proof.
  intros Hr. unfold conn_close. destruct (get_conn s c) as [cn|]; [|right; exists []; exact Hr].
  set (s1 := fold_left _ _ s).
  assert (H1 : exists blk, R s1 q = Some (blk ++ l)).
  { subst s1. generalize (sort_desc_N (map fst (cn_chans cn))). intros ids.
    assert (Hg : forall ids s0 blk0, R s0 q = Some (blk0 ++ l) ->
                 exists blk, R (fold_left (fun s h => channel_close cfg s c h) ids s0) q = Some (blk ++ l)).
    { induction ids0 as [|x t IH]; intros s0 blk0 H0; cbn [fold_left]; [eauto|].
      destruct (channel_close_suffix cfg s0 c x q _ H0) as [b1 Hb]. rewrite app_assoc in Hb. eapply IH; eauto. }
    apply (Hg ids s []). exact Hr. }
  clearbody s1. destruct H1 as [blk H1].
  set (owned := map fst (filter (fun kv => q_excl (snd kv) && (q_owner (snd kv) =? c)) (queues s1))).
  assert (H2 : forall l0 s0 evs, R s0 q = None \/ R s0 q = Some (blk ++ l) ->
     R (fst (fold_left (fun acc qn => let '(s, evs) := acc in
            let '(s', e, _) := vhost_delete_queue (negb (fx_delete_checks_first fx)) s qn false false in (s', evs ++ e)) l0 (s0, evs))) q = None \/
     R (fst (fold_left (fun acc qn => let '(s, evs) := acc in
            let '(s', e, _) := vhost_delete_queue (negb (fx_delete_checks_first fx)) s qn false false in (s', evs ++ e)) l0 (s0, evs))) q = Some (blk ++ l)).
  { induction l0 as [|x t IH]; intros s0 evs H0; cbn [fold_left]; [exact H0|].
    pose proof (vhost_delete_suffix (negb (fx_delete_checks_first fx)) s0 x false false q) as Hd.
    destruct (vhost_delete_queue (negb (fx_delete_checks_first fx)) s0 x false false) as [[s2 e2] r2]. cbn [fst] in Hd.
    apply IH. destruct Hd as [Hd|Hd]; [rewrite Hd; exact H0|left; exact Hd]. }
  specialize (H2 owned s1 [] (or_intror H1)).
  destruct (fold_left _ owned (s1, [])) as [s2 e2]. cbn [fst] in *.
  destruct H2 as [H2|H2]; [left|right; exists blk]; (rewrite <- H2; apply R_same_queues; reflexivity).
Qed.

(* the exact block: the connection's channels are closed in descending channel-number order; each channel's unsettled
   deliveries go back in delivery-tag order, evaluated when that channel is closed; a channel closed later ends up further
   in front.  (Channel 0 carries no deliveries.) *)
Definition close_block (s : state) (c h : N) (q : string) : list N :=
  if 0 <? h then map u_msg (filter (goes_to s q) (rev (sort_desc (U s c h)))) else [].
Fixpoint close_blocks (cfg : config) (s : state) (c : N) (ids : list N) (q : string) : list N :=
  match ids with
  | [] => []
  | h :: t => close_blocks cfg (channel_close cfg s c h) c t q ++ close_block s c h q
  end.

Lemma channel_close_block cfg s c h q l : R s q = Some l -> R (channel_close cfg s c h) q = Some (close_block s c h q ++ l).
Proof.
  intros Hr. unfold close_block. destruct (0 <? h) eqn:Eh.
  - apply N.ltb_lt in Eh. rewrite (channel_close_returns cfg s c h q Eh), Hr. reflexivity.
  - cbn [app]. rewrite <- Hr. unfold channel_close. destruct (get_chan s c h) as [ch|]; [|reflexivity]. rewrite Eh.
    rewrite (R_same_queues _ _ q (queues_upd_chan _ _ _ _)). rewrite (R_same_queues _ _ q (queues_upd_chan _ _ _ _)).
    generalize (ch_consumers ch). intros l0. clear Hr. revert s. induction l0 as [|x t IH]; intros s; cbn [fold_left]; [reflexivity|].
    rewrite IH. apply R_consumer_stop.
Qed.

Lemma fold_close_blocks cfg c q ids : forall s l, R s q = Some l ->
  R (fold_left (fun s h => channel_close cfg s c h) ids s) q = Some (close_blocks cfg s c ids q ++ l).
Proof.
  induction ids as [|h t IH]; intros s l Hr; cbn [fold_left close_blocks]; [exact Hr|].
  rewrite (IH _ _ (channel_close_block cfg s c h q l Hr)). rewrite app_assoc. reflexivity.
Qed.

Theorem conn_close_returns_blocks cfg fx s c cn q l :
  get_conn s c = Some cn -> R s q = Some l ->
  R (fst (conn_close cfg fx s c)) q = None \/
  R (fst (conn_close cfg fx s c)) q = Some (close_blocks cfg s c (sort_desc_N (map fst (cn_chans cn))) q ++ l).
Proof.
  intros Hc Hr. unfold conn_close. rewrite Hc.
  set (s1 := fold_left _ _ s).
  assert (H1 : R s1 q = Some (close_blocks cfg s c (sort_desc_N (map fst (cn_chans cn))) q ++ l)) by (subst s1; apply fold_close_blocks; exact Hr).
  clearbody s1. set (blk := close_blocks cfg s c (sort_desc_N (map fst (cn_chans cn))) q) in *.
  set (owned := map fst (filter (fun kv => q_excl (snd kv) && (q_owner (snd kv) =? c)) (queues s1))).
  assert (H2 : forall l0 s0 evs, R s0 q = None \/ R s0 q = Some (blk ++ l) ->
     R (fst (fold_left (fun acc qn => let '(s, evs) := acc in
            let '(s', e, _) := vhost_delete_queue (negb (fx_delete_checks_first fx)) s qn false false in (s', evs ++ e)) l0 (s0, evs))) q = None \/
     R (fst (fold_left (fun acc qn => let '(s, evs) := acc in
            let '(s', e, _) := vhost_delete_queue (negb (fx_delete_checks_first fx)) s qn false false in (s', evs ++ e)) l0 (s0, evs))) q = Some (blk ++ l)).
  { induction l0 as [|x t IH]; intros s0 evs H0; cbn [fold_left]; [exact H0|].
    pose proof (vhost_delete_suffix (negb (fx_delete_checks_first fx)) s0 x false false q) as Hd.
    destruct (vhost_delete_queue (negb (fx_delete_checks_first fx)) s0 x false false) as [[s2 e2] r2]. cbn [fst] in Hd.
    apply IH. destruct Hd as [Hd|Hd]; [rewrite Hd; exact H0|left; exact Hd]. }
  specialize (H2 owned s1 [] (or_intror H1)).
  destruct (fold_left _ owned (s1, [])) as [s2 e2]. cbn [fst] in *.
  destruct H2 as [H2|H2]; [left|right]; (rewrite <- H2; apply R_same_queues; reflexivity).
Qed.

Theorem socket_loss_returns_blocks cfg fx s c cn q l :
  get_conn s c = Some cn -> R s q = Some l ->
  R (fst (step cfg fx s (LSocketLoss c))) q = None \/
  R (fst (step cfg fx s (LSocketLoss c))) q = Some (close_blocks cfg s c (sort_desc_N (map fst (cn_chans cn))) q ++ l).
Proof.
  intros Hc Hr. cbn [step]. pose proof (conn_close_returns_blocks cfg fx s c cn q l Hc Hr) as H.
  destruct (conn_close cfg fx s c) as [s1 e1]. exact H.
Qed.

(* the blocks read off the state BEFORE the teardown, when the connection's channel numbers are distinct (an invariant of the
   reachable states of the repaired broker: BrokerConserve vi_hkeys; not re-proved here, hence a hypothesis): closing one
   channel changes neither another channel's unsettled deliveries nor the identity / activity of any queue *)
Lemma queues_dec_qos cfg s c h u : queues (dec_qos_and_consume_next cfg s c h u) = queues s.
Proof.
  unfold dec_qos_and_consume_next. destruct (get_chan s c h) as [ch|]; [|reflexivity].
  rewrite queues_wake_consumers.
  destruct (find_consumer ch (u_ctag u)).
  - destruct (cfg_rabbit cfg); [rewrite !queues_upd_chan; reflexivity|].
    destruct (get_conn _ c); cbn; rewrite ?queues_upd_chan; reflexivity.
  - destruct (get_conn _ c); cbn; rewrite ?queues_upd_chan; reflexivity.
Qed.

Lemma channel_close_frame cfg s c h :
  (forall q, QA (channel_close cfg s c h) q = QA s q) /\ (forall h', h' <> h -> U (channel_close cfg s c h) c h' = U s c h').
Proof.
  unfold channel_close. destruct (get_chan s c h) as [ch|] eqn:Ech; [|split; reflexivity].
  set (s2 := upd_chan (fold_left _ _ s) c h _).
  assert (A2 : forall q, QA s2 q = QA s q).
  { intros q. subst s2. rewrite (QA_same_queues _ _ q (queues_upd_chan _ _ _ _)).
    generalize (ch_consumers ch). intros l0. revert s Ech. induction l0 as [|x t IH]; intros s Ech; cbn [fold_left]; [reflexivity|].
    assert (Hg : forall l1 st, QA (fold_left (fun s cm => consumer_stop s c h (c_tag cm)) l1 st) q = QA st q).
    { induction l1 as [|y l2 IH1]; intros st; cbn [fold_left]; auto. rewrite IH1. apply QA_consumer_stop. }
    rewrite Hg. apply QA_consumer_stop. }
  assert (U2 : forall h', U s2 c h' = U s c h').
  { intros h'. subst s2. rewrite U_upd_chan_keep by reflexivity.
    assert (Hg : forall l1 st, U (fold_left (fun s cm => consumer_stop s c h (c_tag cm)) l1 st) c h' = U st c h').
    { induction l1 as [|y l2 IH1]; intros st; cbn [fold_left]; auto. rewrite IH1. apply U_consumer_stop. }
    apply Hg. }
  clearbody s2. split.
  - intros q. rewrite (QA_same_queues _ _ q (queues_upd_chan _ _ _ _)). destruct (0 <? h); [|apply A2].
    rewrite <- A2. unfold handle_reject. destruct (get_chan s2 c h) as [ch2|]; [|reflexivity]. cbn [fst].
    match goal with |- QA (fold_left ?F ?sel ?st) q = _ => assert (Hd : forall sel0 st0, QA (fold_left F sel0 st0) q = QA st0 q) end.
    { induction sel0 as [|y l2 IH1]; intros st0; cbn [fold_left]; auto. rewrite IH1. apply QA_same_queues. apply queues_dec_qos. }
    rewrite Hd. apply (fold_requeue c h).
  - intros h' Hne. rewrite U_upd_chan_keep by reflexivity. destruct (0 <? h); [|apply U2].
    rewrite <- U2. unfold handle_reject. destruct (get_chan s2 c h) as [ch2|]; [|reflexivity]. cbn [fst].
    rewrite U_fold_dec. apply (fold_del_reject c h true). intros E. inversion E. contradiction.
Qed.

Definition blocks_from (s : state) (c : N) (ids : list N) (q : string) : list N :=
  fold_right (fun h acc => acc ++ close_block s c h q) [] ids.

Lemma close_block_ext s s' c h q : U s' c h = U s c h -> QA s' q = QA s q -> close_block s' c h q = close_block s c h q.
Proof.
  intros EU EQ. unfold close_block. destruct (0 <? h); [|reflexivity]. rewrite EU. f_equal. apply filter_ext. intros u. apply goes_to_ext. exact EQ.
Qed.

Lemma close_blocks_from cfg s c q ids : NoDup ids -> forall s',
  (forall h, In h ids -> U s' c h = U s c h) -> QA s' q = QA s q ->
  close_blocks cfg s' c ids q = blocks_from s c ids q.
Proof.
  induction 1 as [|h t Hni Hnd IH]; intros s' HU HQ; cbn [close_blocks blocks_from fold_right]; [reflexivity|].
  destruct (channel_close_frame cfg s' c h) as [FQ0 FU]. f_equal.
  - apply IH.
    + intros h' Hin. rewrite FU; [apply HU; right; exact Hin|]. intros E. subst. contradiction.
    + rewrite FQ0. exact HQ.
  - apply close_block_ext; [apply HU; left; reflexivity|exact HQ].
Qed.

Theorem conn_close_returns_blocks_of_state cfg fx s c cn q l :
  get_conn s c = Some cn -> NoDup (map fst (cn_chans cn)) -> R s q = Some l ->
  R (fst (conn_close cfg fx s c)) q = None \/
  R (fst (conn_close cfg fx s c)) q = Some (blocks_from s c (sort_desc_N (map fst (cn_chans cn))) q ++ l).
Proof.
  intros Hc Hk Hr. rewrite <- (close_blocks_from cfg s c q (sort_desc_N (map fst (cn_chans cn)))) with (s' := s); auto.
  - apply conn_close_returns_blocks; assumption.
  - eapply Permutation_NoDup; [apply Permutation_sym; apply sort_desc_N_perm|exact Hk].
Qed.

Theorem socket_loss_keeps_suffix cfg fx s c q l :
  R s q = Some l ->
  R (fst (step cfg fx s (LSocketLoss c))) q = None \/ exists blk, R (fst (step cfg fx s (LSocketLoss c))) q = Some (blk ++ l).
Proof.
  intros Hr. cbn [step]. pose proof (conn_close_keeps_suffix cfg fx s c q l Hr) as H.
  destruct (conn_close cfg fx s c) as [s1 e1]. exact H.
Qed.

(* ================================================================== *)
(* evaluation helpers for the examples in Props/C03_history.v *)
Fixpoint FQb_along (cfg : config) (fx : fixes) (s : state) (g : ghost) (ls : list label) : bool :=
  FQb g s && match ls with
             | [] => true
             | l :: t => let '(s1, e1) := step cfg fx s l in FQb_along cfg fx s1 (gstep s l s1 e1 g) t
             end.
Definition ready_list (s : state) (q : string) : list N := match get_queue s q with Some qu => q_ready qu | None => [] end.

(* a boolean rendering of [cur_only_by_publish] for one step / along a run (a check of part 5a by evaluation) *)
Definition co_check (cfg : config) (fx : fixes) (s : state) (l : label) : bool :=
  let s' := fst (step cfg fx s l) in
  forallb (fun kc : N * conn => forallb (fun kh : N * channel =>
     match cur_of s' (fst kc) (fst kh) with
     | None => true
     | Some w => (match cur_of s (fst kc) (fst kh) with Some w0 => w0 =? w | None => false end) ||
                 ((w =? next_uid s) && match l with
                                       | LMethod c h (MPublish _ _ _ _) => (c =? fst kc) && (h =? fst kh)
                                       | _ => false
                                       end)
     end) (cn_chans (snd kc))) (conns s').
Fixpoint co_along (cfg : config) (fx : fixes) (s : state) (ls : list label) : bool :=
  match ls with [] => true | l :: t => co_check cfg fx s l && co_along cfg fx (fst (step cfg fx s l)) t end.
