(* Key-format lemmas: the shapes the generated formats denote (these are the obligations a
   changed format string, prefix, separator or Split index breaks), injectivity and
   prefix-freeness for separator-free names, and the witnesses for names with separators. *)
From Coq Require Import String List NArith Bool Lia ZifyN ZifyNat ZifyBool.
From GMQ Require Import Store.KeyFmt Store.gen.KeyFmtGen Store.KV Store.SrvStore Store.MsgStore Store.StoreSpec
  Proofs.StoreKVProofs.
Import ListNotations.
Open Scope N_scope.

(* ------------------------------------------------------------ separators in byte strings *)
Lemma mem_byte_app : forall c a b, mem_byte c (a ++ b) = mem_byte c a || mem_byte c b.
Proof. induction a as [|x a IH]; intros; cbn; [reflexivity|]. rewrite IH. apply orb_assoc. Qed.

Lemma mem_byte_cons : forall c x l, mem_byte c (x :: l) = N.eqb x c || mem_byte c l.
Proof. reflexivity. Qed.

Lemma mem_byte_rev : forall c a, mem_byte c (rev a) = mem_byte c a.
Proof.
  induction a as [|x a IH]; cbn; [reflexivity|]. rewrite mem_byte_app, IH. cbn. rewrite orb_false_r. apply orb_comm.
Qed.

(* splitting at the first separator is unambiguous *)
Lemma app_sep_inj : forall c a a' b b', mem_byte c a = false -> mem_byte c a' = false ->
  a ++ c :: b = a' ++ c :: b' -> a = a' /\ b = b'.
Proof.
  induction a as [|x a IH]; intros a' b b' Ha Ha' E.
  - destruct a' as [|y a']; cbn in *.
    + inversion E. split; reflexivity.
    + inversion E; subst. rewrite N.eqb_refl in Ha'. discriminate.
  - destruct a' as [|y a']; cbn in *.
    + inversion E; subst. rewrite N.eqb_refl in Ha. discriminate.
    + inversion E; subst. apply orb_false_iff in Ha as [_ Ha]. apply orb_false_iff in Ha' as [_ Ha'].
      destruct (IH a' b b' Ha Ha' H1) as [-> ->]. split; reflexivity.
Qed.

(* ... and so is splitting at the last one *)
Lemma app_sep_inj_last : forall c a a' b b', mem_byte c b = false -> mem_byte c b' = false ->
  a ++ c :: b = a' ++ c :: b' -> a = a' /\ b = b'.
Proof.
  intros c a a' b b' Hb Hb' E. apply (f_equal (@rev N)) in E.
  rewrite !rev_app_distr in E. cbn in E. rewrite <- !app_assoc in E. cbn in E.
  apply app_sep_inj in E; try (rewrite mem_byte_rev; assumption).
  destruct E as [E1 E2]. apply (f_equal (@rev N)) in E1, E2. rewrite !rev_involutive in E1, E2. subst. split; reflexivity.
Qed.

Lemma split1_nosep : forall c a, mem_byte c a = false -> split1 c a = [a].
Proof.
  induction a as [|x a IH]; intro H; cbn in *; [reflexivity|].
  apply orb_false_iff in H as [H1 H2]. rewrite H1, (IH H2). reflexivity.
Qed.

Lemma split1_app_sep : forall c a b, mem_byte c a = false -> split1 c (a ++ c :: b) = a :: split1 c b.
Proof.
  induction a as [|x a IH]; intros b H; cbn in *.
  - rewrite N.eqb_refl. reflexivity.
  - apply orb_false_iff in H as [H1 H2]. rewrite H1, (IH b H2). reflexivity.
Qed.

(* ------------------------------------------------------------ srvstorage key shapes (generated-format obligations) *)
Definition P_queue : bytes := bytes_of_string "vhost.queue".
Definition P_exchange : bytes := bytes_of_string "vhost.exchange".
Definition P_binding : bytes := bytes_of_string "vhost.binding".
Definition P_vhost : bytes := bytes_of_string "server.vhost".

Lemma queue_key_shape : forall v n, queue_key_add v n = P_queue ++ 46 :: v ++ 46 :: n.
Proof. intros. cbn. rewrite app_nil_r. reflexivity. Qed.
Lemma exchange_key_shape : forall v n, exchange_key_add v n = P_exchange ++ 46 :: v ++ 46 :: n.
Proof. intros. cbn. rewrite app_nil_r. reflexivity. Qed.
Lemma binding_name_shape : forall b, binding_name b = bd_queue b ++ 95 :: bd_exchange b ++ 95 :: bd_key b.
Proof. intros. reflexivity. Qed.
Lemma binding_key_shape : forall v b, binding_key_add v b = P_binding ++ 46 :: v ++ 46 :: binding_name b.
Proof. intros. cbn. rewrite app_nil_r. reflexivity. Qed.
Lemma vhost_key_shape : forall v, vhost_key v = P_vhost ++ 46 :: v.
Proof. intros. cbn. rewrite app_nil_r. reflexivity. Qed.

(* Del* addresses the key Add* wrote *)
Lemma queue_key_del_add : forall v n, queue_key_del v n = queue_key_add v n.
Proof. reflexivity. Qed.
Lemma exchange_key_del_add : forall v n, exchange_key_del v n = exchange_key_add v n.
Proof. reflexivity. Qed.
Lemma binding_key_del_add : forall v b, binding_key_del v b = binding_key_add v b.
Proof. reflexivity. Qed.

(* the scan prefixes are the key prefixes *)
Lemma scan_prefixes : bytes_of_string scan_prefix_queues = P_queue /\ bytes_of_string scan_prefix_exchanges = P_exchange /\
  bytes_of_string scan_prefix_bindings = P_binding /\ bytes_of_string scan_prefix_vhosts = P_vhost.
Proof. repeat split; reflexivity. Qed.

(* getVhostFromKey on each kind of key, for a vhost without '.' *)
Lemma split3 : forall a b v n, mem_byte 46 a = false -> mem_byte 46 b = false -> mem_byte 46 v = false ->
  split1 46 (a ++ 46 :: b ++ 46 :: v ++ 46 :: n) = a :: b :: v :: split1 46 n.
Proof. intros. rewrite !split1_app_sep by assumption. reflexivity. Qed.

Lemma vhost_of_queue_key : forall v n, dotfree v = true -> vhost_of_key (queue_key_add v n) = Some v.
Proof.
  intros v n H. unfold dotfree in H. apply negb_true_iff in H.
  rewrite queue_key_shape. unfold vhost_of_key, split_index. cbn [vhost_from_key sp_sep sp_index bytes_of_string split_bytes].
  change P_queue with (bytes_of_string "vhost" ++ 46 :: bytes_of_string "queue").
  rewrite <- app_assoc. cbn [app]. rewrite split3; [reflexivity | reflexivity | reflexivity | exact H].
Qed.

Lemma vhost_of_exchange_key : forall v n, dotfree v = true -> vhost_of_key (exchange_key_add v n) = Some v.
Proof.
  intros v n H. unfold dotfree in H. apply negb_true_iff in H.
  rewrite exchange_key_shape. unfold vhost_of_key, split_index. cbn [vhost_from_key sp_sep sp_index bytes_of_string split_bytes].
  change P_exchange with (bytes_of_string "vhost" ++ 46 :: bytes_of_string "exchange").
  rewrite <- app_assoc. cbn [app]. rewrite split3; [reflexivity | reflexivity | reflexivity | exact H].
Qed.

Lemma vhost_of_binding_key : forall v b, dotfree v = true -> vhost_of_key (binding_key_add v b) = Some v.
Proof.
  intros v b H. unfold dotfree in H. apply negb_true_iff in H.
  rewrite binding_key_shape. unfold vhost_of_key, split_index. cbn [vhost_from_key sp_sep sp_index bytes_of_string split_bytes].
  change P_binding with (bytes_of_string "vhost" ++ 46 :: bytes_of_string "binding").
  rewrite <- app_assoc. cbn [app]. rewrite split3; [reflexivity | reflexivity | reflexivity | exact H].
Qed.

Lemma vhost_of_vhost_key : forall v, dotfree v = true -> vhost_of_key (vhost_key v) = Some v.
Proof.
  intros v H. unfold dotfree in H. apply negb_true_iff in H.
  rewrite vhost_key_shape. unfold vhost_of_key, split_index. cbn [vhost_from_key sp_sep sp_index bytes_of_string split_bytes].
  change P_vhost with (bytes_of_string "server" ++ 46 :: bytes_of_string "vhost").
  rewrite <- app_assoc. cbn [app]. rewrite !split1_app_sep by reflexivity. rewrite split1_nosep by exact H. reflexivity.
Qed.

(* ------------------------------------------------------------ injectivity for separator-free names *)
Lemma queue_key_inj : forall v n v' n', dotfree v = true -> dotfree v' = true ->
  queue_key_add v n = queue_key_add v' n' -> v = v' /\ n = n'.
Proof.
  intros v n v' n' H H' E. unfold dotfree in *. apply negb_true_iff in H, H'.
  rewrite !queue_key_shape in E. apply app_inv_head in E. inversion E as [E1]. eapply app_sep_inj; eassumption.
Qed.

Lemma exchange_key_inj : forall v n v' n', dotfree v = true -> dotfree v' = true ->
  exchange_key_add v n = exchange_key_add v' n' -> v = v' /\ n = n'.
Proof.
  intros v n v' n' H H' E. unfold dotfree in *. apply negb_true_iff in H, H'.
  rewrite !exchange_key_shape in E. apply app_inv_head in E. inversion E as [E1]. eapply app_sep_inj; eassumption.
Qed.

Lemma vhost_key_inj : forall v v', vhost_key v = vhost_key v' -> v = v'.
Proof. intros v v' E. rewrite !vhost_key_shape in E. apply app_inv_head in E. inversion E. reflexivity. Qed.

Lemma binding_name_inj : forall b b', usfree (bd_queue b) = true -> usfree (bd_exchange b) = true ->
  usfree (bd_queue b') = true -> usfree (bd_exchange b') = true ->
  binding_name b = binding_name b' ->
  bd_queue b = bd_queue b' /\ bd_exchange b = bd_exchange b' /\ bd_key b = bd_key b'.
Proof.
  intros b b' H1 H2 H3 H4 E. unfold usfree in *. apply negb_true_iff in H1, H2, H3, H4.
  rewrite !binding_name_shape in E. apply app_sep_inj in E as [E1 E2]; try assumption.
  apply app_sep_inj in E2 as [E2 E3]; try assumption. repeat split; assumption.
Qed.

Lemma binding_key_inj : forall v b v' b', dotfree v = true -> dotfree v' = true ->
  usfree (bd_queue b) = true -> usfree (bd_exchange b) = true ->
  usfree (bd_queue b') = true -> usfree (bd_exchange b') = true ->
  binding_key_add v b = binding_key_add v' b' ->
  v = v' /\ bd_queue b = bd_queue b' /\ bd_exchange b = bd_exchange b' /\ bd_key b = bd_key b'.
Proof.
  intros v b v' b' H H' H1 H2 H3 H4 E. unfold dotfree in *. apply negb_true_iff in H, H'.
  rewrite !binding_key_shape in E. apply app_inv_head in E. inversion E as [E1].
  apply app_sep_inj in E1 as [Ev En]; try assumption. split; [exact Ev|]. apply binding_name_inj; assumption.
Qed.

(* keys of different kinds never meet under a scan prefix *)
Lemma prefix_kinds :
  (forall v n, is_prefix P_queue (exchange_key_add v n) = false) /\
  (forall v b, is_prefix P_queue (binding_key_add v b) = false) /\
  (forall v, is_prefix P_queue (vhost_key v) = false) /\
  (forall v n, is_prefix P_exchange (queue_key_add v n) = false) /\
  (forall v b, is_prefix P_exchange (binding_key_add v b) = false) /\
  (forall v, is_prefix P_exchange (vhost_key v) = false) /\
  (forall v n, is_prefix P_binding (queue_key_add v n) = false) /\
  (forall v n, is_prefix P_binding (exchange_key_add v n) = false) /\
  (forall v, is_prefix P_binding (vhost_key v) = false) /\
  (forall v n, is_prefix P_vhost (queue_key_add v n) = false) /\
  (forall v n, is_prefix P_vhost (exchange_key_add v n) = false) /\
  (forall v b, is_prefix P_vhost (binding_key_add v b) = false).
Proof. repeat split; intros; reflexivity. Qed.

Lemma prefix_own :
  (forall v n, is_prefix P_queue (queue_key_add v n) = true) /\
  (forall v n, is_prefix P_exchange (exchange_key_add v n) = true) /\
  (forall v b, is_prefix P_binding (binding_key_add v b) = true) /\
  (forall v, is_prefix P_vhost (vhost_key v) = true).
Proof. repeat split; intros; reflexivity. Qed.

(* ------------------------------------------------------------ decimal ids *)
Definition dec_val (l : bytes) : N := fold_left (fun acc c => 10 * acc + (c - 48)) l 0.

Lemma dec_val_snoc : forall l c, dec_val (l ++ [c]) = 10 * dec_val l + (c - 48).
Proof. intros. unfold dec_val. rewrite fold_left_app. reflexivity. Qed.

Lemma digit_char_10 : forall d, d < 10 -> digit_char d = 48 + d.
Proof. intros d H. unfold digit_char. destruct (N.ltb_spec d 10); [reflexivity | lia]. Qed.

Lemma digits_fuel_val : forall fuel n, n < 2 ^ N.of_nat fuel -> dec_val (digits_fuel fuel 10 n) = n.
Proof.
  induction fuel as [|f IH]; intros n H.
  - cbn in H. assert (n = 0) by lia. subst. reflexivity.
  - cbn [digits_fuel]. assert (Hm : n mod 10 < 10) by (apply N.mod_lt; lia).
    destruct (N.eqb_spec (n / 10) 0) as [E|E].
    + unfold dec_val. cbn. rewrite digit_char_10 by exact Hm.
      pose proof (N.div_mod n 10 ltac:(lia)) as D. lia.
    + rewrite dec_val_snoc, digit_char_10 by exact Hm. rewrite IH.
      * pose proof (N.div_mod n 10 ltac:(lia)) as D. lia.
      * rewrite Nat2N.inj_succ, N.pow_succ_r' in H.
        assert (n / 10 <= n / 2) by (apply N.div_le_compat_l; lia).
        assert (n / 2 < 2 ^ N.of_nat f) by (apply N.div_lt_upper_bound; lia). lia.
Qed.

Lemma digits_val : forall n, n < two64 -> dec_val (digits 10 n) = n.
Proof.
  intros n H. unfold digits. apply digits_fuel_val. eapply N.lt_trans; [exact H|]. vm_compute. reflexivity.
Qed.

(* every character FormatInt emits is a digit or '-' : none is the '.' separator *)
Lemma digits_fuel_chars : forall fuel n, Forall (fun c => 48 <= c < 58) (digits_fuel fuel 10 n).
Proof.
  induction fuel as [|f IH]; intros n; cbn [digits_fuel]; [constructor|].
  assert (Hm : n mod 10 < 10) by (apply N.mod_lt; lia).
  destruct (N.eqb (n / 10) 0).
  - constructor; [|constructor]. rewrite digit_char_10 by exact Hm. lia.
  - apply Forall_app. split; [apply IH|]. constructor; [|constructor]. rewrite digit_char_10 by exact Hm. lia.
Qed.

Lemma forall_digit_nomem : forall c l, Forall (fun x => 48 <= x < 58) l -> c < 48 -> mem_byte c l = false.
Proof.
  induction l as [|x l IH]; intros H Hc; cbn; [reflexivity|]. inversion H; subst.
  destruct (N.eqb_spec x c); [lia|]. cbn. apply IH; assumption.
Qed.

Lemma fmt_id_shape : forall id, fmt_id msg_id_signed msg_id_base id =
  let i := id mod two64 in if two63 <=? i then 45 :: digits 10 (two64 - i) else digits 10 i.
Proof. reflexivity. Qed.

Lemma fmt_id_dotfree : forall id, mem_byte 46 (fmt_id msg_id_signed msg_id_base id) = false.
Proof.
  intro id. rewrite fmt_id_shape. cbv zeta. destruct (two63 <=? id mod two64).
  - rewrite mem_byte_cons. change (N.eqb 45 46) with false. rewrite orb_false_l.
    apply forall_digit_nomem; [apply digits_fuel_chars | lia].
  - apply forall_digit_nomem; [apply digits_fuel_chars | lia].
Qed.

Lemma digits_nonempty_head : forall fuel n, match digits_fuel (S fuel) 10 n with [] => False | c :: _ => 48 <= c < 58 end.
Proof.
  intros fuel n. pose proof (digits_fuel_chars (S fuel) n) as H.
  cbn [digits_fuel] in *. destruct (N.eqb (n / 10) 0).
  - inversion H; assumption.
  - destruct (digits_fuel fuel 10 (n / 10)); cbn in *; inversion H; assumption.
Qed.

(* FormatInt(int64(id), 10) is injective on uint64 *)
Lemma fmt_id_inj : forall a b, a < two64 -> b < two64 ->
  fmt_id msg_id_signed msg_id_base a = fmt_id msg_id_signed msg_id_base b -> a = b.
Proof.
  intros a b Ha Hb E. rewrite !fmt_id_shape in E. cbv zeta in E.
  rewrite !N.mod_small in E by assumption.
  assert (T63 : two63 < two64) by (vm_compute; reflexivity).
  assert (T64 : two64 = 2 * two63) by (vm_compute; reflexivity).
  assert (T0 : 0 < two63) by (vm_compute; reflexivity).
  remember (two64 - a) as na eqn:Ena. remember (two64 - b) as nb eqn:Enb.
  revert E. destruct (N.leb_spec two63 a) as [La|La]; destruct (N.leb_spec two63 b) as [Lb|Lb]; intro E.
  - assert (E1 : digits 10 na = digits 10 nb) by congruence.
    apply (f_equal dec_val) in E1.
    rewrite (digits_val na), (digits_val nb) in E1 by lia. lia.
  - exfalso. pose proof (digits_nonempty_head 64 b) as Hh. unfold digits in E.
    destruct (digits_fuel 65 10 b); [contradiction|]. assert (n = 45) by congruence. lia.
  - exfalso. pose proof (digits_nonempty_head 64 a) as Hh. unfold digits in E.
    destruct (digits_fuel 65 10 a); [contradiction|]. assert (n = 45) by congruence. lia.
  - apply (f_equal dec_val) in E. rewrite (digits_val a), (digits_val b) in E by assumption. exact E.
Qed.

(* ------------------------------------------------------------ msgstorage key shapes *)
Definition P_msg : bytes := bytes_of_string "msg.".

Lemma msg_key_shape : forall q id, msg_key q id = P_msg ++ q ++ 46 :: fmt_id msg_id_signed msg_id_base id.
Proof. intros. unfold msg_key, render_kparts. cbn [msg_make_key map concat render_kpart bytes_of_string]. rewrite app_nil_r. reflexivity. Qed.

Lemma msg_prefix_shape : forall q, msg_prefix_del q = P_msg ++ q ++ [46].
Proof. intros. unfold msg_prefix_del, render_kparts. cbn [msg_prefix_purge map concat render_kpart bytes_of_string]. reflexivity. Qed.

Lemma msg_prefixes_agree : forall q, msg_prefix_iter q = msg_prefix_del q /\ msg_prefix_from q = msg_prefix_del q /\
  msg_prefix_len q = msg_prefix_del q.
Proof. intros. repeat split; reflexivity. Qed.

Lemma msg_from_key_eq : forall q id, msg_from_key q id = msg_key q id.
Proof. reflexivity. Qed.

Lemma msg_key_under_own_prefix : forall q id, is_prefix (msg_prefix_del q) (msg_key q id) = true.
Proof.
  intros. rewrite msg_prefix_shape, msg_key_shape. rewrite is_prefix_app_l.
  change (q ++ 46 :: fmt_id msg_id_signed msg_id_base id) with (q ++ [46] ++ fmt_id msg_id_signed msg_id_base id).
  rewrite app_assoc. apply is_prefix_app.
Qed.

(* makeKey is injective for ALL queue names (the id comes last and has no '.') *)
Lemma msg_key_inj : forall q id q' id', id < two64 -> id' < two64 ->
  msg_key q id = msg_key q' id' -> q = q' /\ id = id'.
Proof.
  intros q id q' id' H H' E. rewrite !msg_key_shape in E. apply app_inv_head in E.
  apply app_sep_inj_last in E as [E1 E2]; try apply fmt_id_dotfree.
  split; [exact E1 | apply fmt_id_inj; assumption].
Qed.

(* if "q." is a prefix of "q'.<digits>" then it is a prefix of "q'." *)
Lemma prefix_of_key_is_prefix_of_prefix : forall q q' d, mem_byte 46 d = false ->
  is_prefix (q ++ [46]) (q' ++ 46 :: d) = true -> is_prefix (q ++ [46]) (q' ++ [46]) = true.
Proof.
  induction q as [|x q IH]; intros q' d Hd H.
  - destruct q' as [|y q']; cbn in *; [reflexivity|]. rewrite andb_true_r in *. exact H.
  - destruct q' as [|y q']; cbn in *.
    + apply andb_true_iff in H as [H1 H2]. apply is_prefix_spec in H2 as [s Hs]. subst d.
      rewrite <- app_assoc, mem_byte_app in Hd. cbn in Hd. rewrite orb_true_r in Hd. discriminate.
    + apply andb_true_iff in H as [H1 H2]. rewrite H1. cbn. eapply IH; eassumption.
Qed.

(* (a): a scan prefix captures exactly the keys of its own queue, unless F21's trigger holds *)
Lemma prefix_captures_only_own : forall q q' id, nof21_pair q q' = true ->
  is_prefix (msg_prefix_del q) (msg_key q' id) = true -> q = q'.
Proof.
  intros q q' id Hn H. unfold nof21_pair in Hn. apply orb_true_iff in Hn as [Hn|Hn].
  - apply bytes_eqb_eq. exact Hn.
  - exfalso. apply negb_true_iff in Hn. rewrite !msg_prefix_shape in Hn. rewrite msg_prefix_shape, msg_key_shape in H.
    rewrite is_prefix_app_l in *. apply prefix_of_key_is_prefix_of_prefix in H; [congruence | apply fmt_id_dotfree].
Qed.

Lemma dotfree_prefix_eq : forall q q', mem_byte 46 q = false -> mem_byte 46 q' = false ->
  is_prefix (q ++ [46]) (q' ++ [46]) = true -> q = q'.
Proof.
  intros q q' H H' E. apply is_prefix_spec in E as [s E].
  rewrite <- app_assoc in E. cbn in E. symmetry in E.
  apply app_sep_inj in E as [E _]; [exact E | assumption | assumption].
Qed.

Lemma dotfree_nof21_pair : forall q q', dotfree q = true -> dotfree q' = true -> nof21_pair q q' = true.
Proof.
  intros q q' H H'. unfold dotfree in *. apply negb_true_iff in H, H'. unfold nof21_pair.
  destruct (bytes_eqb q q') eqn:E; [reflexivity|]. cbn [orb]. apply negb_true_iff.
  destruct (is_prefix (msg_prefix_del q) (msg_prefix_del q')) eqn:P; [|reflexivity].
  rewrite !msg_prefix_shape, is_prefix_app_l in P. apply dotfree_prefix_eq in P; try assumption.
  subst. rewrite bytes_eqb_refl in E. discriminate.
Qed.

Lemma dotfree_nof21 : forall names, forallb dotfree names = true -> nof21 names = true.
Proof.
  intros names H. unfold nof21. rewrite forallb_forall in *. intros q Hq. apply forallb_forall. intros q' Hq'.
  apply dotfree_nof21_pair; apply H; assumption.
Qed.

(* for names without '.', prefix(q) is a prefix of key(q', id) iff q = q' *)
Lemma prefix_iff_same_queue : forall q q' id, dotfree q = true -> dotfree q' = true ->
  (is_prefix (msg_prefix_del q) (msg_key q' id) = true <-> q = q').
Proof.
  intros q q' id H H'. split.
  - apply prefix_captures_only_own. apply dotfree_nof21_pair; assumption.
  - intros ->. apply msg_key_under_own_prefix.
Qed.

Lemma nof21_in : forall names q q', nof21 names = true -> In q names -> In q' names -> nof21_pair q q' = true.
Proof.
  intros names q q' H Hq Hq'. unfold nof21 in H. rewrite forallb_forall in H. specialize (H q Hq).
  rewrite forallb_forall in H. apply H. exact Hq'.
Qed.

(* ------------------------------------------------------------ witnesses for names with separators (F21) *)
Definition bs := bytes_of_string.

(* queue "a" scans the keys of queue "a.b" *)
Lemma msg_prefix_collision : is_prefix (msg_prefix_del (bs "a")) (msg_key (bs "a.b") 7) = true /\ bs "a" <> bs "a.b".
Proof. split; [vm_compute; reflexivity | discriminate]. Qed.

(* bindings a_b + c and a + b_c share one key *)
Definition bind_w1 : binding := {| bd_queue := bs "a_b"; bd_exchange := bs "c"; bd_key := bs "k"; bd_args := []; bd_topic := false; bd_match_any := false |}.
Definition bind_w2 : binding := {| bd_queue := bs "a"; bd_exchange := bs "b_c"; bd_key := bs "k"; bd_args := []; bd_topic := false; bd_match_any := false |}.
Lemma binding_key_collision : binding_key_add (bs "/") bind_w1 = binding_key_add (bs "/") bind_w2 /\ bd_queue bind_w1 <> bd_queue bind_w2.
Proof. split; [vm_compute; reflexivity | discriminate]. Qed.

(* a vhost with '.' is read back as its first component; queue keys of vhost "x.y"/"q" and vhost "x"/"y.q" coincide *)
Lemma vhost_key_collision : queue_key_add (bs "x.y") (bs "q") = queue_key_add (bs "x") (bs "y.q") /\
  vhost_of_key (queue_key_add (bs "x.y") (bs "q")) = Some (bs "x").
Proof. split; vm_compute; reflexivity. Qed.

Lemma vhost_collision_neq : bs "x.y" <> bs "x".
Proof. discriminate. Qed.
Lemma vhost_collision_wrong : vhost_of_key (queue_key_add (bs "x.y") (bs "q")) <> Some (bs "x.y").
Proof. rewrite (proj2 vhost_key_collision). discriminate. Qed.
