(* C01 / C02 / C03 core: what each operation does to the ready list of each queue.
   R s q = the ready messages of queue q (oldest first), None if q does not exist. *)
From Coq Require Import List String NArith ZArith Bool Lia Sorted.
From RecordUpdate Require Import RecordUpdate.
Import ListNotations.
From GMQ Require Import Broker.Model Proofs.BrokerFrames Proofs.BrokerTags Proofs.BrokerChanInv.
Open Scope N_scope.

Definition R (s : state) (q : string) : option (list N) :=
  match get_queue s q with Some qu => Some (q_ready qu) | None => None end.
Definition Qid (s : state) (q : string) : option N :=
  match get_queue s q with Some qu => Some (q_id qu) | None => None end.

Lemma get_queue_same_queues s s' q : queues s' = queues s -> get_queue s' q = get_queue s q.
Proof. unfold get_queue. intros ->. reflexivity. Qed.
Lemma R_same_queues s s' q : queues s' = queues s -> R s' q = R s q.
Proof. unfold R. intros E. rewrite (get_queue_same_queues _ _ _ E). reflexivity. Qed.
Lemma Qid_same_queues s s' q : queues s' = queues s -> Qid s' q = Qid s q.
Proof. unfold Qid. intros E. rewrite (get_queue_same_queues _ _ _ E). reflexivity. Qed.

Lemma get_queue_set_queue s q v q' : get_queue (set_queue s q v) q' = if seqb q' q then Some v else get_queue s q'.
Proof. unfold get_queue, set_queue. cbn. apply alookup_aset. apply seqb_spec. Qed.

Lemma seqb_refl q : seqb q q = true.
Proof. apply seqb_spec. reflexivity. Qed.

(* a queue-record update that keeps ready list and id *)
Lemma R_upd_queue_keep s q0 f q : (forall qu, q_ready (f qu) = q_ready qu) -> R (upd_queue s q0 f) q = R s q.
Proof.
  intros Hf. unfold upd_queue. destruct (get_queue s q0) as [qu|] eqn:E; [|reflexivity].
  unfold R. rewrite get_queue_set_queue. destruct (seqb q q0) eqn:Eq; [|reflexivity].
  apply seqb_spec in Eq. subst. rewrite E. rewrite Hf. reflexivity.
Qed.
Lemma Qid_upd_queue_keep s q0 f q : (forall qu, q_id (f qu) = q_id qu) -> Qid (upd_queue s q0 f) q = Qid s q.
Proof.
  intros Hf. unfold upd_queue. destruct (get_queue s q0) as [qu|] eqn:E; [|reflexivity].
  unfold Qid. rewrite get_queue_set_queue. destruct (seqb q q0) eqn:Eq; [|reflexivity].
  apply seqb_spec in Eq. subst. rewrite E. rewrite Hf. reflexivity.
Qed.

(* Queue.Push *)
Theorem queue_push_appends s qn u q :
  get_msg s u <> None ->
  R (queue_push s qn u) q =
  match R s q with
  | Some l => Some (if seqb q qn && (match get_queue s qn with Some qu => q_active qu | None => false end) then l ++ [u] else l)
  | None => None
  end.
Proof.
  intros Hm. unfold queue_push. destruct (get_queue s qn) as [qu|] eqn:Eq.
  - destruct (get_msg s u) as [m|]; [|congruence].
    destruct (q_active qu) eqn:Ea; cbn [negb].
    + unfold R. rewrite get_queue_set_queue. destruct (seqb q qn) eqn:E1.
      * apply seqb_spec in E1. subst. rewrite Eq. cbn [andb]. unfold call_consumers. cbn. rewrite Ea. reflexivity.
      * cbn [andb].
        assert (Eqs : forall st, queues st = queues s -> match get_queue st q with Some qu0 => Some (q_ready qu0) | None => None end = match get_queue s q with Some qu0 => Some (q_ready qu0) | None => None end)
          by (intros st E; rewrite (get_queue_same_queues _ _ _ E); reflexivity).
        destruct (q_durable qu && m_pers m); [rewrite Eqs by reflexivity|destruct (m_conf m); rewrite Eqs by (rewrite ?queues_upd_msg; reflexivity)];
          destruct (get_queue s q); reflexivity.
    + destruct (R s q); rewrite ?andb_false_r; reflexivity.
  - destruct (R s q); rewrite ?andb_false_r; reflexivity.
Qed.

(* Queue.Requeue: the message goes back to the HEAD *)
Theorem queue_requeue_head s qn u q :
  R (queue_requeue s qn u) q =
  match R s q with
  | Some l => Some (if seqb q qn && (match get_queue s qn with Some qu => q_active qu | None => false end) then u :: l else l)
  | None => None
  end.
Proof.
  unfold queue_requeue. destruct (get_queue s qn) as [qu|] eqn:Eq.
  - destruct (q_active qu) eqn:Ea; cbn [negb].
    + unfold R. rewrite get_queue_set_queue. destruct (seqb q qn) eqn:E1.
      * apply seqb_spec in E1. subst. rewrite Eq. cbn [andb]. unfold call_consumers. cbn. rewrite Ea. reflexivity.
      * cbn [andb]. rewrite (get_queue_same_queues s); [destruct (get_queue s q); reflexivity|]. cbn. rewrite queues_upd_msg. apply store_writeback_frame.
    + destruct (R s q); rewrite ?andb_false_r; reflexivity.
  - destruct (R s q); rewrite ?andb_false_r; reflexivity.
Qed.

Lemma R_queue_ackmsg s qn u q : R (queue_ackmsg s qn u) q = R s q.
Proof.
  unfold queue_ackmsg. destruct (get_queue s qn) as [qu|] eqn:Eq; auto. destruct (get_msg s u) as [m|]; auto.
  destruct (negb (q_active qu)); auto. unfold R. rewrite get_queue_set_queue. destruct (seqb q qn) eqn:E1.
  - apply seqb_spec in E1. subst. rewrite Eq. reflexivity.
  - rewrite (get_queue_same_queues s); [reflexivity|]. cbn. destruct (_ && _); reflexivity.
Qed.

Lemma R_chan_ackmsg s u q : R (chan_ackmsg s u) q = R s q.
Proof. unfold chan_ackmsg. destruct (origin_queue s u); [apply R_queue_ackmsg|reflexivity]. Qed.

(* ack / reject-without-requeue never touch any ready list *)
Lemma R_wake s c h tag q : R (fst (wake_consumer s c h tag)) q = R s q.
Proof. apply R_same_queues. apply queues_wake_consumer. Qed.

Lemma R_dec_qos cfg s c h u q : R (dec_qos_and_consume_next cfg s c h u) q = R s q.
Proof.
  unfold dec_qos_and_consume_next. destruct (get_chan s c h) as [ch|]; [|reflexivity].
  rewrite (R_same_queues _ _ q (queues_wake_consumers _ _ _ _)). apply R_same_queues.
  destruct (find_consumer ch (u_ctag u)).
  - destruct (cfg_rabbit cfg); [rewrite !queues_upd_chan; reflexivity|].
    destruct (get_conn _ c); cbn; rewrite ?queues_upd_chan; reflexivity.
  - destruct (get_conn _ c); cbn; rewrite ?queues_upd_chan; reflexivity.
Qed.

Lemma R_fold_dec cfg c h sel : forall s q, R (fold_left (fun s u => dec_qos_and_consume_next cfg s c h u) sel s) q = R s q.
Proof. induction sel as [|u t IH]; intros; simpl; auto. rewrite IH. apply R_dec_qos. Qed.

Theorem ack_keeps_ready cfg s c h tag mult q : R (fst (handle_ack cfg s c h tag mult)) q = R s q.
Proof.
  unfold handle_ack. destruct (get_chan s c h) as [ch|]; [|reflexivity]. destruct mult.
  - cbn [fst]. rewrite R_fold_dec.
    generalize (filter (fun u => (tag =? 0) || (u_tag u <=? tag)) (ch_unacked ch)). intros sel. revert s.
    induction sel as [|u t IH]; intros s; simpl; auto. rewrite IH. rewrite R_chan_ackmsg. apply R_same_queues. apply queues_upd_chan.
  - destruct (find _ _); cbn [fst]; auto. rewrite R_dec_qos, R_chan_ackmsg. apply R_same_queues. apply queues_upd_chan.
Qed.

(* ------------------------------------------------------------------ *)
(* returning deliveries: reject / nack with requeue, channel close *)

(* identity and activity of queue q *)
Definition QA (s : state) (q : string) : option (N * bool) :=
  match get_queue s q with Some qu => Some (q_id qu, q_active qu) | None => None end.

Lemma QA_same_queues s s' q : queues s' = queues s -> QA s' q = QA s q.
Proof. unfold QA. intros E. rewrite (get_queue_same_queues _ _ _ E). reflexivity. Qed.

Lemma QA_queue_requeue s qn u q : QA (queue_requeue s qn u) q = QA s q.
Proof.
  unfold queue_requeue. destruct (get_queue s qn) as [qu|] eqn:Eq; auto. destruct (negb (q_active qu)) eqn:Ea; auto.
  unfold QA. rewrite get_queue_set_queue. destruct (seqb q qn) eqn:E1.
  - apply seqb_spec in E1. subst. rewrite Eq. unfold call_consumers. cbn. destruct (q_active qu) eqn:Eb; cbn; rewrite ?Eb; reflexivity.
  - rewrite (get_queue_same_queues s); [reflexivity|]. cbn. rewrite queues_upd_msg. apply store_writeback_frame.
Qed.

(* the message of delivery u goes back to queue q: q is the queue object it was delivered from, and it is active *)
Definition goes_to (s : state) (q : string) (u : unacked) : bool :=
  seqb q (u_queue u) && match QA s q with Some (i, a) => (i =? u_qid u) && a | None => false end.

Lemma goes_to_ext s s' q u : QA s' q = QA s q -> goes_to s' q u = goes_to s q u.
Proof. unfold goes_to. intros ->. reflexivity. Qed.

Lemma origin_queue_QA s u :
  origin_queue s u = match get_queue s (u_queue u) with Some qu => if q_id qu =? u_qid u then Some qu else None | None => None end.
Proof. reflexivity. Qed.

Lemma chan_reject_requeue_R s u q :
  R (chan_rejectmsg s u true) q = match R s q with Some l => Some (if goes_to s q u then u_msg u :: l else l) | None => None end.
Proof.
  unfold chan_rejectmsg, origin_queue, goes_to, QA.
  destruct (get_queue s (u_queue u)) as [qu|] eqn:Eq.
  - destruct (q_id qu =? u_qid u) eqn:Ei.
    + rewrite queue_requeue_head. rewrite Eq. destruct (R s q) as [l|] eqn:Er; auto.
      destruct (seqb q (u_queue u)) eqn:E1; cbn [andb]; auto.
      apply seqb_spec in E1. subst. rewrite Eq. rewrite Ei. cbn [andb]. reflexivity.
    + rewrite (R_same_queues s); [|reflexivity]. destruct (R s q) as [l|] eqn:Er; auto.
      destruct (seqb q (u_queue u)) eqn:E1; cbn [andb]; auto. apply seqb_spec in E1. subst. rewrite Eq, Ei. reflexivity.
  - rewrite (R_same_queues s); [|reflexivity]. destruct (R s q) as [l|] eqn:Er; auto.
    destruct (seqb q (u_queue u)) eqn:E1; cbn [andb]; auto. apply seqb_spec in E1. subst. rewrite Eq. reflexivity.
Qed.

Lemma chan_reject_requeue_QA s u q : QA (chan_rejectmsg s u true) q = QA s q.
Proof.
  unfold chan_rejectmsg. destruct (origin_queue s u); [apply QA_queue_requeue|apply QA_same_queues; reflexivity].
Qed.

Lemma fold_requeue c h sel : forall s q,
  QA (fold_left (fun s u => chan_rejectmsg (upd_chan s c h (fun ch => del_unacked ch (u_tag u))) u true) sel s) q = QA s q /\
  R (fold_left (fun s u => chan_rejectmsg (upd_chan s c h (fun ch => del_unacked ch (u_tag u))) u true) sel s) q =
  match R s q with Some l => Some (rev (map u_msg (filter (goes_to s q) sel)) ++ l) | None => None end.
Proof.
  induction sel as [|u t IH]; intros s q; simpl.
  - split; auto. destruct (R s q); reflexivity.
  - set (s1 := chan_rejectmsg (upd_chan s c h (fun ch => del_unacked ch (u_tag u))) u true).
    assert (A1 : QA s1 q = QA s q).
    { subst s1. rewrite chan_reject_requeue_QA. apply QA_same_queues. apply queues_upd_chan. }
    assert (R1 : R s1 q = match R s q with Some l => Some (if goes_to s q u then u_msg u :: l else l) | None => None end).
    { subst s1. rewrite chan_reject_requeue_R. rewrite (R_same_queues s) by apply queues_upd_chan.
      rewrite (goes_to_ext s) by (apply QA_same_queues; apply queues_upd_chan). reflexivity. }
    destruct (IH s1 q) as [A B]. split; [rewrite A; exact A1|].
    rewrite B, R1. destruct (R s q) as [l|]; auto. f_equal.
    rewrite (filter_ext (goes_to s1 q) (goes_to s q)) by (intros; apply goes_to_ext; exact A1).
    destruct (goes_to s q u); cbn [map rev]; rewrite <- ?app_assoc; reflexivity.
Qed.

(* basic.nack / channel close with requeue: every returned message is put back AHEAD of the messages already waiting,
   and the returned ones among themselves in increasing delivery-tag order (= the order in which they were delivered) *)
Theorem reject_multiple_requeue_returns cfg s c h tag cls mth q :
  R (fst (handle_reject cfg s c h tag true true cls mth)) q =
  match R s q with
  | Some l => Some (map u_msg (filter (goes_to s q) (rev (filter (covered tag) (sort_desc (U s c h))))) ++ l)
  | None => None
  end.
Proof.
  unfold handle_reject, U. destruct (get_chan s c h) as [ch|] eqn:Ech.
  - cbn [fst]. rewrite R_fold_dec. destruct (fold_requeue c h (filter (fun u => (tag =? 0) || (u_tag u <=? tag)) (sort_desc (ch_unacked ch))) s q) as [_ B].
    rewrite B. destruct (R s q); auto. f_equal. f_equal.
    rewrite <- map_rev. f_equal. unfold covered.
    generalize (filter (fun u => (tag =? 0) || (u_tag u <=? tag)) (sort_desc (ch_unacked ch))). intros l0.
    induction l0 as [|a l0 IH]; simpl; auto. rewrite filter_app. simpl. destruct (goes_to s q a); simpl; rewrite IH; rewrite ?app_nil_r; reflexivity.
  - cbn [fst]. destruct (R s q); simpl; reflexivity.
Qed.

(* sort_desc really sorts: its reverse is in increasing tag order *)
Lemma insert_desc_sorted x l :
  Sorted (fun a b => u_tag b <= u_tag a) l -> Sorted (fun a b => u_tag b <= u_tag a) (insert_desc x l).
Proof.
  induction l as [|a l IH]; intros Hs; simpl; [repeat constructor|].
  destruct (u_tag a <? u_tag x) eqn:E.
  - apply N.ltb_lt in E. constructor; auto. constructor. lia.
  - apply N.ltb_ge in E. inversion Hs; subst. constructor; [apply IH; auto|].
    destruct l as [|b l]; simpl; [constructor; lia|].
    destruct (u_tag b <? u_tag x) eqn:E2; constructor; auto. inversion H2; subst. auto.
Qed.
Lemma sort_desc_sorted l : Sorted (fun a b => u_tag b <= u_tag a) (sort_desc l).
Proof. induction l as [|a l IH]; simpl; [constructor|apply insert_desc_sorted; auto]. Qed.

(* single reject / nack with requeue: the message becomes the head of its queue *)
Theorem reject_single_requeue_head cfg s c h tag cls mth s' u q :
  handle_reject cfg s c h tag false true cls mth = (s', None) ->
  find (fun u => u_tag u =? tag) (U s c h) = Some u ->
  R s' q = match R s q with Some l => Some (if goes_to s q u then u_msg u :: l else l) | None => None end.
Proof.
  unfold handle_reject, U. destruct (get_chan s c h) as [ch|] eqn:Ech; [|intros _ Hf; discriminate].
  intros H Hf. rewrite Hf in H. inversion H; subst. clear H.
  rewrite R_dec_qos, chan_reject_requeue_R.
  rewrite (R_same_queues s) by apply queues_upd_chan.
  rewrite (goes_to_ext s) by (apply QA_same_queues; apply queues_upd_chan). reflexivity.
Qed.

(* closing a channel (h > 0): all of its deliveries go back, ahead of the waiting messages, in delivery order *)
Lemma R_consumer_stop s c h tag q : R (consumer_stop s c h tag) q = R s q.
Proof.
  unfold consumer_stop. destruct (get_chan s c h) as [ch|]; auto. destruct (find_consumer ch tag) as [cm|]; auto.
  assert (E : forall st, R (queue_remove_consumer st (c_queue cm) c h tag) q = R st q).
  { intros st. unfold queue_remove_consumer. destruct (get_queue st (c_queue cm)) as [qu|] eqn:Eq; auto.
    match goal with |- R (if ?b then ?a <| autodel ::= _ |> else ?a') q = _ => assert (Ea : R a q = R st q) end.
    { unfold R. rewrite get_queue_set_queue. destruct (seqb q (c_queue cm)) eqn:E1; auto.
      apply seqb_spec in E1. subst. rewrite Eq.
      repeat match goal with |- context [if ?b then _ else _] => destruct b end; reflexivity. }
    match goal with |- R (if ?b then _ else _) q = _ => destruct b end; auto. }
  destruct (c_status cm); auto; rewrite E; apply R_same_queues; apply queues_set_chan.
Qed.
Lemma QA_consumer_stop s c h tag q : QA (consumer_stop s c h tag) q = QA s q.
Proof.
  unfold consumer_stop. destruct (get_chan s c h) as [ch|]; auto. destruct (find_consumer ch tag) as [cm|]; auto.
  assert (E : forall st, QA (queue_remove_consumer st (c_queue cm) c h tag) q = QA st q).
  { intros st. unfold queue_remove_consumer. destruct (get_queue st (c_queue cm)) as [qu|] eqn:Eq; auto.
    match goal with |- QA (if ?b then ?a <| autodel ::= _ |> else ?a') q = _ => assert (Ea : QA a q = QA st q) end.
    { unfold QA. rewrite get_queue_set_queue. destruct (seqb q (c_queue cm)) eqn:E1; auto.
      apply seqb_spec in E1. subst. rewrite Eq.
      repeat match goal with |- context [if ?b then _ else _] => destruct b end; reflexivity. }
    match goal with |- QA (if ?b then _ else _) q = _ => destruct b end; auto. }
  destruct (c_status cm); auto; rewrite E; apply QA_same_queues; apply queues_set_chan.
Qed.

Lemma U_consumer_stop s c0 h0 tag c h : U (consumer_stop s c0 h0 tag) c h = U s c h.
Proof.
  unfold consumer_stop. destruct (get_chan s c0 h0) as [ch|] eqn:E; auto. destruct (find_consumer ch tag) as [cm|]; auto.
  destruct (c_status cm); auto; (rewrite (U_same_conns _ _ c h (proj2 (proj2 (proj2 conns_queue_ops)) _ _ _ _ _));
    rewrite U_set_chan by (eapply get_chan_conn; eauto);
    destruct ((c =? c0) && (h =? h0)) eqn:Eb; auto;
    apply andb_prop in Eb; destruct Eb as [E1 E2]; apply N.eqb_eq in E1, E2; subst; unfold U; rewrite E; reflexivity).
Qed.

Theorem channel_close_returns cfg s c h q :
  0 < h ->
  R (channel_close cfg s c h) q =
  match R s q with
  | Some l => Some (map u_msg (filter (goes_to s q) (rev (sort_desc (U s c h)))) ++ l)
  | None => None
  end.
Proof.
  intros Hh. unfold channel_close. destruct (get_chan s c h) as [ch|] eqn:Ech.
  - rewrite (R_same_queues _ _ q (queues_upd_chan _ _ _ _)).
    apply N.ltb_lt in Hh. rewrite Hh.
    set (s2 := upd_chan (fold_left _ _ s) c h _).
    assert (R2 : R s2 q = R s q).
    { subst s2. rewrite (R_same_queues _ _ q (queues_upd_chan _ _ _ _)).
      assert (Hg : forall l0 st, R (fold_left (fun s cm => consumer_stop s c h (c_tag cm)) l0 st) q = R st q).
      { induction l0 as [|x l1 IH1]; intros st; simpl; auto. rewrite IH1. apply R_consumer_stop. }
      apply Hg. }
    assert (A2 : QA s2 q = QA s q).
    { subst s2. rewrite (QA_same_queues _ _ q (queues_upd_chan _ _ _ _)).
      assert (Hg : forall l0 st, QA (fold_left (fun s cm => consumer_stop s c h (c_tag cm)) l0 st) q = QA st q).
      { induction l0 as [|x l1 IH1]; intros st; simpl; auto. rewrite IH1. apply QA_consumer_stop. }
      apply Hg. }
    assert (U2 : U s2 c h = U s c h).
    { subst s2. rewrite U_upd_chan_keep by reflexivity.
      assert (Hg : forall l0 st, U (fold_left (fun s cm => consumer_stop s c h (c_tag cm)) l0 st) c h = U st c h).
      { induction l0 as [|x l1 IH1]; intros st; simpl; auto. rewrite IH1. apply U_consumer_stop. }
      apply Hg. }
    clearbody s2.
    rewrite reject_multiple_requeue_returns. rewrite R2. destruct (R s q); auto. rewrite U2.
    assert (Ef : forall l0, filter (covered 0) l0 = l0) by (induction l0 as [|a l0 IH0]; simpl; [|rewrite IH0]; reflexivity).
    rewrite Ef. f_equal. f_equal. f_equal.
    apply filter_ext. intros u. apply goes_to_ext. exact A2.
  - unfold U. rewrite Ech. destruct (R s q); simpl; reflexivity.
Qed.

(* ------------------------------------------------------------------ *)
(* publishing: the message is appended, once, to every matched queue and to no other *)
Lemma R_add_confirm s c h t q : R (add_confirm s c h t) q = R s q.
Proof. apply R_same_queues. apply queues_add_confirm. Qed.

Lemma dedup_acc_spec seen l : NoDup (dedup_acc seen l) /\ (forall x, In x (dedup_acc seen l) <-> In x l /\ ~ In x seen).
Proof.
  revert seen. induction l as [|a l IH]; intros seen; simpl.
  - split; [constructor|]. intros x. tauto.
  - destruct (existsb (seqb a) seen) eqn:E.
    + destruct (IH seen) as [A B]. split; auto. intros x. rewrite B.
      apply existsb_exists in E. destruct E as (y & Hy & Ey). apply seqb_spec in Ey. subst y.
      split; [tauto|]. intros [[->|Hx] Hn]; [contradiction|tauto].
    + destruct (IH (a :: seen)) as [A B]. split.
      * constructor; auto. intros Hin. apply B in Hin. simpl in Hin. tauto.
      * intros x. simpl. rewrite B. simpl.
        assert (Hna : ~ In a seen).
        { intros Hin. assert (existsb (seqb a) seen = true) by (apply existsb_exists; exists a; split; auto; apply seqb_refl). congruence. }
        split.
        -- intros [->|[Hx Hn]]; [tauto|]. split; [tauto|]. intros Hs. apply Hn. tauto.
        -- intros [[->|Hx] Hn]; [tauto|]. destruct (String.string_dec a x) as [->|Hne]; [tauto|]. right. split; auto. intros [E'|Hs]; auto.
Qed.

Lemma get_msg_same_heap s s' u : heap s' = heap s -> get_msg s' u = get_msg s u.
Proof. unfold get_msg. intros ->. reflexivity. Qed.

Lemma get_msg_upd_msg_some s u f u' : get_msg s u' <> None -> get_msg (upd_msg s u f) u' <> None.
Proof.
  intros H. unfold upd_msg. destruct (get_msg s u) as [m|] eqn:Em; auto.
  unfold get_msg in *. cbn. rewrite (alookup_aset N.eqb Neqb_spec). destruct (u' =? u); congruence.
Qed.

Lemma heap_set_chan s c h ch : heap (set_chan s c h ch) = heap s.
Proof. unfold set_chan. destruct (get_conn s c); reflexivity. Qed.

Lemma get_msg_queue_push s qn u u' : get_msg s u' <> None -> get_msg (queue_push s qn u) u' <> None.
Proof.
  intros H. unfold queue_push. destruct (get_queue s qn) as [qu|]; auto. destruct (get_msg s u) as [m|] eqn:Em; auto.
  destruct (negb (q_active qu)); auto.
  match goal with |- get_msg (set_queue ?st _ _) _ <> None => assert (Hs : get_msg st u' <> None) end.
  { destruct (q_durable qu && m_pers m); [exact H|]. destruct (m_conf m); [apply get_msg_upd_msg_some|]; exact H. }
  exact Hs.
Qed.

Lemma get_msg_add_confirm s c h t u : get_msg (add_confirm s c h t) u = get_msg s u.
Proof.
  unfold add_confirm. destruct (get_chan s c h) as [ch|]; auto. destruct (negb _); auto.
  destruct (ch_status ch); auto; destruct t as [[[? ?] ?]|]; auto; apply get_msg_same_heap; apply heap_set_chan.
Qed.

Definition push_target (s : state) (q : string) : bool :=
  match get_queue s q with Some qu => q_active qu | None => false end.

Lemma push_target_queue_push s qn u q : push_target (queue_push s qn u) q = push_target s q.
Proof.
  unfold push_target, queue_push. destruct (get_queue s qn) as [qu|] eqn:Eq; auto. destruct (get_msg s u) as [m|]; auto.
  destruct (negb (q_active qu)) eqn:Ea; auto. rewrite get_queue_set_queue. destruct (seqb q qn) eqn:E1.
  - apply seqb_spec in E1. subst. rewrite Eq. unfold call_consumers. cbn. destruct (q_active qu) eqn:Eb; cbn; rewrite ?Eb; reflexivity.
  - rewrite (get_queue_same_queues s); auto. destruct (q_durable qu && m_pers m); cbn; auto. destruct (m_conf m); cbn; auto. rewrite queues_upd_msg. reflexivity.
Qed.

Lemma fold_push_R c h u (g : state -> string -> msg -> bool) (tf : state -> msg -> option (N * N * N)) qs : NoDup qs -> forall s q, get_msg s u <> None ->
  R (fold_left (fun s qn =>
                  match get_msg (queue_push s qn u) u with
                  | Some m => if g s qn m
                              then add_confirm (queue_push s qn u) c h (tf (queue_push s qn u) m) else queue_push s qn u
                  | None => queue_push s qn u
                  end) qs s) q =
  match R s q with Some l => Some (if existsb (seqb q) qs && push_target s q then l ++ [u] else l) | None => None end.
Proof.
  induction qs as [|qn t IH]; intros Hnd s0 q M0; cbn [fold_left existsb].
  - destruct (R s0 q); reflexivity.
  - inversion Hnd as [|? ? Hni Hnd']; subst.
    set (s1 := match get_msg (queue_push s0 qn u) u with Some _ => _ | None => _ end).
    assert (R1 : R s1 q = R (queue_push s0 qn u) q).
    { subst s1. destruct (get_msg (queue_push s0 qn u) u); auto. match goal with |- context [if ?b then add_confirm _ _ _ _ else _] => destruct b end; auto. apply R_add_confirm. }
    assert (P1 : push_target s1 q = push_target s0 q).
    { subst s1. rewrite <- (push_target_queue_push s0 qn u q). destruct (get_msg (queue_push s0 qn u) u); auto. match goal with |- context [if ?b then add_confirm _ _ _ _ else _] => destruct b end; auto.
      unfold push_target. rewrite (get_queue_same_queues (queue_push s0 qn u)); auto. apply queues_add_confirm. }
    assert (M1 : get_msg s1 u <> None).
    { subst s1. pose proof (get_msg_queue_push s0 qn u u M0) as Hq.
      destruct (get_msg (queue_push s0 qn u) u) eqn:Eg; [|congruence]. match goal with |- context [if ?b then add_confirm _ _ _ _ else _] => destruct b end; [|congruence].
      rewrite get_msg_add_confirm. congruence. }
    clearbody s1. rewrite (IH Hnd' s1 q M1). rewrite R1, P1. rewrite (queue_push_appends s0 qn u q M0).
    destruct (R s0 q) as [l|]; auto. f_equal. fold (push_target s0 qn).
    destruct (seqb q qn) eqn:E1; cbn [orb andb].
    + apply seqb_spec in E1. subst qn.
      assert (Hex0 : existsb (seqb q) t = false).
      { apply Bool.not_true_is_false. intros Hx. apply existsb_exists in Hx. destruct Hx as (y & Hy & Ey). apply seqb_spec in Ey. subst. contradiction. }
      rewrite Hex0. cbn [andb]. destruct (push_target s0 q); reflexivity.
    + destruct (existsb (seqb q) t && push_target s0 q); reflexivity.
Qed.

Lemma matched_queues_nodup b ex key : NoDup (matched_queues b ex key).
Proof.
  unfold matched_queues. destruct (e_type ex); try apply dedup_acc_spec; try constructor.
  destruct b; [|apply dedup_acc_spec]. destruct (map b_queue _) as [|x t]; simpl; constructor; auto; constructor.
Qed.

(* the publish step: the message is appended once to every matched (existing, active) queue, to no other queue *)
Theorem route_places_once fx s c h u m ex q :
  get_msg s u = Some m -> alookup seqb (m_ex m) (exchanges s) = Some ex ->
  R (fst (route_and_push fx s c h u)) q =
  match R s q with
  | Some l => Some (if existsb (seqb q) (matched_queues (negb (fx_direct_all fx)) ex (m_key m)) && push_target s q then l ++ [u] else l)
  | None => None
  end.
Proof.
  intros Hm Hex. unfold route_and_push. rewrite Hm, Hex.
  pose proof (matched_queues_nodup (negb (fx_direct_all fx)) ex (m_key m)) as Hnd.
  destruct (matched_queues (negb (fx_direct_all fx)) ex (m_key m)) as [|q1 qs'] eqn:Eqs.
  - cbn [fst]. rewrite R_add_confirm. destruct (R s q); auto.
  - cbn [fst].
    match goal with |- context [fold_left _ _ ?st] => set (s0 := st) end.
    assert (R0 : R s0 q = R s q) by (subst s0; match goal with |- R (if ?b then _ else _) q = _ => destruct b end; auto; apply R_same_queues; apply queues_upd_msg).
    assert (P0 : push_target s0 q = push_target s q).
    { subst s0. match goal with |- push_target (if ?b then _ else _) q = _ => destruct b end; auto.
      unfold push_target. rewrite (get_queue_same_queues s); auto. apply queues_upd_msg. }
    assert (M0 : get_msg s0 u <> None).
    { subst s0. match goal with |- get_msg (if ?b then _ else _) u <> _ => destruct b end; [|congruence].
      apply get_msg_upd_msg_some. congruence. }
    clearbody s0. rewrite <- R0, <- P0.
    apply (fold_push_R c h u
             (fun s1 qn m0 => match m_conf m with Some _ => true | None => false end &&
                              match get_queue s1 qn with Some qu => q_active qu && negb (q_durable qu && m_pers m) | None => false end &&
                              (m_actual m0 =? m_expected m0)%Z)
             live_conf (q1 :: qs') Hnd s0 q M0).
Qed.

(* ------------------------------------------------------------------ *)
(* a consumer turn removes at most the head of one queue; it never inserts or reorders *)
Lemma R_store_windows cfg s c h tag ws q : R (store_windows cfg s c h tag ws) q = R s q.
Proof. apply R_same_queues. apply queues_store_windows. Qed.

Lemma R_upd_queue_at s q0 f qu q : get_queue s q0 = Some qu ->
  R (upd_queue s q0 f) q = if seqb q q0 then Some (q_ready (f qu)) else R s q.
Proof.
  intros E. unfold upd_queue. rewrite E. unfold R. rewrite get_queue_set_queue. destruct (seqb q q0); reflexivity.
Qed.

Theorem consumer_turn_pops_head cfg fx s c h tag q :
  let s' := fst (consumer_turn cfg fx s c h tag) in
  R s' q = R s q \/ exists u l, R s q = Some (u :: l) /\ R s' q = Some l.
Proof.
  cbv zeta. unfold consumer_turn.
  destruct (get_chan s c h) as [ch|] eqn:Ech; auto.
  destruct (find_consumer ch tag) as [cm|]; auto.
  destruct (negb (c_token cm)); auto.
  set (s0 := set_chan s c h _).
  assert (R0 : forall q', R s0 q' = R s q') by (intros; subst s0; apply R_same_queues; apply queues_set_chan).
  clearbody s0.
  destruct (c_status cm); auto; try (left; apply R0).
  all: destruct (get_queue s0 (c_queue cm)) as [qu|] eqn:Eq; [|left; apply R0].
  all: destruct (negb (q_active qu)); [left; apply R0|].
  all: destruct (q_ready qu) as [|u rest] eqn:Er; [left; apply R0|].
  all: match goal with |- context [if c_noack ?cm0 then (Some [], []) else ?r] => destruct (if c_noack cm0 then (Some [], []) else r) as [okr ws] end.
  all: set (s1 := if c_noack cm then s0 else store_windows cfg s0 c h tag ws).
  all: assert (R1 : forall q', R s1 q' = R s q') by (intros; subst s1; destruct (c_noack cm); [|rewrite R_store_windows]; apply R0).
  all: assert (E1 : get_queue s1 (c_queue cm) = Some qu)
         by (subst s1; destruct (c_noack cm); auto; rewrite (get_queue_same_queues s0); auto; apply queues_store_windows).
  all: clearbody s1.
  all: destruct okr; cbn [fst]; [|left; apply R1].
  all: match goal with |- context [wake_consumer ?st ?c0 ?h0 ?tag0] => destruct (wake_consumer st c0 h0 tag0) as [s9 b9] eqn:Ew;
         apply fst_pair in Ew; cbn [fst]; subst s9; rewrite R_wake end.
  all: match goal with |- R (@set ?a ?b ?cc ?dd ?ee ?st) ?qq = _ \/ _ => rewrite (R_same_queues st (@set a b cc dd ee st) qq eq_refl) end.
  all: set (s2 := upd_queue s1 (c_queue cm) _).
  all: assert (R2 : R s2 q = if seqb q (c_queue cm) then Some rest else R s q)
         by (subst s2; rewrite (R_upd_queue_at _ _ _ qu) by exact E1; rewrite q_ready_popped, R1; reflexivity).
  all: clearbody s2.
  all: match goal with |- R ?st ?qq = _ \/ _ => assert (RF : R st qq = R s2 qq) end.
  all: try (destruct (c_noack cm);
            repeat (first [ rewrite R_queue_ackmsg
                          | rewrite (R_upd_queue_keep _ _ _ q) by reflexivity
                          | match goal with |- context [R (upd_chan ?st ?cc ?hh ?f) ?qq] => rewrite (R_same_queues st (upd_chan st cc hh f) qq (queues_upd_chan st cc hh f)) end
                          | match goal with |- context [R (@set ?a ?b ?cc ?dd ?ee ?st) ?qq] => rewrite (R_same_queues st (@set a b cc dd ee st) qq eq_refl) end
                          | match goal with |- context [R (if ?b then _ else _) _] => destruct b end ]); reflexivity).
  all: rewrite RF, R2.
  all: destruct (seqb q (c_queue cm)) eqn:Es; [|left; reflexivity].
  all: apply seqb_spec in Es; subst q; right; exists u, rest; split; auto.
  all: rewrite <- R1; unfold R; rewrite E1, Er; reflexivity.
Qed.

Lemma U_orphan X c h tag c' h' :
  U (upd_chan X c h (fun ch => ch <| ch_unacked ::= map (orphan tag) |>)) c' h' =
  if (c' =? c) && (h' =? h) then map (orphan tag) (U X c h) else U X c' h'.
Proof. rewrite U_upd_chan. destruct (_ && _); auto. unfold U. destruct (get_chan X c h); reflexivity. Qed.

(* basic.cancel changes neither a ready list nor any channel's outstanding deliveries: the cancelled consumer's
   deliveries stay unsettled on the channel (they can still be acked, and go back when the channel ends); all that
   changes is that they no longer name the consumer tag (u_ctag), which may be used again *)
Theorem cancel_keeps_messages cfg fx s c h tag nowait :
  let s' := fst (fst (handle_method cfg fx s c h (MCancel tag nowait))) in
  (forall q, R s' q = R s q) /\
  (forall c' h', U s' c' h' = U s c' h' \/ U s' c' h' = map (orphan tag) (U s c' h')) /\
  (forall c' h', map u_tag (U s' c' h') = map u_tag (U s c' h') /\ map u_msg (U s' c' h') = map u_msg (U s c' h') /\
                 map u_qid (U s' c' h') = map u_qid (U s c' h') /\ map u_queue (U s' c' h') = map u_queue (U s c' h')).
Proof.
  cbv zeta. unfold handle_method. destruct (get_chan s c h) as [ch|]; [|repeat split; auto].
  destruct (find_consumer ch tag); unfold ok, refuse; cbn [fst]; [|repeat split; auto].
  assert (HU : forall c' h', U (upd_chan (upd_chan (consumer_stop s c h tag) c h
                 (fun ch => ch <| ch_consumers ::= filter (fun cm => negb (seqb (c_tag cm) tag)) |>)) c h
                 (fun ch => ch <| ch_unacked ::= map (orphan tag) |>)) c' h' = U s c' h' \/
               U (upd_chan (upd_chan (consumer_stop s c h tag) c h
                 (fun ch => ch <| ch_consumers ::= filter (fun cm => negb (seqb (c_tag cm) tag)) |>)) c h
                 (fun ch => ch <| ch_unacked ::= map (orphan tag) |>)) c' h' = map (orphan tag) (U s c' h')).
  { intros c' h'. rewrite U_orphan. destruct ((c' =? c) && (h' =? h)) eqn:E.
    - apply andb_true_iff in E. destruct E as [E1 E2]. apply N.eqb_eq in E1. apply N.eqb_eq in E2. subst c' h'.
      right. rewrite U_upd_chan_keep by reflexivity. rewrite U_consumer_stop. reflexivity.
    - left. rewrite U_upd_chan_keep by reflexivity. apply U_consumer_stop. }
  split; [|split].
  - intros q. rewrite (R_same_queues _ _ q (queues_upd_chan _ _ _ _)). rewrite (R_same_queues _ _ q (queues_upd_chan _ _ _ _)). apply R_consumer_stop.
  - exact HU.
  - intros c' h'. destruct (HU c' h') as [-> | ->]; [auto|].
    rewrite map_orphan_tag, map_orphan_msg, map_orphan_qid, map_orphan_queue. auto.
Qed.

(* ------------------------------------------------------------------ *)
(* returning a message to its queue raises its delivery count, which is what the redelivered flag reads *)
Theorem requeue_raises_delivery_count s qn u qu m :
  get_queue s qn = Some qu -> q_active qu = true -> get_msg s u = Some m ->
  exists m', get_msg (queue_requeue s qn u) u = Some m' /\ m_dc m' = N.succ (m_dc m) /\
             m_mid m' = m_mid m /\ m_hsize m' = m_hsize m /\ m_body m' = m_body m /\ m_ex m' = m_ex m /\ m_key m' = m_key m /\ m_pers m' = m_pers m.
Proof.
  intros Eq Ea Em. unfold queue_requeue. rewrite Eq, Ea. cbn [negb].
  match goal with |- exists m', get_msg ?st u = _ /\ _ =>
    rewrite (get_msg_same_heap (upd_msg (store_writeback s qn u (q_durable qu)) u (fun m => m <| m_dc ::= N.succ |>)) st u eq_refl) end.
  unfold upd_msg. rewrite get_msg_store_writeback, Em. unfold get_msg. cbn.
  destruct (store_writeback_frame s qn u (q_durable qu)) as (_ & _ & -> & _).
  rewrite (alookup_aset N.eqb Neqb_spec), N.eqb_refl. eexists. split; [reflexivity|]. cbn. repeat split.
Qed.

Theorem redelivered_flag_reads_count dc : redelivered_flag true dc = (0 <? dc).
Proof. reflexivity. Qed.
