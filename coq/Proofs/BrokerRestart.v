(* C09 / C02 / C04 at broker level: what a graceful restart keeps. *)
From Coq Require Import List String NArith ZArith Bool Lia Sorted Permutation.
From RecordUpdate Require Import RecordUpdate.
Import ListNotations.
From GMQ Require Import Broker.Model Proofs.BrokerFrames Proofs.BrokerReady.
Open Scope N_scope.

Lemma get_queue_map_rq (f : string * queue -> queue) l qn :
  alookup seqb qn (map (fun kv => (fst kv, f kv)) l) =
  match alookup seqb qn l with Some qu => Some (f (qn, qu)) | None => None end.
Proof.
  induction l as [|[k v] t IH]; cbn; auto. destruct (seqb qn k) eqn:E; auto.
  apply seqb_spec in E. subst. reflexivity.
Qed.

Lemma alookup_filter_snd {V} (p : V -> bool) l qn :
  NoDup (map fst l) ->
  alookup seqb qn (filter (fun kv : string * V => p (snd kv)) l) =
  match alookup seqb qn l with Some v => if p v then Some v else None | None => None end.
Proof.
  induction l as [|[k v] t IH]; intros Hnd; cbn; auto. inversion Hnd as [|? ? Hni Hnd']; subst.
  destruct (seqb qn k) eqn:E.
  - apply seqb_spec in E. subst. destruct (p v) eqn:Ep; cbn.
    + rewrite (proj2 (seqb_spec k k) eq_refl). reflexivity.
    + rewrite (IH Hnd'). destruct (alookup seqb k t) as [v'|] eqn:El; auto.
      exfalso. apply Hni. apply (alookup_in seqb seqb_spec) in El. apply (in_map fst) in El. exact El.
  - destruct (p v); cbn; rewrite ?E; apply (IH Hnd').
Qed.

(* a queue survives a restart iff it is durable; it comes back with its name, durability and auto-delete flag, holding
   exactly its stored messages in message-id order, owned by nobody, with no consumers *)
Theorem restart_queues cfg s qn :
  NoDup (map fst (queues s)) ->
  get_queue (fst (restart cfg s)) qn =
  match get_queue s qn with
  | Some qu => if q_durable qu
               then Some (new_queue (q_id qu) 0 true false (q_autodel qu)
                            <| q_ready := stored_of s qn |> <| q_len := Z.of_nat (List.length (stored_of s qn)) |>
                            <| q_mready := Z.of_nat (List.length (stored_of s qn)) |> <| q_mtotal := Z.of_nat (List.length (stored_of s qn)) |>)
               else None
  | None => None
  end.
Proof.
  intros Hnd. unfold restart, get_queue. cbn [fst queues].
  rewrite (get_queue_map_rq (fun kv => new_queue (q_id (snd kv)) 0 true false (q_autodel (snd kv))
             <| q_ready := stored_of s (fst kv) |> <| q_len := Z.of_nat (List.length (stored_of s (fst kv))) |>
             <| q_mready := Z.of_nat (List.length (stored_of s (fst kv))) |> <| q_mtotal := Z.of_nat (List.length (stored_of s (fst kv))) |>)).
  rewrite (alookup_filter_snd q_durable _ _ Hnd). destruct (alookup seqb qn (queues s)) as [qu|]; auto.
  destruct (q_durable qu); reflexivity.
Qed.

(* no connection, no consumer, no unsettled delivery and nothing pending in the store survives *)
Theorem restart_forgets_sessions cfg s :
  conns (fst (restart cfg s)) = [] /\ st_add (fst (restart cfg s)) = [] /\ st_del (fst (restart cfg s)) = [] /\
  relay (fst (restart cfg s)) = [] /\ autodel (fst (restart cfg s)) = [] /\ srv_unacked (fst (restart cfg s)) = 0%Z /\
  (forall qn qu, In (qn, qu) (queues (fst (restart cfg s))) -> q_consumers qu = [] /\ q_excl qu = false /\ q_durable qu = true /\ q_active qu = true).
Proof.
  unfold restart. cbn. repeat split; auto; apply in_map_iff in H; destruct H as ([k v] & E & _); inversion E; subst; reflexivity.
Qed.

(* an exchange survives iff it is a system exchange or durable, with its type and flags; of its bindings exactly those
   to surviving (durable) queues come back *)
Theorem restart_exchanges cfg s en e' :
  In (en, e') (exchanges (fst (restart cfg s))) <->
  exists e, In (en, e) (exchanges s) /\ (e_system e || e_durable e = true) /\
            e' = (if e_system e then e else e <| e_autodel := false |> <| e_internal := false |>)
                   <| e_bindings ::= filter (fun b => existsb (fun kv => seqb (fst kv) (b_queue b)) (filter (fun kv => q_durable (snd kv)) (queues s))) |>.
Proof.
  unfold restart. cbn [fst exchanges]. rewrite in_map_iff. split.
  - intros ([k e] & E & Hin). apply filter_In in Hin. destruct Hin as [Hin Hp]. cbn in *. inversion E; subst. exists e. auto.
  - intros (e & Hin & Hp & ->). exists (en, e). split; auto. apply filter_In. auto.
Qed.

(* the messages of a surviving queue: exactly the stored keys of that queue, each once, in ascending id order *)
Definition ins_desc (x : N) : list N -> list N :=
  fix ins l := match l with [] => [x] | y :: t => if y <? x then x :: l else y :: ins t end.

Lemma sort_desc_N_cons a t : sort_desc_N (a :: t) = ins_desc a (sort_desc_N t).
Proof. reflexivity. Qed.

Lemma ins_desc_perm x l : Permutation (ins_desc x l) (x :: l).
Proof.
  induction l as [|y t IH]; cbn; auto. destruct (y <? x); auto.
  eapply perm_trans; [apply perm_skip; exact IH|apply perm_swap].
Qed.

Lemma sort_desc_N_perm l : Permutation (sort_desc_N l) l.
Proof.
  induction l as [|a t IH]; [constructor|]. rewrite sort_desc_N_cons.
  eapply perm_trans; [apply ins_desc_perm|apply perm_skip; exact IH].
Qed.

Definition desc (l : list N) : Prop := StronglySorted (fun a b => b <= a) l.

Lemma ins_desc_sorted x l : desc l -> desc (ins_desc x l).
Proof.
  unfold desc. induction l as [|y t IH]; intros H; cbn.
  - constructor; constructor.
  - inversion H as [|? ? Ht Hall]; subst. destruct (y <? x) eqn:E.
    + apply N.ltb_lt in E. constructor; [exact H|]. constructor; [lia|].
      eapply Forall_impl; [|exact Hall]. intros z Hz. cbn in Hz. lia.
    + apply N.ltb_ge in E. constructor; [apply IH; exact Ht|].
      eapply Permutation_Forall; [apply Permutation_sym; apply ins_desc_perm|]. constructor; auto.
Qed.

Lemma sort_desc_N_sorted l : desc (sort_desc_N l).
Proof. induction l as [|a t IH]; [constructor|]. rewrite sort_desc_N_cons. apply ins_desc_sorted. exact IH. Qed.

Lemma desc_rev_asc l : desc l -> StronglySorted N.le (rev l).
Proof.
  unfold desc. induction l as [|a t IH]; intros H; cbn; [constructor|].
  inversion H as [|? ? Ht Hall]; subst.
  assert (Hgen : forall l1 x, StronglySorted N.le l1 -> Forall (fun z => z <= x) l1 -> StronglySorted N.le (l1 ++ [x])).
  { induction l1 as [|b r IHr]; intros x Hs Hf; cbn; [constructor; constructor|].
    inversion Hs; subst. inversion Hf; subst. constructor; [apply IHr; auto|].
    apply Forall_app. split; auto. }
  apply Hgen; [apply IH; exact Ht|]. apply Forall_rev. exact Hall.
Qed.

Theorem restart_messages s qn :
  Permutation (stored_of s qn) (map fst (filter (fun k => seqb (snd k) qn) (st_db s))) /\ StronglySorted N.le (stored_of s qn).
Proof.
  unfold stored_of, sort_asc_N. split.
  - eapply perm_trans; [apply Permutation_sym; apply Permutation_rev|apply sort_desc_N_perm].
  - apply desc_rev_asc. apply sort_desc_N_sorted.
Qed.
