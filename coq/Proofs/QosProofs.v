(* Proofs about the prefetch window (C06 core): the functions translated from
   qos.go are the hand model's, and the hand model has the window properties. *)
From Coq Require Import String List NArith Bool Lia ZifyN ZifyBool.
Import ListNotations.
From GMQ Require Import Data.gen.QosGen Data.Qos.
Open Scope N_scope.

(* ---- the generated functions are the hand model's ------------------------------
   [reflexivity] suffices while the translation is syntactically the hand model;
   the fallback proves the same equation pointwise by case analysis on every test,
   so a semantics-preserving rewrite of qos.go does not break the pin. *)
Ltac qos_unfold :=
  unfold QosGen.qos_new, QosGen.qos_update, QosGen.qos_is_active, QosGen.qos_inc, QosGen.qos_dec,
         QosGen.qos_release, QosGen.qos_copy,
         Qos.qos_new, Qos.qos_update, Qos.qos_is_active, Qos.qos_inc, Qos.qos_dec,
         Qos.qos_release, Qos.qos_copy,
         set_prefetchCount, set_currentCount, set_prefetchSize, set_currentSize;
  cbn [prefetchCount currentCount prefetchSize currentSize].

Ltac split_tests :=
  repeat match goal with
         | |- context [N.eqb ?a ?b] => destruct (N.eqb_spec a b)
         | |- context [N.leb ?a ?b] => destruct (N.leb_spec a b)
         | |- context [N.ltb ?a ?b] => destruct (N.ltb_spec a b)
         end;
  cbn [negb orb andb fst snd].

Ltac qos_pin :=
  first [ reflexivity
        | intros; repeat match goal with q : qos |- _ => destruct q end; qos_unfold; split_tests;
          first [ reflexivity | exfalso; lia | repeat f_equal; lia ] ].

Lemma gen_struct_eq :
  qos_struct_gen = [("prefetchCount", 16); ("currentCount", 16); ("prefetchSize", 32); ("currentSize", 32)]%string.
Proof. reflexivity. Qed.

Lemma gen_new_eq : forall pc ps, QosGen.qos_new pc ps = Qos.qos_new pc ps.
Proof. qos_pin. Qed.
Lemma gen_update_eq : forall q pc ps, QosGen.qos_update q pc ps = Qos.qos_update q pc ps.
Proof. qos_pin. Qed.
Lemma gen_is_active_eq : forall q, QosGen.qos_is_active q = Qos.qos_is_active q.
Proof. qos_pin. Qed.
Lemma gen_inc_eq : forall q c s, QosGen.qos_inc q c s = Qos.qos_inc q c s.
Proof. qos_pin. Qed.
Lemma gen_dec_eq : forall q c s, QosGen.qos_dec q c s = Qos.qos_dec q c s.
Proof. qos_pin. Qed.
Lemma gen_release_eq : forall q, QosGen.qos_release q = Qos.qos_release q.
Proof. qos_pin. Qed.
Lemma gen_copy_eq : forall q, QosGen.qos_copy q = Qos.qos_copy q.
Proof. qos_pin. Qed.

(* ---- one window ------------------------------------------------------------------ *)

Lemma mod_small_16 : forall a, a < 65536 -> a mod 65536 = a.
Proof. intros; apply N.mod_small; assumption. Qed.
Lemma mod_small_32 : forall a, a < 4294967296 -> a mod 4294967296 = a.
Proof. intros; apply N.mod_small; assumption. Qed.

Lemma no_wrap_iff : forall q c s,
  qos_no_wrap q c s = true <-> currentCount q + c < 65536 /\ currentSize q + s < 4294967296.
Proof. intros; unfold qos_no_wrap; rewrite andb_true_iff, !N.ltb_lt; tauto. Qed.

Lemma inc_admission_h : forall q c s,
  qos_no_wrap q c s = true -> fst (Qos.qos_inc q c s) = qos_admits q c s.
Proof.
  intros q c s H. apply no_wrap_iff in H. destruct H as [Hc Hs].
  unfold Qos.qos_inc, qos_admits. cbv zeta.
  rewrite (mod_small_16 _ Hc), (mod_small_32 _ Hs).
  destruct (((prefetchCount q =? 0) || (currentCount q + c <=? prefetchCount q)) &&
            ((prefetchSize q =? 0) || (currentSize q + s <=? prefetchSize q))); reflexivity.
Qed.

Lemma inc_charges_h : forall q c s,
  qos_no_wrap q c s = true -> fst (Qos.qos_inc q c s) = true ->
  snd (Qos.qos_inc q c s) = qos_charged q c s.
Proof.
  intros q c s H. apply no_wrap_iff in H. destruct H as [Hc Hs].
  unfold Qos.qos_inc, qos_charged. cbv zeta.
  rewrite (mod_small_16 _ Hc), (mod_small_32 _ Hs).
  destruct (((prefetchCount q =? 0) || (currentCount q + c <=? prefetchCount q)) &&
            ((prefetchSize q =? 0) || (currentSize q + s <=? prefetchSize q))); cbn [fst snd].
  - intros _. unfold set_currentSize, set_currentCount. cbn [prefetchCount currentCount prefetchSize currentSize]. reflexivity.
  - discriminate.
Qed.

Lemma inc_refusal_unchanged_h : forall q c s,
  fst (Qos.qos_inc q c s) = false -> snd (Qos.qos_inc q c s) = q.
Proof.
  intros q c s. unfold Qos.qos_inc. cbv zeta.
  match goal with |- context [if ?b then _ else _] => destruct b end; cbn [fst snd]; [discriminate | reflexivity].
Qed.

Lemma inc_limits_kept_h : forall q c s,
  prefetchCount (snd (Qos.qos_inc q c s)) = prefetchCount q /\ prefetchSize (snd (Qos.qos_inc q c s)) = prefetchSize q.
Proof.
  intros q c s. unfold Qos.qos_inc. cbv zeta.
  match goal with |- context [if ?b then _ else _] => destruct b end; cbn; auto.
Qed.

Lemma inc_wf_h : forall q c s, qos_wf q -> qos_wf (snd (Qos.qos_inc q c s)).
Proof.
  intros q c s (H1 & H2 & H3 & H4). unfold Qos.qos_inc. cbv zeta.
  match goal with |- context [if ?b then _ else _] => destruct b end; cbn [fst snd].
  - unfold qos_wf, set_currentSize, set_currentCount. cbn [prefetchCount currentCount prefetchSize currentSize].
    repeat split; try assumption; apply N.mod_lt; discriminate.
  - repeat split; assumption.
Qed.

Lemma dec_exact_h : forall q c s,
  qos_wf q -> c <= currentCount q -> s <= currentSize q ->
  Qos.qos_dec q c s = qos_released q c s.
Proof.
  intros [pc cc ps cs] c s (H1 & H2 & H3 & H4) Hc Hs. cbn [prefetchCount currentCount prefetchSize currentSize] in *.
  unfold Qos.qos_dec, qos_released, set_currentCount, set_currentSize.
  cbn [prefetchCount currentCount prefetchSize currentSize].
  destruct (N.ltb_spec cc c); [lia|]. cbn [prefetchCount currentCount prefetchSize currentSize].
  destruct (N.ltb_spec cs s); [lia|]. cbn [prefetchCount currentCount prefetchSize currentSize].
  f_equal.
  - replace (cc + 65536 - c) with (cc - c + 1 * 65536) by lia.
    rewrite N.mod_add by discriminate. apply N.mod_small. lia.
  - replace (cs + 4294967296 - s) with (cs - s + 1 * 4294967296) by lia.
    rewrite N.mod_add by discriminate. apply N.mod_small. lia.
Qed.

Lemma dec_saturates_h : forall q c s,
  (currentCount q < c -> currentCount (Qos.qos_dec q c s) = 0) /\
  (currentSize q < s -> currentSize (Qos.qos_dec q c s) = 0) /\
  prefetchCount (Qos.qos_dec q c s) = prefetchCount q /\ prefetchSize (Qos.qos_dec q c s) = prefetchSize q.
Proof.
  intros [pc cc ps cs] c s. unfold Qos.qos_dec, set_currentCount, set_currentSize.
  cbn [prefetchCount currentCount prefetchSize currentSize].
  destruct (N.ltb_spec cc c); cbn [prefetchCount currentCount prefetchSize currentSize];
    destruct (N.ltb_spec cs s); cbn [prefetchCount currentCount prefetchSize currentSize];
    repeat split; intros; try reflexivity; lia.
Qed.

Lemma dec_wf_h : forall q c s, qos_wf q -> qos_wf (Qos.qos_dec q c s).
Proof.
  intros [pc cc ps cs] c s (H1 & H2 & H3 & H4). cbn [prefetchCount currentCount prefetchSize currentSize] in *.
  unfold Qos.qos_dec, set_currentCount, set_currentSize, qos_wf.
  cbn [prefetchCount currentCount prefetchSize currentSize].
  destruct (N.ltb_spec cc c); cbn [prefetchCount currentCount prefetchSize currentSize];
    destruct (N.ltb_spec cs s); cbn [prefetchCount currentCount prefetchSize currentSize];
    repeat split; try assumption; try reflexivity; apply N.mod_lt; discriminate.
Qed.

Lemma charged_released : forall q c s, qos_released (qos_charged q c s) c s = q.
Proof.
  intros [pc cc ps cs] c s. unfold qos_released, qos_charged. cbn [prefetchCount currentCount prefetchSize currentSize].
  f_equal; lia.
Qed.

Lemma dec_inc_cancel_h : forall q c s,
  qos_wf q -> qos_no_wrap q c s = true -> fst (Qos.qos_inc q c s) = true ->
  Qos.qos_dec (snd (Qos.qos_inc q c s)) c s = q.
Proof.
  intros q c s Hwf Hnw Hok.
  rewrite (inc_charges_h _ _ _ Hnw Hok).
  apply no_wrap_iff in Hnw. destruct Hnw as [Hc Hs]. destruct Hwf as (H1 & H2 & H3 & H4).
  rewrite dec_exact_h.
  - apply charged_released.
  - unfold qos_wf, qos_charged. cbn [prefetchCount currentCount prefetchSize currentSize]. repeat split; assumption.
  - unfold qos_charged. cbn [currentCount]. lia.
  - unfold qos_charged. cbn [currentSize]. lia.
Qed.

Lemma update_keeps_current_h : forall q pc ps,
  currentCount (Qos.qos_update q pc ps) = currentCount q /\ currentSize (Qos.qos_update q pc ps) = currentSize q /\
  prefetchCount (Qos.qos_update q pc ps) = pc /\ prefetchSize (Qos.qos_update q pc ps) = ps.
Proof. intros [pc0 cc ps0 cs] pc ps. cbn. auto. Qed.

Lemma release_spec_h : forall q,
  Qos.qos_release q = mkQos (prefetchCount q) 0 (prefetchSize q) 0.
Proof. intros [pc cc ps cs]. reflexivity. Qed.

Lemma copy_spec_h : forall q, Qos.qos_copy q = q.
Proof. intros [pc cc ps cs]. reflexivity. Qed.

Lemma new_spec_h : forall pc ps, Qos.qos_new pc ps = mkQos pc 0 ps 0.
Proof. reflexivity. Qed.

(* F32: without the no-wrap hypothesis the admission test can be passed by a charge that
   exceeds the limit: the size window (uint32) and the count window (uint16) wrap. *)
Lemma inc_admission_without_nowrap_refuted_h :
  exists q c s, qos_wf q /\ c < 65536 /\ s < 4294967296 /\
                fst (Qos.qos_inc q c s) = true /\ qos_admits q c s = false.
Proof.
  exists (mkQos 0 0 10 10), 1, 4294967295. unfold qos_wf. cbn [prefetchCount currentCount prefetchSize currentSize].
  repeat split; try reflexivity.
Qed.

Lemma inc_count_wrap_refuted_h :
  exists q, qos_wf q /\ fst (Qos.qos_inc q 1 0) = true /\ qos_admits q 1 0 = false.
Proof.
  exists (mkQos 65535 65535 0 0). unfold qos_wf. cbn [prefetchCount currentCount prefetchSize currentSize].
  repeat split; try reflexivity.
Qed.

(* ---- the ledger ---------------------------------------------------------------------- *)

Notation hstep := (led_step Qos.qos_inc Qos.qos_dec Qos.qos_update).
Notation hrun := (led_run Qos.qos_inc Qos.qos_dec Qos.qos_update).
Notation hnowrap := (led_nowrap Qos.qos_inc Qos.qos_dec Qos.qos_update).

Lemma sumN_app : forall l1 l2, sumN (l1 ++ l2) = sumN l1 + sumN l2.
Proof. induction l1; intros; cbn [app sumN fold_right]; [reflexivity|]. fold (sumN (l1 ++ l2)). fold (sumN l1). rewrite IHl1. lia. Qed.

Lemma nth_error_sum_le : forall l k s, nth_error l k = Some s -> s <= sumN l.
Proof.
  induction l; intros [|k] s H; cbn in H; try discriminate.
  - inversion H; subst. cbn [sumN fold_right]. lia.
  - cbn [sumN fold_right]. fold (sumN l). specialize (IHl _ _ H). lia.
Qed.

Lemma remove_nth_length : forall (l : list N) k s, nth_error l k = Some s -> S (length (remove_nth k l)) = length l.
Proof.
  induction l; intros [|k] s H; cbn in H; try discriminate; cbn [remove_nth length].
  - reflexivity.
  - f_equal. eapply IHl; eauto.
Qed.

Lemma remove_nth_sum : forall l k s, nth_error l k = Some s -> sumN (remove_nth k l) + s = sumN l.
Proof.
  induction l; intros [|k] s H; cbn in H; try discriminate; cbn [remove_nth sumN fold_right].
  - inversion H; subst. fold (sumN l). lia.
  - fold (sumN (remove_nth k l)). fold (sumN l). specialize (IHl _ _ H). lia.
Qed.

Definition led_inv (st : led_state) : Prop :=
  qos_wf (fst st) /\ currentCount (fst st) = N.of_nat (length (snd st)) /\ currentSize (fst st) = sumN (snd st).

Definition op_nowrap (st : led_state) (o : led_op) : bool :=
  match o with
  | LDeliver s => (N.of_nat (length (snd st)) + 1 <? 65536) && (sumN (snd st) + s <? 4294967296)
  | LSettle _ => true
  | LUpdate pc ps => (pc <? 65536) && (ps <? 4294967296)
  end.

Lemma led_step_inv : forall st o, led_inv st -> op_nowrap st o = true -> led_inv (hstep st o).
Proof.
  intros [q led] o (Hwf & Hc & Hs) Hnw. cbn [fst snd] in *.
  destruct o as [s | k | pc ps]; cbn [led_step fst snd op_nowrap] in *.
  - apply andb_true_iff in Hnw. destruct Hnw as [Hn1 Hn2]. apply N.ltb_lt in Hn1, Hn2.
    assert (Hq : qos_no_wrap q 1 s = true).
    { apply no_wrap_iff. rewrite Hc, Hs. split; assumption. }
    pose proof (inc_charges_h q 1 s Hq) as Hch. pose proof (inc_refusal_unchanged_h q 1 s) as Hre.
    pose proof (inc_wf_h q 1 s Hwf) as Hw'.
    destruct (Qos.qos_inc q 1 s) as [ok q']. cbn [fst snd] in *. destruct ok.
    + specialize (Hch eq_refl). subst q'. unfold led_inv. cbn [fst snd]. split; [assumption|].
      unfold qos_charged. cbn [currentCount currentSize]. rewrite app_length, sumN_app. cbn [length sumN fold_right].
      rewrite Hc, Hs. split; lia.
    + specialize (Hre eq_refl). subst q'. unfold led_inv. cbn [fst snd]. auto.
  - destruct (nth_error led k) as [s|] eqn:E.
    + unfold led_inv. cbn [fst snd].
      pose proof (nth_error_sum_le _ _ _ E) as Hle. pose proof (remove_nth_length _ _ _ E) as Hlen.
      pose proof (remove_nth_sum _ _ _ E) as Hsum.
      rewrite dec_exact_h; [| assumption | lia | lia].
      split.
      * destruct Hwf as (H1 & H2 & H3 & H4). unfold qos_wf, qos_released. cbn [prefetchCount currentCount prefetchSize currentSize].
        repeat split; try assumption; lia.
      * unfold qos_released. cbn [currentCount currentSize]. split; lia.
    + unfold led_inv. cbn [fst snd]. auto.
  - apply andb_true_iff in Hnw. destruct Hnw as [Hn1 Hn2]. apply N.ltb_lt in Hn1, Hn2.
    unfold led_inv. cbn [fst snd]. destruct (update_keeps_current_h q pc ps) as (U1 & U2 & U3 & U4).
    destruct Hwf as (H1 & H2 & H3 & H4).
    split; [| rewrite U1, U2; auto].
    unfold qos_wf. rewrite U1, U2, U3, U4. repeat split; assumption.
Qed.

Lemma hnowrap_cons : forall st o t, hnowrap st (o :: t) = op_nowrap st o && hnowrap (hstep st o) t.
Proof. intros st [s|k|pc ps] t; reflexivity. Qed.

Lemma hnowrap_app : forall ops1 ops2 st, hnowrap st (ops1 ++ ops2) = true -> hnowrap st ops1 = true.
Proof.
  induction ops1; intros ops2 st H; [reflexivity|].
  rewrite <- app_comm_cons in H. rewrite hnowrap_cons in *. apply andb_true_iff in H. destruct H as [H1 H2].
  rewrite H1. cbn [andb]. eapply IHops1; eauto.
Qed.

Lemma led_run_inv : forall ops st, led_inv st -> hnowrap st ops = true -> led_inv (hrun st ops).
Proof.
  induction ops; intros st Hi Hn; [exact Hi|].
  rewrite hnowrap_cons in Hn. apply andb_true_iff in Hn. destruct Hn as [H1 H2].
  cbn [led_run fold_left]. apply IHops; [apply led_step_inv; assumption | assumption].
Qed.

Lemma led_init_inv : forall pc ps, pc < 65536 -> ps < 4294967296 -> led_inv (Qos.qos_new pc ps, []).
Proof. intros. unfold led_inv, qos_wf. cbn. repeat split; try assumption; reflexivity. Qed.

(* at every instant (after every prefix ops1 of a run) the window equals the ledger *)
Lemma ledger_exact_h : forall pc ps ops1 ops2,
  pc < 65536 -> ps < 4294967296 ->
  hnowrap (Qos.qos_new pc ps, []) (ops1 ++ ops2) = true ->
  let st := hrun (Qos.qos_new pc ps, []) ops1 in
  currentCount (fst st) = N.of_nat (length (snd st)) /\ currentSize (fst st) = sumN (snd st).
Proof.
  intros pc ps ops1 ops2 Hpc Hps Hn. apply hnowrap_app in Hn.
  pose proof (led_run_inv ops1 _ (led_init_inv pc ps Hpc Hps) Hn) as (_ & H1 & H2). auto.
Qed.

(* bound: count *)
Definition limit_ok_c (n : N) (o : led_op) : bool :=
  match o with LUpdate pc _ => (0 <? pc) && (pc <=? n) | _ => true end.
Definition limit_ok_s (n : N) (o : led_op) : bool :=
  match o with LUpdate _ ps => (0 <? ps) && (ps <=? n) | _ => true end.

Lemma led_step_bound_c : forall n st o,
  led_inv st -> op_nowrap st o = true -> limit_ok_c n o = true ->
  0 < prefetchCount (fst st) <= n -> currentCount (fst st) <= n ->
  0 < prefetchCount (fst (hstep st o)) <= n /\ currentCount (fst (hstep st o)) <= n.
Proof.
  intros n [q led] o (Hwf & Hc & Hs) Hnw Hl Hp Hb. cbn [fst snd] in *.
  destruct o as [s | k | pc ps]; cbn [led_step fst snd op_nowrap limit_ok_c] in *.
  - apply andb_true_iff in Hnw. destruct Hnw as [Hn1 Hn2]. apply N.ltb_lt in Hn1, Hn2.
    assert (Hq : qos_no_wrap q 1 s = true).
    { apply no_wrap_iff. rewrite Hc, Hs. split; assumption. }
    pose proof (inc_charges_h q 1 s Hq) as Hch. pose proof (inc_refusal_unchanged_h q 1 s) as Hre.
    pose proof (inc_admission_h q 1 s Hq) as Had.
    destruct (Qos.qos_inc q 1 s) as [ok q']. cbn [fst snd] in *. destruct ok.
    + specialize (Hch eq_refl). subst q'. cbn [fst snd]. unfold qos_charged. cbn [prefetchCount currentCount].
      split; [assumption|].
      symmetry in Had. unfold qos_admits in Had. apply andb_true_iff in Had. destruct Had as [Ha _].
      apply orb_true_iff in Ha. destruct Ha as [Ha | Ha]; [apply N.eqb_eq in Ha; lia | apply N.leb_le in Ha; lia].
    + specialize (Hre eq_refl). subst q'. cbn [fst snd]. auto.
  - destruct (nth_error led k) as [s|] eqn:E; cbn [fst snd]; [| auto].
    destruct (dec_saturates_h q 1 s) as (_ & _ & D3 & _). rewrite D3. split; [assumption|].
    pose proof (nth_error_sum_le _ _ _ E) as Hle. pose proof (remove_nth_length _ _ _ E) as Hlen.
    rewrite dec_exact_h; [| assumption | lia | lia]. unfold qos_released. cbn [currentCount]. lia.
  - destruct (update_keeps_current_h q pc ps) as (U1 & U2 & U3 & U4). rewrite U1, U3.
    apply andb_true_iff in Hl. destruct Hl as [L1 L2]. apply N.ltb_lt in L1. apply N.leb_le in L2. lia.
Qed.

Lemma led_step_bound_s : forall n st o,
  led_inv st -> op_nowrap st o = true -> limit_ok_s n o = true ->
  0 < prefetchSize (fst st) <= n -> currentSize (fst st) <= n ->
  0 < prefetchSize (fst (hstep st o)) <= n /\ currentSize (fst (hstep st o)) <= n.
Proof.
  intros n [q led] o (Hwf & Hc & Hs) Hnw Hl Hp Hb. cbn [fst snd] in *.
  destruct o as [s | k | pc ps]; cbn [led_step fst snd op_nowrap limit_ok_s] in *.
  - apply andb_true_iff in Hnw. destruct Hnw as [Hn1 Hn2]. apply N.ltb_lt in Hn1, Hn2.
    assert (Hq : qos_no_wrap q 1 s = true).
    { apply no_wrap_iff. rewrite Hc, Hs. split; assumption. }
    pose proof (inc_charges_h q 1 s Hq) as Hch. pose proof (inc_refusal_unchanged_h q 1 s) as Hre.
    pose proof (inc_admission_h q 1 s Hq) as Had.
    destruct (Qos.qos_inc q 1 s) as [ok q']. cbn [fst snd] in *. destruct ok.
    + specialize (Hch eq_refl). subst q'. cbn [fst snd]. unfold qos_charged. cbn [prefetchSize currentSize].
      split; [assumption|].
      symmetry in Had. unfold qos_admits in Had. apply andb_true_iff in Had. destruct Had as [_ Ha].
      apply orb_true_iff in Ha. destruct Ha as [Ha | Ha]; [apply N.eqb_eq in Ha; lia | apply N.leb_le in Ha; lia].
    + specialize (Hre eq_refl). subst q'. cbn [fst snd]. auto.
  - destruct (nth_error led k) as [s|] eqn:E; cbn [fst snd]; [| auto].
    destruct (dec_saturates_h q 1 s) as (_ & _ & _ & D4). rewrite D4. split; [assumption|].
    pose proof (nth_error_sum_le _ _ _ E) as Hle. pose proof (remove_nth_length _ _ _ E) as Hlen.
    rewrite dec_exact_h; [| assumption | lia | lia]. unfold qos_released. cbn [currentSize]. lia.
  - destruct (update_keeps_current_h q pc ps) as (U1 & U2 & U3 & U4). rewrite U2, U4.
    apply andb_true_iff in Hl. destruct Hl as [L1 L2]. apply N.ltb_lt in L1. apply N.leb_le in L2. lia.
Qed.

Lemma led_run_bound_c : forall n ops st,
  led_inv st -> hnowrap st ops = true -> forallb (limit_ok_c n) ops = true ->
  0 < prefetchCount (fst st) <= n -> currentCount (fst st) <= n ->
  currentCount (fst (hrun st ops)) <= n.
Proof.
  induction ops; intros st Hi Hn Hl Hp Hb; [exact Hb|].
  rewrite hnowrap_cons in Hn. apply andb_true_iff in Hn. destruct Hn as [N1 N2].
  cbn [forallb] in Hl. apply andb_true_iff in Hl. destruct Hl as [L1 L2].
  destruct (led_step_bound_c n st a Hi N1 L1 Hp Hb) as [B1 B2].
  cbn [led_run fold_left]. apply IHops; auto using led_step_inv.
Qed.

Lemma led_run_bound_s : forall n ops st,
  led_inv st -> hnowrap st ops = true -> forallb (limit_ok_s n) ops = true ->
  0 < prefetchSize (fst st) <= n -> currentSize (fst st) <= n ->
  currentSize (fst (hrun st ops)) <= n.
Proof.
  induction ops; intros st Hi Hn Hl Hp Hb; [exact Hb|].
  rewrite hnowrap_cons in Hn. apply andb_true_iff in Hn. destruct Hn as [N1 N2].
  cbn [forallb] in Hl. apply andb_true_iff in Hl. destruct Hl as [L1 L2].
  destruct (led_step_bound_s n st a Hi N1 L1 Hp Hb) as [B1 B2].
  cbn [led_run fold_left]. apply IHops; auto using led_step_inv.
Qed.

Lemma forallb_app_l : forall {A} (f : A -> bool) l1 l2, forallb f (l1 ++ l2) = true -> forallb f l1 = true.
Proof. intros A f l1 l2 H. rewrite forallb_app in H. apply andb_true_iff in H. tauto. Qed.

(* while count limits in 1..n are in force, the outstanding deliveries never exceed n *)
Lemma ledger_count_bound_h : forall n pc ps ops1 ops2,
  pc < 65536 -> ps < 4294967296 ->
  hnowrap (Qos.qos_new pc ps, []) (ops1 ++ ops2) = true ->
  count_limits_within n pc (ops1 ++ ops2) = true ->
  N.of_nat (length (snd (hrun (Qos.qos_new pc ps, []) ops1))) <= n.
Proof.
  intros n pc ps ops1 ops2 Hpc Hps Hn Hl. apply hnowrap_app in Hn.
  unfold count_limits_within in Hl. apply andb_true_iff in Hl. destruct Hl as [Hl0 Hl].
  apply andb_true_iff in Hl0. destruct Hl0 as [L1 L2]. apply N.ltb_lt in L1. apply N.leb_le in L2.
  apply forallb_app_l in Hl.
  pose proof (led_init_inv pc ps Hpc Hps) as Hi.
  pose proof (led_run_inv ops1 _ Hi Hn) as (_ & H1 & _). rewrite <- H1.
  apply led_run_bound_c; auto; cbn; lia.
Qed.

Lemma ledger_size_bound_h : forall n pc ps ops1 ops2,
  pc < 65536 -> ps < 4294967296 ->
  hnowrap (Qos.qos_new pc ps, []) (ops1 ++ ops2) = true ->
  size_limits_within n ps (ops1 ++ ops2) = true ->
  sumN (snd (hrun (Qos.qos_new pc ps, []) ops1)) <= n.
Proof.
  intros n pc ps ops1 ops2 Hpc Hps Hn Hl. apply hnowrap_app in Hn.
  unfold size_limits_within in Hl. apply andb_true_iff in Hl. destruct Hl as [Hl0 Hl].
  apply andb_true_iff in Hl0. destruct Hl0 as [L1 L2]. apply N.ltb_lt in L1. apply N.leb_le in L2.
  apply forallb_app_l in Hl.
  pose proof (led_init_inv pc ps Hpc Hps) as Hi.
  pose proof (led_run_inv ops1 _ Hi Hn) as (_ & _ & H2). rewrite <- H2.
  apply led_run_bound_s; auto; cbn; lia.
Qed.

(* without the no-wrap hypothesis the ledger theorem is false (F32) *)
Lemma ledger_without_nowrap_refuted_h : exists pc ps ops,
  pc < 65536 /\ ps < 4294967296 /\ size_limits_within ps ps ops = true /\
  ps < sumN (snd (hrun (Qos.qos_new pc ps, []) ops)).
Proof.
  exists 0, 10, [LDeliver 10; LDeliver 4294967295]. repeat split; reflexivity.
Qed.

(* ---- the window loop of PopQos ---------------------------------------------------------- *)

Lemma undo_charges_app : forall a b sz, undo_charges (a ++ b) sz = undo_charges a sz ++ undo_charges b sz.
Proof.
  induction a as [| [[|] q] a IH]; intros; cbn [app undo_charges]; try rewrite IH; reflexivity.
Qed.

Lemma reserve_loop_spec : forall sz ws charged orig,
  undo_charges charged sz = orig -> map snd charged = map (fun q => qos_charged q 1 sz) orig ->
  Forall qos_wf ws -> Forall (fun q => qos_no_wrap q 1 sz = true) ws ->
  let r := reserve_loop true false charged ws sz in
  (fst r = true -> snd r = map (fun q => qos_charged q 1 sz) (orig ++ ws) /\ Forall (fun q => qos_admits q 1 sz = true) ws) /\
  (fst r = false -> snd r = orig ++ ws /\ Exists (fun q => qos_admits q 1 sz = false) ws).
Proof.
  intros sz. induction ws as [| q t IH]; intros charged orig Hu Hm Hwf Hnw.
  - cbn [reserve_loop fst snd]. rewrite app_nil_r. split; [auto | discriminate].
  - apply Forall_cons_iff in Hwf. destruct Hwf as [Hwq Hwt]. apply Forall_cons_iff in Hnw. destruct Hnw as [Hnq Hnt].
    cbn [reserve_loop andb].
    pose proof (inc_admission_h q 1 sz Hnq) as Had. pose proof (inc_charges_h q 1 sz Hnq) as Hch.
    pose proof (inc_refusal_unchanged_h q 1 sz) as Hre. pose proof (dec_inc_cancel_h q 1 sz Hwq Hnq) as Hcan.
    destruct (Qos.qos_inc q 1 sz) as [ok q'] eqn:Einc. cbn [fst snd] in *. destruct ok.
    + specialize (Hch eq_refl). specialize (Hcan eq_refl).
      specialize (IH (charged ++ [(true, q')]) (orig ++ [q])).
      destruct IH as [IH1 IH2]; try assumption.
      { rewrite undo_charges_app, Hu. cbn [undo_charges]. rewrite Hcan. reflexivity. }
      { rewrite !map_app, Hm. cbn [map snd]. rewrite Hch. reflexivity. }
      rewrite <- app_assoc in IH1, IH2. cbn [app] in IH1, IH2.
      split; intro Hr.
      * destruct (IH1 Hr) as [A B]. split; [exact A|]. constructor; [symmetry; exact Had | exact B].
      * destruct (IH2 Hr) as [A B]. split; [exact A|]. apply Exists_cons_tl. exact B.
    + specialize (Hre eq_refl). subst q'. cbn [fst snd]. split; [discriminate|]. intros _.
      rewrite Hu. split; [reflexivity|]. apply Exists_cons_hd. symmetry; exact Had.
Qed.

Lemma reserve_all_or_nothing_h : forall ws size,
  Forall qos_wf ws -> Forall (fun q => qos_no_wrap q 1 (body_size32 size) = true) ws ->
  let r := reserve true ws size in
  (fst r = true -> snd r = map (fun q => qos_charged q 1 (body_size32 size)) ws /\
                   Forall (fun q => qos_admits q 1 (body_size32 size) = true) ws) /\
  (fst r = false -> snd r = ws /\ Exists (fun q => qos_admits q 1 (body_size32 size) = false) ws).
Proof.
  intros ws size Hwf Hnw. unfold reserve, reserve_gen.
  exact (reserve_loop_spec (body_size32 size) ws [] [] eq_refl eq_refl Hwf Hnw).
Qed.

(* F02: the loop as it was (no undo) leaks the charge of the earlier windows *)
Lemma reserve_without_rollback_leaks_h : exists ws size,
  Forall qos_wf ws /\ Forall (fun q => qos_no_wrap q 1 (body_size32 size) = true) ws /\
  fst (reserve false ws size) = false /\ snd (reserve false ws size) <> ws.
Proof.
  exists [mkQos 3 0 0 0; mkQos 1 1 0 0], 5.
  split; [repeat constructor|]. split; [repeat constructor|]. split; [reflexivity|].
  vm_compute. discriminate.
Qed.

(* settling a delivery gives every window back exactly what the delivery charged *)
Lemma release_all_after_reserve_h : forall ws size,
  Forall qos_wf ws -> Forall (fun q => qos_no_wrap q 1 (body_size32 size) = true) ws ->
  fst (reserve true ws size) = true -> release_all (snd (reserve true ws size)) size = ws.
Proof.
  intros ws size Hwf Hnw Hok.
  destruct (reserve_all_or_nothing_h ws size Hwf Hnw) as [H1 _]. destruct (H1 Hok) as [Heq _]. rewrite Heq.
  unfold release_all. rewrite map_map.
  clear Heq H1 Hok. induction ws as [| q t IH]; [reflexivity|].
  apply Forall_cons_iff in Hwf. destruct Hwf as [Hwq Hwt]. apply Forall_cons_iff in Hnw. destruct Hnw as [Hnq Hnt].
  cbn [map]. rewrite IH by assumption. f_equal.
  apply no_wrap_iff in Hnq. destruct Hnq as [Hc Hs]. destruct Hwq as (W1 & W2 & W3 & W4).
  rewrite dec_exact_h.
  - apply charged_released.
  - unfold qos_wf, qos_charged. cbn [prefetchCount currentCount prefetchSize currentSize]. repeat split; assumption.
  - unfold qos_charged. cbn [currentCount]. lia.
  - unfold qos_charged. cbn [currentSize]. lia.
Qed.

(* F49 (repaired in /repo 9fdcd31): the loop that skipped windows without limits left such a window
   uncharged, and the settle (Dec on every window) then released a share it had never taken *)
Lemma reserve_skipping_breaks_release_h : exists ws size,
  Forall qos_wf ws /\ Forall (fun q => qos_no_wrap q 1 (body_size32 size) = true) ws /\
  fst (reserve_gen true true ws size) = true /\ release_all (snd (reserve_gen true true ws size)) size <> ws.
Proof.
  exists [mkQos 0 2 0 10], 5.
  split; [repeat constructor|]. split; [repeat constructor|]. split; [reflexivity|].
  vm_compute. discriminate.
Qed.

(* ---- the same statements about the functions translated from qos.go ------------------- *)

Notation gstep := (led_step QosGen.qos_inc QosGen.qos_dec QosGen.qos_update).
Notation grun := (led_run QosGen.qos_inc QosGen.qos_dec QosGen.qos_update).
Notation gnowrap := (led_nowrap QosGen.qos_inc QosGen.qos_dec QosGen.qos_update).

Lemma gstep_eq : forall st o, gstep st o = hstep st o.
Proof.
  intros st [s|k|pc ps]; cbn [led_step].
  - rewrite gen_inc_eq. reflexivity.
  - destruct (nth_error (snd st) k); [rewrite gen_dec_eq|]; reflexivity.
  - rewrite gen_update_eq. reflexivity.
Qed.

Lemma grun_eq : forall ops st, grun st ops = hrun st ops.
Proof. induction ops; intros; cbn [led_run fold_left]; [reflexivity|]. rewrite gstep_eq. apply IHops. Qed.

Lemma gnowrap_eq : forall ops st, gnowrap st ops = hnowrap st ops.
Proof. induction ops; intros; cbn [led_nowrap]; [reflexivity|]. rewrite gstep_eq, IHops. reflexivity. Qed.

Lemma generated_is_model :
  (forall pc ps, QosGen.qos_new pc ps = Qos.qos_new pc ps) /\
  (forall q pc ps, QosGen.qos_update q pc ps = Qos.qos_update q pc ps) /\
  (forall q, QosGen.qos_is_active q = Qos.qos_is_active q) /\
  (forall q c s, QosGen.qos_inc q c s = Qos.qos_inc q c s) /\
  (forall q c s, QosGen.qos_dec q c s = Qos.qos_dec q c s) /\
  (forall q, QosGen.qos_release q = Qos.qos_release q) /\
  (forall q, QosGen.qos_copy q = Qos.qos_copy q) /\
  qos_struct_gen = [("prefetchCount", 16); ("currentCount", 16); ("prefetchSize", 32); ("currentSize", 32)]%string.
Proof.
  repeat split; auto using gen_new_eq, gen_update_eq, gen_is_active_eq, gen_inc_eq, gen_dec_eq, gen_release_eq, gen_copy_eq, gen_struct_eq.
Qed.

Lemma inc_admission : forall q c s,
  qos_no_wrap q c s = true -> fst (QosGen.qos_inc q c s) = qos_admits q c s.
Proof. intros. rewrite gen_inc_eq. apply inc_admission_h; assumption. Qed.

Lemma inc_charges_exactly : forall q c s,
  qos_no_wrap q c s = true -> fst (QosGen.qos_inc q c s) = true -> snd (QosGen.qos_inc q c s) = qos_charged q c s.
Proof. intros q c s. rewrite gen_inc_eq. apply inc_charges_h. Qed.

Lemma inc_refusal_unchanged : forall q c s,
  fst (QosGen.qos_inc q c s) = false -> snd (QosGen.qos_inc q c s) = q.
Proof. intros q c s. rewrite gen_inc_eq. apply inc_refusal_unchanged_h. Qed.

Lemma dec_exact : forall q c s,
  qos_wf q -> c <= currentCount q -> s <= currentSize q -> QosGen.qos_dec q c s = qos_released q c s.
Proof. intros q c s. rewrite gen_dec_eq. apply dec_exact_h. Qed.

Lemma dec_undoes_inc : forall q c s,
  qos_wf q -> qos_no_wrap q c s = true -> fst (QosGen.qos_inc q c s) = true ->
  QosGen.qos_dec (snd (QosGen.qos_inc q c s)) c s = q.
Proof. intros q c s. rewrite gen_dec_eq, gen_inc_eq. apply dec_inc_cancel_h. Qed.

Lemma dec_saturates : forall q c s,
  (currentCount q < c -> currentCount (QosGen.qos_dec q c s) = 0) /\
  (currentSize q < s -> currentSize (QosGen.qos_dec q c s) = 0) /\
  prefetchCount (QosGen.qos_dec q c s) = prefetchCount q /\ prefetchSize (QosGen.qos_dec q c s) = prefetchSize q.
Proof. intros q c s. rewrite gen_dec_eq. apply dec_saturates_h. Qed.

Lemma update_keeps_current : forall q pc ps,
  currentCount (QosGen.qos_update q pc ps) = currentCount q /\ currentSize (QosGen.qos_update q pc ps) = currentSize q /\
  prefetchCount (QosGen.qos_update q pc ps) = pc /\ prefetchSize (QosGen.qos_update q pc ps) = ps.
Proof. intros q pc ps. rewrite gen_update_eq. apply update_keeps_current_h. Qed.

Lemma release_copy_new_active : forall q,
  QosGen.qos_release q = mkQos (prefetchCount q) 0 (prefetchSize q) 0 /\ QosGen.qos_copy q = q /\
  (forall pc ps, QosGen.qos_new pc ps = mkQos pc 0 ps 0) /\
  (QosGen.qos_is_active q = false <-> prefetchCount q = 0 /\ prefetchSize q = 0).
Proof.
  intros q. rewrite gen_release_eq, gen_copy_eq, gen_is_active_eq.
  split; [apply release_spec_h|]. split; [apply copy_spec_h|].
  split; [intros; rewrite gen_new_eq; reflexivity|].
  unfold Qos.qos_is_active. rewrite orb_false_iff, !negb_false_iff, !N.eqb_eq. tauto.
Qed.

Lemma inc_admission_without_nowrap_refuted :
  exists q c s, qos_wf q /\ c < 65536 /\ s < 4294967296 /\
                fst (QosGen.qos_inc q c s) = true /\ qos_admits q c s = false.
Proof.
  destruct inc_admission_without_nowrap_refuted_h as (q & c & s & H). exists q, c, s. rewrite gen_inc_eq. exact H.
Qed.

Lemma inc_count_wrap_refuted :
  exists q, qos_wf q /\ fst (QosGen.qos_inc q 1 0) = true /\ qos_admits q 1 0 = false.
Proof. destruct inc_count_wrap_refuted_h as (q & H). exists q. rewrite gen_inc_eq. exact H. Qed.

Lemma ledger_exact : forall pc ps ops1 ops2,
  pc < 65536 -> ps < 4294967296 ->
  gnowrap (QosGen.qos_new pc ps, []) (ops1 ++ ops2) = true ->
  let st := grun (QosGen.qos_new pc ps, []) ops1 in
  currentCount (fst st) = N.of_nat (length (snd st)) /\ currentSize (fst st) = sumN (snd st).
Proof.
  intros pc ps ops1 ops2 Hpc Hps. rewrite gnowrap_eq, grun_eq, gen_new_eq. apply ledger_exact_h; assumption.
Qed.

Lemma ledger_count_bound : forall n pc ps ops1 ops2,
  pc < 65536 -> ps < 4294967296 ->
  gnowrap (QosGen.qos_new pc ps, []) (ops1 ++ ops2) = true ->
  count_limits_within n pc (ops1 ++ ops2) = true ->
  N.of_nat (length (snd (grun (QosGen.qos_new pc ps, []) ops1))) <= n.
Proof.
  intros n pc ps ops1 ops2 Hpc Hps. rewrite gnowrap_eq, grun_eq, gen_new_eq. apply ledger_count_bound_h; assumption.
Qed.

Lemma ledger_size_bound : forall n pc ps ops1 ops2,
  pc < 65536 -> ps < 4294967296 ->
  gnowrap (QosGen.qos_new pc ps, []) (ops1 ++ ops2) = true ->
  size_limits_within n ps (ops1 ++ ops2) = true ->
  sumN (snd (grun (QosGen.qos_new pc ps, []) ops1)) <= n.
Proof.
  intros n pc ps ops1 ops2 Hpc Hps. rewrite gnowrap_eq, grun_eq, gen_new_eq. apply ledger_size_bound_h; assumption.
Qed.

Lemma ledger_without_nowrap_refuted : exists pc ps ops,
  pc < 65536 /\ ps < 4294967296 /\ size_limits_within ps ps ops = true /\
  ps < sumN (snd (grun (QosGen.qos_new pc ps, []) ops)).
Proof.
  destruct ledger_without_nowrap_refuted_h as (pc & ps & ops & H). exists pc, ps, ops.
  rewrite grun_eq, gen_new_eq. exact H.
Qed.
