(* msgstorage: invariants of the pending maps / persist / Kill model (Store/MsgStore.v).
   C04 store core (durable, no phantoms, order), C05 store clause (not early), C17 isolation. *)
From Coq Require Import String List Arith NArith Bool Lia ZifyN ZifyNat ZifyBool Sorted.
From GMQ Require Import Store.KeyFmt Store.gen.KeyFmtGen Store.gen.OptsGen Store.KV Store.SrvStore Store.MsgStore Store.StoreSpec
  Proofs.StoreKVProofs Proofs.StoreKeyProofs.
Import ListNotations.
Open Scope N_scope.

(* ------------------------------------------------------------ generated facts the proofs rest on *)
Lemma gen_confirm_after_batch : persist_confirm_after_batch = true. Proof. reflexivity. Qed.
Lemma gen_batch_order : persist_batch_order = [GAdd; GUpdate; GDel]. Proof. reflexivity. Qed.
Lemma gen_cancel : persist_del_cancels_add = true /\ persist_del_drops_update = true /\ persist_cancelled_del_removed = true.
Proof. repeat split; reflexivity. Qed.
Lemma gen_badger_not_stub : badger_stub_iterate_by_prefix_from = false /\ badger_stub_delete_by_prefix = false /\
  badger_stub_keys_by_prefix_count = false /\ badger_stub_iterate_by_prefix = false.
Proof. repeat split; reflexivity. Qed.

Lemma gen_settled : persist_settled_confirmed = true /\ persist_confirm_counts = true.
Proof. split; reflexivity. Qed.

(* persist's batch and confirm steps, with the generated statement order (batch before confirmation) *)
Lemma ms_batch_eq : forall st, ms_batch st =
  match ms_fly st with
  | Some f => match if_stage f with
              | Swapped => match eng_batch (ms_engine st) (ms_db st) (batch_of f) with
                           | Some db' => (set_db st db' (Some (written f)) (ms_counts st), [EvBatch (batch_of f)])
                           | None => (ms_kill st, [EvPanic])
                           end
              | Written => (st, [])
              end
  | None => (st, [])
  end.
Proof. intro st. unfold ms_batch. destruct (ms_fly st) as [f|]; [|reflexivity]. destruct (if_stage f); reflexivity. Qed.

Lemma ms_confirm_eq : forall st, ms_confirm_step st =
  match ms_fly st with
  | Some f => match if_stage f with
              | Written => (set_db st (ms_db st) None (fst (relays_of (ms_confirm st) (ms_counts st) f)),
                            snd (relays_of (ms_confirm st) (ms_counts st) f))
              | Swapped => (st, [])
              end
  | None => (st, [])
  end.
Proof.
  intro st. unfold ms_confirm_step. destruct (ms_fly st) as [f|]; [|reflexivity]. destruct (if_stage f); [reflexivity|].
  rewrite gen_confirm_after_batch. destruct (relays_of (ms_confirm st) (ms_counts st) f). reflexivity.
Qed.

(* ------------------------------------------------------------ kv helpers *)
Lemma kv_mem_get {V} : forall (m : kv V) k, kv_mem m k = true <-> exists v, kv_get m k = Some v.
Proof. intros. unfold kv_mem. destruct (kv_get m k); split; intro H; try discriminate; eauto. destruct H; discriminate. Qed.

Lemma kv_mem_false {V} : forall (m : kv V) k, kv_mem m k = false <-> kv_get m k = None.
Proof. intros. unfold kv_mem. destruct (kv_get m k); split; intro H; try discriminate; reflexivity. Qed.

Lemma mem_set_other {V} : forall (m : kv V) k v k', k' <> k -> kv_mem (kv_set m k v) k' = kv_mem m k'.
Proof. intros. unfold kv_mem. rewrite get_set. apply keqb_neq in H. rewrite H. reflexivity. Qed.

Lemma mem_filter_false {V} : forall (P : key -> bool) (m : kv V) k, kv_mem m k = false ->
  kv_mem (filter (fun e => P (fst e)) m) k = false.
Proof. intros. unfold kv_mem in *. rewrite get_filter. destruct (P k); [exact H | reflexivity]. Qed.

(* sets of a key-sorted list, then lookups *)
Lemma get_batch_sets : forall (l : kv msg) (db : kv msg) k, ksorted l ->
  kv_get (kv_batch db (map (fun e => BSet (fst e) (strip (snd e))) l)) k =
  match kv_get l k with Some m => Some (strip m) | None => kv_get db k end.
Proof.
  induction l as [|[k0 m0] t IH]; intros db k Hs; cbn [map kv_batch fold_left]; [reflexivity|].
  apply ksorted_inv in Hs as [Ht Hf]. cbn [fst snd kv_apply]. fold (kv_batch (kv_set db k0 (strip m0)) (map (fun e => BSet (fst e) (strip (snd e))) t)).
  rewrite IH by exact Ht. cbn [kv_get]. destruct (keqb k k0) eqn:E.
  - apply keqb_eq in E. subst. rewrite get_not_in.
    + rewrite get_set, keqb_refl. reflexivity.
    + eapply Forall_impl; [|exact Hf]. intros a Ha. exact Ha.
  - destruct (kv_get t k); [reflexivity|]. rewrite get_set, E. reflexivity.
Qed.

Lemma get_batch_dels : forall (l : kv msg) (db : kv msg) k,
  kv_get (kv_batch db (map (fun e => BDel (fst e)) l)) k = if kv_mem l k then None else kv_get db k.
Proof.
  induction l as [|[k0 m0] t IH]; intros db k; cbn [map kv_batch fold_left]; [reflexivity|].
  cbn [fst kv_apply]. fold (kv_batch (kv_del db k0) (map (fun e : key * msg => @BDel msg (fst e)) t)).
  rewrite IH. unfold kv_mem. cbn [kv_get]. destruct (keqb k k0) eqn:E.
  - destruct (kv_get t k); [reflexivity|]. rewrite get_del, E. reflexivity.
  - destruct (kv_get t k); [reflexivity|]. rewrite get_del, E. reflexivity.
Qed.

Lemma kv_batch_app {V} : forall (a b : list (bop V)) db, kv_batch db (a ++ b) = kv_batch (kv_batch db a) b.
Proof. intros. unfold kv_batch. apply fold_left_app. Qed.

(* the batch persist builds, pointwise: dels last, update sets after add sets *)
Lemma get_persist_batch : forall f db k, ksorted (if_add f) -> ksorted (if_upd f) ->
  kv_get (kv_batch db (batch_of f)) k =
  if kv_mem (if_del f) k then None
  else match kv_get (if_upd f) k with
       | Some m => Some (strip m)
       | None => match kv_get (if_add f) k with Some m => Some (strip m) | None => kv_get db k end
       end.
Proof.
  intros f db k Ha Hu. unfold batch_of. rewrite gen_batch_order. cbn [flat_map group_ops]. rewrite app_nil_r.
  rewrite !kv_batch_app, get_batch_dels, get_batch_sets by exact Hu. rewrite get_batch_sets by exact Ha. reflexivity.
Qed.

(* ------------------------------------------------------------ PurgeQueue on the pending maps, pointwise *)
Lemma get_filter_kv {V} : forall (f : key * V -> bool) (m : kv V) k, ksorted m ->
  kv_get (filter f m) k = match kv_get m k with Some v => if f (k, v) then Some v else None | None => None end.
Proof.
  induction m as [|[k0 v0] t IH]; intros k Hs; [reflexivity|]. apply ksorted_inv in Hs as [Ht Hf].
  cbn [filter kv_get]. destruct (f (k0, v0)) eqn:Ef; cbn [kv_get].
  - destruct (keqb k k0) eqn:E; [apply keqb_eq in E; subst; rewrite Ef; reflexivity | apply IH; exact Ht].
  - destruct (keqb k k0) eqn:E; [|apply IH; exact Ht]. apply keqb_eq in E. subst. rewrite Ef.
    rewrite IH by exact Ht. rewrite get_not_in; [reflexivity | exact Hf].
Qed.

Lemma gen_purge : purge_waits_for_persist = true /\ purge_cancels_pending_adds = true /\ purge_drops_pending_updates = true /\ close_persists = true.
Proof. repeat split; reflexivity. Qed.

Lemma get_purge_del : forall (add del : kv msg) q k, ksorted add ->
  kv_get (purge_del add del q) k =
  match kv_get add k with
  | Some m => if keqb k (msg_key q (m_id m)) then Some m else kv_get del k
  | None => kv_get del k
  end.
Proof.
  intros add del q k. unfold purge_del. rewrite (proj1 (proj2 gen_purge)). revert del.
  induction add as [|[k0 m0] t IH]; intros del Hs; [reflexivity|]. apply ksorted_inv in Hs as [Ht Hf].
  cbn [fold_left fst snd]. rewrite IH by exact Ht. cbn [kv_get]. destruct (keqb k k0) eqn:E.
  - apply keqb_eq in E. subst. rewrite get_not_in by exact Hf.
    destruct (keqb k0 (msg_key q (m_id m0))); [rewrite get_set, keqb_refl; reflexivity | reflexivity].
  - destruct (kv_get t k) as [m|]; [destruct (keqb k (msg_key q (m_id m))); [reflexivity|]|];
      (destruct (keqb k0 (msg_key q (m_id m0))); [rewrite get_set, E; reflexivity | reflexivity]).
Qed.

Lemma get_purge_upd : forall (upd : kv msg) q k, ksorted upd ->
  kv_get (purge_upd upd q) k =
  match kv_get upd k with Some m => if keqb k (msg_key q (m_id m)) then None else Some m | None => None end.
Proof.
  intros upd q k Hs. unfold purge_upd. rewrite (proj1 (proj2 (proj2 gen_purge))). rewrite get_filter_kv by exact Hs.
  destruct (kv_get upd k) as [m|]; [|reflexivity]. cbn [fst snd]. destruct (keqb k (msg_key q (m_id m))); reflexivity.
Qed.

Lemma ksorted_purge_del : forall (add del : kv msg) q, ksorted del -> ksorted (purge_del add del q).
Proof.
  intros add del q. unfold purge_del. destruct purge_cancels_pending_adds; [|auto]. revert del.
  induction add as [|[k0 m0] t IH]; intros del H; [exact H|]. cbn [fold_left fst snd]. apply IH.
  destruct (keqb k0 (msg_key q (m_id m0))); [apply ksorted_set; exact H | exact H].
Qed.

Lemma ksorted_purge_upd : forall (upd : kv msg) q, ksorted upd -> ksorted (purge_upd upd q).
Proof. intros upd q H. unfold purge_upd. destruct purge_drops_pending_updates; [apply ksorted_filter; exact H | exact H]. Qed.

(* a purge that is not blocked *)
Lemma ms_purge_eq : forall st q, ms_fly st = None ->
  ms_purge st q = {| ms_engine := ms_engine st; ms_persistent := ms_persistent st; ms_confirm := ms_confirm st;
                     ms_db := eng_del_prefix (ms_engine st) (ms_db st) (msg_prefix_del q);
                     ms_add := ms_add st; ms_upd := purge_upd (ms_upd st) q; ms_del := purge_del (ms_add st) (ms_del st) q;
                     ms_fly := None; ms_counts := ms_counts st |}.
Proof. intros st q H. unfold ms_purge, purge_blocked. rewrite H, andb_false_r. reflexivity. Qed.

Lemma ms_purge_blocked : forall st q f, ms_fly st = Some f -> ms_purge st q = st.
Proof. intros st q f H. unfold ms_purge, purge_blocked. rewrite H, (proj1 gen_purge). reflexivity. Qed.

(* ------------------------------------------------------------ well-formedness: every map stays key-sorted *)
Definition fly_wf (f : option inflight) : Prop :=
  match f with Some f => ksorted (if_add f) /\ ksorted (if_upd f) /\ ksorted (if_del f) | None => True end.
Definition ms_wf (st : mstore) : Prop :=
  ksorted (ms_db st) /\ ksorted (ms_add st) /\ ksorted (ms_upd st) /\ ksorted (ms_del st) /\ fly_wf (ms_fly st).

Lemma wf_init : forall e p c, ms_wf (ms_init e p c).
Proof. intros. repeat split; constructor. Qed.

Lemma wf_kill : forall st, ms_wf st -> ms_wf (ms_kill st).
Proof.
  intros st (Hd & _). unfold ms_kill, ms_wf. cbn. repeat split; try constructor.
  destruct (ms_persistent st); [exact Hd | constructor].
Qed.

Lemma wf_swap : forall st, ms_wf st -> ms_wf (fst (ms_swap st)).
Proof.
  intros st (Hd & Ha & Hu & Hdl & Hf). unfold ms_swap. destruct (ms_fly st) eqn:E; cbn.
  - repeat split; try assumption. rewrite E. exact Hf.
  - unfold ms_wf, fly_wf. cbn. repeat split; try constructor; try assumption; unfold cancel_add, cancel_upd, cancel_del; cbn; apply ksorted_filter; assumption.
Qed.

Lemma eng_batch_sorted : forall e (db : kv msg) ops db', ksorted db -> eng_batch e db ops = Some db' -> ksorted db'.
Proof.
  intros e db ops db' Hs H. destruct e; cbn in H.
  - inversion H; subst. apply ksorted_batch. exact Hs.
  - apply batch_strict_eq in H. subst. apply ksorted_batch. exact Hs.
Qed.

Lemma wf_batch : forall st, ms_wf st -> ms_wf (fst (ms_batch st)).
Proof.
  intros st Hwf. pose proof Hwf as (Hd & Ha & Hu & Hdl & Hf). rewrite ms_batch_eq.
  destruct (ms_fly st) as [f|] eqn:E; [|exact Hwf]. destruct (if_stage f) eqn:Es; [|exact Hwf].
  destruct (eng_batch (ms_engine st) (ms_db st) (batch_of f)) as [db'|] eqn:Eb; cbn.
  - cbn in Hf. destruct Hf as (F1 & F2 & F3). unfold ms_wf. cbn.
    split; [exact (eng_batch_sorted _ _ _ _ Hd Eb)|]. repeat split; assumption.
  - apply wf_kill. exact Hwf.
Qed.

Lemma wf_confirm : forall st, ms_wf st -> ms_wf (fst (ms_confirm_step st)).
Proof.
  intros st Hwf. pose proof Hwf as (Hd & Ha & Hu & Hdl & Hf). rewrite ms_confirm_eq.
  destruct (ms_fly st) as [f|] eqn:E; [|exact Hwf]. destruct (if_stage f); [exact Hwf|]. cbn. repeat split; assumption.
Qed.

Lemma eng_del_prefix_sorted : forall e (db : kv msg) p, ksorted db -> ksorted (eng_del_prefix e db p).
Proof.
  intros e db p H. destruct e; cbn.
  - apply ksorted_del_prefix. exact H.
  - exact H.
Qed.

Lemma seq_steps_fst : forall f g st, fst (seq_steps f g st) = fst (g (fst (f st))).
Proof. intros. unfold seq_steps. destruct (f st) as [s1 e1]. cbn. destruct (g s1). reflexivity. Qed.

Lemma seq_steps_snd : forall f g st, snd (seq_steps f g st) = snd (f st) ++ snd (g (fst (f st))).
Proof. intros. unfold seq_steps. destruct (f st) as [s1 e1]. cbn. destruct (g s1). reflexivity. Qed.

Definition ms_tick (st : mstore) : mstore * list mevent := seq_steps ms_swap (seq_steps ms_batch ms_confirm_step) st.

Lemma step_tick : forall st, ms_step st MPersistTick = ms_tick st.
Proof. reflexivity. Qed.

(* a graceful stop is a tick followed by a kill *)
Lemma step_close : forall st, ms_step st MClose = (ms_kill (fst (ms_tick st)), snd (ms_tick st)).
Proof. intro st. cbn [ms_step]. rewrite (proj2 (proj2 (proj2 gen_purge))). unfold ms_tick. destruct (seq_steps ms_swap (seq_steps ms_batch ms_confirm_step) st). reflexivity. Qed.

Ltac fold_close st :=
  match goal with |- context [if close_persists then ?a else ?b] =>
    change (if close_persists then a else b) with (ms_step st MClose); rewrite (step_close st) end.

Lemma wf_tick : forall st, ms_wf st -> ms_wf (fst (ms_tick st)).
Proof. intros st H. unfold ms_tick. rewrite !seq_steps_fst. apply wf_confirm, wf_batch, wf_swap. exact H. Qed.

Lemma fly_purge : forall st q, ms_fly (ms_purge st q) = ms_fly st.
Proof. intros st q. unfold ms_purge. destruct (purge_blocked st); reflexivity. Qed.

Lemma wf_purge : forall st q, ms_wf st -> ms_wf (ms_purge st q).
Proof.
  intros st q Hwf. pose proof Hwf as (Hd & Ha & Hu & Hdl & Hf). destruct (ms_fly st) as [f|] eqn:E.
  - rewrite (ms_purge_blocked st q f E). exact Hwf.
  - rewrite (ms_purge_eq st q E). unfold ms_wf. cbn. repeat split; try assumption.
    + apply eng_del_prefix_sorted. exact Hd.
    + apply ksorted_purge_upd. exact Hu.
    + apply ksorted_purge_del. exact Hdl.
Qed.

Lemma wf_step : forall st l, ms_wf st -> ms_wf (fst (ms_step st l)).
Proof.
  intros st l Hwf. pose proof Hwf as (Hd & Ha & Hu & Hdl & Hf).
  destruct l; cbn [ms_step]; try exact Hwf.
  - cbn. repeat split; try assumption. apply ksorted_set. exact Ha.
  - cbn. repeat split; try assumption. apply ksorted_set. exact Hu.
  - cbn. repeat split; try assumption. apply ksorted_set. exact Hdl.
  - apply wf_purge. exact Hwf.
  - destruct (ms_iter_from st q id limit). exact Hwf.
  - destruct (ms_iter st q limit). exact Hwf.
  - destruct (ms_recover st q limit). exact Hwf.
  - apply wf_swap. exact Hwf.
  - apply wf_batch. exact Hwf.
  - apply wf_confirm. exact Hwf.
  - rewrite !seq_steps_fst. apply wf_confirm, wf_batch, wf_swap. exact Hwf.
  - fold_close st. cbn [fst]. apply wf_kill, wf_tick. exact Hwf.
  - apply wf_kill. exact Hwf.
Qed.

Lemma run_cons : forall st l r, ms_run st (l :: r) =
  (fst (ms_run (fst (ms_step st l)) r), snd (ms_step st l) ++ snd (ms_run (fst (ms_step st l)) r)).
Proof. intros. cbn [ms_run]. destruct (ms_step st l) as [s1 e1]. cbn. destruct (ms_run s1 r). reflexivity. Qed.

Lemma wf_run : forall ls st, ms_wf st -> ms_wf (fst (ms_run st ls)).
Proof.
  induction ls as [|l r IH]; intros st H; [exact H|]. rewrite run_cons. cbn [fst]. apply IH, wf_step, H.
Qed.

(* ------------------------------------------------------------ C04: a confirmed key stays in the engine *)
Definition covers (k : key) (l : mlabel) : bool :=
  match l with MPurge q => is_prefix (msg_prefix_del q) k | _ => false end.
Definition label_safe (k : key) (l : mlabel) : bool := negb (is_del_of k l) && negb (covers k l).

Definition fly_del_free (k : key) (f : option inflight) : Prop :=
  match f with Some f => kv_mem (if_del f) k = false /\ kv_mem (if_settled f) k = false | None => True end.
Definition fly_written_in (k : key) (st : mstore) : Prop :=
  match ms_fly st with
  | Some f => if_stage f = Written -> kv_mem (if_add f) k = true -> kv_mem (ms_db st) k = true
  | None => True
  end.
(* b: a relay of k has been emitted so far *)
Definition dur_inv (k : key) (st : mstore) (b : bool) : Prop :=
  ms_wf st /\ ms_engine st = Badger /\ ms_persistent st = true /\
  kv_mem (ms_del st) k = false /\ fly_del_free k (ms_fly st) /\
  (b = true -> kv_mem (ms_db st) k = true) /\ fly_written_in k st.

Lemma relay_in_app : forall k a b, relay_in k (a ++ b) = relay_in k a || relay_in k b.
Proof. intros. unfold relay_in. apply existsb_app. Qed.

Lemma relay_in_confirm_all : forall k c l cs, relay_in k (snd (confirm_all c cs l)) = true -> kv_mem l k = true.
Proof.
  intros k c. induction l as [|[k0 m0] t IH]; intros cs H; [discriminate|]. cbn [confirm_all] in H.
  unfold kv_mem. cbn [kv_get]. destruct (keqb k k0) eqn:E; [reflexivity|]. fold (kv_mem t k).
  destruct (wants_relay c m0); [|eapply IH; exact H].
  destruct (meta_confirm cs m0) as [cs1 done]. destruct (confirm_all c cs1 t) as [cs2 ev] eqn:Ec. cbn [snd] in H.
  assert (Hev : relay_in k ev = true).
  { destruct done; [|exact H]. cbn in H. rewrite E in H. exact H. }
  apply (IH cs1). rewrite Ec. exact Hev.
Qed.

Lemma relay_in_relays : forall k c cs f, relay_in k (snd (relays_of c cs f)) = true ->
  kv_mem (if_add f) k = true \/ kv_mem (if_settled f) k = true.
Proof.
  intros k c cs f H. unfold relays_of in H. destruct (confirm_all c cs (if_add f)) as [cs1 e1] eqn:E1.
  destruct (confirm_all c cs1 (if_settled f)) as [cs2 e2] eqn:E2. cbn [snd] in H. rewrite relay_in_app in H.
  apply orb_true_iff in H as [H|H]; [left; apply (relay_in_confirm_all k c _ cs); rewrite E1; exact H
                                    | right; apply (relay_in_confirm_all k c _ cs1); rewrite E2; exact H].
Qed.

Lemma mem_filter_out {V} : forall (P : key -> bool) (m : kv V) k, P k = false -> kv_mem (filter (fun e => P (fst e)) m) k = false.
Proof. intros. unfold kv_mem. rewrite get_filter, H. reflexivity. Qed.

Lemma relay_in_cancelled : forall k (l : kv msg), relay_in k (map (fun e => EvCancelled (fst e)) l) = false.
Proof. intros. unfold relay_in. induction l as [|e t IH]; [reflexivity | exact IH]. Qed.

Lemma dur_swap : forall k st b, dur_inv k st b -> dur_inv k (fst (ms_swap st)) b /\ relay_in k (snd (ms_swap st)) = false.
Proof.
  intros k st b (Hwf & He & Hp & Hd & Hfd & Hb & Hfw). split; [|unfold ms_swap; destruct (ms_fly st); [reflexivity | apply relay_in_cancelled]].
  split; [apply wf_swap; exact Hwf|]. unfold ms_swap, fly_written_in in *. destruct (ms_fly st) as [f|] eqn:E; cbn.
  - rewrite E. cbn in Hfd. destruct Hfd. unfold fly_del_free. repeat split; assumption.
  - unfold fly_del_free. repeat split; try assumption; try reflexivity.
    + unfold cancel_del. cbn. apply mem_filter_false with (P := fun x => negb (kv_mem (ms_add st) x)). exact Hd.
    + unfold settled_of. cbn. apply (mem_filter_out (fun x => kv_mem (ms_del st) x)). exact Hd.
    + discriminate.
Qed.

Lemma dur_batch : forall k st b, dur_inv k st b ->
  dur_inv k (fst (ms_batch st)) b /\ relay_in k (snd (ms_batch st)) = false.
Proof.
  intros k st b Hinv. pose proof Hinv as (Hwf & He & Hp & Hd & Hfd & Hb & Hfw).
  rewrite ms_batch_eq. unfold fly_written_in in *. destruct (ms_fly st) as [f|] eqn:E; [|split; [exact Hinv | reflexivity]].
  destruct (if_stage f) eqn:Es; [|split; [exact Hinv | reflexivity]].
  rewrite He. cbn [eng_batch fst snd]. split; [|reflexivity].
  destruct Hwf as (Hsd & Hsa & Hsu & Hsdl & Hsf). try rewrite E in Hsf. try rewrite E in Hfd.
  cbn in Hsf. destruct Hsf as (Hfa & Hfu & Hfdl). cbn in Hfd. destruct Hfd as [Hfd Hfs].
  assert (Hget : forall x, kv_get (kv_batch (ms_db st) (batch_of f)) x =
     if kv_mem (if_del f) x then None else match kv_get (if_upd f) x with Some m => Some (strip m) | None =>
       match kv_get (if_add f) x with Some m => Some (strip m) | None => kv_get (ms_db st) x end end)
    by (intro x; apply get_persist_batch; assumption).
  unfold dur_inv, ms_wf, fly_wf, fly_del_free. cbn. repeat split; try assumption.
  - apply ksorted_batch. exact Hsd.
  - intro Hbt. specialize (Hb Hbt). unfold kv_mem in *. rewrite Hget. unfold kv_mem.
    destruct (kv_get (if_del f) k); [discriminate|]. destruct (kv_get (if_upd f) k); [reflexivity|].
    destruct (kv_get (if_add f) k); [reflexivity | exact Hb].
  - intros _ Hin. unfold kv_mem in *. rewrite Hget. unfold kv_mem.
    destruct (kv_get (if_del f) k); [discriminate|]. destruct (kv_get (if_upd f) k); [reflexivity|].
    destruct (kv_get (if_add f) k); [reflexivity | discriminate].
Qed.

Lemma dur_confirm : forall k st b, dur_inv k st b ->
  dur_inv k (fst (ms_confirm_step st)) (b || relay_in k (snd (ms_confirm_step st))).
Proof.
  intros k st b Hinv. pose proof Hinv as (Hwf & He & Hp & Hd & Hfd & Hb & Hfw).
  rewrite ms_confirm_eq. unfold fly_written_in in *. destruct (ms_fly st) as [f|] eqn:E; [|cbn; rewrite orb_false_r; exact Hinv].
  destruct (if_stage f) eqn:Es; [cbn; rewrite orb_false_r; exact Hinv|].
  cbn [fst snd]. destruct Hwf as (Hsd & Hsa & Hsu & Hsdl & Hsf). try rewrite E in Hfd. cbn in Hfd. destruct Hfd as [Hfd Hfs].
  unfold dur_inv, ms_wf, fly_wf, fly_del_free. cbn. repeat split; try assumption.
  intro H. apply orb_true_iff in H as [H|H]; [apply Hb; exact H|].
  apply relay_in_relays in H as [H|H]; [apply Hfw; [reflexivity | exact H] | congruence].
Qed.

Lemma dur_kill : forall k st b, dur_inv k st b -> dur_inv k (ms_kill st) b.
Proof.
  intros k st b (Hwf & He & Hp & Hd & Hfd & Hb & Hfw). split; [apply wf_kill; exact Hwf|].
  unfold ms_kill, fly_written_in. cbn. rewrite Hp. repeat split; try assumption; try reflexivity.
Qed.

Lemma dur_tick : forall k st b, dur_inv k st b -> dur_inv k (fst (ms_tick st)) (b || relay_in k (snd (ms_tick st))).
Proof.
  intros k st b Hinv. unfold ms_tick. rewrite !seq_steps_fst, !seq_steps_snd, !relay_in_app.
  destruct (dur_swap k st b Hinv) as [H1 H2]. rewrite H2. cbn [orb].
  destruct (dur_batch k _ b H1) as [H3 H4]. rewrite H4. cbn [orb].
  apply dur_confirm. exact H3.
Qed.

Lemma dur_step : forall k st b l, dur_inv k st b -> label_safe k l = true ->
  dur_inv k (fst (ms_step st l)) (b || relay_in k (snd (ms_step st l))).
Proof.
  intros k st b l Hinv Hl. pose proof Hinv as (Hwf & He & Hp & Hd & Hfd & Hb & Hfw).
  unfold label_safe in Hl. apply andb_true_iff in Hl as [Hl1 Hl2]. apply negb_true_iff in Hl1, Hl2.
  destruct l; cbn [ms_step fst snd]; try (cbn [relay_in existsb]; rewrite orb_false_r).
  - (* MAdd *) split; [apply (wf_step st (MAdd m q)); exact Hwf|]. unfold fly_written_in in *. cbn. repeat split; assumption.
  - split; [apply (wf_step st (MUpdate m q)); exact Hwf|]. unfold fly_written_in in *. cbn. repeat split; assumption.
  - (* MDel *) split; [apply (wf_step st (MDel m q)); exact Hwf|]. unfold fly_written_in in *. cbn. repeat split; try assumption.
    unfold is_del_of in Hl1. apply keqb_neq in Hl1. rewrite mem_set_other by (intro X; apply Hl1; symmetry; exact X). exact Hd.
  - (* MPurge: not covering k *) unfold covers in Hl2. destruct (ms_fly st) as [f|] eqn:E.
    + rewrite (ms_purge_blocked st q f E). exact Hinv.
    + rewrite (ms_purge_eq st q E). split; [rewrite <- (ms_purge_eq st q E); apply wf_purge; exact Hwf|].
      destruct Hwf as (Hsd & Hsa & Hsu & Hsdl & Hsf).
      assert (Hm : kv_mem (eng_del_prefix (ms_engine st) (ms_db st) (msg_prefix_del q)) k = kv_mem (ms_db st) k).
      { rewrite He. unfold eng_del_prefix. rewrite (proj1 (proj2 gen_badger_not_stub)).
        unfold kv_mem. rewrite get_del_prefix, Hl2. reflexivity. }
      assert (Hdel : kv_mem (purge_del (ms_add st) (ms_del st) q) k = false).
      { unfold kv_mem in *. rewrite get_purge_del by exact Hsa. destruct (kv_get (ms_add st) k) as [m|]; [|exact Hd].
        destruct (keqb k (msg_key q (m_id m))) eqn:Ek; [|exact Hd]. apply keqb_eq in Ek. rewrite Ek, msg_key_under_own_prefix in Hl2. discriminate. }
      remember (eng_del_prefix (ms_engine st) (ms_db st) (msg_prefix_del q)) as db' eqn:Edb in *.
      remember (purge_del (ms_add st) (ms_del st) q) as d' eqn:Ed' in *.
      remember (purge_upd (ms_upd st) q) as u' eqn:Eu' in *.
      unfold fly_written_in. cbn. repeat split; try assumption. intro Hbt. rewrite Hm. apply Hb. exact Hbt.
  - destruct (ms_iter_from st q id limit). cbn. rewrite orb_false_r. exact Hinv.
  - cbn. exact Hinv.
  - destruct (ms_iter st q limit). cbn. rewrite orb_false_r. exact Hinv.
  - destruct (ms_recover st q limit). cbn. rewrite orb_false_r. exact Hinv.
  - destruct (dur_swap k st b Hinv) as [H1 H2]. rewrite H2, orb_false_r. exact H1.
  - destruct (dur_batch k st b Hinv) as [H1 H2]. rewrite H2, orb_false_r. exact H1.
  - apply dur_confirm. exact Hinv.
  - (* tick *) apply dur_tick. exact Hinv.
  - (* MExtConfirm: only the counters change *)
    destruct Hwf as (W1 & W2 & W3 & W4 & W5). unfold dur_inv, ms_wf, fly_written_in in *. cbn. repeat split; assumption.
  - (* MClose *) fold_close st. cbn [fst snd]. apply dur_kill. apply dur_tick. exact Hinv.
  - apply dur_kill. exact Hinv.
Qed.

Lemma dur_run : forall k ls st b, dur_inv k st b -> forallb (label_safe k) ls = true ->
  dur_inv k (fst (ms_run st ls)) (b || relay_in k (snd (ms_run st ls))).
Proof.
  induction ls as [|l r IH]; intros st b Hinv Hs.
  - cbn. rewrite orb_false_r. exact Hinv.
  - cbn [forallb] in Hs. apply andb_true_iff in Hs as [Hl Hr]. rewrite run_cons. cbn [fst snd].
    rewrite relay_in_app, orb_assoc. apply IH; [|exact Hr]. apply dur_step; assumption.
Qed.

Lemma dur_init : forall k c, dur_inv k (ms_init Badger true c) false.
Proof.
  intros. split; [apply wf_init|]. unfold fly_written_in. cbn. repeat split; try reflexivity. discriminate.
Qed.

(* C04 store core, key level: on badger, a key whose relay (storage confirm) was emitted, for which no Del was
   requested and which no purge covers, is in the engine - after every label sequence, so at every Kill point *)
Theorem store_durable_key : forall c ls k,
  forallb (label_safe k) ls = true ->
  relay_in k (snd (ms_run (ms_init Badger true c) ls)) = true ->
  kv_mem (ms_db (fst (ms_run (ms_init Badger true c) ls))) k = true /\
  kv_mem (ms_db (ms_kill (fst (ms_run (ms_init Badger true c) ls)))) k = true.
Proof.
  intros c ls k Hs Hr. pose proof (dur_run k ls _ _ (dur_init k c) Hs) as Hinv. cbn [orb] in Hinv. rewrite Hr in Hinv.
  pose proof (dur_kill _ _ _ Hinv) as Hk.
  destruct Hinv as (_ & _ & _ & _ & _ & Hb & _). destruct Hk as (_ & _ & _ & _ & _ & Hb2 & _).
  split; [apply Hb | apply Hb2]; reflexivity.
Qed.

(* ------------------------------------------------------------ C05 store clause: a relay is never early *)
(* what licenses a relay of k: a completed batch that Set k, or the snapshot event saying that the add of k was
   cancelled by a del of k (the message was settled before the flush: nothing has to be durable) *)
Definition marks (k : key) (e : mevent) : bool := batch_sets k e || cancelled_ev k e.

Fixpoint ne_ok (k : key) (seen : bool) (evs : list mevent) : bool :=
  match evs with
  | [] => true
  | EvRelay k' _ :: r => (negb (keqb k k') || seen) && ne_ok k seen r
  | e :: r => ne_ok k (seen || marks k e) r
  end.

Definition seen_after (k : key) (seen : bool) (evs : list mevent) : bool := seen || existsb (marks k) evs.

Lemma ne_ok_app : forall k a seen b, ne_ok k seen (a ++ b) = ne_ok k seen a && ne_ok k (seen_after k seen a) b.
Proof.
  induction a as [|e a IH]; intros seen b; cbn [app ne_ok].
  - unfold seen_after. cbn. rewrite orb_false_r. reflexivity.
  - unfold seen_after in *. destruct e; cbn [existsb]; try (rewrite IH, <- ?orb_assoc; reflexivity).
    rewrite IH, andb_assoc. cbn. reflexivity.
Qed.

Lemma seen_after_app : forall k seen a b, seen_after k seen (a ++ b) = seen_after k (seen_after k seen a) b.
Proof. intros. unfold seen_after. rewrite existsb_app, orb_assoc. reflexivity. Qed.

Lemma ne_ok_split : forall k evs seen evs1 m evs2, ne_ok k seen evs = true -> evs = evs1 ++ EvRelay k m :: evs2 ->
  seen_after k seen evs1 = true.
Proof.
  intros k evs seen evs1 m evs2 H E. subst evs. rewrite ne_ok_app in H. apply andb_true_iff in H as [_ H].
  cbn [ne_ok] in H. rewrite keqb_refl in H. cbn in H. apply andb_true_iff in H as [H _]. exact H.
Qed.

Definition ne_inv (k : key) (st : mstore) (seen : bool) : Prop :=
  match ms_fly st with
  | Some f => (kv_mem (if_settled f) k = true -> seen = true) /\
              (if_stage f = Written -> kv_mem (if_add f) k = true -> seen = true)
  | None => True
  end.

Lemma ne_inv_mono : forall k st seen x, ne_inv k st seen -> ne_inv k st (seen || x).
Proof.
  intros k st seen x H. unfold ne_inv in *. destruct (ms_fly st); [|exact I]. destruct H as [H1 H2].
  split; [intro A; rewrite (H1 A); reflexivity | intros A B; rewrite (H2 A B); reflexivity].
Qed.

Lemma sets_in_batch : forall k (add : kv msg), kv_mem add k = true ->
  existsb (fun o => match o with BSet k' _ => keqb k k' | BDel _ => false end)
          (map (fun e => BSet (fst e) (strip (snd e))) add) = true.
Proof.
  induction add as [|[k0 m0] t IH]; intro H; [discriminate|]. unfold kv_mem in *. cbn in *.
  destruct (keqb k k0); [reflexivity|]. cbn. apply IH. exact H.
Qed.

Lemma batch_sets_of : forall k f, kv_mem (if_add f) k = true -> batch_sets k (EvBatch (batch_of f)) = true.
Proof.
  intros k f H. unfold batch_sets, batch_of. rewrite gen_batch_order. cbn [flat_map group_ops].
  rewrite existsb_app. rewrite sets_in_batch by exact H. reflexivity.
Qed.

Lemma cancelled_marks : forall k (l : kv msg), kv_mem l k = true -> existsb (marks k) (map (fun e => EvCancelled (fst e)) l) = true.
Proof.
  induction l as [|[k0 m0] t IH]; intro H; [discriminate|]. unfold kv_mem in *. cbn in *. unfold marks at 1. cbn.
  destruct (keqb k k0); [reflexivity|]. cbn. apply IH. exact H.
Qed.

Lemma ne_ok_cancelled : forall k seen (l : kv msg), ne_ok k seen (map (fun e => EvCancelled (fst e)) l) = true.
Proof. intros k seen l. revert seen. induction l as [|e t IH]; intro seen; [reflexivity | apply IH]. Qed.

Lemma ne_ok_confirm_all : forall k seen c l cs, (kv_mem l k = true -> seen = true) -> ne_ok k seen (snd (confirm_all c cs l)) = true.
Proof.
  intros k seen c. induction l as [|[k0 m0] t IH]; intros cs H; [reflexivity|].
  assert (Ht : kv_mem t k = true -> seen = true).
  { intro Hk. apply H. unfold kv_mem in *. cbn. destruct (keqb k k0); [reflexivity | exact Hk]. }
  cbn [confirm_all]. destruct (wants_relay c m0); [|apply IH; exact Ht].
  destruct (meta_confirm cs m0) as [cs1 done]. pose proof (IH cs1 Ht) as Hr. destruct (confirm_all c cs1 t) as [cs2 ev]. cbn [snd] in *.
  destruct done; [|exact Hr]. cbn [ne_ok]. rewrite Hr, andb_true_r.
  destruct (keqb k k0) eqn:E; [|reflexivity]. cbn. apply H. unfold kv_mem. cbn. rewrite E. reflexivity.
Qed.

Lemma confirm_all_no_marks : forall k c l cs, existsb (marks k) (snd (confirm_all c cs l)) = false.
Proof.
  intros k c. induction l as [|[k0 m0] t IH]; intro cs; [reflexivity|]. cbn [confirm_all].
  destruct (wants_relay c m0); [|apply IH]. destruct (meta_confirm cs m0) as [cs1 done]. pose proof (IH cs1) as Hr.
  destruct (confirm_all c cs1 t) as [cs2 ev]. cbn [snd] in *. destruct done; [cbn; exact Hr | exact Hr].
Qed.

Lemma ne_ok_relays : forall k seen c cs f, (kv_mem (if_add f) k = true -> seen = true) -> (kv_mem (if_settled f) k = true -> seen = true) ->
  ne_ok k seen (snd (relays_of c cs f)) = true.
Proof.
  intros k seen c cs f Ha Hs. unfold relays_of.
  pose proof (ne_ok_confirm_all k seen c (if_add f) cs Ha) as H1. pose proof (confirm_all_no_marks k c (if_add f) cs) as N1.
  destruct (confirm_all c cs (if_add f)) as [cs1 e1]. cbn [snd] in *.
  pose proof (ne_ok_confirm_all k seen c (if_settled f) cs1 Hs) as H2. destruct (confirm_all c cs1 (if_settled f)) as [cs2 e2]. cbn [snd] in *.
  rewrite ne_ok_app, H1. unfold seen_after. rewrite N1, orb_false_r. exact H2.
Qed.

Lemma relays_no_marks : forall k c cs f, existsb (marks k) (snd (relays_of c cs f)) = false.
Proof.
  intros k c cs f. unfold relays_of. pose proof (confirm_all_no_marks k c (if_add f) cs) as N1.
  destruct (confirm_all c cs (if_add f)) as [cs1 e1]. pose proof (confirm_all_no_marks k c (if_settled f) cs1) as N2.
  destruct (confirm_all c cs1 (if_settled f)) as [cs2 e2]. cbn [snd] in *. rewrite existsb_app, N1, N2. reflexivity.
Qed.

Lemma ne_swap : forall k st seen, ne_inv k st seen ->
  ne_ok k seen (snd (ms_swap st)) = true /\ ne_inv k (fst (ms_swap st)) (seen_after k seen (snd (ms_swap st))).
Proof.
  intros k st seen H. unfold ms_swap, ne_inv in *. destruct (ms_fly st) as [f|] eqn:E; cbn [fst snd].
  - rewrite E. split; [reflexivity|]. unfold seen_after. cbn. rewrite orb_false_r. exact H.
  - split; [apply ne_ok_cancelled|]. cbn [ms_fly if_settled if_stage if_add]. split; [|discriminate].
    intro Hs. unfold seen_after. rewrite cancelled_marks by exact Hs. apply orb_true_r.
Qed.

Lemma ne_batch : forall k st seen, ne_inv k st seen ->
  ne_ok k seen (snd (ms_batch st)) = true /\ ne_inv k (fst (ms_batch st)) (seen_after k seen (snd (ms_batch st))).
Proof.
  intros k st seen H. rewrite ms_batch_eq. unfold ne_inv in *. destruct (ms_fly st) as [f|] eqn:E.
  - destruct H as [H1 H2]. destruct (if_stage f) eqn:Es.
    + destruct (eng_batch (ms_engine st) (ms_db st) (batch_of f)) as [db'|]; cbn [fst snd].
      * split; [reflexivity|]. unfold set_db, written. cbn [ms_fly if_stage if_add if_settled]. unfold seen_after. cbn [existsb]. split.
        -- intro A. rewrite (H1 A). reflexivity.
        -- intros _ Hin. unfold marks. rewrite batch_sets_of by exact Hin. cbn. apply orb_true_r.
      * split; [reflexivity | exact I].
    + cbn [fst snd]. rewrite E. split; [reflexivity|]. unfold seen_after. cbn. rewrite orb_false_r. split; [exact H1|].
      intros _ Hin. apply H2; [reflexivity | exact Hin].
  - cbn [fst snd]. rewrite E. split; [reflexivity | exact I].
Qed.

Lemma ne_confirm : forall k st seen, ne_inv k st seen ->
  ne_ok k seen (snd (ms_confirm_step st)) = true /\ ne_inv k (fst (ms_confirm_step st)) (seen_after k seen (snd (ms_confirm_step st))).
Proof.
  intros k st seen H. rewrite ms_confirm_eq. unfold ne_inv in *. destruct (ms_fly st) as [f|] eqn:E.
  - destruct H as [H1 H2]. destruct (if_stage f) eqn:Es.
    + cbn [fst snd]. rewrite E. split; [reflexivity|]. unfold seen_after. cbn. rewrite orb_false_r. split; [exact H1|].
      intro A. rewrite Es in A. discriminate.
    + cbn [fst snd]. split; [|exact I]. apply ne_ok_relays; [apply H2; reflexivity | exact H1].
  - cbn [fst snd]. rewrite E. split; [reflexivity | exact I].
Qed.

Lemma ne_tick : forall k st seen, ne_inv k st seen ->
  ne_ok k seen (snd (ms_tick st)) = true /\ ne_inv k (fst (ms_tick st)) (seen_after k seen (snd (ms_tick st))).
Proof.
  intros k st seen H. unfold ms_tick. rewrite !seq_steps_fst, !seq_steps_snd. destruct (ne_swap k st seen H) as [H1 H2].
  destruct (ne_batch k _ _ H2) as [H3 H4]. destruct (ne_confirm k _ _ H4) as [H5 H6].
  rewrite !ne_ok_app, !seen_after_app. rewrite H1, H3, H5. split; [reflexivity | exact H6].
Qed.

Lemma ne_step : forall k st seen l, ne_inv k st seen ->
  ne_ok k seen (snd (ms_step st l)) = true /\ ne_inv k (fst (ms_step st l)) (seen_after k seen (snd (ms_step st l))).
Proof.
  intros k st seen l H.
  assert (Hsame : forall st', ms_fly st' = ms_fly st -> forall evs, existsb (marks k) evs = false ->
            ne_inv k st' (seen_after k seen evs)).
  { intros st' Ef evs Hev. unfold seen_after. rewrite Hev, orb_false_r. unfold ne_inv in *. rewrite Ef. exact H. }
  destruct l; cbn [ms_step fst snd]; try (split; [reflexivity | apply Hsame; reflexivity]).
  - split; [reflexivity | apply Hsame; [apply fly_purge | reflexivity]].
  - destruct (ms_iter_from st q id limit). cbn [fst snd]. split; [reflexivity | apply Hsame; reflexivity].
  - destruct (ms_iter st q limit). cbn [fst snd]. split; [reflexivity | apply Hsame; reflexivity].
  - destruct (ms_recover st q limit). cbn [fst snd]. split; [reflexivity | apply Hsame; reflexivity].
  - apply ne_swap. exact H.
  - apply ne_batch. exact H.
  - apply ne_confirm. exact H.
  - apply ne_tick. exact H.
  - fold_close st. cbn [fst snd]. destruct (ne_tick k st seen H) as [H1 _]. split; [exact H1|]. unfold ne_inv. cbn. exact I.
  - split; [reflexivity|]. unfold ne_inv. cbn. exact I.
Qed.

Lemma ne_run : forall k ls st seen, ne_inv k st seen -> ne_ok k seen (snd (ms_run st ls)) = true.
Proof.
  induction ls as [|l r IH]; intros st seen H; [reflexivity|]. rewrite run_cons. cbn [snd].
  destruct (ne_step k st seen l H) as [H1 H2]. rewrite ne_ok_app, H1. cbn. apply IH. exact H2.
Qed.

(* C05 store clause: whatever the engine, mode and label sequence, every relay of a key is preceded in the event
   sequence by a completed batch that Sets that key, or by the snapshot of a persist in which the add of that key
   was cancelled by a del of the same key *)
Theorem store_not_early : forall e p c ls evs1 k m evs2,
  snd (ms_run (ms_init e p c) ls) = evs1 ++ EvRelay k m :: evs2 ->
  existsb (batch_sets k) evs1 = true \/ existsb (cancelled_ev k) evs1 = true.
Proof.
  intros e p c ls evs1 k m evs2 E.
  assert (H : ne_ok k false (snd (ms_run (ms_init e p c) ls)) = true) by (apply ne_run; exact I).
  pose proof (ne_ok_split k _ false evs1 m evs2 H E) as X. unfold seen_after in X. cbn [orb] in X.
  clear - X. induction evs1 as [|x t IH]; [discriminate|]. cbn [existsb] in *. unfold marks at 1 in X.
  destruct (batch_sets k x); [left; reflexivity|]. destruct (cancelled_ev k x); [right; reflexivity|].
  cbn [orb] in *. destruct (IH X) as [A|A]; [left | right]; rewrite A; reflexivity.
Qed.

Lemma existsb_app_false {A} : forall (f : A -> bool) a b, existsb f (a ++ b) = false -> existsb f a = false.
Proof. intros f a b H. rewrite existsb_app in H. apply orb_false_iff in H. tauto. Qed.

(* ... and a cancelled add means what it says: the key was Added and Del-requested by labels of the run *)
Definition lab_inv (A D : key -> Prop) (st : mstore) : Prop :=
  (forall k, kv_mem (ms_add st) k = true -> A k) /\ (forall k, kv_mem (ms_del st) k = true -> D k).

Lemma mem_set_cases {V} : forall (m : kv V) k v x, kv_mem (kv_set m k v) x = true -> x = k \/ kv_mem m x = true.
Proof.
  intros m k v x H. unfold kv_mem in *. rewrite get_set in H. destruct (keqb x k) eqn:E; [left; apply keqb_eq; exact E | right; exact H].
Qed.

Lemma mem_purge_del : forall (add del : kv msg) q k, kv_mem (purge_del add del q) k = true ->
  kv_mem del k = true \/ exists id, k = msg_key q id.
Proof.
  intros add del q k. unfold purge_del. destruct purge_cancels_pending_adds; [|auto]. revert del.
  induction add as [|[k0 m0] t IH]; intros del H; [left; exact H|]. cbn [fold_left fst snd] in H.
  apply IH in H as [H|H]; [|right; exact H]. destruct (keqb k0 (msg_key q (m_id m0))) eqn:E; [|left; exact H].
  apply mem_set_cases in H as [->|H]; [right; exists (m_id m0); apply keqb_eq; exact E | left; exact H].
Qed.

Lemma lab_step : forall (A D : key -> Prop) st l,
  (forall m q, l = MAdd m q -> A (msg_key q (m_id m))) -> (forall m q, l = MDel m q -> D (msg_key q (m_id m))) ->
  (forall q id, l = MPurge q -> D (msg_key q id)) ->
  lab_inv A D st ->
  lab_inv A D (fst (ms_step st l)) /\ (forall k, existsb (cancelled_ev k) (snd (ms_step st l)) = true -> A k /\ D k).
Proof.
  intros A D st l HA HD HP [Ia Id].
  assert (Hnone : forall st', ms_add st' = ms_add st -> ms_del st' = ms_del st -> lab_inv A D st').
  { intros st' E1 E2. unfold lab_inv. rewrite E1, E2. split; assumption. }
  assert (Hempty : forall st', ms_add st' = [] -> ms_del st' = [] -> lab_inv A D st').
  { intros st' E1 E2. unfold lab_inv. rewrite E1, E2. split; intros k X; discriminate. }
  assert (Hswap : lab_inv A D (fst (ms_swap st)) /\ (forall k, existsb (cancelled_ev k) (snd (ms_swap st)) = true -> A k /\ D k)).
  { unfold ms_swap. destruct (ms_fly st); cbn [fst snd]; [split; [split; assumption | intros k X; discriminate]|].
    split; [apply Hempty; reflexivity|]. intros k X. cbn [if_settled] in X. unfold settled_of in X.
    destruct (persist_del_cancels_add && persist_settled_confirmed); [|discriminate].
    assert (Hm : kv_mem (filter (fun e => kv_mem (ms_del st) (fst e)) (ms_add st)) k = true).
    { clear - X. induction (filter (fun e => kv_mem (ms_del st) (fst e)) (ms_add st)) as [|[k0 m0] t IH]; [discriminate|].
      cbn in X. unfold kv_mem. cbn. destruct (keqb k k0); [reflexivity|]. cbn in X. apply IH. exact X. }
    unfold kv_mem in Hm. rewrite (get_filter msg (fun x => kv_mem (ms_del st) x)) in Hm.
    destruct (kv_mem (ms_del st) k) eqn:Ed; [|discriminate]. split; [apply Ia; unfold kv_mem; exact Hm | apply Id; exact Ed]. }
  assert (Hbatch : forall s, lab_inv A D s -> lab_inv A D (fst (ms_batch s)) /\ (forall k, existsb (cancelled_ev k) (snd (ms_batch s)) = true -> A k /\ D k)).
  { intros s Hs. rewrite ms_batch_eq. destruct (ms_fly s) as [f|]; [|split; [exact Hs | intros k X; discriminate]].
    destruct (if_stage f); [|split; [exact Hs | intros k X; discriminate]].
    destruct (eng_batch (ms_engine s) (ms_db s) (batch_of f)) as [db'|]; cbn [fst snd]; (split; [|intros k X; discriminate]).
    - destruct Hs. split; assumption.
    - unfold lab_inv. cbn. split; intros k X; discriminate. }
  assert (Hconf : forall s, lab_inv A D s -> lab_inv A D (fst (ms_confirm_step s)) /\ (forall k, existsb (cancelled_ev k) (snd (ms_confirm_step s)) = true -> A k /\ D k)).
  { intros s Hs. rewrite ms_confirm_eq. destruct (ms_fly s) as [f|]; [|split; [exact Hs | intros k X; discriminate]].
    destruct (if_stage f); [split; [exact Hs | intros k X; discriminate]|]. cbn [fst snd]. split; [destruct Hs; split; assumption|].
    intros k X. exfalso. pose proof (relays_no_marks k (ms_confirm s) (ms_counts s) f) as N.
    clear - X N. induction (snd (relays_of (ms_confirm s) (ms_counts s) f)) as [|e t IH]; [discriminate|].
    cbn [existsb] in *. unfold marks at 1 in N. destruct (cancelled_ev k e); [rewrite orb_true_r in N; discriminate|].
    cbn [orb] in X. apply orb_false_iff in N as [_ N]. apply IH; assumption. }
  assert (Htick : lab_inv A D (fst (ms_tick st)) /\ (forall k, existsb (cancelled_ev k) (snd (ms_tick st)) = true -> A k /\ D k)).
  { unfold ms_tick. rewrite !seq_steps_fst, !seq_steps_snd. destruct Hswap as [S1 S2]. destruct (Hbatch _ S1) as [B1 B2]. destruct (Hconf _ B1) as [C1 C2].
    split; [exact C1|]. intros k X. rewrite !existsb_app in X. apply orb_true_iff in X as [X|X]; [apply S2; exact X|].
    apply orb_true_iff in X as [X|X]; [apply B2 | apply C2]; exact X. }
  destruct l; cbn [ms_step fst snd]; try (split; [apply Hnone; reflexivity | intros k X; discriminate]).
  - split; [|intros k X; discriminate]. split; cbn; [|exact Id].
    intros k X. apply mem_set_cases in X as [->|X]; [apply (HA m q); reflexivity | apply Ia; exact X].
  - split; [|intros k X; discriminate]. split; cbn; [exact Ia|].
    intros k X. apply mem_set_cases in X as [->|X]; [apply (HD m q); reflexivity | apply Id; exact X].
  - (* MPurge *) split; [|intros k X; discriminate]. unfold ms_purge. destruct (purge_blocked st); [split; assumption|].
    split; cbn [ms_add ms_del]; [exact Ia|]. intros k X. apply mem_purge_del in X as [X|[id X]]; [apply Id; exact X | subst k; apply (HP q id); reflexivity].
  - destruct (ms_iter_from st q id limit). cbn [fst snd]. split; [split; assumption | intros k X; discriminate].
  - destruct (ms_iter st q limit). cbn [fst snd]. split; [split; assumption | intros k X; discriminate].
  - destruct (ms_recover st q limit). cbn [fst snd]. split; [split; assumption | intros k X; discriminate].
  - exact Hswap.
  - apply Hbatch. split; assumption.
  - apply Hconf. split; assumption.
  - exact Htick.
  - (* MClose *) fold_close st. cbn [fst snd]. destruct Htick as [_ T2]. split; [apply Hempty; reflexivity | exact T2].
  - split; [apply Hempty; reflexivity | intros k X; discriminate].
Qed.

Lemma lab_run : forall (A D : key -> Prop) ls st,
  (forall m q, In (MAdd m q) ls -> A (msg_key q (m_id m))) -> (forall m q, In (MDel m q) ls -> D (msg_key q (m_id m))) ->
  (forall q id, In (MPurge q) ls -> D (msg_key q id)) ->
  lab_inv A D st -> forall k, existsb (cancelled_ev k) (snd (ms_run st ls)) = true -> A k /\ D k.
Proof.
  induction ls as [|l r IH]; intros st HA HD HP Hi k X; [discriminate|]. rewrite run_cons in X. cbn [snd] in X.
  destruct (lab_step A D st l) as [H1 H2]; try assumption.
  - intros m q E. apply HA. left. exact E.
  - intros m q E. apply HD. left. exact E.
  - intros q id E. apply HP. left. exact E.
  - rewrite existsb_app in X. apply orb_true_iff in X as [X|X]; [apply H2; exact X|].
    apply (IH (fst (ms_step st l))); try assumption.
    + intros m q Hin. apply HA. right. exact Hin.
    + intros m q Hin. apply HD. right. exact Hin.
    + intros q id Hin. apply HP. right. exact Hin.
Qed.

(* the add of k is cancelled only if k was Added and then either Del-requested or its queue purged *)
Definition del_or_purge (k : key) (l : mlabel) : bool := is_del_of k l || covers k l.

Theorem cancelled_means_settled : forall e p c ls k,
  existsb (cancelled_ev k) (snd (ms_run (ms_init e p c) ls)) = true ->
  existsb (is_add_of k) ls = true /\ existsb (del_or_purge k) ls = true.
Proof.
  intros e p c ls k X.
  apply (lab_run (fun x => existsb (is_add_of x) ls = true) (fun x => existsb (del_or_purge x) ls = true) ls (ms_init e p c)); try exact X.
  - intros m q Hin. apply existsb_exists. exists (MAdd m q). split; [exact Hin | cbn; apply keqb_refl].
  - intros m q Hin. apply existsb_exists. exists (MDel m q). split; [exact Hin|]. unfold del_or_purge, is_del_of. rewrite keqb_refl. reflexivity.
  - intros q id Hin. apply existsb_exists. exists (MPurge q). split; [exact Hin|]. unfold del_or_purge, covers, is_del_of.
    rewrite msg_key_under_own_prefix. reflexivity.
  - split; intros x Y; discriminate.
Qed.

(* ------------------------------------------------------------ C17: isolation between queues at the store *)
Lemma filter_set_other {V} : forall (P : key -> bool) (m : kv V) k v, P k = false ->
  filter (fun e => P (fst e)) (kv_set m k v) = filter (fun e => P (fst e)) m.
Proof.
  induction m as [|[k0 v0] t IH]; intros k v H; cbn.
  - rewrite H. reflexivity.
  - destruct (kcmp k k0) eqn:E; cbn.
    + apply kcmp_eq in E. subst. rewrite H. reflexivity.
    + rewrite H. reflexivity.
    + rewrite IH by exact H. reflexivity.
Qed.

Lemma not_under_other : forall q q' id, q <> q' -> nof21_pair q' q = true -> is_prefix (msg_prefix_del q') (msg_key q id) = false.
Proof.
  intros q q' id Hne Hn. destruct (is_prefix (msg_prefix_del q') (msg_key q id)) eqn:E; [|reflexivity].
  pose proof (prefix_captures_only_own _ _ _ Hn E) as X. exfalso. apply Hne. symmetry. exact X.
Qed.

Lemma prefixes_disjoint : forall q q' k, q <> q' -> nof21_pair q q' = true -> nof21_pair q' q = true ->
  is_prefix (msg_prefix_del q') k = true -> is_prefix (msg_prefix_del q) k = false.
Proof.
  intros q q' k Hne H1 H2 Hk. destruct (is_prefix (msg_prefix_del q) k) eqn:E; [|reflexivity]. exfalso.
  unfold nof21_pair in H1, H2.
  assert (bytes_eqb q q' = false) by (apply bytes_eqb_neq; exact Hne).
  assert (bytes_eqb q' q = false) by (apply bytes_eqb_neq; congruence).
  rewrite H in H1. rewrite H0 in H2. cbn [orb] in H1, H2. apply negb_true_iff in H1, H2.
  destruct (is_prefix_comparable _ _ _ E Hk); congruence.
Qed.

Lemma under_set_other : forall q q' (m : kv msg) id v, q <> q' -> nof21_pair q' q = true ->
  under q' (kv_set m (msg_key q id) v) = under q' m.
Proof.
  intros. unfold under, kv_filter_prefix. apply (filter_set_other (fun x => is_prefix (msg_prefix_del q') x)).
  apply not_under_other; assumption.
Qed.

Lemma under_purge_other : forall e q q' (db : kv msg), q <> q' -> nof21_pair q q' = true -> nof21_pair q' q = true ->
  under q' (eng_del_prefix e db (msg_prefix_del q)) = under q' db.
Proof.
  intros e q q' db Hne H1 H2.
  assert (X : under q' (kv_del_prefix db (msg_prefix_del q)) = under q' db).
  { unfold under, kv_filter_prefix, kv_del_prefix. rewrite filter_filter. apply filter_ext. intros [k v]. cbn [fst].
    destruct (is_prefix (msg_prefix_del q') k) eqn:E; [|reflexivity].
    rewrite (prefixes_disjoint q q' k Hne H1 H2 E). reflexivity. }
  unfold eng_del_prefix. destruct e.
  - rewrite (proj1 (proj2 gen_badger_not_stub)). exact X.
  - destruct bunt_stub_delete_by_prefix; [reflexivity | exact X].
Qed.

Lemma under_purge_del_other : forall q q' (add del : kv msg), q <> q' -> nof21_pair q' q = true ->
  under q' (purge_del add del q) = under q' del.
Proof.
  intros q q' add del Hne Hn. unfold purge_del. destruct purge_cancels_pending_adds; [|reflexivity]. revert del.
  induction add as [|[k0 m0] t IH]; intro del; [reflexivity|]. cbn [fold_left fst snd]. rewrite IH.
  destruct (keqb k0 (msg_key q (m_id m0))) eqn:E; [|reflexivity]. apply keqb_eq in E. subst k0. apply under_set_other; assumption.
Qed.

Lemma under_purge_upd_other : forall q q' (upd : kv msg), q <> q' -> nof21_pair q' q = true ->
  under q' (purge_upd upd q) = under q' upd.
Proof.
  intros q q' upd Hne Hn. unfold purge_upd. destruct purge_drops_pending_updates; [|reflexivity].
  unfold under, kv_filter_prefix. rewrite filter_filter. apply filter_ext. intros [k m]. cbn [fst snd].
  destruct (is_prefix (msg_prefix_del q') k) eqn:P; [|reflexivity]. cbn [andb].
  destruct (keqb k (msg_key q (m_id m))) eqn:E; [|reflexivity]. apply keqb_eq in E. subst k.
  rewrite (not_under_other q q' (m_id m) Hne Hn) in P. discriminate.
Qed.

(* an API call addressed to q leaves everything the store holds under q' untouched *)
Theorem store_isolation_step : forall st l q q', addressed l = Some q -> q <> q' ->
  nof21_pair q q' = true -> nof21_pair q' q = true ->
  messages_of (fst (ms_step st l)) q' = messages_of st q'.
Proof.
  intros st l q q' Ha Hne H1 H2. destruct l; cbn in Ha; inversion Ha; subst; cbn [ms_step fst].
  - unfold messages_of, ms_add_msg, with_pending. cbn [ms_db ms_add ms_upd ms_del ms_fly]. rewrite under_set_other by assumption. reflexivity.
  - unfold messages_of, ms_update_msg, with_pending. cbn [ms_db ms_add ms_upd ms_del ms_fly]. rewrite under_set_other by assumption. reflexivity.
  - unfold messages_of, ms_del_msg, with_pending. cbn [ms_db ms_add ms_upd ms_del ms_fly]. rewrite under_set_other by assumption. reflexivity.
  - unfold ms_purge. destruct (purge_blocked st); [reflexivity|]. unfold messages_of. cbn [ms_db ms_add ms_upd ms_del ms_fly].
    rewrite under_purge_other, under_purge_del_other, under_purge_upd_other by assumption. reflexivity.
  - destruct (ms_iter_from st q id limit). reflexivity.
  - reflexivity.
  - destruct (ms_iter st q limit). reflexivity.
  - destruct (ms_recover st q limit). reflexivity.
Qed.

(* what recover reads for q' is a function of messages_of q' (badger) *)
Lemma in_take_n {A} : forall n (l : list A) x, In x (take_n n l) -> In x l.
Proof.
  intros n l. revert n. induction l as [|y t IH]; intros n x H; cbn in *; [exact H|].
  destruct (n =? 0); [contradiction|]. destruct H as [H|H]; [left; exact H | right; eapply IH; exact H].
Qed.

Lemma in_apply_limit {A} : forall n (l : list A) x, In x (apply_limit n l) -> In x l.
Proof. intros n l x H. unfold apply_limit in H. destruct (n =? 0); [exact H | eapply in_take_n; exact H]. Qed.

Lemma in_while_prefix {V} : forall (m : kv V) p x, In x (kv_while_prefix m p) -> In x m /\ is_prefix p (fst x) = true.
Proof.
  induction m as [|[k v] t IH]; intros p x H; cbn in *; [contradiction|].
  destruct (is_prefix p k) eqn:E; [|contradiction]. destruct H as [H|H].
  - subst. split; [left; reflexivity | exact E].
  - destruct (IH p x H). split; [right; assumption | assumption].
Qed.

Lemma in_seek {V} : forall (m : kv V) from x, In x (kv_seek m from) -> In x m.
Proof.
  induction m as [|[k v] t IH]; intros from x H; cbn in *; [contradiction|].
  destruct (kltb k from); [right; eapply IH; exact H | exact H].
Qed.

Lemma in_iter_from {V} : forall (m : kv V) p from limit x, In x (kv_iter_prefix_from m p from limit) ->
  In x m /\ is_prefix p (fst x) = true.
Proof.
  intros m p from limit x H. unfold kv_iter_prefix_from in H. apply in_apply_limit in H.
  apply in_while_prefix in H as [H1 H2]. split; [eapply in_seek; exact H1 | exact H2].
Qed.

(* ------------------------------------------------------------ C04: nothing unpublished appears *)
(* Src k m: some label Added or Updated message m under key k *)
Definition src_of (ls : list mlabel) (k : key) (m : msg) : Prop :=
  exists q, k = msg_key q (m_id m) /\ (In (MAdd m q) ls \/ In (MUpdate m q) ls).

Definition all_src (S : key -> msg -> Prop) (m : kv msg) : Prop := forall k v, In (k, v) m -> S k v.
Definition all_src_db (S : key -> msg -> Prop) (m : kv msg) : Prop := forall k v, In (k, v) m -> exists m0, S k m0 /\ v = strip m0.
Definition fly_src (S : key -> msg -> Prop) (f : option inflight) : Prop :=
  match f with Some f => all_src S (if_add f) /\ all_src S (if_upd f) | None => True end.
Definition src_inv (S : key -> msg -> Prop) (st : mstore) : Prop :=
  all_src_db S (ms_db st) /\ all_src S (ms_add st) /\ all_src S (ms_upd st) /\ fly_src S (ms_fly st).

Lemma in_set {V} : forall (m : kv V) k v x, In x (kv_set m k v) -> x = (k, v) \/ In x m.
Proof.
  induction m as [|[k0 v0] t IH]; intros k v x H; cbn in *.
  - destruct H as [H|[]]; left; congruence.
  - destruct (kcmp k k0); cbn in H.
    + destruct H as [H|H]; [left; congruence | right; right; exact H].
    + destruct H as [H|H]; [left; congruence | right; exact H].
    + destruct H as [H|H]; [right; left; exact H|]. apply IH in H as [H|H]; [left; exact H | right; right; exact H].
Qed.

Lemma in_batch : forall (ops : list (bop msg)) (db : kv msg) x, In x (kv_batch db ops) ->
  In x db \/ exists k v, In (BSet k v) ops /\ x = (k, v).
Proof.
  induction ops as [|o r IH]; intros db x H; cbn in H; [left; exact H|].
  apply IH in H as [H|(k & v & H1 & H2)].
  - destruct o; cbn in H.
    + apply in_set in H as [H|H]; [right; exists k, v; split; [left; reflexivity | exact H] | left; exact H].
    + apply filter_In in H as [H _]. left. exact H.
  - right. exists k, v. split; [right; exact H1 | exact H2].
Qed.

Lemma in_batch_of : forall f k v, In (BSet k v) (batch_of f) ->
  exists m, v = strip m /\ (In (k, m) (if_add f) \/ In (k, m) (if_upd f)).
Proof.
  intros f k v H. unfold batch_of in H. rewrite gen_batch_order in H. cbn [flat_map group_ops] in H. rewrite app_nil_r in H.
  apply in_app_or in H as [H|H]; [|apply in_app_or in H as [H|H]].
  - apply in_map_iff in H as [[k0 m0] [E Hin]]. inversion E; subst. exists m0. split; [reflexivity | left; exact Hin].
  - apply in_map_iff in H as [[k0 m0] [E Hin]]. inversion E; subst. exists m0. split; [reflexivity | right; exact Hin].
  - apply in_map_iff in H as [[k0 m0] [E Hin]]. discriminate.
Qed.

Lemma src_kill : forall S st, src_inv S st -> src_inv S (ms_kill st).
Proof.
  intros S st (H1 & H2 & H3 & H4). unfold src_inv, ms_kill. cbn. repeat split; try (intros k v []).
  destruct (ms_persistent st); [exact H1 | intros k v []].
Qed.

Lemma src_swap : forall S st, src_inv S st -> src_inv S (fst (ms_swap st)).
Proof.
  intros S st (H1 & H2 & H3 & H4). unfold ms_swap. destruct (ms_fly st) eqn:E; cbn.
  - unfold src_inv. rewrite E. cbn in H4. destruct H4 as [F1 F2]. cbn. repeat split; assumption.
  - unfold src_inv. cbn. repeat split; try exact H1; try (intros k v []);
      intros k v Hin; unfold cancel_add, cancel_upd in Hin; cbn in Hin; apply filter_In in Hin as [Hin _]; [apply H2 | apply H3]; exact Hin.
Qed.

Lemma src_batch : forall S st, src_inv S st -> src_inv S (fst (ms_batch st)).
Proof.
  intros S st Hinv. pose proof Hinv as (H1 & H2 & H3 & H4). rewrite ms_batch_eq.
  destruct (ms_fly st) as [f|] eqn:E; [|exact Hinv]. destruct (if_stage f); [|exact Hinv].
  destruct (eng_batch (ms_engine st) (ms_db st) (batch_of f)) as [db'|] eqn:Eb; cbn [fst]; [|apply src_kill; exact Hinv].
  assert (Hdb : db' = kv_batch (ms_db st) (batch_of f)).
  { destruct (ms_engine st); cbn [eng_batch] in Eb; [inversion Eb; reflexivity | apply batch_strict_eq; exact Eb]. }
  cbn in H4. destruct H4 as [Fa Fu]. unfold src_inv. cbn. repeat split; try assumption.
  intros k v Hin. subst db'. apply in_batch in Hin as [Hin|(k0 & v0 & Hop & Ex)]; [apply H1; exact Hin|].
  inversion Ex; subst. apply in_batch_of in Hop as (m & Ev & [Hm|Hm]); exists m; (split; [|exact Ev]); [apply Fa | apply Fu]; exact Hm.
Qed.

Lemma src_confirm : forall S st, src_inv S st -> src_inv S (fst (ms_confirm_step st)).
Proof.
  intros S st Hinv. pose proof Hinv as (H1 & H2 & H3 & H4). rewrite ms_confirm_eq.
  destruct (ms_fly st) as [f|] eqn:E; [|exact Hinv]. destruct (if_stage f); [exact Hinv|]. cbn [fst].
  unfold src_inv. cbn. repeat split; assumption.
Qed.

Lemma src_step : forall (S : key -> msg -> Prop) st l,
  (forall m q, l = MAdd m q \/ l = MUpdate m q -> S (msg_key q (m_id m)) m) ->
  src_inv S st -> src_inv S (fst (ms_step st l)).
Proof.
  intros S st l Hl Hinv. pose proof Hinv as (H1 & H2 & H3 & H4).
  destruct l; cbn [ms_step fst]; try exact Hinv.
  - unfold src_inv. cbn. repeat split; try assumption. intros k v Hin. apply in_set in Hin as [Hin|Hin]; [|apply H2; exact Hin].
    inversion Hin; subst. apply Hl. left. reflexivity.
  - unfold src_inv. cbn. repeat split; try assumption. intros k v Hin. apply in_set in Hin as [Hin|Hin]; [|apply H3; exact Hin].
    inversion Hin; subst. apply Hl. right. reflexivity.
  - unfold ms_purge. destruct (purge_blocked st); [exact Hinv|]. unfold src_inv. cbn [ms_db ms_add ms_upd ms_fly]. repeat split; try assumption.
    + intros k v Hin. apply H1. unfold eng_del_prefix in Hin.
      destruct (ms_engine st); [destruct badger_stub_delete_by_prefix | destruct bunt_stub_delete_by_prefix]; try exact Hin;
      unfold kv_del_prefix in Hin; apply filter_In in Hin as [Hin _]; exact Hin.
    + intros k v Hin. apply H3. unfold purge_upd in Hin. destruct purge_drops_pending_updates; [apply filter_In in Hin as [Hin _]; exact Hin | exact Hin].
  - destruct (ms_iter_from st q id limit). exact Hinv.
  - destruct (ms_iter st q limit). exact Hinv.
  - destruct (ms_recover st q limit). exact Hinv.
  - apply src_swap. exact Hinv.
  - apply src_batch. exact Hinv.
  - apply src_confirm. exact Hinv.
  - rewrite !seq_steps_fst. apply src_confirm, src_batch, src_swap. exact Hinv.
  - fold_close st. cbn [fst]. apply src_kill. unfold ms_tick. rewrite !seq_steps_fst. apply src_confirm, src_batch, src_swap. exact Hinv.
  - apply src_kill. exact Hinv.
Qed.

Lemma src_run : forall (S : key -> msg -> Prop) ls st,
  (forall m q, In (MAdd m q) ls \/ In (MUpdate m q) ls -> S (msg_key q (m_id m)) m) ->
  src_inv S st -> src_inv S (fst (ms_run st ls)).
Proof.
  induction ls as [|l r IH]; intros st Hl Hinv; [exact Hinv|]. rewrite run_cons. cbn [fst]. apply IH.
  - intros m q [H|H]; apply Hl; [left | right]; right; exact H.
  - apply src_step; [|exact Hinv]. intros m q [H|H]; apply Hl; [left | right]; left; exact H.
Qed.

Lemma src_init : forall S e p c, src_inv S (ms_init e p c).
Proof. intros. unfold src_inv. cbn. repeat split; intros k v []. Qed.

(* everything recover(q) returns is the stored form of a message that a label Added or Updated
   under a key that q's scan prefix covers *)
Theorem store_no_phantom_key : forall e p c ls q limit x,
  In x (fst (ms_recover (fst (ms_run (ms_init e p c) ls)) q limit)) ->
  exists q0 m0, x = strip m0 /\ (In (MAdd m0 q0) ls \/ In (MUpdate m0 q0) ls) /\
                is_prefix (msg_prefix_del q) (msg_key q0 (m_id m0)) = true.
Proof.
  intros e p c ls q limit x H.
  pose proof (src_run (src_of ls) ls (ms_init e p c)) as Hs.
  assert (Hinv : src_inv (src_of ls) (fst (ms_run (ms_init e p c) ls))).
  { apply Hs; [|apply src_init]. intros m q1 Hin. exists q1. split; [reflexivity | exact Hin]. }
  destruct Hinv as (Hdb & _). remember (fst (ms_run (ms_init e p c) ls)) as st.
  unfold ms_recover, ms_iter_from in H.
  destruct (eng_iter_prefix_from (ms_engine st) (ms_db st) (msg_prefix_from q) (msg_from_key q 0) limit) as [r n] eqn:Er.
  cbn [fst] in H. apply in_map_iff in H as [[k v] [Ex Hin]]. cbn in Ex. subst x.
  assert (Hin2 : In (k, v) (kv_iter_prefix_from (ms_db st) (msg_prefix_from q) (msg_from_key q 0) limit)).
  { unfold eng_iter_prefix_from in Er. destruct (ms_engine st);
      [destruct badger_stub_iterate_by_prefix_from | destruct bunt_stub_iterate_by_prefix_from]; inversion Er; subst; try contradiction; exact Hin. }
  apply in_iter_from in Hin2 as [Hd Hp]. cbn [fst] in Hp.
  destruct (Hdb k v Hd) as (m0 & (q0 & Ek & Hl) & Ev). exists q0, m0. repeat split; try assumption.
  subst k. exact Hp.
Qed.

(* ------------------------------------------------------------ queue-level corollaries (names instead of keys) *)
Definition no_del_of (q : bytes) (id : N) (ls : list mlabel) : bool :=
  forallb (fun l => negb (is_del_of (msg_key q id) l)) ls.
Definition no_purge_of (q : bytes) (ls : list mlabel) : bool := forallb (fun l => negb (is_purge_of q l)) ls.

Lemma label_safe_of : forall q id ls, nof21 (q :: label_names ls) = true ->
  no_del_of q id ls = true -> no_purge_of q ls = true -> forallb (label_safe (msg_key q id)) ls = true.
Proof.
  intros q id ls Hn Hd Hp. unfold no_del_of, no_purge_of in *. rewrite forallb_forall in *. intros l Hl.
  unfold label_safe. rewrite (Hd l Hl). cbn [andb]. apply negb_true_iff.
  destruct l; try reflexivity. unfold covers.
  destruct (is_prefix (msg_prefix_del q0) (msg_key q id)) eqn:E; [|reflexivity]. exfalso.
  assert (Hin : In q0 (q :: label_names ls)).
  { right. unfold label_names. apply in_flat_map. exists (MPurge q0). split; [exact Hl | left; reflexivity]. }
  pose proof (nof21_in _ q0 q Hn Hin (or_introl eq_refl)) as Hpair.
  apply (prefix_captures_only_own q0 q id Hpair) in E. subst q0.
  specialize (Hp _ Hl). unfold is_purge_of in Hp. rewrite bytes_eqb_refl in Hp. discriminate.
Qed.

(* C04 store core, as the property reads: persistent copy (q, m) storage-confirmed, never Del-requested,
   queue never purged, names free of F21's trigger => after ANY label sequence (every kill point) the key is in
   the engine, also after a Kill, and recover(q) returns its stored form *)
Theorem store_durable : forall c ls q m,
  nof21 (q :: label_names ls) = true ->
  no_del_of q (m_id m) ls = true -> no_purge_of q ls = true ->
  relay_in (msg_key q (m_id m)) (snd (ms_run (ms_init Badger true c) ls)) = true ->
  let st := ms_kill (fst (ms_run (ms_init Badger true c) ls)) in
  kv_mem (ms_db st) (msg_key q (m_id m)) = true.
Proof.
  intros c ls q m Hn Hd Hp Hr. cbv zeta. eapply store_durable_key; [|exact Hr]. apply label_safe_of; assumption.
Qed.

(* nothing recover(q) returns was never Added (or Updated) for q *)
Theorem store_no_phantom : forall e p c ls q limit x,
  nof21 (q :: label_names ls) = true ->
  In x (fst (ms_recover (fst (ms_run (ms_init e p c) ls)) q limit)) ->
  exists m0, x = strip m0 /\ (In (MAdd m0 q) ls \/ In (MUpdate m0 q) ls).
Proof.
  intros e p c ls q limit x Hn H. apply store_no_phantom_key in H as (q0 & m0 & Ex & Hl & Hp).
  assert (Hin : In q0 (q :: label_names ls)).
  { right. unfold label_names. apply in_flat_map. destruct Hl as [Hl|Hl]; [exists (MAdd m0 q0) | exists (MUpdate m0 q0)]; (split; [exact Hl | left; reflexivity]). }
  pose proof (nof21_in _ q q0 Hn (or_introl eq_refl) Hin) as Hpair.
  apply (prefix_captures_only_own q q0 _ Hpair) in Hp. subst q0. exists m0. split; assumption.
Qed.

(* ------------------------------------------------------------ refutations (closed computations on the model) *)
Definition qa := bs "a".
Definition qab := bs "a.b".
Definition mk (id data : N) : msg := {| m_id := id; m_data := data; m_ctag := Some 1; m_meta := id; m_expected := 1 |}.

(* F23: on the buntdb wrapper a confirmed message is never recovered *)
Lemma bunt_not_recovered :
  let ls := [MAdd (mk 100 1) qa; MPersistTick; MKill] in
  let r := ms_run (ms_init Bunt true true) ls in
  relay_in (msg_key qa 100) (snd r) = true /\ no_del_of qa 100 ls = true /\ no_purge_of qa ls = true /\
  kv_mem (ms_db (fst r)) (msg_key qa 100) = true /\ ms_recover (fst r) qa 0 = ([], 0).
Proof. vm_compute. repeat split; reflexivity. Qed.

(* F21: purge of "a" removes the confirmed message of "a.b"; recover("a") lists the message of "a.b" *)
Lemma f21_purge_crosses :
  let ls := [MAdd (mk 100 1) qab; MPersistTick; MPurge qa] in
  let r := ms_run (ms_init Badger true true) ls in
  relay_in (msg_key qab 100) (snd r) = true /\ no_del_of qab 100 ls = true /\ no_purge_of qab ls = true /\
  kv_mem (ms_db (fst r)) (msg_key qab 100) = false.
Proof. vm_compute. repeat split; reflexivity. Qed.

Lemma f21_recover_crosses :
  let ls := [MAdd (mk 100 1) qab; MPersistTick] in
  fst (ms_recover (fst (ms_run (ms_init Badger true true) ls)) qa 0) = [strip (mk 100 1)].
Proof. vm_compute. reflexivity. Qed.

Lemma f21_isolation_refuted :
  let st := fst (ms_run (ms_init Badger true true) [MAdd (mk 100 1) qab; MPersistTick]) in
  messages_of (fst (ms_step st (MPurge qa))) qab <> messages_of st qab.
Proof. vm_compute. discriminate. Qed.

(* ids of different decimal length are recovered out of publication order *)
Lemma order_refuted :
  let ls := [MAdd (mk 9 1) qa; MAdd (mk 10 2) qa; MPersistTick] in
  map m_id (fst (ms_recover (fst (ms_run (ms_init Badger true true) ls)) qa 0)) = [10; 9] /\ same_dec_len [9; 10] = false.
Proof. vm_compute. split; reflexivity. Qed.

(* F41 repaired (/repo 390cc62): a purge inside the flush window cancels the pending add - nothing comes back after the
   restart, and the publisher is still confirmed (through `settled`) *)
Lemma purge_in_window_repaired :
  let ls := [MAdd (mk 100 1) qa; MPurge qa; MPersistTick; MKill] in
  let r := ms_run (ms_init Badger true true) ls in
  fst (ms_recover (fst r) qa 0) = [] /\ ms_db (fst r) = [] /\ relay_in (msg_key qa 100) (snd r) = true.
Proof. vm_compute. repeat split; reflexivity. Qed.

(* a graceful stop writes out what is pending; a kill loses it *)
Lemma close_persists_kill_loses :
  map m_id (fst (ms_recover (fst (ms_run (ms_init Badger true true) [MAdd (mk 100 1) qa; MClose])) qa 0)) = [100] /\
  fst (ms_recover (fst (ms_run (ms_init Badger true true) [MAdd (mk 100 1) qa; MKill])) qa 0) = [].
Proof. vm_compute. split; reflexivity. Qed.

(* non-vacuity: a run satisfying every hypothesis of store_durable, with kills, other queues and a split persist *)
Lemma durable_example :
  let ls := [MAdd (mk 100 1) qa; MAdd (mk 101 2) (bs "b"); MPersistSwap; MAdd (mk 102 3) qa; MPersistBatch; MPurge (bs "b");
             MPersistConfirm; MKill; MAdd (mk 103 4) qa; MKill; MPersistTick] in
  nof21 (qa :: label_names ls) = true /\ no_del_of qa 100 ls = true /\ no_purge_of qa ls = true /\
  relay_in (msg_key qa 100) (snd (ms_run (ms_init Badger true true) ls)) = true /\
  map m_id (fst (ms_recover (ms_kill (fst (ms_run (ms_init Badger true true) ls))) qa 0)) = [100].
Proof. vm_compute. repeat split; reflexivity. Qed.


(* ------------------------------------------------------------ C04: recover lists survivors in id order *)
Definition dv (acc : N) (l : bytes) : N := fold_left (fun a c => 10 * a + (c - 48)) l acc.
Definition is_digit (c : N) : Prop := 48 <= c < 58.

Lemma dv_lt_acc : forall s t a1 a2, length s = length t -> Forall is_digit s -> Forall is_digit t -> a1 < a2 -> dv a1 s < dv a2 t.
Proof.
  induction s as [|x s IH]; intros t a1 a2 Hl Hs Ht Ha; destruct t as [|y t]; try discriminate; [exact Ha|].
  change (dv a1 (x :: s)) with (dv (10 * a1 + (x - 48)) s). change (dv a2 (y :: t)) with (dv (10 * a2 + (y - 48)) t).
  inversion Hs; subst. inversion Ht; subst. unfold is_digit in *. apply IH; try assumption; [cbn in Hl; lia | lia].
Qed.

Lemma dv_lex : forall s t a, length s = length t -> Forall is_digit s -> Forall is_digit t -> kcmp s t = Lt -> dv a s < dv a t.
Proof.
  induction s as [|x s IH]; intros t a Hl Hs Ht Hc; destruct t as [|y t]; try discriminate.
  inversion Hs; subst. inversion Ht; subst. cbn [kcmp] in Hc.
  change (dv a (x :: s)) with (dv (10 * a + (x - 48)) s). change (dv a (y :: t)) with (dv (10 * a + (y - 48)) t).
  destruct (N.compare x y) eqn:E; try discriminate.
  - apply N.compare_eq in E. subst. apply IH; try assumption. cbn in Hl. lia.
  - pose proof (proj1 (N.compare_lt_iff _ _) E) as L. unfold is_digit in *. apply dv_lt_acc; try assumption; [cbn in Hl; lia | lia].
Qed.

Lemma kcmp_app_l : forall p s t, kcmp (p ++ s) (p ++ t) = kcmp s t.
Proof. induction p as [|x p IH]; intros; cbn; [reflexivity|]. rewrite N.compare_refl. apply IH. Qed.

Lemma fmt_id_ok : forall id, id_ok id = true -> fmt_id msg_id_signed msg_id_base id = digits 10 id.
Proof.
  intros id H. unfold id_ok in H. apply N.ltb_lt in H. rewrite fmt_id_shape. cbv zeta.
  assert (T : two63 < two64) by (vm_compute; reflexivity).
  rewrite N.mod_small by lia. destruct (N.leb_spec two63 id); [lia | reflexivity].
Qed.

Lemma digits_are_digits : forall n, Forall is_digit (digits 10 n).
Proof. intro n. unfold digits. apply digits_fuel_chars. Qed.

Lemma key_lt_id_lt : forall q a b, id_ok a = true -> id_ok b = true ->
  length (fmt_id msg_id_signed msg_id_base a) = length (fmt_id msg_id_signed msg_id_base b) ->
  kcmp (msg_key q a) (msg_key q b) = Lt -> a < b.
Proof.
  intros q a b Ha Hb Hl Hc. rewrite !msg_key_shape in Hc. rewrite !kcmp_app_l in Hc.
  cbn [kcmp] in Hc. rewrite N.compare_refl in Hc. rewrite !fmt_id_ok in * by assumption.
  pose proof (dv_lex _ _ 0 Hl (digits_are_digits a) (digits_are_digits b) Hc) as H.
  unfold id_ok in *. apply N.ltb_lt in Ha, Hb. assert (T : two63 < two64) by (vm_compute; reflexivity).
  change (dv 0 (digits 10 a)) with (dec_val (digits 10 a)) in H. change (dv 0 (digits 10 b)) with (dec_val (digits 10 b)) in H.
  rewrite !digits_val in H by lia. exact H.
Qed.

(* sublists produced by the iteration keep the key order *)
Lemma ksorted_tail {V} : forall e (m : kv V), ksorted (e :: m) -> ksorted m.
Proof. intros e m H. apply ksorted_inv in H. tauto. Qed.

Lemma ksorted_while_prefix {V} : forall (m : kv V) p, ksorted m -> ksorted (kv_while_prefix m p).
Proof.
  induction m as [|[k v] t IH]; intros p H; cbn; [constructor|]. destruct (is_prefix p k); [|constructor].
  apply ksorted_inv in H as [Ht Hf]. constructor; [apply IH; exact Ht|].
  apply Forall_forall. intros x Hx. apply in_while_prefix in Hx as [Hx _]. eapply Forall_forall in Hf; eassumption.
Qed.

Lemma ksorted_take_n {V} : forall n (m : kv V), ksorted m -> ksorted (take_n n m).
Proof.
  intros n m. revert n. induction m as [|e t IH]; intros n H; cbn; [constructor|]. destruct (n =? 0); [constructor|].
  apply ksorted_inv in H as [Ht Hf]. constructor; [apply IH; exact Ht|].
  apply Forall_forall. intros x Hx. apply in_take_n in Hx. eapply Forall_forall in Hf; eassumption.
Qed.

Lemma ksorted_iter_from {V} : forall (m : kv V) p from limit, ksorted m -> ksorted (kv_iter_prefix_from m p from limit).
Proof.
  intros. unfold kv_iter_prefix_from, apply_limit. destruct (limit =? 0); [|apply ksorted_take_n];
    apply ksorted_while_prefix, ksorted_seek; assumption.
Qed.

Lemma sorted_ids_of_keys : forall q (L : kv msg), ksorted L ->
  (forall k v, In (k, v) L -> k = msg_key q (m_id v) /\ id_ok (m_id v) = true) ->
  (forall k1 v1 k2 v2, In (k1, v1) L -> In (k2, v2) L ->
     length (fmt_id msg_id_signed msg_id_base (m_id v1)) = length (fmt_id msg_id_signed msg_id_base (m_id v2))) ->
  sorted_ids (map snd L) = true.
Proof.
  induction L as [|[k1 v1] t IH]; intros Hs Hk Hl; [reflexivity|].
  destruct t as [|[k2 v2] t']; [reflexivity|]. cbn [map snd sorted_ids].
  apply ksorted_inv in Hs as [Ht Hf]. apply andb_true_iff. split.
  - apply N.ltb_lt. destruct (Hk k1 v1 (or_introl eq_refl)) as [E1 O1]. destruct (Hk k2 v2 (or_intror (or_introl eq_refl))) as [E2 O2].
    inversion Hf as [|? ? Hlt _]; subst. unfold klt_e in Hlt. cbn [fst] in Hlt.
    eapply key_lt_id_lt; try eassumption. eapply Hl; [left; reflexivity | right; left; reflexivity].
  - apply IH; [exact Ht | |].
    + intros k v H. apply Hk. right. exact H.
    + intros. eapply Hl; right; eassumption.
Qed.

Lemma same_dec_len_in : forall ids a b, same_dec_len ids = true -> In a ids -> In b ids ->
  length (fmt_id msg_id_signed msg_id_base a) = length (fmt_id msg_id_signed msg_id_base b).
Proof.
  intros ids a b H Ha Hb. destruct ids as [|i r]; [contradiction|]. cbn in H. rewrite forallb_forall in H.
  assert (X : forall x, In x (i :: r) -> length (fmt_id msg_id_signed msg_id_base x) = length (fmt_id msg_id_signed msg_id_base i)).
  { intros x [Hx|Hx]; [subst; reflexivity|]. apply Nat.eqb_eq. apply H. exact Hx. }
  rewrite (X a Ha), (X b Hb). reflexivity.
Qed.

Lemma ids_for_in : forall q ls m, In (MAdd m q) ls \/ In (MUpdate m q) ls -> In (m_id m) (ids_for q ls).
Proof.
  intros q ls m H. unfold ids_for. apply in_flat_map. destruct H as [H|H]; [exists (MAdd m q) | exists (MUpdate m q)];
    (split; [exact H|]); cbn; rewrite bytes_eqb_refl; left; reflexivity.
Qed.

(* the engine kind never changes *)
Lemma engine_swap : forall st, ms_engine (fst (ms_swap st)) = ms_engine st.
Proof. intro st. unfold ms_swap. destruct (ms_fly st); reflexivity. Qed.
Lemma engine_batch : forall st, ms_engine (fst (ms_batch st)) = ms_engine st.
Proof.
  intro st. rewrite ms_batch_eq. destruct (ms_fly st) as [f|]; [|reflexivity]. destruct (if_stage f); [|reflexivity].
  destruct (eng_batch (ms_engine st) (ms_db st) (batch_of f)); reflexivity.
Qed.
Lemma engine_confirm : forall st, ms_engine (fst (ms_confirm_step st)) = ms_engine st.
Proof. intro st. rewrite ms_confirm_eq. destruct (ms_fly st) as [f|]; [|reflexivity]. destruct (if_stage f); reflexivity. Qed.
Lemma engine_step : forall st l, ms_engine (fst (ms_step st l)) = ms_engine st.
Proof.
  intros st l. destruct l; cbn [ms_step fst]; try reflexivity.
  - unfold ms_purge. destruct (purge_blocked st); reflexivity.
  - destruct (ms_iter_from st q id limit); reflexivity.
  - destruct (ms_iter st q limit); reflexivity.
  - destruct (ms_recover st q limit); reflexivity.
  - apply engine_swap.
  - apply engine_batch.
  - apply engine_confirm.
  - rewrite !seq_steps_fst. rewrite engine_confirm, engine_batch, engine_swap. reflexivity.
  - fold_close st. cbn [fst]. unfold ms_tick. rewrite !seq_steps_fst. cbn [ms_kill ms_engine]. rewrite engine_confirm, engine_batch, engine_swap. reflexivity.
Qed.
Lemma engine_run : forall ls st, ms_engine (fst (ms_run st ls)) = ms_engine st.
Proof. induction ls as [|l r IH]; intro st; [reflexivity|]. rewrite run_cons. cbn [fst]. rewrite IH. apply engine_step. Qed.

(* recover(q) lists the surviving messages in increasing id order when q's ids have one decimal length (and are
   below 2^63, so that FormatInt(int64(id)) prints no sign) - keys sort as strings *)
Theorem store_recover_order : forall c ls q limit,
  nof21 (q :: label_names ls) = true ->
  same_dec_len (ids_for q ls) = true -> forallb id_ok (ids_for q ls) = true ->
  sorted_ids (fst (ms_recover (fst (ms_run (ms_init Badger true c) ls)) q limit)) = true.
Proof.
  intros c ls q limit Hn Hlen Hok.
  pose proof (src_run (src_of ls) ls (ms_init Badger true c)) as Hs.
  assert (Hinv : src_inv (src_of ls) (fst (ms_run (ms_init Badger true c) ls))).
  { apply Hs; [|apply src_init]. intros m q1 Hin. exists q1. split; [reflexivity | exact Hin]. }
  assert (Hwf : ms_wf (fst (ms_run (ms_init Badger true c) ls))) by (apply wf_run, wf_init).
  assert (He : ms_engine (fst (ms_run (ms_init Badger true c) ls)) = Badger) by (rewrite engine_run; reflexivity).
  remember (fst (ms_run (ms_init Badger true c) ls)) as st.
  destruct Hinv as (Hdb & _). destruct Hwf as (Hsd & _).
  unfold ms_recover, ms_iter_from. rewrite He. unfold eng_iter_prefix_from. rewrite (proj1 gen_badger_not_stub). cbn [fst].
  set (L := kv_iter_prefix_from (ms_db st) (msg_prefix_from q) (msg_from_key q 0) limit).
  apply (sorted_ids_of_keys q L).
  - apply ksorted_iter_from. exact Hsd.
  - intros k v Hin. apply in_iter_from in Hin as [Hd Hp]. cbn [fst] in Hp.
    destruct (Hdb k v Hd) as (m0 & (q0 & Ek & Hl) & Ev). subst k v.
    assert (Hq : q0 = q).
    { assert (Hin0 : In q0 (q :: label_names ls)).
      { right. unfold label_names. apply in_flat_map. destruct Hl as [Hl|Hl]; [exists (MAdd m0 q0) | exists (MUpdate m0 q0)]; (split; [exact Hl | left; reflexivity]). }
      pose proof (nof21_in _ q q0 Hn (or_introl eq_refl) Hin0) as Hpair. symmetry. eapply prefix_captures_only_own; eassumption. }
    subst q0. split; [reflexivity|]. cbn [strip m_id]. rewrite forallb_forall in Hok. apply Hok. apply ids_for_in. exact Hl.
  - intros k1 v1 k2 v2 H1 H2. apply in_iter_from in H1 as [D1 P1]. apply in_iter_from in H2 as [D2 P2]. cbn [fst] in P1, P2.
    destruct (Hdb k1 v1 D1) as (m1 & (q1 & E1 & L1) & V1). destruct (Hdb k2 v2 D2) as (m2 & (q2 & E2 & L2) & V2). subst.
    assert (Hq : forall q0 m0, (In (MAdd m0 q0) ls \/ In (MUpdate m0 q0) ls) -> is_prefix (msg_prefix_from q) (msg_key q0 (m_id m0)) = true -> q0 = q).
    { intros q0 m0 Hl Hp. assert (Hin0 : In q0 (q :: label_names ls)).
      { right. unfold label_names. apply in_flat_map. destruct Hl as [Hl|Hl]; [exists (MAdd m0 q0) | exists (MUpdate m0 q0)]; (split; [exact Hl | left; reflexivity]). }
      pose proof (nof21_in _ q q0 Hn (or_introl eq_refl) Hin0) as Hpair. symmetry. eapply prefix_captures_only_own; eassumption. }
    pose proof (Hq _ _ L1 P1). pose proof (Hq _ _ L2 P2). subst. cbn [strip m_id].
    eapply same_dec_len_in; [exact Hlen | apply ids_for_in; exact L1 | apply ids_for_in; exact L2].
Qed.

(* ------------------------------------------------------------ C17: trace-level isolation (badger) *)
(* two stores agree outside q's scan prefix *)
Definition off (q : bytes) (k : key) : Prop := is_prefix (msg_prefix_del q) k = false.
Definition agree_map (q : bytes) (m1 m2 : kv msg) : Prop := forall k, off q k -> kv_get m1 k = kv_get m2 k.
Definition agree_fly (q : bytes) (f1 f2 : option inflight) : Prop :=
  match f1, f2 with
  | None, None => True
  | Some a, Some b => if_stage a = if_stage b /\ agree_map q (if_add a) (if_add b) /\ agree_map q (if_upd a) (if_upd b) /\
                      agree_map q (if_del a) (if_del b)
  | _, _ => False
  end.
Record agree (q : bytes) (s1 s2 : mstore) : Prop := {
  ag_wf1 : ms_wf s1; ag_wf2 : ms_wf s2;
  ag_e1 : ms_engine s1 = Badger; ag_e2 : ms_engine s2 = Badger;
  ag_p : ms_persistent s1 = ms_persistent s2; ag_c : ms_confirm s1 = ms_confirm s2;
  ag_db : agree_map q (ms_db s1) (ms_db s2); ag_add : agree_map q (ms_add s1) (ms_add s2);
  ag_upd : agree_map q (ms_upd s1) (ms_upd s2); ag_del : agree_map q (ms_del s1) (ms_del s2);
  ag_fly : agree_fly q (ms_fly s1) (ms_fly s2)
}.

Lemma agree_set_both : forall q m1 m2 k v, agree_map q m1 m2 -> agree_map q (kv_set m1 k v) (kv_set m2 k v).
Proof. intros q m1 m2 k v H x Hx. rewrite !get_set. destruct (keqb x k); [reflexivity | apply H; exact Hx]. Qed.

Lemma agree_set_left : forall q m1 m2 k v, agree_map q m1 m2 -> is_prefix (msg_prefix_del q) k = true -> agree_map q (kv_set m1 k v) m2.
Proof.
  intros q m1 m2 k v H Hk x Hx. rewrite get_set. destruct (keqb x k) eqn:E; [|apply H; exact Hx].
  apply keqb_eq in E. subst. unfold off in Hx. congruence.
Qed.

Lemma agree_filter_mem : forall q (a1 a2 d1 d2 : kv msg), agree_map q a1 a2 -> agree_map q d1 d2 ->
  agree_map q (filter (fun e => negb (kv_mem d1 (fst e))) a1) (filter (fun e => negb (kv_mem d2 (fst e))) a2).
Proof.
  intros q a1 a2 d1 d2 Ha Hd x Hx.
  rewrite (get_filter msg (fun k => negb (kv_mem d1 k))), (get_filter msg (fun k => negb (kv_mem d2 k))).
  unfold kv_mem. rewrite (Hd x Hx), (Ha x Hx). reflexivity.
Qed.

Lemma agree_step_left : forall q s1 s2 l, agree q s1 s2 -> addressed_to q l = true -> agree q (fst (ms_step s1 l)) s2.
Proof.
  intros q s1 s2 l H Hl. pose proof (wf_step s1 l (ag_wf1 _ _ _ H)) as Hwf. destruct H.
  unfold addressed_to in Hl. destruct l; cbn in Hl; try discriminate; apply bytes_eqb_eq in Hl; subst; cbn [ms_step fst] in *.
  - constructor; try assumption. cbn. apply agree_set_left; [assumption | apply msg_key_under_own_prefix].
  - constructor; try assumption. cbn. apply agree_set_left; [assumption | apply msg_key_under_own_prefix].
  - constructor; try assumption. cbn. apply agree_set_left; [assumption | apply msg_key_under_own_prefix].
  - (* MPurge q0: everything it touches lies under q0's scan prefix *)
    destruct (ms_fly s1) as [f|] eqn:E; [rewrite (ms_purge_blocked s1 q0 f E) in *; constructor; try assumption; rewrite E; exact ag_fly0|].
    rewrite (ms_purge_eq s1 q0 E) in *. destruct ag_wf3 as (Sd & Sa & Su & Sdl & Sf).
    constructor; try assumption; cbn [ms_db ms_add ms_upd ms_del ms_fly ms_engine ms_persistent ms_confirm].
    + rewrite ag_e3. unfold eng_del_prefix. rewrite (proj1 (proj2 gen_badger_not_stub)). intros x Hx. rewrite get_del_prefix. unfold off in Hx. rewrite Hx. apply ag_db0. exact Hx.
    + intros x Hx. rewrite get_purge_upd by exact Su. rewrite <- (ag_upd0 x Hx). destruct (kv_get (ms_upd s1) x) as [m|]; [|reflexivity].
      destruct (keqb x (msg_key q0 (m_id m))) eqn:Ek; [|reflexivity]. apply keqb_eq in Ek. unfold off in Hx. rewrite Ek, msg_key_under_own_prefix in Hx. discriminate.
    + intros x Hx. rewrite get_purge_del by exact Sa. destruct (kv_get (ms_add s1) x) as [m|]; [|apply ag_del0; exact Hx].
      destruct (keqb x (msg_key q0 (m_id m))) eqn:Ek; [|apply ag_del0; exact Hx]. apply keqb_eq in Ek. unfold off in Hx. rewrite Ek, msg_key_under_own_prefix in Hx. discriminate.
  - destruct (ms_iter_from s1 q0 id limit). constructor; assumption.
  - constructor; assumption.
  - destruct (ms_iter s1 q0 limit). constructor; assumption.
  - destruct (ms_recover s1 q0 limit). constructor; assumption.
Qed.

Lemma agree_swap : forall q s1 s2, agree q s1 s2 -> agree q (fst (ms_swap s1)) (fst (ms_swap s2)).
Proof.
  intros q s1 s2 H. pose proof (wf_swap s1 (ag_wf1 _ _ _ H)) as W1. pose proof (wf_swap s2 (ag_wf2 _ _ _ H)) as W2. destruct H.
  unfold ms_swap in *. destruct (ms_fly s1) as [f1|] eqn:E1, (ms_fly s2) as [f2|] eqn:E2; cbn in ag_fly0; try contradiction; cbn [fst] in *.
  - constructor; try assumption. rewrite E1, E2. exact ag_fly0.
  - constructor; try assumption; cbn; try (intros x Hx; reflexivity).
    unfold cancel_add, cancel_upd, cancel_del. cbn. repeat split; apply agree_filter_mem; assumption.
Qed.

Lemma agree_batch : forall q s1 s2, agree q s1 s2 -> agree q (fst (ms_batch s1)) (fst (ms_batch s2)).
Proof.
  intros q s1 s2 H. pose proof (wf_batch s1 (ag_wf1 _ _ _ H)) as W1. pose proof (wf_batch s2 (ag_wf2 _ _ _ H)) as W2. destruct H.
  rewrite !ms_batch_eq in *. destruct (ms_fly s1) as [f1|] eqn:E1, (ms_fly s2) as [f2|] eqn:E2; cbn in ag_fly0; try contradiction.
  - destruct ag_fly0 as (Hs & Ha & Hu & Hd). rewrite <- Hs in *. destruct (if_stage f1) eqn:Es.
    + rewrite ag_e3, ag_e4 in *. cbn [eng_batch fst] in *.
      destruct ag_wf3 as (_ & _ & _ & _ & F1). destruct ag_wf4 as (_ & _ & _ & _ & F2). rewrite E1 in F1. rewrite E2 in F2. cbn in F1, F2.
      constructor; try assumption; unfold set_db, written; cbn [ms_db ms_add ms_upd ms_del ms_fly ms_engine ms_persistent ms_confirm if_stage if_add if_upd if_del agree_fly].
      * intros x Hx. rewrite !get_persist_batch by tauto. unfold kv_mem. rewrite (Hd x Hx), (Hu x Hx), (Ha x Hx), (ag_db0 x Hx). reflexivity.
      * repeat split; assumption.
    + cbn [fst] in *. constructor; try assumption. rewrite E1, E2. cbn. rewrite ?Es. repeat split; try assumption; try congruence.
  - cbn [fst] in *. constructor; try assumption. rewrite E1, E2. exact I.
Qed.

Lemma agree_confirm : forall q s1 s2, agree q s1 s2 -> agree q (fst (ms_confirm_step s1)) (fst (ms_confirm_step s2)).
Proof.
  intros q s1 s2 H. pose proof (wf_confirm s1 (ag_wf1 _ _ _ H)) as W1. pose proof (wf_confirm s2 (ag_wf2 _ _ _ H)) as W2. destruct H.
  rewrite !ms_confirm_eq in *. destruct (ms_fly s1) as [f1|] eqn:E1, (ms_fly s2) as [f2|] eqn:E2; cbn in ag_fly0; try contradiction.
  - destruct ag_fly0 as (Hs & Ha & Hu & Hd). rewrite <- Hs in *. destruct (if_stage f1) eqn:Es; cbn [fst] in *.
    + constructor; try assumption. rewrite E1, E2. cbn. rewrite ?Es. repeat split; try assumption; try congruence.
    + constructor; try assumption. cbn. exact I.
  - cbn [fst] in *. constructor; try assumption. rewrite E1, E2. exact I.
Qed.

Lemma agree_kill : forall q s1 s2, agree q s1 s2 -> agree q (ms_kill s1) (ms_kill s2).
Proof.
  intros q s1 s2 H. pose proof (wf_kill s1 (ag_wf1 _ _ _ H)) as W1. pose proof (wf_kill s2 (ag_wf2 _ _ _ H)) as W2. destruct H.
  constructor; try assumption; cbn; try (intros x Hx; reflexivity); try exact I.
  rewrite <- ag_p0. destruct (ms_persistent s1); [exact ag_db0 | intros x Hx; reflexivity].
Qed.

Lemma agree_step_both : forall q s1 s2 l, agree q s1 s2 -> addressed_to q l = false ->
  agree q (fst (ms_step s1 l)) (fst (ms_step s2 l)).
Proof.
  intros q s1 s2 l H Hl. pose proof (wf_step s1 l (ag_wf1 _ _ _ H)) as W1. pose proof (wf_step s2 l (ag_wf2 _ _ _ H)) as W2.
  destruct l; cbn [ms_step fst] in *.
  - destruct H. constructor; try assumption. cbn. apply agree_set_both. assumption.
  - destruct H. constructor; try assumption. cbn. apply agree_set_both. assumption.
  - destruct H. constructor; try assumption. cbn. apply agree_set_both. assumption.
  - (* MPurge q0 on both sides: blocked on both or on neither *)
    destruct H. destruct (ms_fly s1) as [f1|] eqn:E1, (ms_fly s2) as [f2|] eqn:E2; cbn in ag_fly0; try contradiction.
    + rewrite (ms_purge_blocked s1 q0 f1 E1), (ms_purge_blocked s2 q0 f2 E2) in *. constructor; try assumption. rewrite E1, E2. exact ag_fly0.
    + rewrite (ms_purge_eq s1 q0 E1), (ms_purge_eq s2 q0 E2) in *.
      destruct ag_wf3 as (Sd1 & Sa1 & Su1 & Sdl1 & Sf1). destruct ag_wf4 as (Sd2 & Sa2 & Su2 & Sdl2 & Sf2).
      constructor; try assumption; cbn [ms_db ms_add ms_upd ms_del ms_fly ms_engine ms_persistent ms_confirm].
      * rewrite ag_e3, ag_e4. unfold eng_del_prefix. rewrite (proj1 (proj2 gen_badger_not_stub)). intros x Hx. rewrite !get_del_prefix.
        destruct (is_prefix (msg_prefix_del q0) x); [reflexivity | apply ag_db0; exact Hx].
      * intros x Hx. rewrite !get_purge_upd by assumption. rewrite (ag_upd0 x Hx). reflexivity.
      * intros x Hx. rewrite !get_purge_del by assumption. rewrite (ag_add0 x Hx), (ag_del0 x Hx). reflexivity.
  - destruct (ms_iter_from s1 q0 id limit), (ms_iter_from s2 q0 id limit). exact H.
  - exact H.
  - destruct (ms_iter s1 q0 limit), (ms_iter s2 q0 limit). exact H.
  - destruct (ms_recover s1 q0 limit), (ms_recover s2 q0 limit). exact H.
  - apply agree_swap. exact H.
  - apply agree_batch. exact H.
  - apply agree_confirm. exact H.
  - rewrite !seq_steps_fst. apply agree_confirm, agree_batch, agree_swap. exact H.
  - destruct H. constructor; assumption.
  - (* MClose *) clear W1 W2. fold_close s1. fold_close s2. cbn [fst]. apply agree_kill. unfold ms_tick. rewrite !seq_steps_fst.
    apply agree_confirm, agree_batch, agree_swap. exact H.
  - apply agree_kill. exact H.
Qed.

Lemma agree_run : forall q ls s1 s2, agree q s1 s2 ->
  agree q (fst (ms_run s1 ls)) (fst (ms_run s2 (filter (fun l => negb (addressed_to q l)) ls))).
Proof.
  induction ls as [|l r IH]; intros s1 s2 H; [exact H|]. rewrite run_cons. cbn [fst filter].
  destruct (addressed_to q l) eqn:E; cbn [negb].
  - apply IH. apply agree_step_left; assumption.
  - rewrite run_cons. cbn [fst]. apply IH. apply agree_step_both; assumption.
Qed.

Lemma agree_refl : forall q e p c, e = Badger -> agree q (ms_init e p c) (ms_init e p c).
Proof.
  intros q e p c ->. constructor; try (apply (wf_init Badger p c)); try reflexivity; try (intros x Hx; reflexivity).
  all: try exact I.
Qed.

Lemma under_agree : forall q q' (m1 m2 : kv msg), q <> q' -> nof21_pair q q' = true -> nof21_pair q' q = true ->
  ksorted m1 -> ksorted m2 -> agree_map q m1 m2 -> under q' m1 = under q' m2.
Proof.
  intros q q' m1 m2 Hne H1 H2 S1 S2 Ha. unfold under, kv_filter_prefix.
  apply ksorted_ext; try (apply ksorted_filter; assumption).
  intro k. rewrite !(get_filter msg (fun x => is_prefix (msg_prefix_del q') x)).
  destruct (is_prefix (msg_prefix_del q') k) eqn:E; [|reflexivity]. apply Ha. unfold off. eapply prefixes_disjoint; eassumption.
Qed.

(* removing every API call addressed to q from a run - ticks, persist phases, kills and the other queues' calls kept -
   leaves everything the store holds for q' (engine entries, pending maps, the batch in flight) unchanged *)
Theorem store_isolation_trace : forall p c ls q q', q <> q' -> nof21_pair q q' = true -> nof21_pair q' q = true ->
  messages_of (fst (ms_run (ms_init Badger p c) ls)) q' =
  messages_of (fst (ms_run (ms_init Badger p c) (filter (fun l => negb (addressed_to q l)) ls))) q'.
Proof.
  intros p c ls q q' Hne H1 H2. pose proof (agree_run q ls _ _ (agree_refl q Badger p c eq_refl)) as H.
  remember (fst (ms_run (ms_init Badger p c) ls)) as s1.
  remember (fst (ms_run (ms_init Badger p c) (filter (fun l => negb (addressed_to q l)) ls))) as s2.
  destruct H. destruct ag_wf3 as (D1 & A1 & U1 & L1 & F1). destruct ag_wf4 as (D2 & A2 & U2 & L2 & F2).
  unfold messages_of. f_equal; try (apply (under_agree q q'); assumption).
  unfold fly_under. destruct (ms_fly s1) as [f1|], (ms_fly s2) as [f2|]; cbn in ag_fly0; try contradiction; [|reflexivity].
  destruct ag_fly0 as (Hs & Ha & Hu & Hd). cbn in F1, F2. rewrite Hs.
  rewrite (under_agree q q' (if_add f1) (if_add f2)), (under_agree q q' (if_upd f1) (if_upd f2)), (under_agree q q' (if_del f1) (if_del f2)); try tauto.
Qed.

(* buntdb: a Del of an absent key of queue "a" fails the whole batch, and the message of queue "b" in it is lost *)
Lemma bunt_trace_isolation_refuted : exists ls q q', q <> q' /\ nof21_pair q q' = true /\ nof21_pair q' q = true /\
  messages_of (fst (ms_run (ms_init Bunt true true) ls)) q' <>
  messages_of (fst (ms_run (ms_init Bunt true true) (filter (fun l => negb (addressed_to q l)) ls))) q'.
Proof.
  exists [MAdd (mk 100 1) (bs "b"); MDel (mk 5 0) qa; MPersistTick], qa, (bs "b").
  split; [discriminate|]. split; [reflexivity|]. split; [reflexivity|]. vm_compute. discriminate.
Qed.

(* ------------------------------------------------------------ C04: "not purged SINCE" - purges before the first write of the key are harmless *)
Definition untouched (k : key) (l : mlabel) : bool := negb (is_write_of k l) && negb (is_del_of k l).

Definition clean_fly (k : key) (f : option inflight) : Prop :=
  match f with Some f => kv_mem (if_add f) k = false /\ kv_mem (if_del f) k = false /\ kv_mem (if_settled f) k = false | None => True end.
Definition clean (k : key) (st : mstore) : Prop :=
  ms_wf st /\ ms_engine st = Badger /\ ms_persistent st = true /\
  kv_mem (ms_add st) k = false /\ kv_mem (ms_del st) k = false /\ clean_fly k (ms_fly st).

Lemma relays_none : forall k c cs f, kv_mem (if_add f) k = false -> kv_mem (if_settled f) k = false ->
  relay_in k (snd (relays_of c cs f)) = false.
Proof.
  intros k c cs f H1 H2. destruct (relay_in k (snd (relays_of c cs f))) eqn:E; [|reflexivity].
  apply relay_in_relays in E as [E|E]; congruence.
Qed.

Lemma clean_swap : forall k st, clean k st -> clean k (fst (ms_swap st)) /\ relay_in k (snd (ms_swap st)) = false.
Proof.
  intros k st (Hwf & He & Hp & Ha & Hd & Hf). split; [|unfold ms_swap; destruct (ms_fly st); [reflexivity | apply relay_in_cancelled]].
  split; [apply wf_swap; exact Hwf|]. unfold ms_swap. destruct (ms_fly st) as [f|] eqn:E; cbn.
  - rewrite E. cbn in Hf. destruct Hf as (F1 & F2 & F3). unfold clean_fly. repeat split; assumption.
  - unfold clean_fly. repeat split; try assumption; try reflexivity; unfold cancel_add, cancel_del, settled_of; cbn.
    + apply mem_filter_false with (P := fun x => negb (kv_mem (ms_del st) x)). exact Ha.
    + apply mem_filter_false with (P := fun x => negb (kv_mem (ms_add st) x)). exact Hd.
    + apply mem_filter_false with (P := fun x => kv_mem (ms_del st) x). exact Ha.
Qed.

Lemma clean_batch : forall k st, clean k st -> clean k (fst (ms_batch st)) /\ relay_in k (snd (ms_batch st)) = false.
Proof.
  intros k st Hc. pose proof Hc as (Hwf & He & Hp & Ha & Hd & Hf). pose proof (wf_batch st Hwf) as W. rewrite ms_batch_eq in *.
  destruct (ms_fly st) as [f|] eqn:E; [|split; [exact Hc | reflexivity]].
  destruct (if_stage f) eqn:Es; [|split; [exact Hc | reflexivity]].
  rewrite He in *. cbn [eng_batch fst snd] in *. split; [|reflexivity].
  split; [exact W|]. cbn in Hf. destruct Hf as (F1 & F2 & F3). unfold clean_fly. cbn. repeat split; assumption.
Qed.

Lemma clean_confirm : forall k st, clean k st -> clean k (fst (ms_confirm_step st)) /\ relay_in k (snd (ms_confirm_step st)) = false.
Proof.
  intros k st Hc. pose proof Hc as (Hwf & He & Hp & Ha & Hd & Hf). pose proof (wf_confirm st Hwf) as W. rewrite ms_confirm_eq in *.
  destruct (ms_fly st) as [f|] eqn:E; [|split; [exact Hc | reflexivity]].
  destruct (if_stage f) eqn:Es; [split; [exact Hc | reflexivity]|].
  cbn [fst snd] in *. cbn in Hf. destruct Hf as (F1 & F2 & F3). split; [|apply relays_none; assumption].
  split; [exact W|]. cbn. repeat split; assumption.
Qed.

Lemma clean_tick : forall k st, clean k st -> clean k (fst (ms_tick st)) /\ relay_in k (snd (ms_tick st)) = false.
Proof.
  intros k st Hc. unfold ms_tick. rewrite !seq_steps_fst, !seq_steps_snd, !relay_in_app. destruct (clean_swap k st Hc) as [H1 H2]. rewrite H2.
  destruct (clean_batch k _ H1) as [H3 H4]. destruct (clean_confirm k _ H3) as [H5 H6]. rewrite H4, H6. split; [exact H5 | reflexivity].
Qed.

Lemma clean_step : forall k st l, clean k st -> untouched k l = true ->
  clean k (fst (ms_step st l)) /\ relay_in k (snd (ms_step st l)) = false.
Proof.
  intros k st l Hc Hl. pose proof Hc as (Hwf & He & Hp & Ha & Hd & Hf).
  unfold untouched in Hl. apply andb_true_iff in Hl as [Hw Hdl]. apply negb_true_iff in Hw, Hdl.
  destruct l; cbn [ms_step fst snd]; try (split; [|reflexivity]).
  - split; [apply (wf_step st (MAdd m q)); exact Hwf|]. cbn. repeat split; try assumption.
    unfold is_write_of in Hw. apply keqb_neq in Hw. rewrite mem_set_other by (intro X; apply Hw; symmetry; exact X). exact Ha.
  - split; [apply (wf_step st (MUpdate m q)); exact Hwf|]. cbn. repeat split; assumption.
  - split; [apply (wf_step st (MDel m q)); exact Hwf|]. cbn. repeat split; try assumption.
    unfold is_del_of in Hdl. apply keqb_neq in Hdl. rewrite mem_set_other by (intro X; apply Hdl; symmetry; exact X). exact Hd.
  - (* MPurge: any purge; k is in no pending add, so no del of k appears *)
    destruct (ms_fly st) as [f|] eqn:E; [rewrite (ms_purge_blocked st q f E); exact Hc|].
    split; [apply wf_purge; exact Hwf|]. rewrite (ms_purge_eq st q E). destruct Hwf as (Sd & Sa & Su & Sdl & Sf).
    assert (Hdel : kv_mem (purge_del (ms_add st) (ms_del st) q) k = false).
    { unfold kv_mem in *. rewrite get_purge_del by exact Sa. destruct (kv_get (ms_add st) k); [discriminate | exact Hd]. }
    remember (purge_del (ms_add st) (ms_del st) q) as d' eqn:Ed' in *. remember (purge_upd (ms_upd st) q) as u' eqn:Eu' in *.
    remember (eng_del_prefix (ms_engine st) (ms_db st) (msg_prefix_del q)) as db' eqn:Edb in *.
    cbn. repeat split; try assumption.
  - destruct (ms_iter_from st q id limit). cbn. split; [exact Hc | reflexivity].
  - exact Hc.
  - destruct (ms_iter st q limit). cbn. split; [exact Hc | reflexivity].
  - destruct (ms_recover st q limit). cbn. split; [exact Hc | reflexivity].
  - apply clean_swap. exact Hc.
  - apply clean_batch. exact Hc.
  - apply clean_confirm. exact Hc.
  - apply clean_tick. exact Hc.
  - destruct Hwf as (W1 & W2 & W3 & W4 & W5). unfold clean, ms_wf. cbn. repeat split; assumption.
  - (* MClose *) fold_close st. cbn [fst snd]. destruct (clean_tick k st Hc) as [T1 T2]. split; [|exact T2].
    destruct T1 as (W & E1 & P1 & _). split; [apply wf_kill; exact W|]. unfold ms_kill. cbn. rewrite P1. repeat split; try assumption; reflexivity.
  - split; [apply wf_kill; exact Hwf|]. unfold ms_kill. cbn. rewrite Hp. repeat split; try assumption; reflexivity.
Qed.

Lemma clean_run : forall k ls st, clean k st -> forallb (untouched k) ls = true ->
  clean k (fst (ms_run st ls)) /\ relay_in k (snd (ms_run st ls)) = false.
Proof.
  induction ls as [|l r IH]; intros st Hc Hs; [split; [exact Hc | reflexivity]|].
  cbn [forallb] in Hs. apply andb_true_iff in Hs as [Hl Hr]. rewrite run_cons. cbn [fst snd].
  destruct (clean_step k st l Hc Hl) as [H1 H2]. destruct (IH _ H1 Hr) as [H3 H4].
  split; [exact H3|]. rewrite relay_in_app, H2, H4. reflexivity.
Qed.

Lemma clean_dur : forall k st, clean k st -> dur_inv k st false.
Proof.
  intros k st (Hwf & He & Hp & Ha & Hd & Hf). unfold dur_inv, fly_del_free, fly_written_in.
  destruct (ms_fly st) as [f|]; cbn in Hf.
  - destruct Hf as (Hf1 & Hf2 & Hf3). split; [exact Hwf|]. split; [exact He|]. split; [exact Hp|]. split; [exact Hd|].
    split; [split; assumption|]. split; [discriminate|]. intros _ X. congruence.
  - split; [exact Hwf|]. split; [exact He|]. split; [exact Hp|]. split; [exact Hd|]. split; [exact I|]. split; [discriminate | exact I].
Qed.

Lemma run_app : forall a b st, ms_run st (a ++ b) =
  (fst (ms_run (fst (ms_run st a)) b), snd (ms_run st a) ++ snd (ms_run (fst (ms_run st a)) b)).
Proof.
  induction a as [|l r IH]; intros b st.
  - cbn. destruct (ms_run st b). reflexivity.
  - cbn [app]. rewrite !run_cons, IH. cbn [fst snd]. rewrite app_assoc. reflexivity.
Qed.

(* before ls1 nothing wrote or Del-requested key k (any purges allowed there); in ls1 no Del of k and no purge covering k *)
Theorem store_durable_since : forall c ls0 ls1 k,
  forallb (untouched k) ls0 = true -> forallb (label_safe k) ls1 = true ->
  relay_in k (snd (ms_run (ms_init Badger true c) (ls0 ++ ls1))) = true ->
  kv_mem (ms_db (ms_kill (fst (ms_run (ms_init Badger true c) (ls0 ++ ls1))))) k = true.
Proof.
  intros c ls0 ls1 k H0 H1 Hr. rewrite run_app in *. cbn [fst snd] in *.
  assert (Hc : clean k (ms_init Badger true c)).
  { split; [apply wf_init|]. cbn. repeat split; reflexivity. }
  destruct (clean_run k ls0 _ Hc H0) as [Hc0 Hr0]. rewrite relay_in_app, Hr0 in Hr. cbn [orb] in Hr.
  pose proof (dur_run k ls1 _ _ (clean_dur _ _ Hc0) H1) as Hinv. cbn [orb] in Hinv. rewrite Hr in Hinv.
  apply dur_kill in Hinv. destruct Hinv as (_ & _ & _ & _ & _ & Hb & _). apply Hb. reflexivity.
Qed.


(* for a key that no label Del-requests and whose queue no label purges, the refined clause is the plain one *)
Theorem store_not_early_undeleted : forall e p c ls evs1 k m evs2,
  existsb (del_or_purge k) ls = false ->
  snd (ms_run (ms_init e p c) ls) = evs1 ++ EvRelay k m :: evs2 ->
  existsb (batch_sets k) evs1 = true.
Proof.
  intros e p c ls evs1 k m evs2 Hd E. destruct (store_not_early e p c ls evs1 k m evs2 E) as [H|H]; [exact H|]. exfalso.
  assert (X : existsb (cancelled_ev k) (snd (ms_run (ms_init e p c) ls)) = true).
  { rewrite E, existsb_app, H. reflexivity. }
  apply cancelled_means_settled in X as [_ X]. congruence.
Qed.

(* ------------------------------------------------------------ PurgeQueue is effective (F41 repaired) *)
(* after a purge of q that is not waiting for a running persist, a key of q stays out of the engine for as long as
   nothing writes it again - whatever was pending for it at the time of the purge *)
Definition gone_fly (k : key) (f : option inflight) : Prop :=
  match f with Some f => kv_mem (if_add f) k = false /\ kv_mem (if_upd f) k = false | None => True end.
Definition gone (k : key) (st : mstore) : Prop :=
  ms_wf st /\ kv_mem (ms_db st) k = false /\ (kv_mem (ms_add st) k = true -> kv_mem (ms_del st) k = true) /\
  kv_mem (ms_upd st) k = false /\ gone_fly k (ms_fly st).

Lemma msg_key_queue_inj : forall q id q' id', msg_key q id = msg_key q' id' -> q = q'.
Proof.
  intros q id q' id' E. rewrite !msg_key_shape in E. apply app_inv_head in E.
  apply app_sep_inj_last in E as [E _]; try apply fmt_id_dotfree. exact E.
Qed.

Lemma gone_kill : forall k st, gone k st -> gone k (ms_kill st).
Proof.
  intros k st (Hwf & Hd & Ha & Hu & Hf). split; [apply wf_kill; exact Hwf|]. unfold ms_kill. cbn.
  repeat split; try reflexivity; try discriminate. destruct (ms_persistent st); [exact Hd | reflexivity].
Qed.

Lemma gone_swap : forall k st, gone k st -> gone k (fst (ms_swap st)).
Proof.
  intros k st (Hwf & Hd & Ha & Hu & Hf). split; [apply wf_swap; exact Hwf|]. unfold ms_swap. destruct (ms_fly st) as [f|] eqn:E; cbn.
  - rewrite E. cbn in Hf. destruct Hf. unfold gone_fly. repeat split; assumption.
  - unfold gone_fly. repeat split; try assumption; try reflexivity; try discriminate.
    + unfold cancel_add. cbn. unfold kv_mem in *. rewrite (get_filter msg (fun x => negb (kv_mem (ms_del st) x))). unfold kv_mem.
      destruct (kv_get (ms_add st) k) eqn:Ea; [|destruct (kv_get (ms_del st) k); reflexivity].
      rewrite Ha by reflexivity. reflexivity.
    + unfold cancel_upd. cbn. apply mem_filter_false with (P := fun x => negb (kv_mem (ms_del st) x)). exact Hu.
Qed.

Lemma gone_batch : forall k st, gone k st -> gone k (fst (ms_batch st)).
Proof.
  intros k st Hg. pose proof Hg as (Hwf & Hd & Ha & Hu & Hf). pose proof (wf_batch st Hwf) as W. rewrite ms_batch_eq in *.
  destruct (ms_fly st) as [f|] eqn:E; [|exact Hg]. destruct (if_stage f) eqn:Es; [|exact Hg].
  destruct (eng_batch (ms_engine st) (ms_db st) (batch_of f)) as [db'|] eqn:Eb; cbn [fst] in *; [|apply gone_kill; exact Hg].
  assert (Hdb : db' = kv_batch (ms_db st) (batch_of f)).
  { destruct (ms_engine st); cbn [eng_batch] in Eb; [inversion Eb; reflexivity | apply batch_strict_eq; exact Eb]. }
  destruct Hwf as (Sd & Sa & Su & Sdl & Sf). try rewrite E in Sf. try rewrite E in Hf. cbn in Sf. destruct Sf as (Fa & Fu & Fd). cbn in Hf. destruct Hf as [Hfa Hfu].
  split; [exact W|]. cbn. repeat split; try assumption.
  subst db'. unfold kv_mem in *. rewrite get_persist_batch by assumption. unfold kv_mem.
  destruct (kv_get (if_del f) k); [reflexivity|]. destruct (kv_get (if_upd f) k); [discriminate|].
  destruct (kv_get (if_add f) k); [discriminate | exact Hd].
Qed.

Lemma gone_confirm : forall k st, gone k st -> gone k (fst (ms_confirm_step st)).
Proof.
  intros k st Hg. pose proof Hg as (Hwf & Hd & Ha & Hu & Hf). pose proof (wf_confirm st Hwf) as W. rewrite ms_confirm_eq in *.
  destruct (ms_fly st) as [f|] eqn:E; [|exact Hg]. destruct (if_stage f); [exact Hg|]. cbn [fst] in *.
  split; [exact W|]. cbn. repeat split; assumption.
Qed.

Lemma gone_tick : forall k st, gone k st -> gone k (fst (ms_tick st)).
Proof. intros k st H. unfold ms_tick. rewrite !seq_steps_fst. apply gone_confirm, gone_batch, gone_swap. exact H. Qed.

Lemma mem_purge_del_mono : forall (add del : kv msg) q k, ksorted add -> kv_mem del k = true -> kv_mem (purge_del add del q) k = true.
Proof.
  intros add del q k Hs H. unfold kv_mem in *. rewrite get_purge_del by exact Hs.
  destruct (kv_get add k) as [m|]; [destruct (keqb k (msg_key q (m_id m))); [reflexivity | exact H] | exact H].
Qed.

Lemma gone_step : forall k st l, gone k st -> is_write_of k l = false -> gone k (fst (ms_step st l)).
Proof.
  intros k st l Hg Hw. pose proof Hg as (Hwf & Hd & Ha & Hu & Hf).
  destruct l; cbn [ms_step fst]; try exact Hg.
  - split; [apply (wf_step st (MAdd m q)); exact Hwf|]. cbn. repeat split; try assumption.
    unfold is_write_of in Hw. apply keqb_neq in Hw. rewrite mem_set_other by (intro X; apply Hw; symmetry; exact X). exact Ha.
  - split; [apply (wf_step st (MUpdate m q)); exact Hwf|]. cbn. repeat split; try assumption.
    unfold is_write_of in Hw. apply keqb_neq in Hw. rewrite mem_set_other by (intro X; apply Hw; symmetry; exact X). exact Hu.
  - split; [apply (wf_step st (MDel m q)); exact Hwf|]. cbn. repeat split; try assumption.
    intro X. specialize (Ha X). destruct (keqb k (msg_key q (m_id m))) eqn:Ek.
    + apply keqb_eq in Ek. subst k. unfold kv_mem. rewrite get_set, keqb_refl. reflexivity.
    + apply keqb_neq in Ek. rewrite mem_set_other by exact Ek. exact Ha.
  - destruct (ms_fly st) as [f|] eqn:E; [rewrite (ms_purge_blocked st q f E); exact Hg|].
    split; [apply wf_purge; exact Hwf|]. rewrite (ms_purge_eq st q E). destruct Hwf as (Sd & Sa & Su & Sdl & Sf).
    assert (H1 : kv_mem (eng_del_prefix (ms_engine st) (ms_db st) (msg_prefix_del q)) k = false).
    { unfold eng_del_prefix. destruct (ms_engine st); [destruct badger_stub_delete_by_prefix | destruct bunt_stub_delete_by_prefix]; try exact Hd;
        unfold kv_mem in *; rewrite get_del_prefix; destruct (is_prefix (msg_prefix_del q) k); [reflexivity | exact Hd | reflexivity | exact Hd]. }
    assert (H2 : kv_mem (ms_add st) k = true -> kv_mem (purge_del (ms_add st) (ms_del st) q) k = true).
    { intro X. apply mem_purge_del_mono; [exact Sa | apply Ha; exact X]. }
    assert (H3 : kv_mem (purge_upd (ms_upd st) q) k = false).
    { unfold kv_mem in *. rewrite get_purge_upd by exact Su. destruct (kv_get (ms_upd st) k); [discriminate | reflexivity]. }
    remember (purge_del (ms_add st) (ms_del st) q) as d' eqn:Ed' in *. remember (purge_upd (ms_upd st) q) as u' eqn:Eu' in *.
    remember (eng_del_prefix (ms_engine st) (ms_db st) (msg_prefix_del q)) as db' eqn:Edb in *.
    cbn. repeat split; assumption.
  - destruct (ms_iter_from st q id limit). exact Hg.
  - destruct (ms_iter st q limit). exact Hg.
  - destruct (ms_recover st q limit). exact Hg.
  - apply gone_swap. exact Hg.
  - apply gone_batch. exact Hg.
  - apply gone_confirm. exact Hg.
  - apply gone_tick. exact Hg.
  - fold_close st. cbn [fst]. apply gone_kill, gone_tick. exact Hg.
  - apply gone_kill. exact Hg.
Qed.

Lemma gone_run : forall k ls st, gone k st -> forallb (fun l => negb (is_write_of k l)) ls = true -> gone k (fst (ms_run st ls)).
Proof.
  induction ls as [|l r IH]; intros st Hg Hs; [exact Hg|]. cbn [forallb] in Hs. apply andb_true_iff in Hs as [Hl Hr].
  rewrite run_cons. cbn [fst]. apply IH; [|exact Hr]. apply gone_step; [exact Hg | apply negb_true_iff; exact Hl].
Qed.

(* every pending entry is keyed by makeKey of its own id *)
Definition own_key (k : key) (m : msg) : Prop := exists q0, k = msg_key q0 (m_id m).

Theorem store_purge_effective : forall c ls0 ls1 q id,
  ms_fly (fst (ms_run (ms_init Badger true c) ls0)) = None ->
  forallb (fun l => negb (is_write_of (msg_key q id) l)) ls1 = true ->
  kv_mem (ms_db (fst (ms_run (ms_init Badger true c) (ls0 ++ MPurge q :: ls1)))) (msg_key q id) = false /\
  kv_mem (ms_db (ms_kill (fst (ms_run (ms_init Badger true c) (ls0 ++ MPurge q :: ls1))))) (msg_key q id) = false.
Proof.
  intros c ls0 ls1 q id Hfly Hs. set (k := msg_key q id) in *. rewrite run_app. cbn [fst].
  remember (fst (ms_run (ms_init Badger true c) ls0)) as st.
  assert (Hwf : ms_wf st) by (subst st; apply wf_run, wf_init).
  assert (He : ms_engine st = Badger) by (subst st; rewrite engine_run; reflexivity).
  assert (Hsrc : src_inv own_key st).
  { subst st. apply src_run; [|apply src_init]. intros m q1 _. exists q1. reflexivity. }
  rewrite run_cons. cbn [fst ms_step].
  assert (Hg : gone k (ms_purge st q)).
  { split; [apply wf_purge; exact Hwf|]. rewrite (ms_purge_eq st q Hfly). destruct Hwf as (Sd & Sa & Su & Sdl & Sf).
    destruct Hsrc as (_ & Sadd & Supd & _).
    assert (Hown : forall (mp : kv msg) m, all_src own_key mp -> kv_get mp k = Some m -> keqb k (msg_key q (m_id m)) = true).
    { intros mp m Hall Hget. apply get_in in Hget. destruct (Hall _ _ Hget) as [q0 Eq]. apply keqb_eq.
      unfold k in Eq. pose proof (msg_key_queue_inj _ _ _ _ Eq) as Q. subst q0. exact Eq. }
    assert (H1 : kv_mem (eng_del_prefix (ms_engine st) (ms_db st) (msg_prefix_del q)) k = false).
    { rewrite He. unfold eng_del_prefix. rewrite (proj1 (proj2 gen_badger_not_stub)). unfold kv_mem. rewrite get_del_prefix.
      unfold k. rewrite msg_key_under_own_prefix. reflexivity. }
    assert (H2 : kv_mem (ms_add st) k = true -> kv_mem (purge_del (ms_add st) (ms_del st) q) k = true).
    { intro X. unfold kv_mem in *. rewrite get_purge_del by exact Sa. destruct (kv_get (ms_add st) k) as [m|] eqn:Ea; [|discriminate].
      rewrite (Hown _ m Sadd Ea). reflexivity. }
    assert (H3 : kv_mem (purge_upd (ms_upd st) q) k = false).
    { unfold kv_mem. rewrite get_purge_upd by exact Su. destruct (kv_get (ms_upd st) k) as [m|] eqn:Eu; [|reflexivity].
      rewrite (Hown _ m Supd Eu). reflexivity. }
    remember (purge_del (ms_add st) (ms_del st) q) as d' eqn:Ed' in *. remember (purge_upd (ms_upd st) q) as u' eqn:Eu' in *.
    remember (eng_del_prefix (ms_engine st) (ms_db st) (msg_prefix_del q)) as db' eqn:Edb in *.
    cbn. repeat split; try assumption. }
  pose proof (gone_run k ls1 _ Hg Hs) as Hend. split; [exact (proj1 (proj2 Hend))|].
  exact (proj1 (proj2 (gone_kill _ _ Hend))).
Qed.
