(* C15: delivery tags and ack / nack / reject settle exactly what they name. *)
From Coq Require Import List String NArith ZArith Bool Lia.
From RecordUpdate Require Import RecordUpdate.
Import ListNotations.
From GMQ Require Import Broker.Model Proofs.BrokerFrames.
Open Scope N_scope.

(* the unacknowledged deliveries of channel (c,h) *)
Definition U (s : state) (c h : N) : list unacked :=
  match get_chan s c h with Some ch => ch_unacked ch | None => [] end.

Lemma get_chan_same_conns s s' c h : conns s' = conns s -> get_chan s' c h = get_chan s c h.
Proof. unfold get_chan, get_conn. intros ->. reflexivity. Qed.
Lemma U_same_conns s s' c h : conns s' = conns s -> U s' c h = U s c h.
Proof. unfold U. intros E. rewrite (get_chan_same_conns _ _ _ _ E). reflexivity. Qed.

Lemma get_chan_set_chan s c h ch c' h' :
  get_chan (set_chan s c h ch) c' h' =
  match get_conn s c with
  | Some _ => if (c' =? c) && (h' =? h) then Some ch else get_chan s c' h'
  | None => get_chan s c' h'
  end.
Proof.
  unfold set_chan. destruct (get_conn s c) as [cn|] eqn:Ec; [|reflexivity].
  unfold get_chan, get_conn in *. cbn.
  rewrite (alookup_aset N.eqb Neqb_spec).
  destruct (c' =? c) eqn:E1; cbn.
  - rewrite (alookup_aset N.eqb Neqb_spec). apply N.eqb_eq in E1. subst. rewrite Ec.
    destruct (h' =? h); reflexivity.
  - reflexivity.
Qed.

Lemma U_set_chan s c h ch c' h' :
  get_conn s c <> None ->
  U (set_chan s c h ch) c' h' = if (c' =? c) && (h' =? h) then ch_unacked ch else U s c' h'.
Proof.
  intros Hc. unfold U. rewrite get_chan_set_chan. destruct (get_conn s c); [|congruence].
  destruct ((c' =? c) && (h' =? h)); reflexivity.
Qed.

Lemma get_chan_conn s c h ch : get_chan s c h = Some ch -> get_conn s c <> None.
Proof. unfold get_chan. destruct (get_conn s c); congruence. Qed.

(* an update of channel (c,h) that keeps its unacked list keeps every U *)
Lemma U_upd_chan_keep s c h f c' h' :
  (forall ch, ch_unacked (f ch) = ch_unacked ch) -> U (upd_chan s c h f) c' h' = U s c' h'.
Proof.
  intros Hf. unfold upd_chan. destruct (get_chan s c h) as [ch|] eqn:E; [|reflexivity].
  rewrite U_set_chan by (eapply get_chan_conn; eauto).
  destruct ((c' =? c) && (h' =? h)) eqn:Eb; [|reflexivity].
  apply andb_prop in Eb. destruct Eb as [E1 E2]. apply N.eqb_eq in E1, E2. subst.
  unfold U. rewrite E. apply Hf.
Qed.

Lemma U_upd_chan s c h f c' h' :
  U (upd_chan s c h f) c' h' =
  if (c' =? c) && (h' =? h) then match get_chan s c h with Some ch => ch_unacked (f ch) | None => [] end else U s c' h'.
Proof.
  unfold upd_chan. destruct (get_chan s c h) as [ch|] eqn:E.
  - rewrite U_set_chan by (eapply get_chan_conn; eauto). reflexivity.
  - destruct ((c' =? c) && (h' =? h)) eqn:Eb; [|reflexivity].
    apply andb_prop in Eb. destruct Eb as [E1 E2]. apply N.eqb_eq in E1, E2. subst. unfold U. rewrite E. reflexivity.
Qed.

(* primitives that keep every channel's unacked list *)
Lemma conns_set_queue s q v : conns (set_queue s q v) = conns s. Proof. reflexivity. Qed.
Lemma conns_upd_queue s q f : conns (upd_queue s q f) = conns s.
Proof. unfold upd_queue. destruct (get_queue s q); reflexivity. Qed.
Lemma conns_upd_msg s u f : conns (upd_msg s u f) = conns s.
Proof. unfold upd_msg. destruct (get_msg s u); reflexivity. Qed.

Lemma U_queue_ackmsg s qn u c h : U (queue_ackmsg s qn u) c h = U s c h.
Proof.
  unfold queue_ackmsg. destruct (get_queue s qn) as [qu|]; auto. destruct (get_msg s u) as [m|]; auto.
  destruct (negb (q_active qu)); auto. apply U_same_conns. cbn. destruct (_ && _); reflexivity.
Qed.
Lemma U_queue_requeue s qn u c h : U (queue_requeue s qn u) c h = U s c h.
Proof.
  unfold queue_requeue. destruct (get_queue s qn) as [qu|]; auto. destruct (negb (q_active qu)); auto.
  apply U_same_conns. cbn. rewrite conns_upd_msg. apply store_writeback_frame.
Qed.
Lemma U_chan_ackmsg s u c h : U (chan_ackmsg s u) c h = U s c h.
Proof. unfold chan_ackmsg. destruct (origin_queue s u); [apply U_queue_ackmsg|reflexivity]. Qed.
Lemma U_chan_rejectmsg s u r c h : U (chan_rejectmsg s u r) c h = U s c h.
Proof.
  unfold chan_rejectmsg. destruct (origin_queue s u); [|reflexivity].
  destruct r; [apply U_queue_requeue|apply U_queue_ackmsg].
Qed.

Lemma upd_consumer_unacked ch tag f : ch_unacked (upd_consumer ch tag f) = ch_unacked ch.
Proof. reflexivity. Qed.

Lemma U_wake_consumer s c0 h0 tag c h : U (fst (wake_consumer s c0 h0 tag)) c h = U s c h.
Proof.
  unfold wake_consumer. destruct (get_chan s c0 h0) as [ch|] eqn:E; [|reflexivity].
  destruct (find_consumer ch tag) as [cm|]; [|reflexivity].
  destruct (consume_msg cm). cbn [fst].
  rewrite U_set_chan by (eapply get_chan_conn; eauto).
  destruct ((c =? c0) && (h =? h0)) eqn:Eb; [|reflexivity].
  apply andb_prop in Eb. destruct Eb as [E1 E2]. apply N.eqb_eq in E1, E2. subst. unfold U. rewrite E. reflexivity.
Qed.

Lemma U_set_conn_qos s c0 cn f c h :
  get_conn s c0 = Some cn ->
  U (s <| conns := aset N.eqb c0 (cn <| cn_qos ::= f |>) (conns s) |>) c h = U s c h.
Proof.
  intros E. unfold U, get_chan, get_conn in *. cbn. rewrite (alookup_aset N.eqb Neqb_spec).
  destruct (c =? c0) eqn:E1; [|reflexivity]. apply N.eqb_eq in E1. subst. rewrite E. reflexivity.
Qed.

Lemma U_wake_consumers cfg s c0 h0 c h : U (wake_consumers cfg s c0 h0) c h = U s c h.
Proof.
  unfold wake_consumers, wake_all_of_chan. destruct (cfg_rabbit cfg); [apply U_upd_chan_keep; reflexivity|].
  destruct (get_conn _ c0) as [cn|]; [|apply U_upd_chan_keep; reflexivity].
  match goal with |- U (fold_left ?F ?l ?st) c h = _ => assert (H : forall l0 st0, U (fold_left F l0 st0) c h = U st0 c h) end.
  { induction l0 as [|x t IH]; intros st0; simpl; auto. rewrite IH. destruct (fst x =? h0); auto. apply U_upd_chan_keep; reflexivity. }
  rewrite H. apply U_upd_chan_keep; reflexivity.
Qed.

Lemma U_dec_qos cfg s c0 h0 u c h : U (dec_qos_and_consume_next cfg s c0 h0 u) c h = U s c h.
Proof.
  unfold dec_qos_and_consume_next. destruct (get_chan s c0 h0) as [ch|]; [|reflexivity].
  rewrite U_wake_consumers.
  destruct (find_consumer ch (u_ctag u)).
  - destruct (cfg_rabbit cfg).
    + rewrite !U_upd_chan_keep by reflexivity. reflexivity.
    + destruct (get_conn _ c0) as [cn|] eqn:Ec.
      * rewrite (U_set_conn_qos _ _ _ _ _ _ Ec). rewrite U_upd_chan_keep by reflexivity. reflexivity.
      * rewrite U_upd_chan_keep by reflexivity. reflexivity.
  - destruct (get_conn _ c0) as [cn|] eqn:Ec.
    + rewrite (U_set_conn_qos _ _ _ _ _ _ Ec). rewrite U_upd_chan_keep by reflexivity. reflexivity.
    + rewrite U_upd_chan_keep by reflexivity. reflexivity.
Qed.

Lemma U_fold_dec cfg c0 h0 sel : forall s c h,
  U (fold_left (fun s u => dec_qos_and_consume_next cfg s c0 h0 u) sel s) c h = U s c h.
Proof. induction sel as [|u t IH]; intros; simpl; auto. rewrite IH. apply U_dec_qos. Qed.

Definition keep_not (tags : list N) (l : list unacked) : list unacked :=
  filter (fun u => negb (existsb (N.eqb (u_tag u)) tags)) l.

Lemma del_unacked_U s c h tag :
  U (upd_chan s c h (fun ch => del_unacked ch tag)) c h = filter (fun u => negb (u_tag u =? tag)) (U s c h).
Proof.
  rewrite U_upd_chan. rewrite !N.eqb_refl. cbn. unfold U. destruct (get_chan s c h); reflexivity.
Qed.
Lemma del_unacked_U_other s c h tag c' h' : (c', h') <> (c, h) ->
  U (upd_chan s c h (fun ch => del_unacked ch tag)) c' h' = U s c' h'.
Proof.
  intros Hne. rewrite U_upd_chan. destruct ((c' =? c) && (h' =? h)) eqn:Eb; [|reflexivity].
  apply andb_prop in Eb. destruct Eb as [E1 E2]. apply N.eqb_eq in E1, E2. subst. congruence.
Qed.

(* ---- single ack / reject ---- *)
Theorem ack_single_exact cfg s c h tag s' :
  handle_ack cfg s c h tag false = (s', None) ->
  get_chan s c h <> None ->
  (exists u, In u (U s c h) /\ u_tag u = tag) /\
  U s' c h = filter (fun u => negb (u_tag u =? tag)) (U s c h) /\
  (forall c' h', (c', h') <> (c, h) -> U s' c' h' = U s c' h').
Proof.
  unfold handle_ack. intros H Hc. destruct (get_chan s c h) as [ch|] eqn:Ech; [|congruence].
  destruct (find _ (ch_unacked ch)) as [u|] eqn:Ef; inversion H; subst. clear H.
  split; [|split].
  - exists u. apply find_some in Ef. destruct Ef as [Hin Ht]. apply N.eqb_eq in Ht. unfold U. rewrite Ech. auto.
  - rewrite U_dec_qos, U_chan_ackmsg. apply del_unacked_U.
  - intros c' h' Hne. rewrite U_dec_qos, U_chan_ackmsg. apply del_unacked_U_other; auto.
Qed.

Theorem reject_single_exact cfg s c h tag requeue cls mth s' :
  handle_reject cfg s c h tag false requeue cls mth = (s', None) ->
  get_chan s c h <> None ->
  (exists u, In u (U s c h) /\ u_tag u = tag) /\
  U s' c h = filter (fun u => negb (u_tag u =? tag)) (U s c h) /\
  (forall c' h', (c', h') <> (c, h) -> U s' c' h' = U s c' h').
Proof.
  unfold handle_reject. intros H Hc. destruct (get_chan s c h) as [ch|] eqn:Ech; [|congruence].
  destruct (find _ (ch_unacked ch)) as [u|] eqn:Ef; inversion H; subst. clear H.
  split; [|split].
  - exists u. apply find_some in Ef. destruct Ef as [Hin Ht]. apply N.eqb_eq in Ht. unfold U. rewrite Ech. auto.
  - rewrite U_dec_qos, U_chan_rejectmsg. apply del_unacked_U.
  - intros c' h' Hne. rewrite U_dec_qos, U_chan_rejectmsg. apply del_unacked_U_other; auto.
Qed.

(* ---- multiple ---- *)
Lemma keep_not_cons t ts l :
  keep_not ts (filter (fun u => negb (u_tag u =? t)) l) = keep_not (t :: ts) l.
Proof.
  unfold keep_not. induction l as [|u l IH]; simpl; auto.
  destruct (u_tag u =? t) eqn:E; simpl.
  - exact IH.
  - destruct (existsb _ ts); simpl; [exact IH|f_equal; exact IH].
Qed.
Lemma keep_not_nil l : keep_not [] l = l.
Proof. unfold keep_not. induction l; simpl; auto. f_equal; auto. Qed.

Lemma fold_del_ack c h sel : forall s,
  U (fold_left (fun s u => chan_ackmsg (upd_chan s c h (fun ch => del_unacked ch (u_tag u))) u) sel s) c h
  = keep_not (map u_tag sel) (U s c h) /\
  (forall c' h', (c', h') <> (c, h) ->
     U (fold_left (fun s u => chan_ackmsg (upd_chan s c h (fun ch => del_unacked ch (u_tag u))) u) sel s) c' h' = U s c' h').
Proof.
  induction sel as [|u t IH]; intros s; simpl.
  - split; auto. rewrite keep_not_nil. reflexivity.
  - destruct (IH (chan_ackmsg (upd_chan s c h (fun ch => del_unacked ch (u_tag u))) u)) as [A B]. split.
    + rewrite A. rewrite U_chan_ackmsg, del_unacked_U. apply keep_not_cons.
    + intros c' h' Hne. rewrite B by auto. rewrite U_chan_ackmsg. apply del_unacked_U_other; auto.
Qed.

Lemma fold_del_reject c h rq sel : forall s,
  U (fold_left (fun s u => chan_rejectmsg (upd_chan s c h (fun ch => del_unacked ch (u_tag u))) u rq) sel s) c h
  = keep_not (map u_tag sel) (U s c h) /\
  (forall c' h', (c', h') <> (c, h) ->
     U (fold_left (fun s u => chan_rejectmsg (upd_chan s c h (fun ch => del_unacked ch (u_tag u))) u rq) sel s) c' h' = U s c' h').
Proof.
  induction sel as [|u t IH]; intros s; simpl.
  - split; auto. rewrite keep_not_nil. reflexivity.
  - destruct (IH (chan_rejectmsg (upd_chan s c h (fun ch => del_unacked ch (u_tag u))) u rq)) as [A B]. split.
    + rewrite A. rewrite U_chan_rejectmsg, del_unacked_U. apply keep_not_cons.
    + intros c' h' Hne. rewrite B by auto. rewrite U_chan_rejectmsg. apply del_unacked_U_other; auto.
Qed.

(* what `multiple` selects: every outstanding tag up to the named one (all, if 0) *)
Definition covered (tag : N) (u : unacked) : bool := (tag =? 0) || (u_tag u <=? tag).

Lemma keep_not_selected (P : unacked -> bool) l :
  NoDup (map u_tag l) ->
  keep_not (map u_tag (filter P l)) l = filter (fun u => negb (P u)) l.
Proof.
  intros Hnd. unfold keep_not. apply filter_ext_in. intros u Hin. f_equal.
  destruct (P u) eqn:Ep.
  - apply existsb_exists. exists (u_tag u). split; [|apply N.eqb_refl].
    apply in_map. apply filter_In. auto.
  - apply Bool.not_true_is_false. intros Hex. apply existsb_exists in Hex. destruct Hex as (t & Hin' & Ht).
    apply N.eqb_eq in Ht. subst t. apply in_map_iff in Hin'. destruct Hin' as (u' & Et & Hf).
    apply filter_In in Hf. destruct Hf as [Hin'' Ep'].
    assert (u' = u).
    { clear - Hnd Hin Hin'' Et. induction l as [|a l IH]; simpl in *; [contradiction|].
      inversion Hnd as [|? ? Hni Hnd']; subst.
      destruct Hin as [->|Hin]; destruct Hin'' as [->|Hin'']; auto.
      - exfalso. apply Hni. rewrite <- Et. apply in_map; auto.
      - exfalso. apply Hni. rewrite Et. apply in_map; auto. }
    subst. congruence.
Qed.

Theorem ack_multiple_exact cfg s c h tag s' e :
  handle_ack cfg s c h tag true = (s', e) ->
  NoDup (map u_tag (U s c h)) ->
  e = None /\
  U s' c h = filter (fun u => negb (covered tag u)) (U s c h) /\
  (forall c' h', (c', h') <> (c, h) -> U s' c' h' = U s c' h').
Proof.
  unfold handle_ack. intros H Hnd. destruct (get_chan s c h) as [ch|] eqn:Ech.
  - inversion H; subst. clear H. split; auto.
    destruct (fold_del_ack c h (filter (fun u => (tag =? 0) || (u_tag u <=? tag)) (ch_unacked ch)) s) as [A B].
    split.
    + rewrite U_fold_dec, A. unfold U in *. rewrite Ech in *. apply (keep_not_selected (covered tag)); auto.
    + intros c' h' Hne. rewrite U_fold_dec. apply B; auto.
  - inversion H; subst. split; auto. split; auto. unfold U. rewrite Ech. reflexivity.
Qed.

Lemma sort_desc_perm l : forall u, In u (sort_desc l) <-> In u l.
Proof.
  assert (Hins : forall x l u, In u (insert_desc x l) <-> u = x \/ In u l).
  { intros x l0. induction l0 as [|a t IH]; intros u; simpl; [intuition|].
    destruct (u_tag a <? u_tag x); simpl; [intuition|]. rewrite IH. intuition. }
  induction l as [|a t IH]; intros u; simpl; [tauto|]. rewrite Hins, IH. intuition.
Qed.

Lemma keep_not_ext ts ts' l : (forall t, In t ts <-> In t ts') -> keep_not ts l = keep_not ts' l.
Proof.
  intros H. unfold keep_not. apply filter_ext. intros u. f_equal.
  destruct (existsb (N.eqb (u_tag u)) ts) eqn:E1; destruct (existsb (N.eqb (u_tag u)) ts') eqn:E2; auto.
  - apply existsb_exists in E1. destruct E1 as (t & Hin & Ht). apply H in Hin.
    assert (existsb (N.eqb (u_tag u)) ts' = true) by (apply existsb_exists; eauto). congruence.
  - apply existsb_exists in E2. destruct E2 as (t & Hin & Ht). apply H in Hin.
    assert (existsb (N.eqb (u_tag u)) ts = true) by (apply existsb_exists; eauto). congruence.
Qed.

Theorem reject_multiple_exact cfg s c h tag requeue cls mth s' e :
  handle_reject cfg s c h tag true requeue cls mth = (s', e) ->
  NoDup (map u_tag (U s c h)) ->
  e = None /\
  U s' c h = filter (fun u => negb (covered tag u)) (U s c h) /\
  (forall c' h', (c', h') <> (c, h) -> U s' c' h' = U s c' h').
Proof.
  unfold handle_reject. intros H Hnd. destruct (get_chan s c h) as [ch|] eqn:Ech.
  - inversion H; subst. clear H. split; auto.
    destruct (fold_del_reject c h requeue (filter (fun u => (tag =? 0) || (u_tag u <=? tag)) (sort_desc (ch_unacked ch))) s) as [A B].
    split.
    + rewrite U_fold_dec, A. unfold U in *. rewrite Ech in *.
      rewrite <- (keep_not_selected (covered tag)) by auto.
      apply keep_not_ext. intros t. rewrite !in_map_iff. split; intros (u & Et & Hin); exists u; split; auto;
        apply filter_In in Hin; apply filter_In; destruct Hin as [Hin Hp]; split; auto; apply sort_desc_perm; auto.
    + intros c' h' Hne. rewrite U_fold_dec. apply B; auto.
  - inversion H; subst. split; auto. split; auto. unfold U. rewrite Ech. reflexivity.
Qed.
