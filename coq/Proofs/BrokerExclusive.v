(* C17: exclusive queues are reachable through their owner only; an exclusive consumer excludes all others; an
   operation addressed to one queue leaves the messages of every other queue alone. *)
From Coq Require Import List String NArith ZArith Bool Lia.
From RecordUpdate Require Import RecordUpdate.
Import ListNotations.
From GMQ Require Import Broker.Model Proofs.BrokerFrames Proofs.BrokerTags Proofs.BrokerChanInv Proofs.BrokerReady
  Proofs.BrokerRelease.
Open Scope N_scope.

(* the queue a method is addressed to (a passive no-wait declare observes nothing and changes nothing: it has none) *)
Definition targets (m : meth) : option string :=
  match m with
  | MQDeclare n _ _ _ passive nowait => if passive && nowait then None else Some n
  | MQBind q _ _ _ _ | MQUnbind q _ _ _ | MQPurge q _ | MQDelete q _ _ _ | MConsume q _ _ _ _ | MGet q _ => Some q
  | _ => None
  end.

(* through any other connection than its owner's, every method addressed to an exclusive queue is refused, and
   refusing changes nothing and emits nothing *)
Theorem locked_never_succeeds cfg fx s c h m q qu :
  fx_excl_owner fx = true -> get_chan s c h <> None ->
  targets m = Some q -> queue_found s q = Some qu -> locked qu c = true ->
  exists e, handle_method cfg fx s c h m = (s, [], Some e).
Proof.
  intros Hfx Hc Ht Hq Hl. unfold handle_method. destruct (get_chan s c h) as [ch|]; [|congruence].
  destruct m; cbn in Ht; try discriminate.
  - (* declare *)
    destruct (passive && nowait) eqn:Epn; inversion Ht; subst.
    destruct (seqb q ""); [eexists; reflexivity|]. rewrite Hq, Hl.
    destruct passive; [destruct nowait; [discriminate|]|]; eexists; reflexivity.
  - inversion Ht; subst. destruct (alookup seqb ex (exchanges s)); [|eexists; reflexivity].
    destruct (seqb ex ""); [eexists; reflexivity|]. rewrite Hq, Hl. eexists; reflexivity.
  - inversion Ht; subst. destruct (alookup seqb ex (exchanges s)); [|eexists; reflexivity].
    rewrite Hq, Hl. eexists; reflexivity.
  - inversion Ht; subst. rewrite Hq, Hl. eexists; reflexivity.
  - inversion Ht; subst. rewrite Hq, Hl. eexists; reflexivity.
  - inversion Ht; subst. rewrite Hq, Hfx, Hl. eexists; reflexivity.
  - inversion Ht; subst. rewrite Hq, Hfx, Hl. eexists; reflexivity.
Qed.

(* ... with RESOURCE_LOCKED naming the method, whenever the request gets as far as the queue (a bind or unbind of an
   unknown exchange is NOT_FOUND first) *)
Theorem locked_is_resource_locked cfg fx s c h m q qu :
  fx_excl_owner fx = true -> get_chan s c h <> None ->
  targets m = Some q -> queue_found s q = Some qu -> locked qu c = true ->
  seqb q "" = false ->
  (forall q0 ex key args nw, m = MQBind q0 ex key args nw -> alookup seqb ex (exchanges s) <> None /\ seqb ex "" = false) ->
  (forall q0 ex key args, m = MQUnbind q0 ex key args -> alookup seqb ex (exchanges s) <> None) ->
  handle_method cfg fx s c h m = (s, [], Some (ChanErr ResourceLocked (fst (meth_ids m)) (snd (meth_ids m)))).
Proof.
  intros Hfx Hc Ht Hq Hl Hne Hb Hu. unfold handle_method. destruct (get_chan s c h) as [ch|]; [|congruence].
  destruct m; cbn in Ht; try discriminate.
  - destruct (passive && nowait) eqn:Epn; inversion Ht; subst. rewrite Hne, Hq, Hl.
    destruct passive; [destruct nowait; [discriminate|]|]; reflexivity.
  - inversion Ht; subst. destruct (Hb _ _ _ _ _ eq_refl) as [He Hx]. destruct (alookup seqb ex (exchanges s)); [|congruence].
    rewrite Hx, Hq, Hl. reflexivity.
  - inversion Ht; subst. pose proof (Hu _ _ _ _ eq_refl) as He. destruct (alookup seqb ex (exchanges s)); [|congruence].
    rewrite Hq, Hl. reflexivity.
  - inversion Ht; subst. rewrite Hq, Hl. reflexivity.
  - inversion Ht; subst. rewrite Hq, Hl. reflexivity.
  - inversion Ht; subst. rewrite Hq, Hfx, Hl. reflexivity.
  - inversion Ht; subst. rewrite Hq, Hfx, Hl. reflexivity.
Qed.

(* the owner is not locked out *)
Theorem owner_not_locked qu c : q_owner qu = c -> locked qu c = false.
Proof. intros <-. unfold locked. rewrite N.eqb_refl. apply Bool.andb_false_r. Qed.

(* an exclusive consumer excludes all others, and nobody becomes an exclusive consumer of a queue that has one *)
Theorem exclusive_consumer_excludes cfg fx s c h q tag noack excl nowait ch qu :
  get_chan s c h = Some ch -> queue_found s q = Some qu -> (fx_excl_owner fx && locked qu c) = false ->
  find_consumer ch (eff_tag s tag) = None ->
  q_consumers qu <> [] -> (q_cexcl qu = true \/ excl = true) ->
  handle_method cfg fx s c h (MConsume q tag noack excl nowait) =
  (set_queue s q (qu <| q_wasconsumed := true |>), [], Some (ChanErr AccessRefused 60 20)).
Proof.
  intros Hc Hq Hl Hf Hne Hx. unfold handle_method. rewrite Hc, Hq, Hl, Hf.
  assert (E : negb (Nat.eqb (List.length (q_consumers (qu <| q_wasconsumed := true |>))) 0) && (q_cexcl (qu <| q_wasconsumed := true |>) || excl) = true).
  { cbn. destruct (q_consumers qu); [congruence|]. cbn. destruct Hx as [-> | ->]; auto. apply Bool.orb_true_r. }
  rewrite E. reflexivity.
Qed.

(* ------------------------------------------------------------------ *)
(* isolation: an operation addressed to queue q leaves the ready list of every other queue exactly as it was *)
Lemma R_set_queue_other s q v q' : seqb q' q = false -> R (set_queue s q v) q' = R s q'.
Proof. intros E. unfold R. rewrite get_queue_set_queue, E. reflexivity. Qed.

Lemma R_upd_queue_other s q f q' : seqb q' q = false -> R (upd_queue s q f) q' = R s q'.
Proof. intros E. unfold upd_queue. destruct (get_queue s q); auto. apply R_set_queue_other; auto. Qed.

Lemma R_cancel_fold l q : forall s evs,
  R (fst (fold_left (fun acc x => let '(s, evs) := acc in let '(s', e) := consumer_cancel s x in (s', evs ++ e)) l (s, evs))) q = R s q.
Proof.
  induction l as [|[[c h] tag] t IH]; intros s evs; cbn [fold_left]; auto.
  unfold consumer_cancel at 2. rewrite IH. apply R_consumer_stop.
Qed.

Lemma R_vhost_delete_other b s qn iu ie q' : seqb q' qn = false ->
  R (fst (fst (vhost_delete_queue b s qn iu ie))) q' = R s q'.
Proof.
  intros E. unfold vhost_delete_queue. destruct (get_queue s qn) as [qu|] eqn:Eq; auto.
  destruct (_ || _).
  - cbn [fst]. destruct b; auto. apply R_set_queue_other; auto.
  - pose proof (R_cancel_fold (q_consumers qu) q' s []) as Hf.
    destruct (fold_left _ (q_consumers qu) (s, [])) as [s1 e1]. cbn [fst] in *.
    unfold R at 1. rewrite get_queue_del, E. rewrite <- Hf. unfold R.
    repeat match goal with
           | |- context [get_queue (@set ?a ?b0 ?cc ?dd ?ee ?st) q'] => rewrite (get_queue_same_queues st (@set a b0 cc dd ee st) q' eq_refl)
           | |- context [get_queue (if ?b0 then _ else _) q'] => destruct b0
           end; reflexivity.
Qed.

Ltac r_other E :=
  repeat first
    [ match goal with |- context [R (@set ?a ?b ?cc ?dd ?ee ?st) ?q] => rewrite (R_same_queues st (@set a b cc dd ee st) q eq_refl) end
    | match goal with |- context [R (if ?b then _ else _) _] => destruct b end
    | rewrite (R_upd_queue_other _ _ _ _ E)
    | rewrite (R_set_queue_other _ _ _ _ E)
    | rewrite R_queue_ackmsg
    | match goal with |- context [R (upd_chan ?st ?c ?h ?f) ?q] => rewrite (R_same_queues st (upd_chan st c h f) q (queues_upd_chan st c h f)) end
    | match goal with |- context [R (set_chan ?st ?c ?h ?v) ?q] => rewrite (R_same_queues st (set_chan st c h v) q (queues_set_chan st c h v)) end ].

Theorem addressed_op_isolated cfg fx s c h m q q' :
  targets m = Some q -> seqb q' q = false ->
  R (fst (fst (handle_method cfg fx s c h m))) q' = R s q'.
Proof.
  intros Ht E. unfold handle_method. destruct (get_chan s c h) as [ch|]; auto.
  destruct m; cbn in Ht; try discriminate; unfold ok, refuse.
  - (* declare *)
    destruct (passive && nowait) eqn:Epn; inversion Ht; subst.
    destruct (seqb q ""); auto. destruct (queue_found s q) as [qu|].
    + repeat match goal with |- context [if ?b then _ else _] => destruct b end; auto.
    + destruct passive; [destruct nowait; auto|]. cbn [fst]. r_other E. reflexivity.
  - inversion Ht; subst. repeat match goal with |- context [match ?x with _ => _ end] => destruct x end; cbn [fst]; r_other E; reflexivity.
  - inversion Ht; subst. repeat match goal with |- context [match ?x with _ => _ end] => destruct x end; cbn [fst]; r_other E; reflexivity.
  - (* purge *) inversion Ht; subst. destruct (queue_found s q); auto. destruct (locked _ _); auto. cbn [fst]. r_other E; reflexivity.
  - (* delete *)
    inversion Ht; subst. destruct (queue_found s q); auto. destruct (locked _ _); auto.
    pose proof (R_vhost_delete_other (negb (fx_delete_checks_first fx)) s q ifunused ifempty q' E) as Hd.
    destruct (vhost_delete_queue _ s q ifunused ifempty) as [[s1 e1] r1]. cbn [fst] in Hd. destruct r1; exact Hd.
  - (* consume *)
    inversion Ht; subst. destruct (queue_found s q) as [qu|]; auto. destruct (_ && _); auto.
    destruct (find_consumer ch _); auto. destruct (_ && _); cbn [fst]; r_other E; reflexivity.
  - (* get *)
    inversion Ht; subst. destruct (queue_found s q) as [qu|]; auto. destruct (_ && _); auto.
    destruct (q_ready qu) as [|u rest]; auto.
    match goal with |- context [if noack then (Some [], []) else ?r] => destruct (if noack then (Some [], []) else r) as [okr ws] end.
    destruct okr; cbn [fst].
    all: destruct ws as [|w1 [|w2 [|]]]; r_other E; try reflexivity.
    all: repeat match goal with |- context [R (match ?x with Some _ => _ | None => _ end) _] => destruct x end; r_other E; reflexivity.
Qed.
