(* Bridge between the broker-level model (Broker/Model.v) and the component models
   (Data/gen/QosGen.v + Data/Qos.v, Route/*.v, Store/MsgStore.v): the broker model's own
   definitions of the prefetch window, of routing and of the message store ARE the component
   models' under the evident representation maps, so that the component theorems speak about
   the broker LTS.  Names of the three developments clash (qos_inc, binding, matched_queues, ...):
   nothing is imported, every name is qualified. *)
From Coq Require Import String List NArith ZArith Bool Ascii Arith Lia ZifyBool ZifyN.
Import ListNotations.
From GMQ Require Broker.Model Data.gen.QosGen Data.Qos Proofs.QosProofs.
From GMQ Require Store.KeyFmt Store.KV Store.MsgStore Store.StoreSpec Proofs.StoreKVProofs Proofs.StoreKeyProofs Proofs.StoreMsgProofs.
From GMQ Require Route.Value Route.Cfg Route.Topic Route.Exchange Route.Spec Route.gen.RouteGen Proofs.RouteTopicProofs Proofs.RouteProofs.
Open Scope N_scope.
Ltac Zify.zify_post_hook ::= Z.div_mod_to_equations.

(* ====================================================================================== *)
(* 1. The prefetch window                                                                 *)
(* ====================================================================================== *)

Definition to_gen (w : Model.qosw) : Qos.qos :=
  Qos.mkQos (Model.pc w) (Model.cc w) (Model.ps w) (Model.cs w).
Definition of_gen (q : Qos.qos) : Model.qosw :=
  Model.Build_qosw (Qos.prefetchCount q) (Qos.prefetchSize q) (Qos.currentCount q) (Qos.currentSize q).

Lemma of_to_gen : forall w, of_gen (to_gen w) = w.
Proof. intros [a b c d]. reflexivity. Qed.
Lemma to_of_gen : forall q, to_gen (of_gen q) = q.
Proof. intros [a b c d]. reflexivity. Qed.
Lemma to_gen_inj : forall w w', to_gen w = to_gen w' -> w = w'.
Proof. intros w w' H. rewrite <- (of_to_gen w), <- (of_to_gen w'), H. reflexivity. Qed.

(* the current values are uint16 / uint32 values (the limits need not be: no equation below needs them) *)
Definition cur_ok (w : Model.qosw) : Prop := Model.cc w < 65536 /\ Model.cs w < 4294967296.

Ltac qw_unfold :=
  cbv -[N.modulo N.add N.sub N.leb N.ltb N.eqb N.lt N.le].

(* Inc(1, size): no hypothesis at all - the two definitions wrap the same way *)
Lemma bridge_qos_inc : forall w size,
  Model.qos_inc w size =
  (if fst (QosGen.qos_inc (to_gen w) 1 size) then Some (of_gen (snd (QosGen.qos_inc (to_gen w) 1 size))) else None).
Proof.
  intros [a b c d] size. qw_unfold.
  destruct (a =? 0); destruct ((c + 1) mod 65536 <=? a); destruct (b =? 0);
    destruct ((d + size) mod 4294967296 <=? b); reflexivity.
Qed.

(* Dec(1, size): the broker model subtracts in N, the code in uint16 / uint32 - equal on current values in range *)
Lemma bridge_qos_dec : forall w size, cur_ok w ->
  Model.qos_dec w size = of_gen (QosGen.qos_dec (to_gen w) 1 size).
Proof.
  intros [a b c d] size [Hc Hd]. qw_unfold.
  cbv -[N.lt] in Hc, Hd.
  destruct (c <? 1) eqn:E1; destruct (d <? size) eqn:E2; f_equal; lia.
Qed.

Lemma bridge_qos_update : forall w c s,
  Model.qos_update w c s = of_gen (QosGen.qos_update (to_gen w) c s).
Proof. intros [a b c d] c' s'. reflexivity. Qed.

Lemma bridge_qos_active : forall w, Model.qos_active w = QosGen.qos_is_active (to_gen w).
Proof. intros [a b c d]. reflexivity. Qed.

(* the range hypothesis of Dec is an invariant of the four operations, and holds initially *)
Lemma cur_ok_qos0 : cur_ok Model.qos0.
Proof. unfold cur_ok. cbn. lia. Qed.

Lemma cur_ok_inc : forall w size w', Model.qos_inc w size = Some w' -> cur_ok w'.
Proof.
  intros [a b c d] size w'. qw_unfold.
  destruct (a =? 0); destruct ((c + 1) mod 65536 <=? a); destruct (b =? 0);
    destruct ((d + size) mod 4294967296 <=? b); try discriminate; intro H; inversion H; subst; qw_unfold; lia.
Qed.

Lemma cur_ok_dec : forall w size, cur_ok w -> cur_ok (Model.qos_dec w size).
Proof.
  intros [a b c d] size. qw_unfold. intros [Hc Hd].
  destruct (c <? 1); destruct (d <? size); lia.
Qed.

Lemma cur_ok_update : forall w c s, cur_ok w -> cur_ok (Model.qos_update w c s).
Proof. intros [a b c d] c' s' H. exact H. Qed.

(* ---- the window loop of PopQos: Model.reserve is Qos.reserve ---------------------------- *)
Definition okb {A} (o : option A) : bool := match o with Some _ => true | None => false end.

Lemma okb_bridge_inc : forall w size, okb (Model.qos_inc w size) = fst (QosGen.qos_inc (to_gen w) 1 size).
Proof. intros. rewrite bridge_qos_inc. destruct (fst (QosGen.qos_inc (to_gen w) 1 size)); reflexivity. Qed.

Lemma bridge_reserve_loop : forall rb sz ws charged,
  Qos.reserve_loop rb false charged (map to_gen ws) sz =
  (okb (fst (Model.reserve rb ws sz)),
   (if okb (fst (Model.reserve rb ws sz)) then map snd charged
    else if rb then Qos.undo_charges charged sz else map snd charged) ++ map to_gen (snd (Model.reserve rb ws sz))).
Proof.
  intros rb sz. induction ws as [|w t IH]; intro charged.
  - cbn [map Qos.reserve_loop Model.reserve fst snd okb]. rewrite app_nil_r. reflexivity.
  - cbn [map Qos.reserve_loop Model.reserve andb].
    rewrite <- (QosProofs.gen_inc_eq (to_gen w) 1 sz). rewrite bridge_qos_inc.
    pose proof (QosProofs.inc_refusal_unchanged (to_gen w) 1 sz) as Hre.
    destruct (QosGen.qos_inc (to_gen w) 1 sz) as [ok q'] eqn:Einc. cbn [fst snd] in *. destruct ok.
    + rewrite (IH (charged ++ [(true, q')])).
      assert (Hok : cur_ok (of_gen q')).
      { apply (cur_ok_inc w sz). rewrite bridge_qos_inc, Einc. reflexivity. }
      destruct (Model.reserve rb t sz) as [r t'] eqn:Er. cbn [fst snd]. destruct r as [l|]; cbn [fst snd okb map].
      * rewrite map_app, <- app_assoc, to_of_gen. reflexivity.
      * destruct rb.
        -- rewrite QosProofs.undo_charges_app, <- app_assoc. cbn [Qos.undo_charges app].
           rewrite (bridge_qos_dec _ sz Hok), !to_of_gen.
           pose proof (QosProofs.gen_dec_eq q' 1 sz) as Hg. congruence.
        -- rewrite map_app, <- app_assoc, to_of_gen. reflexivity.
    + rewrite (Hre eq_refl). cbn [fst snd okb map]. reflexivity.
Qed.

(* callers of the broker model pass the size already reduced (msg_size s u mod two32); Qos.reserve reduces it itself *)
Lemma bridge_reserve : forall rb ws size,
  Qos.reserve rb (map to_gen ws) size =
  (okb (fst (Model.reserve rb ws (size mod Model.two32))), map to_gen (snd (Model.reserve rb ws (size mod Model.two32)))).
Proof.
  intros. unfold Qos.reserve, Qos.reserve_gen. rewrite bridge_reserve_loop.
  change (Qos.body_size32 size) with (size mod Model.two32).
  destruct (okb (fst (Model.reserve rb ws (size mod Model.two32)))); destruct rb; reflexivity.
Qed.

(* on success the list the broker model returns first is the list of windows it returns second *)
Lemma model_reserve_some : forall rb ws size l, fst (Model.reserve rb ws size) = Some l -> l = snd (Model.reserve rb ws size).
Proof.
  intros rb ws size. induction ws as [|w t IH]; intros l; cbn [Model.reserve].
  - cbn. intro H. inversion H. reflexivity.
  - destruct (Model.qos_inc w size) as [w'|]; [|cbn; discriminate].
    destruct (Model.reserve rb t size) as [r t']. cbn [fst snd] in *. destruct r as [l0|]; cbn [fst snd]; [|discriminate].
    intro H. inversion H. rewrite (IH l0 eq_refl). reflexivity.
Qed.

(* the loop keeps every window's current values in range (the only writers of a window in the broker model are
   qos0, a copy of another window, qos_update, this loop and qos_dec) *)
Lemma cur_ok_reserve : forall rb ws size, Forall cur_ok ws -> Forall cur_ok (snd (Model.reserve rb ws size)).
Proof.
  intros rb ws size. induction ws as [|w t IH]; intro H; cbn [Model.reserve]; [constructor|].
  inversion H as [|? ? Hw Ht]; subst.
  destruct (Model.qos_inc w size) as [w'|] eqn:Ei; [|exact H].
  pose proof (cur_ok_inc _ _ _ Ei) as Hw'. specialize (IH Ht).
  destruct (Model.reserve rb t size) as [r t']. cbn [snd] in *. destruct r as [l|]; cbn [snd]; constructor; auto.
  destruct rb; [apply cur_ok_dec|]; exact Hw'.
Qed.

(* ---- the theorems of Props/C06_qos.v, transported to the broker model's window ---------- *)
Lemma model_inc_admission : forall w size,
  Qos.qos_no_wrap (to_gen w) 1 size = true -> okb (Model.qos_inc w size) = Qos.qos_admits (to_gen w) 1 size.
Proof. intros w size H. rewrite okb_bridge_inc. apply QosProofs.inc_admission. exact H. Qed.

Lemma model_inc_charges_exactly : forall w size w',
  Qos.qos_no_wrap (to_gen w) 1 size = true -> Model.qos_inc w size = Some w' ->
  w' = of_gen (Qos.qos_charged (to_gen w) 1 size).
Proof.
  intros w size w' Hn H. rewrite bridge_qos_inc in H.
  destruct (fst (QosGen.qos_inc (to_gen w) 1 size)) eqn:E; [|discriminate].
  inversion H. rewrite (QosProofs.inc_charges_exactly _ _ _ Hn E). reflexivity.
Qed.

Lemma model_dec_undoes_inc : forall w size w',
  Qos.qos_wf (to_gen w) -> Qos.qos_no_wrap (to_gen w) 1 size = true -> Model.qos_inc w size = Some w' ->
  Model.qos_dec w' size = w.
Proof.
  intros w size w' Hwf Hn H. pose proof (cur_ok_inc _ _ _ H) as Hok. rewrite (bridge_qos_dec _ _ Hok).
  rewrite bridge_qos_inc in H. destruct (fst (QosGen.qos_inc (to_gen w) 1 size)) eqn:E; [|discriminate].
  inversion H. rewrite to_of_gen, (QosProofs.dec_undoes_inc _ _ _ Hwf Hn E). apply of_to_gen.
Qed.

Lemma model_dec_exact : forall w size,
  Qos.qos_wf (to_gen w) -> 1 <= Model.cc w -> size <= Model.cs w ->
  Model.qos_dec w size = of_gen (Qos.qos_released (to_gen w) 1 size).
Proof.
  intros w size Hwf Hc Hs. rewrite bridge_qos_dec; [|destruct Hwf as (_ & A & _ & B); split; assumption].
  rewrite QosProofs.dec_exact; auto.
Qed.

(* F32 lives in the broker model as well: without the no-wrap hypothesis a window that is full accepts a further charge *)
Lemma model_inc_admission_without_nowrap_refuted :
  exists w size, Qos.qos_wf (to_gen w) /\ size < 4294967296 /\
                 Model.qos_inc w size <> None /\ Qos.qos_admits (to_gen w) 1 size = false.
Proof.
  exists (Model.Build_qosw 0 10 0 10), 4294967295. repeat split; try (cbv; reflexivity). cbv. discriminate.
Qed.

(* all or nothing, for the broker model's loop (rollback = the repaired code) *)
Lemma model_reserve_all_or_nothing : forall ws size,
  Forall (fun w => Qos.qos_wf (to_gen w)) ws ->
  Forall (fun w => Qos.qos_no_wrap (to_gen w) 1 (size mod Model.two32) = true) ws ->
  let r := Model.reserve true ws (size mod Model.two32) in
  (forall l, fst r = Some l ->
     l = snd r /\ snd r = map (fun w => of_gen (Qos.qos_charged (to_gen w) 1 (size mod Model.two32))) ws /\
     Forall (fun w => Qos.qos_admits (to_gen w) 1 (size mod Model.two32) = true) ws) /\
  (fst r = None -> snd r = ws /\ Exists (fun w => Qos.qos_admits (to_gen w) 1 (size mod Model.two32) = false) ws).
Proof.
  intros ws size Hwf Hnw.
  pose proof (QosProofs.reserve_all_or_nothing_h (map to_gen ws) size) as H.
  rewrite bridge_reserve in H. cbn [fst snd] in H.
  change (Qos.body_size32 size) with (size mod Model.two32) in H.
  destruct H as [H1 H2].
  { apply Forall_map. exact Hwf. }
  { apply Forall_map. exact Hnw. }
  assert (Hinj : forall a b, map to_gen a = map to_gen b -> a = b).
  { induction a as [|x a IHa]; destruct b as [|y b]; cbn; intro E; try discriminate; [reflexivity|].
    apply (f_equal (@hd_error _)) in E as E1. apply (f_equal (@tl _)) in E as E2. cbn in E1, E2.
    inversion E1 as [E3]. f_equal; [apply to_gen_inj; unfold to_gen; congruence | apply IHa; assumption]. }
  cbv zeta. split.
  - intros l Hl. split; [apply model_reserve_some with (rb := true); exact Hl|].
    rewrite Hl in H1. destruct (H1 eq_refl) as [A B]. split.
    + apply Hinj. rewrite A, !map_map. apply map_ext. intro a. rewrite to_of_gen. reflexivity.
    + apply Forall_map in B. exact B.
  - intro Hn. rewrite Hn in H2. destruct (H2 eq_refl) as [A B]. split.
    + apply Hinj. exact A.
    + apply Exists_map in B. exact B.
Qed.

(* ====================================================================================== *)
(* 2. Routing                                                                             *)
(* ====================================================================================== *)

(* ---- strings as byte strings ------------------------------------------------------------ *)
Fixpoint bytes_of (s : string) : Value.bytes :=
  match s with
  | EmptyString => []
  | String a t => N_of_ascii a :: bytes_of t
  end.

Lemma N_of_ascii_inj : forall a b, N_of_ascii a = N_of_ascii b -> a = b.
Proof. intros a b H. rewrite <- (ascii_N_embedding a), <- (ascii_N_embedding b), H. reflexivity. Qed.

Lemma bytes_of_inj : forall s t, bytes_of s = bytes_of t -> s = t.
Proof.
  induction s as [|a s IH]; destruct t as [|b t]; cbn [bytes_of]; intro H; try discriminate; [reflexivity|].
  injection H as H1 H2. apply N_of_ascii_inj in H1. apply IH in H2. subst. reflexivity.
Qed.

Lemma bytes_of_wf : forall s, Forall (fun x => x < 256) (bytes_of s).
Proof. induction s as [|a s IH]; cbn [bytes_of]; constructor; [apply N_ascii_bounded | exact IH]. Qed.

Lemma ascii_eqb_N : forall a b, Ascii.eqb a b = N.eqb (N_of_ascii a) (N_of_ascii b).
Proof.
  intros a b. destruct (Ascii.eqb_spec a b) as [E|E].
  - subst. symmetry. apply N.eqb_refl.
  - symmetry. apply N.eqb_neq. intro H. apply E. apply N_of_ascii_inj. exact H.
Qed.

Lemma seqb_bytes : forall s t, Model.seqb s t = Value.bytes_eqb (bytes_of s) (bytes_of t).
Proof.
  unfold Model.seqb. induction s as [|a s IH]; destruct t as [|b t]; cbn [bytes_of Value.bytes_eqb String.eqb]; try reflexivity.
  rewrite <- ascii_eqb_N. destruct (Ascii.eqb a b); [apply IH | reflexivity].
Qed.

Lemma bytes_of_append : forall s t, bytes_of (String.append s t) = bytes_of s ++ bytes_of t.
Proof. induction s as [|a s IH]; intro t; cbn [String.append bytes_of app]; [reflexivity | rewrite IH; reflexivity]. Qed.

Lemma bytes_of_nil : forall s, bytes_of s = [] <-> s = EmptyString.
Proof. destruct s; cbn [bytes_of]; split; intro H; try reflexivity; discriminate. Qed.

(* ---- splitting at dots ------------------------------------------------------------------ *)
(* the broker model keeps the current word forwards (append at the end), Route keeps it reversed *)
Lemma bridge_split_aux : forall s cur,
  map bytes_of (Model.split_dot_aux s cur) = Topic.split_dots_acc (bytes_of s) (rev (bytes_of cur)).
Proof.
  induction s as [|a s IH]; intro cur; cbn [Model.split_dot_aux bytes_of Topic.split_dots_acc].
  - cbn [map]. rewrite rev_involutive. reflexivity.
  - rewrite ascii_eqb_N. change (N_of_ascii "."%char) with Topic.dot.
    destruct (N_of_ascii a =? Topic.dot).
    + cbn [map]. rewrite rev_involutive, IH. reflexivity.
    + rewrite IH, bytes_of_append. cbn [bytes_of]. rewrite rev_app_distr. reflexivity.
Qed.

(* strings.Split(s, "."), on every string *)
Lemma bridge_words_split : forall s, map bytes_of (Model.words s) = Topic.split_dots_acc (bytes_of s) [].
Proof. intro s. unfold Model.words. rewrite bridge_split_aux. reflexivity. Qed.

(* strings.Split against topicWords: on every string but the empty one, which strings.Split reads as one empty word
   and topicWords as ZERO words *)
Lemma bridge_words : forall s, s <> EmptyString -> map bytes_of (Model.words s) = Topic.topic_words (bytes_of s).
Proof.
  intros s H. rewrite bridge_words_split. unfold Topic.topic_words.
  destruct (bytes_of s) eqn:E; [|reflexivity]. apply bytes_of_nil in E. contradiction.
Qed.

Lemma bridge_words_spec : forall s, s <> EmptyString -> map bytes_of (Model.words s) = Spec.spec_words (bytes_of s).
Proof. intros s H. rewrite bridge_words by exact H. apply RouteProofs.topic_words_spec. Qed.

(* topicWords: the broker model's [topic_words] is the code's, on EVERY string (the empty one has no words) *)
Lemma bridge_topic_words : forall s, map bytes_of (Model.topic_words s) = Topic.topic_words (bytes_of s).
Proof. intro s. destruct s as [|a s]; [reflexivity|]. apply (bridge_words (String a s)). discriminate. Qed.

Lemma bridge_topic_words_spec : forall s, map bytes_of (Model.topic_words s) = Spec.spec_words (bytes_of s).
Proof. intro s. rewrite bridge_topic_words. apply RouteProofs.topic_words_spec. Qed.

Lemma model_words_empty :
  Model.words EmptyString = [EmptyString] /\ Model.topic_words EmptyString = [] /\ Topic.topic_words (bytes_of EmptyString) = [].
Proof. repeat split; reflexivity. Qed.

(* ---- the matcher: the fuel of the broker model's backtracking matcher suffices -------- *)
Notation tmS := (RouteTopicProofs.tm string Model.seqb "*"%string "#"%string).
Notation tmB := (RouteTopicProofs.tm Value.bytes Value.bytes_eqb [Topic.star_b] [Topic.hash_b]).

Lemma model_topic_match_fuel : forall f p k, (List.length p + List.length k < f)%nat -> Model.topic_match f p k = tmS p k.
Proof.
  induction f as [|f IH]; intros p k Hf; [lia|].
  destruct p as [|x pt].
  - destruct k; reflexivity.
  - cbn [Model.topic_match]. cbn [List.length] in Hf.
    destruct (Model.seqb x "#"%string) eqn:Eh.
    + rewrite RouteTopicProofs.tm_hash_unfold by exact Eh.
      rewrite (IH pt k) by lia. destruct k as [|y kt]; [reflexivity|].
      cbn [List.length] in Hf. rewrite (IH (x :: pt) kt) by (cbn [List.length]; lia). reflexivity.
    + rewrite RouteTopicProofs.tm_word_unfold by exact Eh.
      destruct k as [|y kt]; [reflexivity|]. cbn [List.length] in Hf. rewrite (IH pt kt) by lia.
      destruct (Model.seqb x "*"%string || Model.seqb x y); reflexivity.
Qed.

(* the recursive matcher commutes with the representation of words *)
Lemma tm_bytes_of : forall p k, tmB (map bytes_of p) (map bytes_of k) = tmS p k.
Proof.
  induction p as [|x pt IH]; intro k.
  - destruct k; reflexivity.
  - cbn [map]. destruct (Model.seqb x "#"%string) eqn:Eh.
    + assert (Eh' : Value.bytes_eqb (bytes_of x) [Topic.hash_b] = true) by (rewrite <- Eh, seqb_bytes; reflexivity).
      induction k as [|y kt IHk].
      * cbn [map].
        rewrite (RouteTopicProofs.tm_hash_unfold _ _ _ _ (bytes_of x) (map bytes_of pt) [] Eh').
        rewrite (RouteTopicProofs.tm_hash_unfold _ _ _ _ x pt [] Eh).
        pose proof (IH []) as IH0. cbn [map] in IH0. rewrite IH0. reflexivity.
      * cbn [map].
        rewrite (RouteTopicProofs.tm_hash_unfold _ _ _ _ (bytes_of x) (map bytes_of pt) (bytes_of y :: map bytes_of kt) Eh').
        rewrite (RouteTopicProofs.tm_hash_unfold _ _ _ _ x pt (y :: kt) Eh).
        pose proof (IH (y :: kt)) as IH0. cbn [map] in IH0. rewrite IH0. rewrite IHk. reflexivity.
    + assert (Eh' : Value.bytes_eqb (bytes_of x) [Topic.hash_b] = false) by (rewrite <- Eh, seqb_bytes; reflexivity).
      rewrite (RouteTopicProofs.tm_word_unfold _ _ _ _ (bytes_of x) (map bytes_of pt) (map bytes_of k) Eh').
      rewrite (RouteTopicProofs.tm_word_unfold _ _ _ _ x pt k Eh).
      destruct k as [|y kt]; [reflexivity|]. cbn [map]. rewrite IH.
      rewrite (seqb_bytes x "*"%string), (seqb_bytes x y). reflexivity.
Qed.

(* the broker model's fuelled matcher is matchTopicWords (the row algorithm), on EVERY two lists of words *)
Lemma bridge_topic_match_words : forall p k,
  Model.topic_match (S (List.length p + List.length k) * 2) p k = Topic.topic_match_bytes (map bytes_of p) (map bytes_of k).
Proof.
  intros p k. rewrite model_topic_match_fuel by lia.
  unfold Topic.topic_match_bytes. rewrite RouteTopicProofs.topic_match_tm. symmetry. apply tm_bytes_of.
Qed.

(* The broker model once split both strings with strings.Split ([Model.words]: the empty string is ONE empty word).
   The definitions the comparison with the code was first proved for - topicWords as the code has it, the empty
   string is ZERO words - are kept under their primed names; the broker model's own [topic_words] / [topic_matches]
   ARE these now (by definition), and the unprimed theorems below follow from the primed ones for ALL inputs. *)
Definition topic_words' (s : string) : list string :=
  match s with EmptyString => [] | _ => Model.words s end.

Definition topic_matches' (pat key : string) : bool :=
  let p := topic_words' pat in let k := topic_words' key in
  Model.topic_match (S (List.length p + List.length k) * 2) p k.

Lemma bridge_topic_words' : forall s, map bytes_of (topic_words' s) = Topic.topic_words (bytes_of s).
Proof. intro s. destruct s as [|a s]; [reflexivity|]. apply bridge_words. discriminate. Qed.

Lemma bridge_topic_words'_spec : forall s, map bytes_of (topic_words' s) = Spec.spec_words (bytes_of s).
Proof. intro s. rewrite bridge_topic_words'. apply RouteProofs.topic_words_spec. Qed.

Lemma bridge_topic_matches' : forall pat key,
  topic_matches' pat key = Topic.topic_match_bytes (Topic.topic_words (bytes_of pat)) (Topic.topic_words (bytes_of key)).
Proof.
  intros pat key. unfold topic_matches'. cbv zeta. rewrite bridge_topic_match_words, !bridge_topic_words'. reflexivity.
Qed.

Lemma model_topic_spec' : forall pat key,
  topic_matches' pat key = true <-> Spec.spec_topic (bytes_of pat) (bytes_of key).
Proof.
  intros pat key. rewrite bridge_topic_matches'. unfold Spec.spec_topic.
  rewrite RouteProofs.topic_match_bytes_correct, !RouteProofs.topic_words_spec. reflexivity.
Qed.

(* the primed definitions are the broker model's, for all inputs *)
Lemma topic_words'_eq : forall s, topic_words' s = Model.topic_words s.
Proof. reflexivity. Qed.
Lemma topic_matches'_eq : forall pat key, topic_matches' pat key = Model.topic_matches pat key.
Proof. reflexivity. Qed.

(* ... hence the broker model's topic test is MatchTopic's test, for ALL patterns and routing keys *)
Lemma bridge_topic_matches : forall pat key,
  Model.topic_matches pat key = Topic.topic_match_bytes (Topic.topic_words (bytes_of pat)) (Topic.topic_words (bytes_of key)).
Proof. intros pat key. rewrite <- topic_matches'_eq. apply bridge_topic_matches'. Qed.

(* and, by the Route theorems, the AMQP word rule *)
Lemma model_topic_spec : forall pat key,
  Model.topic_matches pat key = true <-> Spec.spec_topic (bytes_of pat) (bytes_of key).
Proof. intros pat key. rewrite <- topic_matches'_eq. apply model_topic_spec'. Qed.

(* the empty routing key: matched against NO word, as in the code *)
Lemma model_topic_empty_key : forall pat,
  Model.topic_matches pat EmptyString = Topic.topic_match_bytes (Topic.topic_words (bytes_of pat)) [].
Proof. intro pat. rewrite bridge_topic_matches. reflexivity. Qed.

(* ---- the exchange level ------------------------------------------------------------------ *)
Definition type_id (c : Cfg.route_cfg) (t : Model.extype) : N :=
  match t with
  | Model.ExDirect => Cfg.c_direct c | Model.ExFanout => Cfg.c_fanout c
  | Model.ExTopic => Cfg.c_topic c | Model.ExHeaders => Cfg.c_headers c
  end.
Definition kind_of_type (t : Model.extype) : Spec.ex_kind :=
  match t with
  | Model.ExDirect => Spec.KDirect | Model.ExFanout => Spec.KFanout
  | Model.ExTopic => Spec.KTopic | Model.ExHeaders => Spec.KHeaders
  end.
Definition is_topic (t : Model.extype) : bool := match t with Model.ExTopic => true | _ => false end.

(* a Route binding [rb] represents the broker-model binding [b] of the exchange named [exn], of type [t]:
   queue, exchange, routing key, and the topic flag NewBinding was called with.  Arguments and match type are
   free (the three exchange types below do not read them). *)
Definition binding_rep (exn : Value.name) (t : Model.extype) (b : Model.binding) (rb : Exchange.binding) : Prop :=
  Exchange.b_queue rb = bytes_of (Model.b_queue b) /\ Exchange.b_exchange rb = exn /\
  Exchange.b_key rb = bytes_of (Model.b_key b) /\ Exchange.b_topic rb = is_topic t.

Definition exchange_rep (c : Cfg.route_cfg) (exn : Value.name) (e : Model.exchange) (rex : Exchange.exchange) : Prop :=
  Exchange.ex_name rex = exn /\ Exchange.ex_type rex = type_id c (Model.e_type e) /\
  Forall2 (binding_rep exn (Model.e_type e)) (Model.e_bindings e) (Exchange.ex_bindings rex).

(* the canonical representative: what queue.bind without arguments makes (an empty, non-nil table) *)
Definition to_rbinding (exn : Value.name) (t : Model.extype) (b : Model.binding) : Exchange.binding :=
  {| Exchange.b_queue := bytes_of (Model.b_queue b); Exchange.b_exchange := exn; Exchange.b_key := bytes_of (Model.b_key b);
     Exchange.b_args := Some []; Exchange.b_topic := is_topic t; Exchange.b_match := Exchange.MatchAll |}.
Definition to_rexchange (c : Cfg.route_cfg) (exn : Value.name) (e : Model.exchange) : Exchange.exchange :=
  {| Exchange.ex_name := exn; Exchange.ex_type := type_id c (Model.e_type e);
     Exchange.ex_bindings := map (to_rbinding exn (Model.e_type e)) (Model.e_bindings e) |}.

Lemma to_rexchange_rep : forall c exn e, exchange_rep c exn e (to_rexchange c exn e).
Proof.
  intros c exn e. split; [reflexivity|]. split; [reflexivity|]. cbn [to_rexchange Exchange.ex_bindings].
  induction (Model.e_bindings e) as [|b t IH]; cbn [map]; constructor; [|exact IH]. repeat split.
Qed.

(* it is the result of NewBinding exactly when the code accepts the pattern (see [model_bind_accepts_bad_pattern]) *)
Lemma to_rbinding_new_binding : forall c exn t b, RouteProofs.sane c ->
  (t = Model.ExTopic -> Topic.pattern_ok (bytes_of (Model.b_key b)) = true) ->
  Exchange.new_binding c (bytes_of (Model.b_queue b)) exn (bytes_of (Model.b_key b)) (Some []) (is_topic t)
  = Some (to_rbinding exn t b).
Proof.
  intros c exn t b S Hp. unfold Exchange.new_binding.
  assert (E : is_topic t && negb (Topic.pattern_ok (bytes_of (Model.b_key b))) = false).
  { destruct t; try reflexivity. rewrite Hp by reflexivity. reflexivity. }
  rewrite E. cbn [Value.lookup]. rewrite (RouteProofs.s_def c S). reflexivity.
Qed.

(* the two ways of collecting the matched set visit the bindings in the same order and insert a queue at its
   first match: the lists are EQUAL, not just permutations of each other *)
Lemma bridge_mq_loop : forall (g : Model.binding -> bool) (f : Exchange.binding -> bool) bs rbs,
  Forall2 (fun b rb => Exchange.b_queue rb = bytes_of (Model.b_queue b) /\ f rb = g b) bs rbs ->
  forall acc seen, (forall x, existsb (Value.bytes_eqb (bytes_of x)) acc = existsb (Model.seqb x) seen) ->
  Exchange.mq_loop false (fun rb => Some (f rb)) rbs acc =
  Some (acc ++ map bytes_of (Model.dedup_acc seen (map Model.b_queue (filter g bs)))).
Proof.
  intros g f bs rbs HF. induction HF as [|b rb bs rbs [Hq Hf] HF IH]; intros acc seen Hacc.
  - cbn. rewrite app_nil_r. reflexivity.
  - cbn [Exchange.mq_loop filter]. rewrite Hf. destruct (g b) eqn:Eg.
    + cbn [map Model.dedup_acc]. unfold Exchange.mq_insert. rewrite Hq, Hacc.
      destruct (existsb (Model.seqb (Model.b_queue b)) seen) eqn:Es.
      * apply IH. exact Hacc.
      * etransitivity; [apply (IH (acc ++ [bytes_of (Model.b_queue b)]) (Model.b_queue b :: seen))|].
        -- intro x. rewrite existsb_app, Hacc. cbn [existsb]. rewrite orb_false_r, <- seqb_bytes. apply orb_comm.
        -- cbn [map]. rewrite <- app_assoc. reflexivity.
    + apply IH. exact Hacc.
Qed.

Lemma filter_all : forall {A} (l : list A), filter (fun _ => true) l = l.
Proof. induction l as [|a l IH]; cbn; [reflexivity | rewrite IH; reflexivity]. Qed.

Lemma Forall2_weaken : forall {A B} (P Q : A -> B -> Prop) l l', (forall a b, P a b -> Q a b) -> Forall2 P l l' -> Forall2 Q l l'.
Proof. intros A B P Q l l' H HF. induction HF; constructor; auto. Qed.

(* direct, fanout, topic: the broker model's matched_queues (F04 repaired) is GetMatchedQueues, as a list, for EVERY
   routing key *)
Theorem bridge_matched_queues : forall c, Cfg.cfg_sane c = true ->
  forall exn e rex key m,
  exchange_rep c exn e rex -> Exchange.m_exchange m = exn -> Exchange.m_key m = bytes_of key ->
  Model.e_type e <> Model.ExHeaders ->
  Exchange.matched_queues c rex m = Some (map bytes_of (Model.matched_queues false e key)).
Proof.
  intros c Hc exn e rex key m (_ & Hty & Hbs) Hex Hkey Hnh.
  pose proof (RouteProofs.cfg_sane_sane c Hc) as S.
  destruct (RouteProofs.n_distinct4_spec _ _ _ _ (RouteProofs.s_ids c S)) as [D1 [D2 [D3 [D4 [D5 D6]]]]].
  unfold Exchange.matched_queues, Model.matched_queues. rewrite Hty, Hex, Hkey.
  destruct (Model.e_type e) eqn:Et; cbn [type_id]; [| | |contradiction].
  - rewrite N.eqb_refl, (RouteProofs.s_ed c S).
    rewrite (bridge_mq_loop (fun b => Model.seqb (Model.b_key b) key) (fun rb => Exchange.match_direct rb exn (bytes_of key))
               (Model.e_bindings e) (Exchange.ex_bindings rex)) with (seen := []); [reflexivity| |reflexivity].
    eapply Forall2_weaken; [|exact Hbs]. intros b rb (Hq & He & Hkk & _). split; [exact Hq|].
    unfold Exchange.match_direct. rewrite He, Hkk, RouteProofs.bytes_eqb_refl, <- seqb_bytes. reflexivity.
  - rewrite (proj2 (N.eqb_neq _ _)) by congruence. rewrite N.eqb_refl, (RouteProofs.s_ef c S).
    rewrite (bridge_mq_loop (fun _ => true) (fun rb => Exchange.match_fanout rb exn)
               (Model.e_bindings e) (Exchange.ex_bindings rex)) with (seen := []); [rewrite filter_all; reflexivity| |reflexivity].
    eapply Forall2_weaken; [|exact Hbs]. intros b rb (Hq & He & _). split; [exact Hq|].
    unfold Exchange.match_fanout. rewrite He. apply RouteProofs.bytes_eqb_refl.
  - rewrite (proj2 (N.eqb_neq _ _)) by congruence. rewrite (proj2 (N.eqb_neq _ _)) by congruence.
    rewrite N.eqb_refl, (RouteProofs.s_et c S).
    rewrite (bridge_mq_loop (fun b => Model.topic_matches (Model.b_key b) key) (fun rb => Exchange.match_topic rb exn (bytes_of key))
               (Model.e_bindings e) (Exchange.ex_bindings rex)) with (seen := []); [reflexivity| |reflexivity].
    eapply Forall2_weaken; [|exact Hbs]. intros b rb (Hq & He & Hkk & Ht). split; [exact Hq|].
    unfold Exchange.match_topic, Exchange.binding_pattern. rewrite He, Hkk, Ht, RouteProofs.bytes_eqb_refl. cbn [is_topic andb].
    symmetry. apply bridge_topic_matches.
Qed.

(* headers: the broker model's messages carry no headers table and its matched_queues answers [] - so does
   GetMatchedQueues for a message without headers table when every binding has a (non-nil) argument table,
   empty or not, as every binding made by queue.bind has *)
Lemma mq_loop_none : forall (m : Exchange.binding -> option bool) bs acc,
  Forall (fun b => m b = Some false) bs -> Exchange.mq_loop false m bs acc = Some acc.
Proof.
  intros m bs acc H. induction H as [|b bs Hb _ IH]; cbn [Exchange.mq_loop]; [reflexivity|]. rewrite Hb. exact IH.
Qed.

Theorem bridge_matched_queues_headers : forall c, Cfg.cfg_sane c = true ->
  forall e rex key m,
  Exchange.ex_type rex = type_id c (Model.e_type e) -> Model.e_type e = Model.ExHeaders ->
  Exchange.m_headers m = None ->
  Forall (fun rb => Exchange.b_args rb <> None) (Exchange.ex_bindings rex) ->
  Exchange.matched_queues c rex m = Some (map bytes_of (Model.matched_queues false e key)).
Proof.
  intros c Hc e rex key m Hty Et Hh Hargs.
  pose proof (RouteProofs.cfg_sane_sane c Hc) as S.
  destruct (RouteProofs.n_distinct4_spec _ _ _ _ (RouteProofs.s_ids c S)) as [D1 [D2 [D3 [D4 [D5 D6]]]]].
  unfold Exchange.matched_queues, Model.matched_queues. rewrite Hty, Et, Hh. cbn [type_id map].
  rewrite (proj2 (N.eqb_neq _ _)) by congruence. rewrite (proj2 (N.eqb_neq _ _)) by congruence.
  rewrite (proj2 (N.eqb_neq _ _)) by congruence. rewrite N.eqb_refl, (RouteProofs.s_eh c S).
  apply mq_loop_none. eapply Forall_impl; [|exact Hargs].
  intros rb Ha. unfold Exchange.match_header.
  destruct (negb (Value.bytes_eqb (Exchange.b_exchange rb) (Exchange.m_exchange m))); [reflexivity|].
  cbv beta in Ha. destruct (Exchange.b_args rb); [reflexivity | exfalso; apply Ha; reflexivity].
Qed.

(* what is NOT bridged for headers exchanges: a binding whose Arguments pointer is nil (b_args = None) matches a
   message without headers table in the code; the broker model has no such binding (queue.bind always passes a table) *)
Lemma route_headers_nil_args_match : forall c, Cfg.cfg_sane c = true ->
  forall exn q key mt mand,
  Exchange.matched_queues c
    {| Exchange.ex_name := exn; Exchange.ex_type := Cfg.c_headers c;
       Exchange.ex_bindings := [{| Exchange.b_queue := q; Exchange.b_exchange := exn; Exchange.b_key := key;
                                   Exchange.b_args := None; Exchange.b_topic := false; Exchange.b_match := mt |}] |}
    {| Exchange.m_exchange := exn; Exchange.m_key := key; Exchange.m_headers := None; Exchange.m_mandatory := mand |}
  = Some [q].
Proof.
  intros c Hc exn q key mt mand.
  pose proof (RouteProofs.cfg_sane_sane c Hc) as S.
  destruct (RouteProofs.n_distinct4_spec _ _ _ _ (RouteProofs.s_ids c S)) as [D1 [D2 [D3 [D4 [D5 D6]]]]].
  unfold Exchange.matched_queues. cbn [Exchange.ex_type Exchange.ex_bindings Exchange.m_exchange Exchange.m_headers].
  rewrite (proj2 (N.eqb_neq _ _)) by congruence. rewrite (proj2 (N.eqb_neq _ _)) by congruence.
  rewrite (proj2 (N.eqb_neq _ _)) by congruence. rewrite N.eqb_refl.
  cbn [Exchange.mq_loop]. unfold Exchange.match_header. cbn [Exchange.b_exchange Exchange.b_args].
  rewrite RouteProofs.bytes_eqb_refl. cbn [negb]. rewrite (RouteProofs.s_eh c S). reflexivity.
Qed.

(* ---- the AMQP rule, for the broker model ---------------------------------------------- *)
Lemma kind_of_type_id : forall c t, Cfg.cfg_sane c = true -> Spec.kind_of c (type_id c t) = Some (kind_of_type t).
Proof.
  intros c t Hc. pose proof (RouteProofs.cfg_sane_sane c Hc) as S.
  destruct (RouteProofs.n_distinct4_spec _ _ _ _ (RouteProofs.s_ids c S)) as [D1 [D2 [D3 [D4 [D5 D6]]]]].
  unfold Spec.kind_of. destruct t; cbn [type_id kind_of_type];
    repeat (first [rewrite N.eqb_refl | rewrite (proj2 (N.eqb_neq _ _)) by congruence]); reflexivity.
Qed.

(* Props/C08.v's main theorem, read on the broker model: a queue is in the broker model's matched list iff one of
   its bindings on the exchange matches by the AMQP rule - for direct, fanout and topic exchanges whose bindings
   NewBinding accepts, every routing key *)
Theorem model_route_eq_spec : forall c, Cfg.cfg_sane c = true ->
  forall exn e rex key m,
  exchange_rep c exn e rex -> Exchange.m_exchange m = exn -> Exchange.m_key m = bytes_of key ->
  Model.e_type e <> Model.ExHeaders ->
  Forall (Spec.binding_wf c (kind_of_type (Model.e_type e))) (Exchange.ex_bindings rex) ->
  NoDup (Model.matched_queues false e key) /\
  forall q, In q (Model.matched_queues false e key) <->
            Spec.route_spec true (kind_of_type (Model.e_type e)) (Exchange.ex_bindings rex) m (bytes_of q).
Proof.
  intros c Hc exn e rex key m Hrep Hex Hkey Hnh Hwf.
  set (m' := {| Exchange.m_exchange := exn; Exchange.m_key := bytes_of key; Exchange.m_headers := Some [];
                Exchange.m_mandatory := Exchange.m_mandatory m |}).
  pose proof (bridge_matched_queues c Hc exn e rex key m' Hrep eq_refl eq_refl Hnh) as Hb.
  destruct Hrep as (Hn & Hty & Hbs).
  destruct (RouteProofs.route_eq_spec c Hc rex (kind_of_type (Model.e_type e)) m') as (l & Hl & Hnd & Hq).
  { rewrite Hty. apply kind_of_type_id. exact Hc. }
  { exact Hwf. }
  { apply Forall_forall. intros b _ Hnone. discriminate. }
  rewrite Hb in Hl. injection Hl as Hl. subst l.
  assert (Hspec : forall q, Spec.route_spec true (kind_of_type (Model.e_type e)) (Exchange.ex_bindings rex) m' q <->
                            Spec.route_spec true (kind_of_type (Model.e_type e)) (Exchange.ex_bindings rex) m q).
  { intro q. unfold Spec.route_spec. subst m'. cbn [Exchange.m_exchange]. rewrite Hex.
    destruct (Model.e_type e); cbn [kind_of_type Spec.binding_matches Exchange.m_key]; try rewrite Hkey; try reflexivity.
    contradiction. }
  split.
  - revert Hnd. generalize (Model.matched_queues false e key). induction l as [|x l IH]; cbn [map]; intro H; [constructor|].
    inversion H as [|? ? Hni Hnd']; subst. constructor; [|apply IH; exact Hnd'].
    intro Hi. apply Hni. apply in_map. exact Hi.
  - intro q. rewrite <- Hspec, <- Hq. split; [apply in_map|].
    intro Hi. apply in_map_iff in Hi. destruct Hi as (x & Ex & Hx). apply bytes_of_inj in Ex. subst. exact Hx.
Qed.

(* ---- parseTopicPattern ------------------------------------------------------------------ *)
(* the broker model's [bad_pattern] (a word longer than one character that contains a wildcard) is the negation of the
   code's parseTopicPattern on the same string *)
Definition wf_pattern (key : string) : bool := negb (Model.bad_pattern key).

Lemma bytes_of_length : forall s, List.length (bytes_of s) = String.length s.
Proof. induction s as [|a s IH]; cbn [bytes_of List.length String.length]; [reflexivity | rewrite IH; reflexivity]. Qed.

Lemma bytes_of_has_wild : forall s,
  existsb (fun c => N.eqb c Topic.star_b || N.eqb c Topic.hash_b) (bytes_of s) = Model.str_has_wild s.
Proof.
  induction s as [|a s IH]; cbn [bytes_of existsb Model.str_has_wild]; [reflexivity|].
  rewrite IH, !ascii_eqb_N. reflexivity.
Qed.

Lemma word_ok_bytes_of : forall w, Topic.word_ok (bytes_of w) = negb (Model.bad_word w).
Proof. intro w. unfold Topic.word_ok, Model.bad_word. rewrite bytes_of_length, bytes_of_has_wild. reflexivity. Qed.

Lemma pattern_ok_bytes_of : forall key, Topic.pattern_ok (bytes_of key) = wf_pattern key.
Proof.
  intro key. unfold Topic.pattern_ok, wf_pattern, Model.bad_pattern. rewrite <- bridge_topic_words.
  induction (Model.topic_words key) as [|w l IH]; cbn [map forallb existsb]; [reflexivity|].
  rewrite IH, word_ok_bytes_of, negb_orb. reflexivity.
Qed.

(* NewBinding for an argument-free binding (no table, or a table without x-match): it fails exactly on a
   topic exchange with a malformed pattern *)
Lemma new_binding_none_iff : forall c q ex key args topic, RouteProofs.sane c ->
  (args = None \/ exists t, args = Some t /\ Value.lookup (Cfg.c_x_match c) t = None) ->
  (Exchange.new_binding c q ex (bytes_of key) args topic = None <-> topic = true /\ Model.bad_pattern key = true).
Proof.
  intros c q ex key args topic S Ha. unfold Exchange.new_binding. rewrite pattern_ok_bytes_of. unfold wf_pattern. rewrite negb_involutive.
  destruct topic; cbn [andb].
  - destruct (Model.bad_pattern key) eqn:Eb.
    + split; [intros _; split; reflexivity | reflexivity].
    + split; [|intros [_ H]; discriminate].
      destruct Ha as [->|[t [-> Hl]]]; [discriminate|]. rewrite Hl. discriminate.
  - split; [|intros [H _]; discriminate].
    destruct Ha as [->|[t [-> Hl]]]; [discriminate|]. rewrite Hl. discriminate.
Qed.

Lemma new_binding_topic_none_iff : forall c q ex key, RouteProofs.sane c ->
  (Exchange.new_binding c q ex (bytes_of key) (Some []) true = None <-> Model.bad_pattern key = true).
Proof.
  intros c q ex key S. rewrite (new_binding_none_iff c q ex key (Some []) true S).
  - split; [intros [_ H]; exact H | intro H; split; [reflexivity | exact H]].
  - right. exists []. split; reflexivity.
Qed.

(* queue.bind without arguments, past the checks that come first (the exchange exists and is not the default one, the
   queue exists and is not locked): the broker model refuses it with PreconditionFailed (406, class 50 method 20)
   exactly when NewBinding fails - on a topic exchange, for a malformed pattern - and otherwise raises no error *)
Lemma extype_eqb_topic : forall t, Model.extype_eqb t Model.ExTopic = is_topic t.
Proof. destruct t; reflexivity. Qed.

Lemma model_bind_result : forall cfg fx s cn h ch q exn key nowait e qu,
  Model.get_chan s cn h = Some ch ->
  Model.alookup Model.seqb exn (Model.exchanges s) = Some e -> exn <> EmptyString ->
  Model.queue_found s q = Some qu -> Model.locked qu cn = false ->
  snd (Model.handle_method cfg fx s cn h (Model.MQBind q exn key [] nowait)) =
  if is_topic (Model.e_type e) && Model.bad_pattern key then Some (Model.ChanErr Model.PreconditionFailed 50 20) else None.
Proof.
  intros cfg fx s cn h ch q exn key nowait e qu Hch He Hne Hq Hl.
  unfold Model.handle_method. rewrite Hch, He.
  assert (E : Model.seqb exn EmptyString = false) by (apply String.eqb_neq; exact Hne).
  rewrite E, Hq, Hl. cbn [Model.bad_xmatch Model.alookup]. rewrite extype_eqb_topic.
  destruct (is_topic (Model.e_type e) && Model.bad_pattern key); reflexivity.
Qed.

Theorem model_bind_refused_iff : forall c, RouteProofs.sane c ->
  forall cfg fx s cn h ch q exn key nowait e qu,
  Model.get_chan s cn h = Some ch ->
  Model.alookup Model.seqb exn (Model.exchanges s) = Some e -> exn <> EmptyString ->
  Model.queue_found s q = Some qu -> Model.locked qu cn = false ->
  (snd (Model.handle_method cfg fx s cn h (Model.MQBind q exn key [] nowait)) = Some (Model.ChanErr Model.PreconditionFailed 50 20)
   <-> Exchange.new_binding c (bytes_of q) (bytes_of exn) (bytes_of key) (Some []) (is_topic (Model.e_type e)) = None) /\
  (snd (Model.handle_method cfg fx s cn h (Model.MQBind q exn key [] nowait)) = None
   <-> Exchange.new_binding c (bytes_of q) (bytes_of exn) (bytes_of key) (Some []) (is_topic (Model.e_type e)) <> None).
Proof.
  intros c S cfg fx s cn h ch q exn key nowait e qu Hch He Hne Hq Hl.
  rewrite (model_bind_result cfg fx s cn h ch q exn key nowait e qu Hch He Hne Hq Hl).
  rewrite (new_binding_none_iff c (bytes_of q) (bytes_of exn) key (Some []) (is_topic (Model.e_type e)) S)
    by (right; exists []; split; reflexivity).
  destruct (is_topic (Model.e_type e)); destruct (Model.bad_pattern key); cbn [andb]; split; split; intro H;
    try reflexivity; try discriminate; try (destruct H; discriminate); try (split; reflexivity);
    try (intros [? ?]; discriminate); try (exfalso; apply H; split; reflexivity).
Qed.

(* the same for queue.unbind (406, class 50 method 50): parseTopicPattern runs before the binding is looked up *)
Lemma model_unbind_result : forall cfg fx s cn h ch q exn key e qu,
  Model.get_chan s cn h = Some ch ->
  Model.alookup Model.seqb exn (Model.exchanges s) = Some e ->
  Model.queue_found s q = Some qu -> Model.locked qu cn = false ->
  snd (Model.handle_method cfg fx s cn h (Model.MQUnbind q exn key [])) =
  if is_topic (Model.e_type e) && Model.bad_pattern key then Some (Model.ChanErr Model.PreconditionFailed 50 50) else None.
Proof.
  intros cfg fx s cn h ch q exn key e qu Hch He Hq Hl.
  unfold Model.handle_method. rewrite Hch, He, Hq, Hl. cbn [Model.bad_xmatch Model.alookup]. rewrite extype_eqb_topic.
  destruct (is_topic (Model.e_type e) && Model.bad_pattern key); reflexivity.
Qed.

(* GetMatchedQueues with the primed topic test - which is the broker model's own now *)
Definition matched_queues' (e : Model.exchange) (key : string) : list string :=
  match Model.e_type e with
  | Model.ExTopic =>
    Model.dedup (map Model.b_queue (filter (fun b => topic_matches' (Model.b_key b) key) (Model.e_bindings e)))
  | _ => Model.matched_queues false e key
  end.

Lemma filter_ext_in' : forall {A} (f g : A -> bool) l, (forall x, f x = g x) -> filter f l = filter g l.
Proof. intros A f g l H. induction l as [|a l IH]; cbn; [reflexivity|]. rewrite H, IH. reflexivity. Qed.

Lemma matched_queues'_eq : forall e key, matched_queues' e key = Model.matched_queues false e key.
Proof. intros e key. unfold matched_queues', Model.matched_queues. destruct (Model.e_type e); reflexivity. Qed.

Theorem bridge_matched_queues' : forall c, Cfg.cfg_sane c = true ->
  forall exn e rex key m,
  exchange_rep c exn e rex -> Exchange.m_exchange m = exn -> Exchange.m_key m = bytes_of key ->
  Model.e_type e <> Model.ExHeaders ->
  Exchange.matched_queues c rex m = Some (map bytes_of (matched_queues' e key)).
Proof.
  intros c Hc exn e rex key m Hrep Hex Hkey Hnh. rewrite matched_queues'_eq.
  exact (bridge_matched_queues c Hc exn e rex key m Hrep Hex Hkey Hnh).
Qed.

(* ====================================================================================== *)
(* 3. The message store                                                                   *)
(* ====================================================================================== *)
(* The broker model keeps three lists of keys (uid, queue name): pending adds, flushed keys, pending deletes.
   The store model (Store/MsgStore.v) keeps four key-sorted maps over byte keys makeKey(id, queue): the engine and
   the pending add / update / delete maps, plus a persist in flight.  The abstraction relates them POINTWISE on the
   representable keys [skey p] (ids below 2^64, so that makeKey is injective; queue names without '.', so that the
   purge prefix of one queue covers no other queue's keys - finding F21), between persists:
     pending adds    = ms_add          pending deletes = ms_del
     flushed keys    = ms_db  +  the pending updates that no pending add carries
   (the broker model writes a requeue back into its flushed keys at once; the code parks it in the update map until
   the next tick - observationally the same for every GRACEFUL history, see [rel_restart_kill]). *)
Definition skey (p : N * string) : KV.key := MsgStore.msg_key (bytes_of (snd p)) (fst p).
Definition pvalid (p : N * string) : Prop := fst p < KeyFmt.two64 /\ StoreSpec.dotfree (bytes_of (snd p)) = true.
Definition peqb (a b : N * string) : bool := (fst a =? fst b) && Model.seqb (snd a) (snd b).
Definition mmem (l : list (N * string)) (p : N * string) : bool := existsb (fun k => peqb k p) l.
Definition own (m : KV.kv MsgStore.msg) : Prop :=
  forall k v, KV.kv_get m k = Some v -> exists q, k = MsgStore.msg_key q (MsgStore.m_id v).

Record store_rel (sa sdb sd : list (N * string)) (st : MsgStore.mstore) : Prop := {
  sr_fly : MsgStore.ms_fly st = None;
  sr_eng : MsgStore.ms_engine st = KV.Badger;
  sr_wf : StoreMsgProofs.ms_wf st;
  sr_own_add : own (MsgStore.ms_add st);
  sr_own_upd : own (MsgStore.ms_upd st);
  sr_add : forall p, pvalid p -> mmem sa p = KV.kv_mem (MsgStore.ms_add st) (skey p);
  sr_del : forall p, pvalid p -> mmem sd p = KV.kv_mem (MsgStore.ms_del st) (skey p);
  sr_db : forall p, pvalid p ->
          mmem sdb p = KV.kv_mem (MsgStore.ms_db st) (skey p)
                       || (KV.kv_mem (MsgStore.ms_upd st) (skey p) && negb (KV.kv_mem (MsgStore.ms_add st) (skey p)))
}.

Lemma peqb_eq : forall a b, peqb a b = true <-> a = b.
Proof.
  intros [a1 a2] [b1 b2]. unfold peqb, Model.seqb. cbn [fst snd]. rewrite andb_true_iff, N.eqb_eq, String.eqb_eq.
  split; [intros [-> ->]; reflexivity | intro H; inversion H; auto].
Qed.

Lemma peqb_refl : forall a, peqb a a = true.
Proof. intro a. apply peqb_eq. reflexivity. Qed.

Lemma peqb_sym : forall a b, peqb a b = peqb b a.
Proof.
  intros a b. destruct (peqb a b) eqn:E.
  - apply peqb_eq in E. subst. symmetry. apply peqb_refl.
  - destruct (peqb b a) eqn:E'; [|reflexivity]. apply peqb_eq in E'. subst. rewrite peqb_refl in E. discriminate.
Qed.

Lemma mmem_In : forall l p, mmem l p = true <-> In p l.
Proof.
  intros l p. unfold mmem. rewrite existsb_exists. split.
  - intros [x [Hx E]]. apply peqb_eq in E. subst. exact Hx.
  - intro H. exists p. split; [exact H | apply peqb_refl].
Qed.

Lemma mmem_app : forall l l' p, mmem (l ++ l') p = mmem l p || mmem l' p.
Proof. intros. unfold mmem. apply existsb_app. Qed.

Lemma mmem_filter : forall f l p, mmem (filter f l) p = mmem l p && f p.
Proof.
  intros f l p. destruct (mmem (filter f l) p) eqn:E.
  - apply mmem_In in E. apply filter_In in E. destruct E as [Hi Hf]. apply mmem_In in Hi. rewrite Hi, Hf. reflexivity.
  - symmetry. apply andb_false_iff. destruct (mmem l p) eqn:El; [|left; reflexivity]. right.
    destruct (f p) eqn:Ef; [|reflexivity]. apply mmem_In in El.
    assert (H : In p (filter f l)) by (apply filter_In; split; assumption). apply mmem_In in H. congruence.
Qed.

Lemma mmem_single : forall a p, mmem [a] p = peqb a p.
Proof. intros. unfold mmem. cbn [existsb]. apply orb_false_r. Qed.

Lemma skey_inj : forall p p', pvalid p -> pvalid p' -> skey p = skey p' -> p = p'.
Proof.
  intros [u q] [u' q'] Hv Hv' H. unfold skey, pvalid in *. cbn [fst snd] in *.
  destruct (StoreKeyProofs.msg_key_inj _ _ _ _ (proj1 Hv) (proj1 Hv') H) as [Hq Hu]. apply bytes_of_inj in Hq. subst. reflexivity.
Qed.

Lemma keqb_skey : forall p p', pvalid p -> pvalid p' -> KV.keqb (skey p) (skey p') = peqb p' p.
Proof.
  intros p p' Hv Hv'. destruct (KV.keqb (skey p) (skey p')) eqn:E.
  - apply StoreKVProofs.keqb_eq in E. apply skey_inj in E; [|assumption|assumption]. subst. symmetry. apply peqb_refl.
  - destruct (peqb p' p) eqn:E'; [|reflexivity]. apply peqb_eq in E'. subst. rewrite StoreKVProofs.keqb_refl in E. discriminate.
Qed.

Lemma mem_set : forall (m : KV.kv MsgStore.msg) k v k', KV.kv_mem (KV.kv_set m k v) k' = KV.keqb k' k || KV.kv_mem m k'.
Proof. intros. unfold KV.kv_mem. rewrite StoreKVProofs.get_set. destruct (KV.keqb k' k); reflexivity. Qed.

Lemma own_set : forall m q v, own m -> own (KV.kv_set m (MsgStore.msg_key q (MsgStore.m_id v)) v).
Proof.
  intros m q v H k v' Hg. rewrite StoreKVProofs.get_set in Hg. destruct (KV.keqb k _) eqn:E.
  - apply StoreKVProofs.keqb_eq in E. inversion Hg; subst. exists q. reflexivity.
  - apply H. exact Hg.
Qed.

Lemma own_nil : own [].
Proof. intros k v H. discriminate. Qed.

(* ---- the initial stores ---- *)
Lemma rel_init : forall c, store_rel [] [] [] (MsgStore.ms_init KV.Badger true c).
Proof.
  intro c. constructor; try reflexivity; try apply own_nil; try (intros; reflexivity).
  apply StoreMsgProofs.wf_init.
Qed.

(* ---- push of a persistent message into a durable queue = Add ----
   the key is new (a uid is pushed into a queue once, before any delivery): neither pending nor flushed *)
Lemma rel_add : forall sa sdb sd st m qn, store_rel sa sdb sd st -> pvalid (MsgStore.m_id m, qn) ->
  mmem sa (MsgStore.m_id m, qn) = false -> mmem sdb (MsgStore.m_id m, qn) = false ->
  store_rel (sa ++ [(MsgStore.m_id m, qn)]) sdb sd (fst (MsgStore.ms_step st (MsgStore.MAdd m (bytes_of qn)))).
Proof.
  intros sa sdb sd st m qn R Hv Hna Hndb.
  pose proof (StoreMsgProofs.wf_step st (MsgStore.MAdd m (bytes_of qn)) (sr_wf _ _ _ _ R)) as Hwf.
  cbn [MsgStore.ms_step fst] in *. unfold MsgStore.ms_add_msg, MsgStore.with_pending in *.
  destruct R as [Hf He _ Hoa Hou Ha Hd Hdb].
  constructor; cbn [MsgStore.ms_fly MsgStore.ms_engine MsgStore.ms_add MsgStore.ms_upd MsgStore.ms_del MsgStore.ms_db]; auto.
  - apply own_set. exact Hoa.
  - intros p Hp. rewrite mmem_app, mmem_single, mem_set, (Ha p Hp).
    change (MsgStore.msg_key (bytes_of qn) (MsgStore.m_id m)) with (skey (MsgStore.m_id m, qn)).
    rewrite (keqb_skey p _ Hp Hv). apply orb_comm.
  - intros p Hp. rewrite mem_set.
    change (MsgStore.msg_key (bytes_of qn) (MsgStore.m_id m)) with (skey (MsgStore.m_id m, qn)).
    rewrite (keqb_skey p _ Hp Hv). destruct (peqb (MsgStore.m_id m, qn) p) eqn:E; [|apply Hdb; exact Hp].
    apply peqb_eq in E. subst p. rewrite Hndb. rewrite (Hdb _ Hv) in Hndb.
    apply orb_false_iff in Hndb. destruct Hndb as [H1 H2]. rewrite H1. cbn [orb negb]. rewrite andb_false_r. reflexivity.
Qed.

(* ---- settle (ack, reject without requeue, no-ack delivery) = Del ---- *)
Lemma rel_del : forall sa sdb sd st m qn, store_rel sa sdb sd st -> pvalid (MsgStore.m_id m, qn) ->
  store_rel sa sdb (sd ++ [(MsgStore.m_id m, qn)]) (fst (MsgStore.ms_step st (MsgStore.MDel m (bytes_of qn)))).
Proof.
  intros sa sdb sd st m qn R Hv.
  pose proof (StoreMsgProofs.wf_step st (MsgStore.MDel m (bytes_of qn)) (sr_wf _ _ _ _ R)) as Hwf.
  cbn [MsgStore.ms_step fst] in *. unfold MsgStore.ms_del_msg, MsgStore.with_pending in *.
  destruct R as [Hf He _ Hoa Hou Ha Hd Hdb].
  constructor; cbn [MsgStore.ms_fly MsgStore.ms_engine MsgStore.ms_add MsgStore.ms_upd MsgStore.ms_del MsgStore.ms_db]; auto.
  intros p Hp. rewrite mmem_app, mmem_single, mem_set, (Hd p Hp).
  change (MsgStore.msg_key (bytes_of qn) (MsgStore.m_id m)) with (skey (MsgStore.m_id m, qn)).
  rewrite (keqb_skey p _ Hp Hv). apply orb_comm.
Qed.

(* ---- requeue write-back = Update ---- *)
Definition writeback (sa sdb : list (N * string)) (p : N * string) : list (N * string) :=
  if negb (mmem sdb p) && negb (mmem sa p) then sdb ++ [p] else sdb.

Lemma mmem_writeback : forall sa sdb p0 p,
  mmem (writeback sa sdb p0) p = mmem sdb p || (peqb p0 p && negb (mmem sdb p0) && negb (mmem sa p0)).
Proof.
  intros. unfold writeback. destruct (negb (mmem sdb p0) && negb (mmem sa p0)) eqn:E.
  - rewrite mmem_app, mmem_single, <- andb_assoc, E, andb_true_r. reflexivity.
  - rewrite <- andb_assoc, E, andb_false_r, orb_false_r. reflexivity.
Qed.

Lemma rel_update : forall sa sdb sd st m qn, store_rel sa sdb sd st -> pvalid (MsgStore.m_id m, qn) ->
  store_rel sa (writeback sa sdb (MsgStore.m_id m, qn)) sd (fst (MsgStore.ms_step st (MsgStore.MUpdate m (bytes_of qn)))).
Proof.
  intros sa sdb sd st m qn R Hv.
  pose proof (StoreMsgProofs.wf_step st (MsgStore.MUpdate m (bytes_of qn)) (sr_wf _ _ _ _ R)) as Hwf.
  cbn [MsgStore.ms_step fst] in *. unfold MsgStore.ms_update_msg, MsgStore.with_pending in *.
  destruct R as [Hf He _ Hoa Hou Ha Hd Hdb].
  constructor; cbn [MsgStore.ms_fly MsgStore.ms_engine MsgStore.ms_add MsgStore.ms_upd MsgStore.ms_del MsgStore.ms_db]; auto.
  - apply own_set. exact Hou.
  - intros p Hp. rewrite mem_set, mmem_writeback.
    change (MsgStore.msg_key (bytes_of qn) (MsgStore.m_id m)) with (skey (MsgStore.m_id m, qn)).
    rewrite (keqb_skey p _ Hp Hv), (Hdb p Hp), (Hdb _ Hv), (Ha _ Hv).
    destruct (peqb (MsgStore.m_id m, qn) p) eqn:E.
    + apply peqb_eq in E. subst p.
      generalize (KV.kv_mem (MsgStore.ms_db st) (skey (MsgStore.m_id m, qn))) as B.
      generalize (KV.kv_mem (MsgStore.ms_upd st) (skey (MsgStore.m_id m, qn))) as U.
      generalize (KV.kv_mem (MsgStore.ms_add st) (skey (MsgStore.m_id m, qn))) as A.
      intros [|] [|] [|]; reflexivity.
    + cbn [andb orb]. rewrite orb_false_r. reflexivity.
Qed.

(* the broker model's write-back is [writeback] on its key lists *)
Lemma model_store_writeback : forall s qn u dur,
  let pers := match Model.get_msg s u with Some m => Model.m_pers m | None => false end in
  Model.st_add (Model.store_writeback s qn u dur) = Model.st_add s /\
  Model.st_del (Model.store_writeback s qn u dur) = Model.st_del s /\
  Model.st_db (Model.store_writeback s qn u dur) =
    (if dur && pers then writeback (Model.st_add s) (Model.st_db s) (u, qn) else Model.st_db s).
Proof.
  intros s qn u dur pers. unfold Model.store_writeback, writeback. fold pers.
  change (existsb (fun k => (fst k =? u) && Model.seqb (snd k) qn) (Model.st_db s)) with (mmem (Model.st_db s) (u, qn)).
  change (existsb (fun k => (fst k =? u) && Model.seqb (snd k) qn) (Model.st_add s)) with (mmem (Model.st_add s) (u, qn)).
  destruct (dur && pers); cbn [andb]; [|repeat split; reflexivity].
  destruct (negb (mmem (Model.st_db s) (u, qn)) && negb (mmem (Model.st_add s) (u, qn))); repeat split; reflexivity.
Qed.

(* ---- LPersistTick = the three persist phases run together ---- *)
Definition tick_db (sa sdb sd : list (N * string)) : list (N * string) :=
  let add := filter (fun k => negb (mmem sd k)) sa in
  let del := filter (fun d => negb (mmem sa d)) sd in
  let fresh := filter (fun k => negb (mmem sdb k)) add in
  filter (fun k => negb (mmem del k)) (sdb ++ fresh).

Lemma mem_filter_key : forall (P : KV.key -> bool) (m : KV.kv MsgStore.msg) k,
  KV.kv_mem (filter (fun e => P (fst e)) m) k = P k && KV.kv_mem m k.
Proof. intros. unfold KV.kv_mem. rewrite StoreKVProofs.get_filter. destruct (P k); reflexivity. Qed.

Lemma mem_filter_notin : forall (d m : KV.kv MsgStore.msg) k,
  KV.kv_mem (filter (fun e => negb (KV.kv_mem d (fst e))) m) k = negb (KV.kv_mem d k) && KV.kv_mem m k.
Proof. intros. apply (mem_filter_key (fun x => negb (KV.kv_mem d x))). Qed.

Lemma tick_state : forall st, MsgStore.ms_fly st = None -> MsgStore.ms_engine st = KV.Badger ->
  let f := {| MsgStore.if_stage := MsgStore.Swapped;
              MsgStore.if_add := MsgStore.cancel_add (MsgStore.ms_add st) (MsgStore.ms_del st);
              MsgStore.if_upd := MsgStore.cancel_upd (MsgStore.ms_upd st) (MsgStore.ms_del st);
              MsgStore.if_del := MsgStore.cancel_del (MsgStore.ms_add st) (MsgStore.ms_del st);
              MsgStore.if_settled := MsgStore.settled_of (MsgStore.ms_add st) (MsgStore.ms_del st) |} in
  let st' := fst (StoreMsgProofs.ms_tick st) in
  MsgStore.ms_fly st' = None /\ MsgStore.ms_engine st' = KV.Badger /\
  MsgStore.ms_add st' = [] /\ MsgStore.ms_upd st' = [] /\ MsgStore.ms_del st' = [] /\
  MsgStore.ms_db st' = KV.kv_batch (MsgStore.ms_db st) (MsgStore.batch_of f) /\
  MsgStore.ms_persistent st' = MsgStore.ms_persistent st.
Proof.
  intros st Hf He. cbv zeta. unfold StoreMsgProofs.ms_tick. rewrite !StoreMsgProofs.seq_steps_fst.
  unfold MsgStore.ms_swap at 1 2 3 4 5 6 7. rewrite Hf. cbn [fst].
  rewrite StoreMsgProofs.ms_batch_eq. cbn [MsgStore.ms_fly MsgStore.if_stage MsgStore.ms_engine MsgStore.ms_db]. rewrite He.
  cbn [KV.eng_batch fst]. rewrite StoreMsgProofs.ms_confirm_eq.
  cbn [MsgStore.set_db MsgStore.ms_fly MsgStore.written MsgStore.if_stage fst MsgStore.ms_engine MsgStore.ms_add MsgStore.ms_upd
       MsgStore.ms_del MsgStore.ms_db MsgStore.ms_persistent].
  repeat split; reflexivity.
Qed.

Lemma mem_persist_batch : forall f db k, StoreKVProofs.ksorted (MsgStore.if_add f) -> StoreKVProofs.ksorted (MsgStore.if_upd f) ->
  KV.kv_mem (KV.kv_batch db (MsgStore.batch_of f)) k =
  negb (KV.kv_mem (MsgStore.if_del f) k) &&
  (KV.kv_mem (MsgStore.if_upd f) k || KV.kv_mem (MsgStore.if_add f) k || KV.kv_mem db k).
Proof.
  intros f db k Ha Hu. unfold KV.kv_mem at 1. rewrite (StoreMsgProofs.get_persist_batch f db k Ha Hu).
  destruct (KV.kv_mem (MsgStore.if_del f) k); [reflexivity|]. unfold KV.kv_mem.
  destruct (KV.kv_get (MsgStore.if_upd f) k); [reflexivity|].
  destruct (KV.kv_get (MsgStore.if_add f) k); reflexivity.
Qed.

Lemma rel_tick : forall sa sdb sd st, store_rel sa sdb sd st ->
  store_rel [] (tick_db sa sdb sd) [] (fst (MsgStore.ms_step st MsgStore.MPersistTick)).
Proof.
  intros sa sdb sd st R. rewrite StoreMsgProofs.step_tick.
  pose proof (StoreMsgProofs.wf_tick st (sr_wf _ _ _ _ R)) as Hwf.
  destruct (tick_state st (sr_fly _ _ _ _ R) (sr_eng _ _ _ _ R)) as (T1 & T2 & T3 & T4 & T5 & T6 & _).
  destruct R as [Hf He Hwf0 Hoa Hou Ha Hd Hdb].
  constructor; auto.
  - rewrite T3. apply own_nil.
  - rewrite T4. apply own_nil.
  - intros p Hp. rewrite T3. reflexivity.
  - intros p Hp. rewrite T5. reflexivity.
  - intros p Hp. rewrite T3, T4, T6. cbn [KV.kv_mem KV.kv_get andb]. rewrite orb_false_r.
    destruct Hwf0 as (S1 & S2 & S3 & S4 & _).
    rewrite mem_persist_batch; cbn [MsgStore.if_add MsgStore.if_upd MsgStore.if_del];
      [|apply StoreKVProofs.ksorted_filter; exact S2 | apply StoreKVProofs.ksorted_filter; exact S3].
    change (MsgStore.cancel_add (MsgStore.ms_add st) (MsgStore.ms_del st))
      with (filter (fun e => negb (KV.kv_mem (MsgStore.ms_del st) (fst e))) (MsgStore.ms_add st)).
    change (MsgStore.cancel_upd (MsgStore.ms_upd st) (MsgStore.ms_del st))
      with (filter (fun e => negb (KV.kv_mem (MsgStore.ms_del st) (fst e))) (MsgStore.ms_upd st)).
    change (MsgStore.cancel_del (MsgStore.ms_add st) (MsgStore.ms_del st))
      with (filter (fun e => negb (KV.kv_mem (MsgStore.ms_add st) (fst e))) (MsgStore.ms_del st)).
    rewrite (mem_filter_notin (MsgStore.ms_del st) (MsgStore.ms_add st)), (mem_filter_notin (MsgStore.ms_del st) (MsgStore.ms_upd st)),
            (mem_filter_notin (MsgStore.ms_add st) (MsgStore.ms_del st)).
    unfold tick_db. rewrite mmem_filter, mmem_app, !mmem_filter, (Ha p Hp), (Hd p Hp), (Hdb p Hp).
    generalize (KV.kv_mem (MsgStore.ms_db st) (skey p)) as B.
    generalize (KV.kv_mem (MsgStore.ms_upd st) (skey p)) as U.
    generalize (KV.kv_mem (MsgStore.ms_add st) (skey p)) as A.
    generalize (KV.kv_mem (MsgStore.ms_del st) (skey p)) as D.
    intros [|] [|] [|] [|]; reflexivity.
Qed.

(* the broker model's LPersistTick is [tick_db] on its key lists: the confirmations it then counts touch the heap
   and the relay queue only *)
Lemma store_confirm_keys : forall s u,
  Model.st_add (Model.store_confirm s u) = Model.st_add s /\ Model.st_db (Model.store_confirm s u) = Model.st_db s /\
  Model.st_del (Model.store_confirm s u) = Model.st_del s.
Proof.
  intros s u. unfold Model.store_confirm, Model.upd_msg.
  destruct (Model.get_msg s u) as [m|]; [|repeat split; reflexivity].
  destruct (Model.m_conf m); [|repeat split; reflexivity].
  destruct (Model.get_msg s u); destruct (Z.eqb _ _); repeat split; reflexivity.
Qed.

Lemma fold_store_confirm_keys : forall l s,
  let s' := fold_left (fun s (k : N * string) => Model.store_confirm s (fst k)) l s in
  Model.st_add s' = Model.st_add s /\ Model.st_db s' = Model.st_db s /\ Model.st_del s' = Model.st_del s.
Proof.
  induction l as [|k l IH]; intro s; cbn [fold_left]; [repeat split; reflexivity|].
  destruct (IH (Model.store_confirm s (fst k))) as (A & B & C). destruct (store_confirm_keys s (fst k)) as (A' & B' & C').
  cbv zeta. rewrite A, B, C, A', B', C'. repeat split; reflexivity.
Qed.

Lemma existsb_ext' : forall {A} (f g : A -> bool) l, (forall x, f x = g x) -> existsb f l = existsb g l.
Proof. intros A f g l H. induction l as [|a l IH]; cbn; [reflexivity|]. rewrite H, IH. reflexivity. Qed.

Lemma model_persist_tick : forall cfg fx s,
  let s' := fst (Model.step cfg fx s Model.LPersistTick) in
  Model.st_add s' = [] /\ Model.st_del s' = [] /\
  Model.st_db s' = tick_db (Model.st_add s) (Model.st_db s) (Model.st_del s).
Proof.
  intros cfg fx s. cbn [Model.step fst].
  match goal with |- context [fold_left ?f ?l ?s0] => destruct (fold_store_confirm_keys l s0) as (A & B & C) end.
  cbv zeta in A, B, C. cbv zeta. rewrite A, B, C. split; [reflexivity|]. split; [reflexivity|].
  assert (Hdel : filter (fun d => negb (existsb (fun k => (fst d =? fst k) && Model.seqb (snd d) (snd k)) (Model.st_add s))) (Model.st_del s)
                 = filter (fun d => negb (mmem (Model.st_add s) d)) (Model.st_del s)).
  { apply filter_ext_in'. intro d. f_equal. unfold mmem. apply existsb_ext'. intro k. apply (peqb_sym d k). }
  unfold tick_db. rewrite <- Hdel. reflexivity.
Qed.

(* ---- store_purge (queue.purge, queue.delete of a durable queue) = Purge ---- *)
Definition purge_db (sdb : list (N * string)) (qn : string) : list (N * string) :=
  filter (fun k => negb (Model.seqb (snd k) qn)) sdb.
Definition purge_del (sa sd : list (N * string)) (qn : string) : list (N * string) :=
  sd ++ filter (fun k => Model.seqb (snd k) qn) sa.

Lemma model_store_purge : forall s qn,
  Model.st_add (Model.store_purge s qn) = Model.st_add s /\
  Model.st_db (Model.store_purge s qn) = purge_db (Model.st_db s) qn /\
  Model.st_del (Model.store_purge s qn) = purge_del (Model.st_add s) (Model.st_del s) qn.
Proof. intros. repeat split; reflexivity. Qed.

Lemma own_keqb : forall (m : KV.kv MsgStore.msg) p v qn, own m -> KV.kv_get m (skey p) = Some v ->
  KV.keqb (skey p) (MsgStore.msg_key (bytes_of qn) (MsgStore.m_id v)) = Model.seqb (snd p) qn.
Proof.
  intros m p v qn Ho Hg. destruct (Ho _ _ Hg) as [q0 Hk].
  assert (Hq : bytes_of (snd p) = q0) by (apply (StoreMsgProofs.msg_key_queue_inj _ _ _ _ Hk)). subst q0.
  unfold Model.seqb. destruct (String.eqb_spec (snd p) qn) as [E|E].
  - subst qn. rewrite Hk. apply StoreKVProofs.keqb_refl.
  - apply StoreKVProofs.keqb_neq. rewrite Hk. intro H. apply StoreMsgProofs.msg_key_queue_inj in H. apply bytes_of_inj in H. contradiction.
Qed.

Lemma prefix_skey : forall p qn, pvalid p -> StoreSpec.dotfree (bytes_of qn) = true ->
  KeyFmt.is_prefix (MsgStore.msg_prefix_del (bytes_of qn)) (skey p) = Model.seqb (snd p) qn.
Proof.
  intros p qn [_ Hd] Hq. unfold skey, Model.seqb.
  pose proof (StoreKeyProofs.prefix_iff_same_queue (bytes_of qn) (bytes_of (snd p)) (fst p) Hq Hd) as H.
  destruct (String.eqb_spec (snd p) qn) as [E|E].
  - apply H. subst. reflexivity.
  - destruct (KeyFmt.is_prefix _ _) eqn:Ep; [|reflexivity]. exfalso. apply E.
    apply bytes_of_inj. symmetry. apply H. reflexivity.
Qed.

Lemma mem_del_prefix : forall (m : KV.kv MsgStore.msg) pfx k,
  KV.kv_mem (KV.kv_del_prefix m pfx) k = negb (KeyFmt.is_prefix pfx k) && KV.kv_mem m k.
Proof. intros. unfold KV.kv_mem. rewrite StoreKVProofs.get_del_prefix. destruct (KeyFmt.is_prefix pfx k); reflexivity. Qed.

Lemma rel_purge : forall sa sdb sd st qn, store_rel sa sdb sd st -> StoreSpec.dotfree (bytes_of qn) = true ->
  store_rel sa (purge_db sdb qn) (purge_del sa sd qn) (fst (MsgStore.ms_step st (MsgStore.MPurge (bytes_of qn)))).
Proof.
  intros sa sdb sd st qn R Hq.
  pose proof (StoreMsgProofs.wf_step st (MsgStore.MPurge (bytes_of qn)) (sr_wf _ _ _ _ R)) as Hwf.
  cbn [MsgStore.ms_step fst] in *. rewrite (StoreMsgProofs.ms_purge_eq st _ (sr_fly _ _ _ _ R)) in *.
  destruct R as [Hf He Hwf0 Hoa Hou Ha Hd Hdb]. destruct Hwf0 as (S1 & S2 & S3 & S4 & _).
  assert (Hupd : forall p, KV.kv_mem (MsgStore.purge_upd (MsgStore.ms_upd st) (bytes_of qn)) (skey p)
                           = KV.kv_mem (MsgStore.ms_upd st) (skey p) && negb (Model.seqb (snd p) qn)).
  { intro p. unfold KV.kv_mem. rewrite (StoreMsgProofs.get_purge_upd _ _ _ S3).
    destruct (KV.kv_get (MsgStore.ms_upd st) (skey p)) as [v|] eqn:Eg; [|reflexivity].
    rewrite (own_keqb _ p v qn Hou Eg). destruct (Model.seqb (snd p) qn); reflexivity. }
  constructor; cbn [MsgStore.ms_fly MsgStore.ms_engine MsgStore.ms_add MsgStore.ms_upd MsgStore.ms_del MsgStore.ms_db]; auto.
  - intros k v Hg. rewrite (StoreMsgProofs.get_purge_upd _ _ _ S3) in Hg.
    destruct (KV.kv_get (MsgStore.ms_upd st) k) as [v'|] eqn:Eg; [|discriminate].
    destruct (KV.keqb k _); [discriminate|]. inversion Hg; subst. apply (Hou _ _ Eg).
  - intros p Hp. unfold purge_del. rewrite mmem_app, mmem_filter, (Ha p Hp), (Hd p Hp).
    unfold KV.kv_mem at 3. rewrite (StoreMsgProofs.get_purge_del _ _ _ _ S2). unfold KV.kv_mem.
    destruct (KV.kv_get (MsgStore.ms_add st) (skey p)) as [v|] eqn:Eg.
    + rewrite (own_keqb _ p v qn Hoa Eg). destruct (Model.seqb (snd p) qn); cbn [andb]; [apply orb_true_r | apply orb_false_r].
    + cbn [andb]. apply orb_false_r.
  - intros p Hp. rewrite Hupd. unfold purge_db. rewrite mmem_filter, (Hdb p Hp). rewrite He.
    change (KV.eng_del_prefix KV.Badger (MsgStore.ms_db st) (MsgStore.msg_prefix_del (bytes_of qn)))
      with (KV.kv_del_prefix (MsgStore.ms_db st) (MsgStore.msg_prefix_del (bytes_of qn))).
    rewrite mem_del_prefix, (prefix_skey p qn Hp Hq).
    generalize (KV.kv_mem (MsgStore.ms_db st) (skey p)) as B.
    generalize (KV.kv_mem (MsgStore.ms_upd st) (skey p)) as U.
    generalize (KV.kv_mem (MsgStore.ms_add st) (skey p)) as A.
    generalize (Model.seqb (snd p) qn) as Q.
    intros [|] [|] [|] [|]; reflexivity.
Qed.

(* ---- the relation reads the key lists as sets ---- *)
Definition same_keys (l l' : list (N * string)) : Prop := forall p, mmem l p = mmem l' p.

Lemma rel_ext : forall sa sdb sd sa' sdb' sd' st, store_rel sa sdb sd st ->
  same_keys sa sa' -> same_keys sdb sdb' -> same_keys sd sd' -> store_rel sa' sdb' sd' st.
Proof.
  intros sa sdb sd sa' sdb' sd' st [Hf He Hwf Hoa Hou Ha Hd Hdb] E1 E2 E3.
  constructor; auto; intros p Hp; [rewrite <- E1 | rewrite <- E3 | rewrite <- E2]; auto.
Qed.

(* ---- Kill (the process dies): what is pending is lost ----
   The broker model's flushed keys include the write-backs that are still parked in the update map; a kill loses
   those.  The two agree when no such write-back is pending ([no_pending_writeback]); see rel_kill_gap. *)
Definition no_pending_writeback (st : MsgStore.mstore) : Prop :=
  forall p, pvalid p ->
    KV.kv_mem (MsgStore.ms_upd st) (skey p) && negb (KV.kv_mem (MsgStore.ms_add st) (skey p))
    && negb (KV.kv_mem (MsgStore.ms_db st) (skey p)) = false.

Lemma rel_kill : forall sa sdb sd st, store_rel sa sdb sd st -> MsgStore.ms_persistent st = true ->
  no_pending_writeback st ->
  store_rel [] sdb [] (fst (MsgStore.ms_step st MsgStore.MKill)).
Proof.
  intros sa sdb sd st R Hper Hnp.
  pose proof (StoreMsgProofs.wf_kill st (sr_wf _ _ _ _ R)) as Hwf.
  cbn [MsgStore.ms_step fst]. destruct R as [Hf He Hwf0 Hoa Hou Ha Hd Hdb]. unfold MsgStore.ms_kill in *. rewrite Hper in *.
  constructor; cbn [MsgStore.ms_fly MsgStore.ms_engine MsgStore.ms_add MsgStore.ms_upd MsgStore.ms_del MsgStore.ms_db]; auto;
    try apply own_nil; try (intros; reflexivity).
  intros p Hp. cbn [KV.kv_mem KV.kv_get andb]. rewrite orb_false_r, (Hdb p Hp). specialize (Hnp p Hp). revert Hnp.
  generalize (KV.kv_mem (MsgStore.ms_db st) (skey p)) as B.
  generalize (KV.kv_mem (MsgStore.ms_upd st) (skey p)) as U.
  generalize (KV.kv_mem (MsgStore.ms_add st) (skey p)) as A.
  intros [|] [|] [|]; cbn; congruence.
Qed.

Lemma no_pending_after_tick : forall st, MsgStore.ms_fly st = None -> MsgStore.ms_engine st = KV.Badger ->
  no_pending_writeback (fst (MsgStore.ms_step st MsgStore.MPersistTick)).
Proof.
  intros st Hf He p Hp. rewrite StoreMsgProofs.step_tick.
  destruct (tick_state st Hf He) as (_ & _ & _ & T4 & _). rewrite T4. reflexivity.
Qed.

(* ---- Close (graceful stop) = the three persist phases, then only the engine survives ---- *)
Lemma rel_close : forall sa sdb sd st, store_rel sa sdb sd st -> MsgStore.ms_persistent st = true ->
  store_rel [] (tick_db sa sdb sd) [] (fst (MsgStore.ms_step st MsgStore.MClose)).
Proof.
  intros sa sdb sd st R Hper. rewrite StoreMsgProofs.step_close. cbn [fst].
  pose proof (rel_tick _ _ _ _ R) as Rt. rewrite StoreMsgProofs.step_tick in Rt.
  pose proof (no_pending_after_tick st (sr_fly _ _ _ _ R) (sr_eng _ _ _ _ R)) as Hnp. rewrite StoreMsgProofs.step_tick in Hnp.
  assert (Hper' : MsgStore.ms_persistent (fst (StoreMsgProofs.ms_tick st)) = true).
  { destruct (tick_state st (sr_fly _ _ _ _ R) (sr_eng _ _ _ _ R)) as (_ & _ & _ & _ & _ & _ & T7). rewrite T7. exact Hper. }
  exact (rel_kill _ _ _ _ Rt Hper' Hnp).
Qed.

(* ---- the broker model's restart: the pending lists are dropped, the flushed keys of durable queues stay ---- *)
Lemma model_restart_keys : forall cfg s,
  let s' := fst (Model.restart cfg s) in
  let durq := filter (fun kv => Model.q_durable (snd kv)) (Model.queues s) in
  Model.st_add s' = [] /\ Model.st_del s' = [] /\
  Model.st_db s' = filter (fun k => existsb (fun kv => Model.seqb (fst kv) (snd k)) durq) (Model.st_db s).
Proof. intros. repeat split; reflexivity. Qed.

Lemma same_keys_filter_all : forall f l, (forall p, In p l -> f p = true) -> same_keys l (filter f l).
Proof.
  intros f l H p. rewrite mmem_filter. destruct (mmem l p) eqn:E; [|reflexivity].
  apply mmem_In in E. rewrite (H p E). reflexivity.
Qed.

Lemma same_keys_tick_nothing_pending : forall sdb, same_keys sdb (tick_db [] sdb []).
Proof.
  intros sdb p. unfold tick_db. cbn [filter]. rewrite app_nil_r, mmem_filter. cbn [mmem existsb negb]. rewrite andb_true_r. reflexivity.
Qed.

(* LRestart = Kill + reload, when every flushed key belongs to a durable queue (an invariant of the broker model:
   Proofs/BrokerDurable.v) and no write-back is parked *)
Lemma rel_restart_kill : forall cfg s st, store_rel (Model.st_add s) (Model.st_db s) (Model.st_del s) st ->
  MsgStore.ms_persistent st = true -> no_pending_writeback st ->
  (forall p, In p (Model.st_db s) ->
     existsb (fun kv => Model.seqb (fst kv) (snd p)) (filter (fun kv => Model.q_durable (snd kv)) (Model.queues s)) = true) ->
  let s' := fst (Model.step cfg Model.all_fixed s Model.LRestart) in
  store_rel (Model.st_add s') (Model.st_db s') (Model.st_del s') (fst (MsgStore.ms_step st MsgStore.MKill)).
Proof.
  intros cfg s st R Hper Hnp Hdur. cbn [Model.step]. destruct (model_restart_keys cfg s) as (A & B & C).
  cbv zeta in *. rewrite A, B, C.
  eapply rel_ext; [exact (rel_kill _ _ _ _ R Hper Hnp) | intro; reflexivity | | intro; reflexivity].
  apply same_keys_filter_all. exact Hdur.
Qed.

(* [LPersistTick; LRestart] = Close + reload (the graceful restart of Props/C02_history.v), unconditionally *)
Lemma rel_restart_graceful : forall cfg fx s st, store_rel (Model.st_add s) (Model.st_db s) (Model.st_del s) st ->
  MsgStore.ms_persistent st = true ->
  let s1 := fst (Model.step cfg fx s Model.LPersistTick) in
  (forall p, In p (Model.st_db s1) ->
     existsb (fun kv => Model.seqb (fst kv) (snd p)) (filter (fun kv => Model.q_durable (snd kv)) (Model.queues s1)) = true) ->
  let s' := fst (Model.step cfg fx s1 Model.LRestart) in
  store_rel (Model.st_add s') (Model.st_db s') (Model.st_del s') (fst (MsgStore.ms_step st MsgStore.MClose)).
Proof.
  intros cfg fx s st R Hper s1 Hdur. cbn [Model.step]. destruct (model_restart_keys cfg s1) as (A & B & C).
  cbv zeta in *. rewrite A, B, C.
  destruct (model_persist_tick cfg fx s) as (_ & _ & T). fold s1 in T. cbv zeta in T.
  eapply rel_ext; [exact (rel_close _ _ _ _ R Hper) | intro; reflexivity | | intro; reflexivity].
  rewrite <- T. apply same_keys_filter_all. exact Hdur.
Qed.

(* ---- where the broker model's handlers touch the key lists: Queue.Push and Queue.AckMsg ---- *)
Lemma model_queue_push_keys : forall s qn u qu m,
  Model.get_queue s qn = Some qu -> Model.get_msg s u = Some m -> Model.q_active qu = true ->
  Model.st_add (Model.queue_push s qn u) = (if Model.q_durable qu && Model.m_pers m then Model.st_add s ++ [(u, qn)] else Model.st_add s) /\
  Model.st_db (Model.queue_push s qn u) = Model.st_db s /\ Model.st_del (Model.queue_push s qn u) = Model.st_del s.
Proof.
  intros s qn u qu m Hq Hm Ha. unfold Model.queue_push. rewrite Hq, Hm, Ha. cbn [negb].
  destruct (Model.q_durable qu && Model.m_pers m); [repeat split; reflexivity|].
  destruct (Model.m_conf m); [|repeat split; reflexivity].
  unfold Model.upd_msg. destruct (Model.get_msg _ u); repeat split; reflexivity.
Qed.

Lemma model_queue_ackmsg_keys : forall s qn u qu m,
  Model.get_queue s qn = Some qu -> Model.get_msg s u = Some m -> Model.q_active qu = true ->
  Model.st_del (Model.queue_ackmsg s qn u) = (if Model.q_durable qu && Model.m_pers m then Model.st_del s ++ [(u, qn)] else Model.st_del s) /\
  Model.st_db (Model.queue_ackmsg s qn u) = Model.st_db s /\ Model.st_add (Model.queue_ackmsg s qn u) = Model.st_add s.
Proof.
  intros s qn u qu m Hq Hm Ha. unfold Model.queue_ackmsg. rewrite Hq, Hm, Ha. cbn [negb].
  destruct (Model.q_durable qu && Model.m_pers m); repeat split; reflexivity.
Qed.
