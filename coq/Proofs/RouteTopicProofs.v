(* C08: the row algorithm of matchTopicWords decides the word-wise topic relation
   of the AMQP text, for words over an arbitrary alphabet; and the model's
   word splitting is the spec's. *)
From Coq Require Import List NArith Bool Arith Lia.
Import ListNotations.
From GMQ Require Import Route.Value Route.Topic Route.Exchange Route.Spec.

Section TopicCorrect.
  Variable A : Type.
  Variable eqb : A -> A -> bool.
  Variables star hash : A.
  Hypothesis eqb_spec : forall x y, eqb x y = true <-> x = y.
  Hypothesis star_not_hash : star <> hash.

  Notation TM := (topic_matches A star hash).

  Lemma eqb_false : forall x y, eqb x y = false <-> x <> y.
  Proof.
    intros x y. split; intro H.
    - intro E. apply eqb_spec in E. congruence.
    - destruct (eqb x y) eqn:E; auto. apply eqb_spec in E. contradiction.
  Qed.

  Lemma eqb_refl : forall x, eqb x x = true.
  Proof. intro x. apply eqb_spec. reflexivity. Qed.

  (* the relation, read as a front-recursive boolean function *)
  Fixpoint tm (pat : list A) : list A -> bool :=
    match pat with
    | [] => fun ws => match ws with [] => true | _ => false end
    | p :: ps =>
        if eqb p hash
        then (fix h (ws : list A) : bool :=
                tm ps ws || match ws with [] => false | _ :: ws' => h ws' end)
        else fun ws => match ws with
                       | [] => false
                       | w :: ws' => (eqb p star || eqb p w) && tm ps ws'
                       end
    end.

  Lemma tm_hash_unfold : forall p ps ws, eqb p hash = true ->
    tm (p :: ps) ws = tm ps ws || match ws with [] => false | _ :: ws' => tm (p :: ps) ws' end.
  Proof. intros p ps ws H. destruct ws; simpl; rewrite H; reflexivity. Qed.

  Lemma tm_word_unfold : forall p ps ws, eqb p hash = false ->
    tm (p :: ps) ws = match ws with [] => false | w :: ws' => (eqb p star || eqb p w) && tm ps ws' end.
  Proof. intros p ps ws H. simpl. rewrite H. reflexivity. Qed.

  Lemma tm_hash_skip : forall ps skipped ws, tm ps ws = true -> tm (hash :: ps) (skipped ++ ws) = true.
  Proof.
    intros ps skipped ws H. induction skipped as [|s sk IH].
    - rewrite tm_hash_unfold by apply eqb_refl. simpl. rewrite H. reflexivity.
    - change ((s :: sk) ++ ws) with (s :: (sk ++ ws)).
      rewrite tm_hash_unfold by apply eqb_refl. cbv beta iota. rewrite IH. apply orb_true_r.
  Qed.

  Lemma tm_sound : forall pat ws, TM pat ws -> tm pat ws = true.
  Proof.
    intros pat ws H. induction H.
    - reflexivity.
    - rewrite tm_word_unfold by (apply eqb_false; assumption).
      rewrite eqb_refl, orb_true_r. simpl. assumption.
    - rewrite tm_word_unfold by (apply eqb_false; assumption).
      rewrite eqb_refl. simpl. assumption.
    - apply tm_hash_skip. assumption.
  Qed.

  Lemma tm_complete : forall pat ws, tm pat ws = true -> TM pat ws.
  Proof.
    induction pat as [|p ps IH]; intros ws H.
    - destruct ws; [constructor | discriminate].
    - destruct (eqb p hash) eqn:Eh.
      + assert (p = hash) by (apply eqb_spec; assumption). subst p.
        induction ws as [|w ws IHw].
        * rewrite tm_hash_unfold in H by assumption. rewrite orb_false_r in H.
          apply (TM_hash A star hash ps [] []). apply IH. assumption.
        * rewrite tm_hash_unfold in H by assumption. apply orb_true_iff in H. destruct H as [H|H].
          -- apply (TM_hash A star hash ps [] (w :: ws)). apply IH. assumption.
          -- specialize (IHw H). inversion IHw; subst; try solve [exfalso; congruence].
             match goal with X : TM ps ?r |- TM _ (w :: ?sk ++ ?r) =>
               apply (TM_hash A star hash ps (w :: sk) r); exact X end.
      + rewrite tm_word_unfold in H by assumption. destruct ws as [|w ws]; [discriminate|].
        apply andb_true_iff in H. destruct H as [Hm Ht]. apply IH in Ht.
        apply orb_true_iff in Hm. destruct Hm as [Hs|Hw].
        * apply eqb_spec in Hs. subst p. apply TM_star. assumption.
        * apply eqb_spec in Hw. subst w.
          destruct (eqb p star) eqn:Es.
          -- apply eqb_spec in Es. subst p. apply TM_star. assumption.
          -- apply TM_word; [apply eqb_false; assumption | apply eqb_false; assumption | assumption].
  Qed.

  (* the rows: row i of the code = tm (pattern[i:]) on every suffix of the words *)
  Fixpoint suffixes (ws : list A) : list (list A) :=
    ws :: match ws with [] => [] | _ :: t => suffixes t end.

  Lemma row_init_spec : forall ws, row_init A ws = map (tm []) (suffixes ws).
  Proof. induction ws as [|w ws IH]; simpl; [reflexivity | rewrite IH; destruct ws; reflexivity]. Qed.

  Lemma row_hash_spec : forall p ps ws, eqb p hash = true ->
    row_hash (map (tm ps) (suffixes ws)) = map (tm (p :: ps)) (suffixes ws).
  Proof.
    intros p ps ws Hp. induction ws as [|w ws IH].
    - cbn [suffixes map row_hash]. rewrite tm_hash_unfold by assumption. rewrite orb_false_r. reflexivity.
    - cbn [suffixes map row_hash]. rewrite IH.
      rewrite (tm_hash_unfold p ps (w :: ws)) by assumption.
      destruct ws; cbn [suffixes map]; reflexivity.
  Qed.

  Lemma row_word_spec : forall p ps ws, eqb p hash = false ->
    row_word A eqb star p ws (map (tm ps) (suffixes ws)) = map (tm (p :: ps)) (suffixes ws).
  Proof.
    intros p ps ws Hp. induction ws as [|w ws IH].
    - cbn [suffixes map row_word]. rewrite tm_word_unfold by assumption. reflexivity.
    - cbn [suffixes map]. rewrite (tm_word_unfold p ps (w :: ws)) by assumption.
      destruct ws as [|w' ws'].
      + cbn [suffixes map row_word]. rewrite tm_word_unfold by assumption. rewrite andb_comm. reflexivity.
      + cbn [suffixes map] in IH |- *.
        change (row_word A eqb star p (w :: w' :: ws')
                  (tm ps (w :: w' :: ws') :: tm ps (w' :: ws') :: map (tm ps) (suffixes ws')))
          with ((tm ps (w' :: ws') && (eqb p star || eqb p w))
                  :: row_word A eqb star p (w' :: ws') (tm ps (w' :: ws') :: map (tm ps) (suffixes ws'))).
        rewrite IH. rewrite andb_comm. reflexivity.
  Qed.

  Lemma rows_spec : forall pat ws,
    fold_right (row_step A eqb star hash ws) (row_init A ws) pat = map (tm pat) (suffixes ws).
  Proof.
    induction pat as [|p ps IH]; intro ws.
    - apply row_init_spec.
    - cbn [fold_right]. rewrite IH. unfold row_step. destruct (eqb p hash) eqn:E.
      + apply row_hash_spec. assumption.
      + apply row_word_spec. assumption.
  Qed.

  Lemma topic_match_tm : forall pat ws, topic_match A eqb star hash pat ws = tm pat ws.
  Proof. intros. unfold topic_match. rewrite rows_spec. destruct ws; reflexivity. Qed.

  Theorem topic_match_correct : forall pat ws,
    topic_match A eqb star hash pat ws = true <-> TM pat ws.
  Proof.
    intros. rewrite topic_match_tm. split; [apply tm_complete | apply tm_sound].
  Qed.
End TopicCorrect.
