(* C07, the composition: in every reachable state each (queue, consumer) pair that could deliver has a wake-up pending
   (the consumer's token, or the queue's call token whose loop turn signals every consumer of the queue); hence a
   reachable idle state has no deliverable pair, and from a deliverable pair an enabled internal turn delivers.

   Contents:
     needs_wake / pending / wake_inv / deliverable (+ boolean renderings and their specs)
     window arithmetic: what a reservation attempt may do to a window (Rw) and why it never makes room (no wrap)
     views: sameview (nothing the invariant reads changes), wake_inv_mono (queue side / consumer side with escapes)
     one lemma per primitive (WI_queue_push ... WI_consumer_turn, WI_queue_loop_turn, WI_handle_method), WI_step
     auxiliary invariants, each over every label: closed_empty (CE_step), heap_fresh (hle_step)
     live_inv, wake_step, wake_init, wake_reachable, no_idle_with_work, deliverable_armed_turn_delivers,
     deliverable_progress.

   Hypotheses the proofs need (each shown necessary by an evaluated run in Props/C07_history.v):
     fx_closeok_releases = true   (close-ok releases the channel: otherwise consumers survive on a closed channel and
                                   channel.open resets their window without a signal)
     fx_chan_open = true          (a closed channel accepts channel.open only: otherwise basic.consume on a closed channel)
     size_nowrap in every state of the run (the uint32 byte counter of a prefetch window does not wrap: a wrap makes
                                   room without a signal) *)
From Coq Require Import List String NArith ZArith Bool Lia ZifyBool ZifyN.
From RecordUpdate Require Import RecordUpdate.
Import ListNotations.
From GMQ Require Import Broker.Model Proofs.BrokerFrames Proofs.BrokerTags Proofs.BrokerChanInv Proofs.BrokerReady
  Proofs.BrokerRelease Proofs.BrokerWake Proofs.BrokerPrefetch.
Open Scope N_scope.

(* ------------------------------------------------------------------ *)
(* definitions *)

(* the window accepts a charge of (1, size): Queue.PopQos would not be refused by it *)
Definition win_ok (size : N) (w : qosw) : bool := match qos_inc w size with Some _ => true | None => false end.

(* every window the consumer is charged to accepts message u (a no-ack consumer is charged to none) *)
Definition head_fits (cfg : config) (s : state) (c h : N) (cm : consumer) (u : N) : bool :=
  c_noack cm || forallb (win_ok (msg_size s u mod two32)) (window_list cfg s c h cm).

(* queue qn shows a head that the started consumer (c,h,tag) of that queue has room to take *)
Definition needs_wake (cfg : config) (s : state) (qn : string) (c h : N) (tag : string) : Prop :=
  exists qu cm u rest,
    get_queue s qn = Some qu /\ q_active qu = true /\ q_ready qu = u :: rest /\
    In (c, h, tag) (q_consumers qu) /\
    consumer_at s c h tag = Some cm /\ c_status cm = CStarted /\ c_queue cm = qn /\
    head_fits cfg s c h cm u = true.

(* a wake-up is on its way: the consumer holds its token, or the queue's call token is raised *)
Definition pending (s : state) (qn : string) (c h : N) (tag : string) : Prop :=
  (exists cm, consumer_at s c h tag = Some cm /\ c_token cm = true) \/
  (exists qu, get_queue s qn = Some qu /\ q_call qu = true).

Definition wake_inv (cfg : config) (s : state) : Prop :=
  forall qn c h tag, needs_wake cfg s qn c h tag -> pending s qn c h tag.

(* the pair of the property: needs_wake + the head is a message of the heap + the channel is open with flow on *)
Definition deliverable (cfg : config) (s : state) (qn : string) (c h : N) (tag : string) : Prop :=
  needs_wake cfg s qn c h tag /\
  (exists qu u rest m, get_queue s qn = Some qu /\ q_ready qu = u :: rest /\ get_msg s u = Some m) /\
  (exists ch, get_chan s c h = Some ch /\ ch_status ch = ChOpen /\ ch_flow ch = true).

(* boolean renderings, to evaluate *)
Definition ckey_eqb (x y : N * N * string) : bool :=
  (fst (fst x) =? fst (fst y)) && (snd (fst x) =? snd (fst y)) && seqb (snd x) (snd y).
Definition cstarted (cm : consumer) : bool := match c_status cm with CStarted => true | _ => false end.
Definition needs_wakeb (cfg : config) (s : state) (qn : string) (c h : N) (tag : string) : bool :=
  match get_queue s qn with
  | Some qu =>
    q_active qu && existsb (ckey_eqb (c, h, tag)) (q_consumers qu) &&
    match q_ready qu, consumer_at s c h tag with
    | u :: _, Some cm => cstarted cm && seqb (c_queue cm) qn && head_fits cfg s c h cm u
    | _, _ => false
    end
  | None => false
  end.
Definition pendingb (s : state) (qn : string) (c h : N) (tag : string) : bool :=
  (match consumer_at s c h tag with Some cm => c_token cm | None => false end) ||
  (match get_queue s qn with Some qu => q_call qu | None => false end).
Definition deliverableb (cfg : config) (s : state) (qn : string) (c h : N) (tag : string) : bool :=
  needs_wakeb cfg s qn c h tag &&
  (match get_queue s qn with
   | Some qu => match q_ready qu with u :: _ => match get_msg s u with Some _ => true | None => false end | [] => false end
   | None => false end) &&
  (match get_chan s c h with
   | Some ch => (match ch_status ch with ChOpen => true | _ => false end) && ch_flow ch
   | None => false end).
Definition wake_invb (cfg : config) (s : state) : bool :=
  forallb (fun kv => forallb (fun x => let '(c, h, tag) := x in
     negb (needs_wakeb cfg s (fst kv) c h tag) || pendingb s (fst kv) c h tag) (q_consumers (snd kv))) (queues s).

Lemma ckey_eqb_spec x y : ckey_eqb x y = true <-> x = y.
Proof.
  destruct x as [[a b] t], y as [[a' b'] t']. unfold ckey_eqb. cbn.
  rewrite !andb_true_iff, !N.eqb_eq. split.
  - intros [[-> ->] E]. apply seqb_spec in E. subst. reflexivity.
  - intros E. inversion E; subst. repeat split; auto. apply seqb_spec. reflexivity.
Qed.

Lemma needs_wakeb_spec cfg s qn c h tag : needs_wakeb cfg s qn c h tag = true <-> needs_wake cfg s qn c h tag.
Proof.
  unfold needs_wakeb, needs_wake. split.
  - destruct (get_queue s qn) as [qu|]; [|discriminate].
    intros H. apply andb_prop in H. destruct H as [H H3]. apply andb_prop in H. destruct H as [H1 H2].
    destruct (q_ready qu) as [|u rest] eqn:Er; [discriminate|].
    destruct (consumer_at s c h tag) as [cm|]; [|discriminate].
    apply andb_prop in H3. destruct H3 as [H3 H5]. apply andb_prop in H3. destruct H3 as [H3 H4].
    exists qu, cm, u, rest. repeat split; auto.
    + apply existsb_exists in H2. destruct H2 as (x & Hin & Hx). apply ckey_eqb_spec in Hx. subst. exact Hin.
    + unfold cstarted in H3. destruct (c_status cm); congruence.
    + apply seqb_spec. exact H4.
  - intros (qu & cm & u & rest & Hq & Ha & Hr & Hin & Hc & Hs & Hcq & Had).
    rewrite Hq, Ha, Hr, Hc, Had. unfold cstarted. rewrite Hs, Hcq.
    rewrite (proj2 (seqb_spec qn qn) eq_refl). cbn.
    rewrite andb_true_r. apply existsb_exists. exists (c, h, tag). split; auto. apply ckey_eqb_spec. reflexivity.
Qed.

Lemma pendingb_spec s qn c h tag : pendingb s qn c h tag = true <-> pending s qn c h tag.
Proof.
  unfold pendingb, pending. rewrite orb_true_iff. split; intros [H|H]; [left|right|left|right].
  - destruct (consumer_at s c h tag) as [cm|]; [|discriminate]. eauto.
  - destruct (get_queue s qn) as [qu|]; [|discriminate]. eauto.
  - destruct H as (cm & -> & H). exact H.
  - destruct H as (qu & -> & H). exact H.
Qed.

Lemma deliverableb_spec cfg s qn c h tag : deliverableb cfg s qn c h tag = true <-> deliverable cfg s qn c h tag.
Proof.
  unfold deliverableb, deliverable. rewrite !andb_true_iff, needs_wakeb_spec. split.
  - intros [[H1 H2] H3]. split; auto. split.
    + destruct (get_queue s qn) as [qu|]; [|discriminate]. destruct (q_ready qu) as [|u rest] eqn:Er; [discriminate|].
      destruct (get_msg s u) as [m|] eqn:Em; [|discriminate]. exists qu, u, rest, m. auto.
    + destruct (get_chan s c h) as [ch|]; [|discriminate]. apply andb_prop in H3. destruct H3 as [H3 H4].
      exists ch. destruct (ch_status ch); try discriminate. auto.
  - intros (H1 & (qu & u & rest & m & Hq & Hr & Hm) & (ch & Hc & Hs & Hf)). repeat split; auto.
    + rewrite Hq, Hr, Hm. reflexivity.
    + rewrite Hc, Hs, Hf. reflexivity.
Qed.

(* ------------------------------------------------------------------ *)
(* window arithmetic *)
Lemma win_ok_spec size w : win_ok size w = true <-> qos_inc w size <> None.
Proof. unfold win_ok. destruct (qos_inc w size); split; congruence. Qed.

Lemma win_ok_eq size w :
  win_ok size w = ((pc w =? 0) || ((cc w + 1) mod two16 <=? pc w)) && ((ps w =? 0) || ((cs w + size) mod two32 <=? ps w)).
Proof. unfold win_ok, qos_inc. destruct (_ && _); reflexivity. Qed.

(* what the reservation loop may have done to a window: nothing, a charge, or a charge taken back *)
Definition Rw (size : N) (w w' : qosw) : Prop :=
  w' = w \/ exists w1, qos_inc w size = Some w1 /\ (w' = w1 \/ w' = qos_dec w1 size).

Lemma Rw_refl size w : Rw size w w.
Proof. left. reflexivity. Qed.

(* a window that accepts A after such a change accepted A before it - as long as no byte counter wraps *)
Lemma Rw_ps size w w' : Rw size w w' -> ps w' = ps w.
Proof.
  intros [->|(w1 & Hinc & Hw')]; auto. unfold qos_inc in Hinc. destruct (_ && _); [|discriminate]. inversion Hinc; subst w1.
  destruct Hw' as [->| ->]; reflexivity.
Qed.

Lemma win_ok_Rw_mono size1 sizeA w w' :
  Rw size1 w w' -> (ps w <> 0 -> cs w + size1 < two32) -> (ps w <> 0 -> cs w' + sizeA < two32) ->
  win_ok sizeA w' = true -> win_ok sizeA w = true.
Proof.
  intros [->|(w1 & Hinc & Hw')] Hb1 Hb2 Hok; auto.
  unfold qos_inc in Hinc.
  destruct (((pc w =? 0) || ((cc w + 1) mod two16 <=? pc w)) && ((ps w =? 0) || ((cs w + size1) mod two32 <=? ps w))) eqn:Econd;
    [|discriminate].
  inversion Hinc; subst w1; clear Hinc.
  apply andb_prop in Econd. destruct Econd as [Ec Es].
  rewrite win_ok_eq in *. rewrite Ec. cbn [andb].
  destruct (ps w =? 0) eqn:Eps; [reflexivity|]. cbn [orb] in *.
  assert (Hps : ps w <> 0) by (apply N.eqb_neq; exact Eps). specialize (Hb1 Hps). specialize (Hb2 Hps).
  rewrite (N.mod_small _ _ Hb1) in *.
  apply andb_prop in Hok. destruct Hok as [_ Hok].
  destruct Hw' as [->| ->]; cbn [pc ps cc cs set] in *.
  - cbv [set] in *. cbn in *. rewrite Eps in Hok. cbn [orb] in Hok.
    rewrite (N.mod_small _ _ Hb2) in Hok.
    assert (Hlt : cs w + sizeA < two32) by lia. rewrite (N.mod_small _ _ Hlt). lia.
  - unfold qos_dec in *. cbv [set] in *. cbn in *. rewrite Eps in Hok. cbn [orb] in Hok.
    assert (E2 : (cs w + size1 <? size1) = false) by lia. rewrite E2 in *.
    replace (cs w + size1 - size1) with (cs w) in * by lia. exact Hok.
Qed.

Lemma reserve_rel rb ws : forall size r ws', reserve rb ws size = (r, ws') -> Forall2 (Rw size) ws ws'.
Proof.
  induction ws as [|w t IH]; intros size r ws' H; cbn [reserve] in H.
  - inversion H; subst. constructor.
  - destruct (qos_inc w size) as [w1|] eqn:Ei.
    + destruct (reserve rb t size) as [r0 t'] eqn:Er. specialize (IH _ _ _ Er).
      destruct r0 as [l|]; inversion H; subst; clear H.
      * constructor; auto. right. exists w1. auto.
      * constructor; auto. destruct rb; right; exists w1; auto.
    + inversion H; subst. constructor; [apply Rw_refl|]. clear. induction t; constructor; auto. apply Rw_refl.
Qed.

Lemma reserve_none rb ws : forall size ws', reserve rb ws size = (None, ws') -> forallb (win_ok size) ws' = false.
Proof.
  induction ws as [|w t IH]; intros size ws' H; cbn [reserve] in H.
  - inversion H.
  - destruct (qos_inc w size) as [w1|] eqn:Ei.
    + destruct (reserve rb t size) as [r0 t'] eqn:Er. destruct r0 as [l|]; inversion H; subst; clear H.
      cbn [forallb]. rewrite (IH _ _ Er). apply andb_false_r.
    + inversion H; subst. cbn [forallb]. unfold win_ok at 1. rewrite Ei. reflexivity.
Qed.

Lemma reserve_some rb ws : forall size, forallb (win_ok size) ws = true -> exists l, fst (reserve rb ws size) = Some l.
Proof.
  induction ws as [|w t IH]; intros size H; cbn [reserve].
  - eexists. reflexivity.
  - cbn [forallb] in H. apply andb_prop in H. destruct H as [H1 H2]. unfold win_ok in H1.
    destruct (qos_inc w size) as [w1|]; [|discriminate].
    destruct (IH _ H2) as [l Hl]. destruct (reserve rb t size) as [r0 t']. cbn [fst] in Hl. subst. eexists. reflexivity.
Qed.

Lemma reserve_length rb ws : forall size, List.length (snd (reserve rb ws size)) = List.length ws.
Proof.
  induction ws as [|w t IH]; intros size; cbn [reserve]; auto.
  destruct (qos_inc w size) as [w1|]; [|reflexivity].
  specialize (IH size). destruct (reserve rb t size) as [r0 t']. cbn [snd] in IH.
  destruct r0; cbn [snd]; simpl; f_equal; exact IH.
Qed.

(* ------------------------------------------------------------------ *)
(* what the invariant reads of a state *)
Definition cnq (s : state) (c : N) : option qosw := option_map cn_qos (get_conn s c).
Definition qv (qu : queue) : bool * list N * list (N * N * string) * bool := (q_active qu, q_ready qu, q_consumers qu, q_call qu).

Lemma window_list_eq cfg s c h cm :
  window_list cfg s c h cm =
  match Wq s c h, cnq s c with Some a, Some b => if cfg_rabbit cfg then [a; c_own cm] else [a; b] | _, _ => [] end.
Proof. unfold window_list, Wq, cnq. destruct (get_chan s c h); destruct (get_conn s c); reflexivity. Qed.

Lemma head_fits_ext cfg s s' c h cm cm' u :
  Wq s' c h = Wq s c h -> cnq s' c = cnq s c -> msg_size s' u = msg_size s u ->
  c_noack cm' = c_noack cm -> c_own cm' = c_own cm ->
  head_fits cfg s' c h cm' u = head_fits cfg s c h cm u.
Proof. intros E1 E2 E3 E4 E5. unfold head_fits. rewrite !window_list_eq, E1, E2, E3, E4, E5. reflexivity. Qed.

Lemma consumer_at_chan s c h tag cm : consumer_at s c h tag = Some cm ->
  exists ch, get_chan s c h = Some ch /\ find_consumer ch tag = Some cm.
Proof. unfold consumer_at. destruct (get_chan s c h) as [ch|]; [|discriminate]. eauto. Qed.

Lemma find_consumer_tag ch tag cm : find_consumer ch tag = Some cm -> c_tag cm = tag /\ In cm (ch_consumers ch).
Proof. unfold find_consumer. intros H. apply find_some in H. destruct H as [H1 H2]. apply seqb_spec in H2. auto. Qed.

Lemma cnq_conn s c : cnq s c <> None <-> get_conn s c <> None.
Proof. unfold cnq. destruct (get_conn s c); cbn; split; congruence. Qed.

(* the raw transfer principle *)
Lemma wake_inv_transfer cfg s s' :
  wake_inv cfg s ->
  (forall qn c h tag, needs_wake cfg s' qn c h tag ->
     pending s' qn c h tag \/ (needs_wake cfg s qn c h tag /\ (pending s qn c h tag -> pending s' qn c h tag))) ->
  wake_inv cfg s'.
Proof. intros HW HT qn c h tag Hn. destruct (HT _ _ _ _ Hn) as [Hp|[Hn0 Hp]]; auto. Qed.

(* the split form: what may happen to a queue, what may happen to a consumer *)
Definition queued (s : state) (u : N) : Prop := exists qn qu, get_queue s qn = Some qu /\ In u (q_ready qu).

Definition queue_ok (s s' : state) : Prop :=
  forall qn qu', get_queue s' qn = Some qu' -> q_active qu' = true -> q_ready qu' <> [] ->
    q_call qu' = true \/ q_consumers qu' = [] \/
    exists qu, get_queue s qn = Some qu /\ q_active qu = true /\ q_ready qu = q_ready qu' /\
               incl (q_consumers qu') (q_consumers qu) /\ (q_call qu = true -> q_call qu' = true).

Definition consumer_ok (cfg : config) (s s' : state) : Prop :=
  forall c h tag cm', consumer_at s' c h tag = Some cm' -> c_status cm' = CStarted ->
    c_token cm' = true \/
    (forall qu u rest, get_queue s' (c_queue cm') = Some qu -> q_active qu = true -> q_ready qu = u :: rest ->
                       q_call qu = true \/ head_fits cfg s' c h cm' u = false) \/
    exists cm, consumer_at s c h tag = Some cm /\ c_status cm = CStarted /\ c_queue cm = c_queue cm' /\
               (c_token cm = true -> c_token cm' = true) /\
               (forall u, queued s' u -> head_fits cfg s' c h cm' u = true -> head_fits cfg s c h cm u = true).

Lemma wake_inv_mono cfg s s' : queue_ok s s' -> consumer_ok cfg s s' -> wake_inv cfg s -> wake_inv cfg s'.
Proof.
  intros HQ HC HW. apply (wake_inv_transfer cfg s s' HW).
  intros qn c h tag (qu' & cm' & u & rest & Hq & Ha & Hr & Hin & Hc & Hs & Hcq & Had).
  assert (Hne : q_ready qu' <> []) by (rewrite Hr; discriminate).
  destruct (HQ qn qu' Hq Ha Hne) as [Hcall|[Hnil|(qu & Hq0 & Ha0 & Hr0 & Hincl & Hcall)]].
  { left. right. eauto. }
  { rewrite Hnil in Hin. destruct Hin. }
  destruct (HC c h tag cm' Hc Hs) as [Htok|[Hno|(cm & Hc0 & Hs0 & Hcq0 & Htok & Hadm)]].
  { left. left. eauto. }
  { subst qn. destruct (Hno qu' u rest Hq Ha Hr) as [Hcall'|Hno']; [left; right; eauto|]. rewrite Hno' in Had. discriminate. }
  right. split.
  - exists qu, cm, u, rest. rewrite Hr0. repeat split; auto; try congruence.
    apply Hadm; auto. exists qn, qu'. split; auto. rewrite Hr. left. reflexivity.
  - intros [(cm0 & Hc1 & Ht1)|(qu0 & Hq1 & Hcall1)].
    + left. exists cm'. split; auto. apply Htok. congruence.
    + right. exists qu'. split; auto. apply Hcall. congruence.
Qed.

(* equal views *)
Definition sameview (s s' : state) : Prop :=
  (forall qn, option_map qv (get_queue s' qn) = option_map qv (get_queue s qn)) /\
  (forall c h tag, consumer_at s' c h tag = consumer_at s c h tag) /\
  (forall c h tag cm, consumer_at s' c h tag = Some cm -> Wq s' c h = Wq s c h /\ cnq s' c = cnq s c) /\
  (forall u, msg_size s' u = msg_size s u).

Lemma sameview_refl s : sameview s s.
Proof. repeat split; auto. Qed.

Lemma sameview_trans s1 s2 s3 : sameview s1 s2 -> sameview s2 s3 -> sameview s1 s3.
Proof.
  intros (A1 & B1 & C1 & D1) (A2 & B2 & C2 & D2). repeat split.
  - intros. rewrite A2. apply A1.
  - intros. rewrite B2. apply B1.
  - destruct (C2 _ _ _ _ H) as [E _]. rewrite E. rewrite B2 in H. destruct (C1 _ _ _ _ H) as [E' _]. exact E'.
  - destruct (C2 _ _ _ _ H) as [_ E]. rewrite E. rewrite B2 in H. destruct (C1 _ _ _ _ H) as [_ E']. exact E'.
  - intros. rewrite D2. apply D1.
Qed.

Lemma qv_inv qu qu' : qv qu' = qv qu ->
  q_active qu' = q_active qu /\ q_ready qu' = q_ready qu /\ q_consumers qu' = q_consumers qu /\ q_call qu' = q_call qu.
Proof. unfold qv. intros H. inversion H. auto. Qed.

Lemma sameview_inv cfg s s' : sameview s s' -> wake_inv cfg s -> wake_inv cfg s'.
Proof.
  intros (A & B & C & D). apply wake_inv_mono.
  - intros qn qu' Hq Ha Hne. right. right. specialize (A qn). rewrite Hq in A. cbn in A.
    destruct (get_queue s qn) as [qu|]; [|discriminate]. cbn in A. inversion A as [E].
    assert (E' : qv qu' = qv qu) by (unfold qv; congruence).
    apply qv_inv in E'. destruct E' as (E1 & E2 & E3 & E4).
    exists qu. split; [reflexivity|]. split; [congruence|]. split; [congruence|]. split; [rewrite E3; apply incl_refl|congruence].
  - intros c h tag cm' Hc Hs. right. right. exists cm'. rewrite <- B. repeat split; auto.
    intros u _ Had. destruct (C _ _ _ _ Hc) as [E1 E2].
    rewrite <- Had. symmetry. apply head_fits_ext; auto.
Qed.

(* ---- basic rewriting facts ---- *)
Lemma cnq_set_chan s c h ch c' : cnq (set_chan s c h ch) c' = cnq s c'.
Proof.
  unfold cnq, set_chan. destruct (get_conn s c) as [cn|] eqn:Ec; [|reflexivity].
  unfold get_conn in *. cbn. rewrite (alookup_aset N.eqb Neqb_spec).
  destruct (c' =? c) eqn:E; [|reflexivity]. apply N.eqb_eq in E. subst. rewrite Ec. reflexivity.
Qed.
Lemma cnq_upd_chan s c h f c' : cnq (upd_chan s c h f) c' = cnq s c'.
Proof. unfold upd_chan. destruct (get_chan s c h); [apply cnq_set_chan|reflexivity]. Qed.
Lemma cnq_same_conns s s' c : conns s' = conns s -> cnq s' c = cnq s c.
Proof. unfold cnq, get_conn. intros ->. reflexivity. Qed.
Lemma msg_size_same_heap s s' u : heap s' = heap s -> msg_size s' u = msg_size s u.
Proof. unfold msg_size, get_msg. intros ->. reflexivity. Qed.
Lemma msg_size_set_chan s c h ch u : msg_size (set_chan s c h ch) u = msg_size s u.
Proof. apply msg_size_same_heap. apply heap_set_chan. Qed.
Lemma msg_size_upd_chan s c h f u : msg_size (upd_chan s c h f) u = msg_size s u.
Proof. apply msg_size_same_heap. apply heap_upd_chan. Qed.

Lemma consumer_at_set_chan s c0 h0 ch0 ch' c h tag :
  get_chan s c0 h0 = Some ch0 ->
  consumer_at (set_chan s c0 h0 ch') c h tag = if (c =? c0) && (h =? h0) then find_consumer ch' tag else consumer_at s c h tag.
Proof.
  intros E. unfold consumer_at. rewrite get_chan_set_chan. pose proof (get_chan_conn _ _ _ _ E). destruct (get_conn s c0); [|congruence].
  destruct ((c =? c0) && (h =? h0)); reflexivity.
Qed.

Lemma eqb2_true c h c0 h0 : (c =? c0) && (h =? h0) = true -> c = c0 /\ h = h0.
Proof. intros H. apply andb_prop in H. destruct H as [H1 H2]. apply N.eqb_eq in H1, H2. auto. Qed.

(* ---- builders of equal views ---- *)
Lemma sameview_fields s s' : queues s' = queues s -> conns s' = conns s -> heap s' = heap s -> sameview s s'.
Proof.
  intros E1 E2 E3. repeat split; intros.
  - unfold get_queue. rewrite E1. reflexivity.
  - apply consumer_at_conns. exact E2.
  - apply Wq_same_conns. exact E2.
  - apply cnq_same_conns. exact E2.
  - apply msg_size_same_heap. exact E3.
Qed.

Lemma sameview_set_chan s c h ch ch' :
  get_chan s c h = Some ch -> ch_qos ch' = ch_qos ch -> ch_consumers ch' = ch_consumers ch -> sameview s (set_chan s c h ch').
Proof.
  intros E Eq Ec. repeat split; intros.
  - unfold get_queue. rewrite queues_set_chan. reflexivity.
  - rewrite (consumer_at_set_chan _ _ _ _ _ _ _ _ E). destruct ((c0 =? c) && (h0 =? h)) eqn:Eb; auto.
    apply eqb2_true in Eb. destruct Eb; subst. unfold consumer_at. rewrite E. unfold find_consumer. rewrite Ec. reflexivity.
  - rewrite (Wq_set_chan _ _ _ _ _ _ _ E). destruct ((c0 =? c) && (h0 =? h)) eqn:Eb; auto.
    apply eqb2_true in Eb. destruct Eb; subst. unfold Wq. rewrite E, Eq. reflexivity.
  - apply cnq_set_chan.
  - apply msg_size_set_chan.
Qed.

Lemma sameview_upd_chan s c h f :
  (forall ch, ch_qos (f ch) = ch_qos ch) -> (forall ch, ch_consumers (f ch) = ch_consumers ch) -> sameview s (upd_chan s c h f).
Proof.
  intros H1 H2. unfold upd_chan. destruct (get_chan s c h) as [ch|] eqn:E; [|apply sameview_refl].
  eapply sameview_set_chan; eauto.
Qed.

Lemma sameview_set_queue s q qu qu' : get_queue s q = Some qu -> qv qu' = qv qu -> sameview s (set_queue s q qu').
Proof.
  intros E Ev. repeat split; intros; try reflexivity.
  rewrite get_queue_set_queue. destruct (seqb qn q) eqn:Eb; auto. apply seqb_spec in Eb. subst. rewrite E. cbn. rewrite Ev. reflexivity.
Qed.

Lemma sameview_upd_queue s q f : (forall qu, qv (f qu) = qv qu) -> sameview s (upd_queue s q f).
Proof.
  intros H. unfold upd_queue. destruct (get_queue s q) as [qu|] eqn:E; [|apply sameview_refl].
  eapply sameview_set_queue; eauto.
Qed.

Lemma msg_size_upd_msg s u f x : (forall m, m_size (f m) = m_size m) -> msg_size (upd_msg s u f) x = msg_size s x.
Proof.
  intros Hf. unfold upd_msg. destruct (get_msg s u) as [m|] eqn:E; auto.
  unfold msg_size, get_msg in *. cbn. rewrite (alookup_aset N.eqb Neqb_spec).
  destruct (x =? u) eqn:Ex; auto. apply N.eqb_eq in Ex. subst. rewrite E. apply Hf.
Qed.

Lemma sameview_upd_msg s u f : (forall m, m_size (f m) = m_size m) -> sameview s (upd_msg s u f).
Proof.
  intros Hf. repeat split; intros.
  - unfold get_queue. rewrite queues_upd_msg. reflexivity.
  - apply consumer_at_conns. apply conns_upd_msg.
  - apply Wq_same_conns. apply conns_upd_msg.
  - apply cnq_same_conns. apply conns_upd_msg.
  - apply msg_size_upd_msg. exact Hf.
Qed.

Lemma sameview_set_stage s c st : sameview s (set_stage s c st).
Proof.
  repeat split; intros.
  - unfold get_queue. rewrite queues_set_stage. reflexivity.
  - unfold consumer_at. rewrite get_chan_set_stage. reflexivity.
  - unfold Wq. rewrite get_chan_set_stage. reflexivity.
  - unfold set_stage. destruct (get_conn s c) as [cn|] eqn:Ec; auto. unfold cnq, get_conn in *. cbn.
    rewrite (alookup_aset N.eqb Neqb_spec). destruct (c0 =? c) eqn:E; auto. apply N.eqb_eq in E. subst. rewrite Ec. reflexivity.
  - apply msg_size_same_heap. unfold set_stage. destruct (get_conn s c); reflexivity.
Qed.

Lemma consumer_at_ensure s c0 h0 c h tag : consumer_at (ensure_chan s c0 h0) c h tag = consumer_at s c h tag.
Proof.
  unfold ensure_chan. destruct (get_conn s c0) as [cn|] eqn:Ec; auto.
  destruct (alookup N.eqb h0 (cn_chans cn)) eqn:Eh; auto.
  unfold consumer_at, get_chan, get_conn in *. cbn. rewrite (alookup_aset N.eqb Neqb_spec).
  destruct (c =? c0) eqn:E1; auto. apply N.eqb_eq in E1. subst. rewrite Ec. cbn. rewrite (alookup_aset N.eqb Neqb_spec).
  destruct (h =? h0) eqn:E2; auto. apply N.eqb_eq in E2. subst. rewrite Eh. reflexivity.
Qed.

Lemma sameview_ensure_chan s c h : sameview s (ensure_chan s c h).
Proof.
  repeat split; intros.
  - unfold get_queue. rewrite queues_ensure_chan. reflexivity.
  - apply consumer_at_ensure.
  - rewrite consumer_at_ensure in H. apply consumer_at_chan in H. destruct H as (ch & Hg & _).
    unfold ensure_chan. destruct (get_conn s c) as [cn|] eqn:Ec; auto.
    destruct (alookup N.eqb h (cn_chans cn)) eqn:Eh; auto.
    unfold Wq, get_chan, get_conn in *. cbn. rewrite (alookup_aset N.eqb Neqb_spec).
    destruct (c0 =? c) eqn:E1; auto. apply N.eqb_eq in E1. subst. rewrite Ec in *. cbn. rewrite (alookup_aset N.eqb Neqb_spec).
    destruct (h0 =? h) eqn:E2; auto. apply N.eqb_eq in E2. subst. congruence.
  - unfold ensure_chan. destruct (get_conn s c) as [cn|] eqn:Ec; auto.
    destruct (alookup N.eqb h (cn_chans cn)) eqn:Eh; auto.
    unfold cnq, get_conn in *. cbn. rewrite (alookup_aset N.eqb Neqb_spec).
    destruct (c0 =? c) eqn:E1; auto. apply N.eqb_eq in E1. subst. rewrite Ec. reflexivity.
  - apply msg_size_same_heap. unfold ensure_chan. destruct (get_conn s c) as [cn|]; auto. destruct (alookup _ _ _); reflexivity.
Qed.

Lemma sameview_add_confirm s c h t : sameview s (add_confirm s c h t).
Proof.
  unfold add_confirm. destruct (get_chan s c h) as [ch|] eqn:E; [|apply sameview_refl].
  destruct (negb _); [apply sameview_refl|].
  destruct (ch_status ch); try apply sameview_refl; destruct t as [[[? ?] ?]|]; try apply sameview_refl;
    (eapply sameview_set_chan; eauto).
Qed.

Lemma sameview_send_error s c h e : sameview s (fst (send_error s c h e)).
Proof. destruct e; cbn [send_error fst]; [|apply sameview_refl]. apply sameview_upd_chan; reflexivity. Qed.

Lemma sameview_new_conn s c cn : get_conn s c = None -> cn_chans cn = [(0, channel0 <| ch_status := ChNew |>)] ->
  sameview s (s <| conns := aset N.eqb c cn (conns s) |>).
Proof.
  intros Ec Ech.
  assert (HA : forall c' h' tag, consumer_at (s <| conns := aset N.eqb c cn (conns s) |>) c' h' tag = consumer_at s c' h' tag).
  { intros. unfold consumer_at, get_chan, get_conn in *. cbn. rewrite (alookup_aset N.eqb Neqb_spec).
    destruct (c' =? c) eqn:E1; auto. apply N.eqb_eq in E1. subst. rewrite Ec, Ech. cbn. destruct (h' =? 0); reflexivity. }
  repeat split; intros; auto.
  - rewrite HA in H. apply consumer_at_chan in H. destruct H as (ch & Hg & _).
    unfold Wq, get_chan, get_conn in *. cbn. rewrite (alookup_aset N.eqb Neqb_spec).
    destruct (c0 =? c) eqn:E1; auto. apply N.eqb_eq in E1. subst. rewrite Ec in Hg. discriminate.
  - rewrite HA in H. apply consumer_at_chan in H. destruct H as (ch & Hg & _).
    unfold cnq, get_chan, get_conn in *. cbn. rewrite (alookup_aset N.eqb Neqb_spec).
    destruct (c0 =? c) eqn:E1; auto. apply N.eqb_eq in E1. subst. rewrite Ec in Hg. discriminate.
Qed.

(* ---- one-sided helpers ---- *)
Lemma queue_ok_queues s s' : queues s' = queues s -> queue_ok s s'.
Proof.
  intros E qn qu' Hq Ha Hne. right. right. exists qu'. unfold get_queue in *. rewrite E in Hq.
  repeat split; auto. apply incl_refl.
Qed.

Lemma consumer_ok_same cfg s s' :
  (forall c h tag, consumer_at s' c h tag = consumer_at s c h tag) ->
  (forall c h, Wq s' c h = Wq s c h) -> (forall c, cnq s' c = cnq s c) -> (forall u, msg_size s' u = msg_size s u) ->
  consumer_ok cfg s s'.
Proof.
  intros A B C D c h tag cm' Hc Hs. right. right. exists cm'. rewrite <- A. repeat split; auto.
  intros u _ Had. rewrite <- Had. symmetry. apply head_fits_ext; auto.
Qed.

Lemma consumer_ok_conns cfg s s' : conns s' = conns s -> (forall u, msg_size s' u = msg_size s u) -> consumer_ok cfg s s'.
Proof.
  intros E D. apply consumer_ok_same; auto; intros.
  - apply consumer_at_conns; auto.
  - apply Wq_same_conns; auto.
  - apply cnq_same_conns; auto.
Qed.

Lemma queue_ok_set_queue s s0 q qu' :
  queues s0 = queues s ->
  (q_active qu' = true -> q_ready qu' <> [] ->
     q_call qu' = true \/ q_consumers qu' = [] \/
     exists qu, get_queue s q = Some qu /\ q_active qu = true /\ q_ready qu = q_ready qu' /\
                incl (q_consumers qu') (q_consumers qu) /\ (q_call qu = true -> q_call qu' = true)) ->
  queue_ok s (set_queue s0 q qu').
Proof.
  intros E H qn qu1 Hq Ha Hne. rewrite get_queue_set_queue in Hq. destruct (seqb qn q) eqn:Eb.
  - apply seqb_spec in Eb. subst. inversion Hq; subst. auto.
  - right. right. exists qu1. unfold get_queue in *. rewrite E in Hq. repeat split; auto. apply incl_refl.
Qed.

(* a change of the consumer records of one channel that keeps the channel window *)
Lemma consumer_ok_set_chan cfg s c0 h0 ch0 ch' :
  get_chan s c0 h0 = Some ch0 -> ch_qos ch' = ch_qos ch0 ->
  (forall tag cm', find_consumer ch' tag = Some cm' -> c_status cm' = CStarted ->
     c_token cm' = true \/
     exists cm, find_consumer ch0 tag = Some cm /\ c_status cm = CStarted /\ c_queue cm = c_queue cm' /\
                (c_token cm = true -> c_token cm' = true) /\ c_noack cm' = c_noack cm /\ c_own cm' = c_own cm) ->
  consumer_ok cfg s (set_chan s c0 h0 ch').
Proof.
  intros E Eq H c h tag cm' Hc Hs. rewrite (consumer_at_set_chan _ _ _ _ _ _ _ _ E) in Hc.
  assert (HW : Wq (set_chan s c0 h0 ch') c h = Wq s c h).
  { rewrite (Wq_set_chan _ _ _ _ _ _ _ E). destruct ((c =? c0) && (h =? h0)) eqn:Eb; auto.
    apply eqb2_true in Eb. destruct Eb; subst. unfold Wq. rewrite E, Eq. reflexivity. }
  destruct ((c =? c0) && (h =? h0)) eqn:Eb.
  - apply eqb2_true in Eb. destruct Eb; subst.
    destruct (H tag cm' Hc Hs) as [Ht|(cm & Hf & Hs0 & Hq0 & Ht & Hn & Ho)]; [left; exact Ht|].
    right. right. exists cm. unfold consumer_at. rewrite E. repeat split; auto.
    intros u _ Had. rewrite <- Had. symmetry. apply head_fits_ext; auto.
    + apply cnq_set_chan.
    + apply msg_size_set_chan.
  - right. right. exists cm'. repeat split; auto.
    intros u _ Had. rewrite <- Had. symmetry. apply head_fits_ext; auto.
    + apply cnq_set_chan.
    + apply msg_size_set_chan.
Qed.

(* ------------------------------------------------------------------ *)
(* queue operations *)
Lemma msg_size_set_queue s q v x : msg_size (set_queue s q v) x = msg_size s x.
Proof. reflexivity. Qed.

Lemma msg_size_queue_push s qn u x : msg_size (queue_push s qn u) x = msg_size s x.
Proof.
  unfold queue_push. destruct (get_queue s qn) as [qu|]; auto. destruct (get_msg s u) as [m|]; auto.
  destruct (negb (q_active qu)); auto. rewrite msg_size_set_queue.
  destruct (q_durable qu && m_pers m); [reflexivity|].
  destruct (m_conf m); [|reflexivity].
  rewrite msg_size_upd_msg by reflexivity. reflexivity.
Qed.

Lemma call_consumers_call qu : q_active (call_consumers qu) = true -> q_call (call_consumers qu) = true.
Proof. unfold call_consumers. destruct (q_active qu) eqn:E; cbn; auto. congruence. Qed.

Lemma WI_queue_push cfg s qn u : wake_inv cfg s -> wake_inv cfg (queue_push s qn u).
Proof.
  apply wake_inv_mono.
  - unfold queue_push. destruct (get_queue s qn) as [qu|] eqn:Eq; [|apply queue_ok_queues; reflexivity].
    destruct (get_msg s u) as [m|]; [|apply queue_ok_queues; reflexivity].
    destruct (negb (q_active qu)) eqn:Ea; [apply queue_ok_queues; reflexivity|].
    apply queue_ok_set_queue.
    + destruct (q_durable qu && m_pers m); [reflexivity|]. destruct (m_conf m); [|reflexivity]. rewrite queues_upd_msg. reflexivity.
    + intros Ha _. left. apply call_consumers_call. exact Ha.
  - apply consumer_ok_conns; [apply (proj1 conns_queue_ops)|apply msg_size_queue_push].
Qed.

Lemma msg_size_queue_requeue s qn u x : msg_size (queue_requeue s qn u) x = msg_size s x.
Proof.
  unfold queue_requeue. destruct (get_queue s qn) as [qu|]; auto. destruct (negb (q_active qu)); auto.
  rewrite msg_size_set_queue.
  transitivity (msg_size (upd_msg (store_writeback s qn u (q_durable qu)) u (fun m => m <| m_dc ::= N.succ |>)) x); [reflexivity|].
  rewrite msg_size_upd_msg by reflexivity. apply msg_size_same_heap. apply store_writeback_frame.
Qed.

Lemma WI_queue_requeue cfg s qn u : wake_inv cfg s -> wake_inv cfg (queue_requeue s qn u).
Proof.
  apply wake_inv_mono.
  - unfold queue_requeue. destruct (get_queue s qn) as [qu|] eqn:Eq; [|apply queue_ok_queues; reflexivity].
    destruct (negb (q_active qu)) eqn:Ea; [apply queue_ok_queues; reflexivity|].
    apply queue_ok_set_queue.
    + cbn. rewrite queues_upd_msg. apply store_writeback_frame.
    + intros Ha _. left. apply call_consumers_call. exact Ha.
  - apply consumer_ok_conns; [apply (proj1 (proj2 (proj2 conns_queue_ops)))|apply msg_size_queue_requeue].
Qed.

Lemma sameview_queue_ackmsg s qn u : sameview s (queue_ackmsg s qn u).
Proof.
  unfold queue_ackmsg. destruct (get_queue s qn) as [qu|] eqn:Eq; [|apply sameview_refl].
  destruct (get_msg s u) as [m|]; [|apply sameview_refl]. destruct (negb (q_active qu)); [apply sameview_refl|].
  set (s1 := (if q_durable qu && m_pers m then _ else s) <| srv_total ::= Z.pred |> <| srv_unacked ::= Z.pred |>).
  apply (sameview_trans s s1).
  - apply sameview_fields; subst s1; destruct (q_durable qu && m_pers m); reflexivity.
  - apply (sameview_set_queue s1 qn qu); [|reflexivity]. subst s1. destruct (q_durable qu && m_pers m); exact Eq.
Qed.

Lemma remove_first_incl {A} (p : A -> bool) l : incl (remove_first p l) l.
Proof.
  induction l as [|a l IH]; cbn; [apply incl_refl|]. destruct (p a).
  - apply incl_tl. apply incl_refl.
  - intros x [->|Hx]; [left; reflexivity|right; apply IH; exact Hx].
Qed.

Lemma WI_queue_remove_consumer cfg s qn c h tag : wake_inv cfg s -> wake_inv cfg (queue_remove_consumer s qn c h tag).
Proof.
  apply wake_inv_mono.
  - unfold queue_remove_consumer. destruct (get_queue s qn) as [qu|] eqn:Eq; [|apply queue_ok_queues; reflexivity].
    set (cs := remove_first _ _).
    assert (Hincl : incl cs (q_consumers qu)) by apply remove_first_incl.
    match goal with |- queue_ok s (if ?b then ?x <| autodel ::= ?f |> else _) =>
      assert (HQ : queue_ok s x); [|destruct b; [|exact HQ]] end.
    + apply queue_ok_set_queue; [reflexivity|]. intros Ha Hne. right. right. exists qu.
      destruct (Nat.eqb (List.length cs) 0); cbn in *; repeat split; auto.
    + intros q0 qu0 Hq0. apply HQ. exact Hq0.
  - apply consumer_ok_conns; [apply (proj2 (proj2 (proj2 conns_queue_ops)))|].
    intros u. apply msg_size_same_heap. unfold queue_remove_consumer. destruct (get_queue s qn); auto.
    match goal with |- heap (if ?b then _ else _) = _ => destruct b end; reflexivity.
Qed.

(* ------------------------------------------------------------------ *)
(* consumer records *)
Lemma find_upd_consumer ch tag0 f tag :
  (forall cm, c_tag cm = tag0 -> c_tag (f cm) = tag0) ->
  find_consumer (upd_consumer ch tag0 f) tag =
  if seqb tag tag0 then option_map f (find_consumer ch tag) else find_consumer ch tag.
Proof.
  intros Hf. unfold find_consumer, upd_consumer. cbn.
  rewrite (find_map_consumers (fun cm => if seqb (c_tag cm) tag0 then f cm else cm)).
  2:{ intros cm. destruct (seqb (c_tag cm) tag0) eqn:E; auto. apply seqb_spec in E. rewrite (Hf cm E). auto. }
  destruct (find _ (ch_consumers ch)) as [cm|] eqn:Ef; cbn; [|destruct (seqb tag tag0); reflexivity].
  apply find_some in Ef. destruct Ef as [_ Ef]. apply seqb_spec in Ef. rewrite Ef. destruct (seqb tag tag0); reflexivity.
Qed.

Lemma WI_consumer_stop cfg s c h tag : wake_inv cfg s -> wake_inv cfg (consumer_stop s c h tag).
Proof.
  intros H. unfold consumer_stop. destruct (get_chan s c h) as [ch|] eqn:Ech; auto.
  destruct (find_consumer ch tag) as [cm|] eqn:Ef; auto.
  assert (H1 : wake_inv cfg (set_chan s c h (upd_consumer ch tag (fun cm0 => cm0 <| c_status := CStopped |>)))).
  { revert H. apply wake_inv_mono; [apply queue_ok_queues; apply queues_set_chan|].
    eapply consumer_ok_set_chan; [exact Ech|reflexivity|].
    intros tag' cm' Hf Hs. rewrite find_upd_consumer in Hf by (intros; assumption).
    destruct (seqb tag' tag).
    - destruct (find_consumer ch tag'); cbn in Hf; inversion Hf; subst. cbn in Hs. discriminate.
    - right. exists cm'. repeat split; auto. }
  destruct (c_status cm); auto; apply WI_queue_remove_consumer; exact H1.
Qed.

Lemma consume_msg_fields cm :
  c_queue (fst (consume_msg cm)) = c_queue cm /\ c_noack (fst (consume_msg cm)) = c_noack cm /\
  c_own (fst (consume_msg cm)) = c_own cm /\ c_id (fst (consume_msg cm)) = c_id cm.
Proof. unfold consume_msg. destruct cm as [? ? ? ? [] [] ?]; cbn; auto. Qed.

Lemma consume_msg_ok cm' cm : cm' = fst (consume_msg cm) -> c_status cm' = CStarted ->
  c_status cm = CStarted /\ c_queue cm = c_queue cm' /\ (c_token cm = true -> c_token cm' = true) /\
  c_noack cm' = c_noack cm /\ c_own cm' = c_own cm.
Proof.
  intros -> Hs. rewrite consume_msg_status in Hs. destruct (consume_msg_fields cm) as (A & B & C & _).
  repeat split; auto. apply consume_msg_mono.
Qed.

Lemma WI_wake_consumer cfg s c h tag : wake_inv cfg s -> wake_inv cfg (fst (wake_consumer s c h tag)).
Proof.
  unfold wake_consumer. destruct (get_chan s c h) as [ch|] eqn:Ech; auto.
  destruct (find_consumer ch tag) as [cm|] eqn:Ef; auto.
  destruct (consume_msg cm) as [cm1 b] eqn:Ec. cbn [fst].
  apply wake_inv_mono; [apply queue_ok_queues; apply queues_set_chan|].
  eapply consumer_ok_set_chan; [exact Ech|reflexivity|].
  intros tag' cm' Hf Hs.
  assert (Hcm1 : cm1 = fst (consume_msg cm)) by (rewrite Ec; reflexivity).
  rewrite find_upd_consumer in Hf.
  2:{ intros _ _. rewrite Hcm1, consume_msg_tag. apply find_consumer_tag in Ef. tauto. }
  destruct (seqb tag' tag) eqn:Et.
  - apply seqb_spec in Et. subst tag'. rewrite Ef in Hf. cbn in Hf. inversion Hf; subst cm'.
    right. exists cm. split; auto. apply consume_msg_ok; auto.
  - right. exists cm'. repeat split; auto.
Qed.

Lemma WI_wake_all cfg s c h : wake_inv cfg s -> wake_inv cfg (wake_all_of_chan s c h).
Proof.
  unfold wake_all_of_chan, upd_chan. destruct (get_chan s c h) as [ch|] eqn:Ech; auto.
  apply wake_inv_mono; [apply queue_ok_queues; apply queues_set_chan|].
  eapply consumer_ok_set_chan; [exact Ech|reflexivity|].
  intros tag' cm' Hf Hs. unfold find_consumer in Hf. cbn in Hf.
  rewrite (find_map_consumers (fun cm => fst (consume_msg cm))) in Hf by apply consume_msg_tag.
  destruct (find _ (ch_consumers ch)) as [cm|] eqn:Ef; cbn in Hf; inversion Hf; subst cm'.
  right. exists cm. split; auto. apply consume_msg_ok; auto.
Qed.

Lemma WI_wake_consumers cfg s c h : wake_inv cfg s -> wake_inv cfg (wake_consumers cfg s c h).
Proof.
  intros H. unfold wake_consumers. pose proof (WI_wake_all cfg s c h H) as H1.
  destruct (cfg_rabbit cfg); auto. destruct (get_conn _ c) as [cn|]; auto.
  apply fold_left_preserves; auto. intros s0 x H0. destruct (fst x =? h); auto. apply WI_wake_all; auto.
Qed.

(* ---- who is signalled by channel.wakeConsumers ---- *)
Lemma armed_token s c h tag cm : armed s c h tag -> consumer_at s c h tag = Some cm -> c_status cm = CStarted -> c_token cm = true.
Proof. unfold armed. intros H E. rewrite E in H. exact H. Qed.

Lemma fold_wake_all_arms c h h' tag l : h' <> h -> forall s,
  armed s c h' tag \/ In h' (map fst l) ->
  armed (fold_left (fun s (hk : N * channel) => if fst hk =? h then s else wake_all_of_chan s c (fst hk)) l s) c h' tag.
Proof.
  intros Hne. induction l as [|x l IH]; intros s H; cbn [fold_left].
  - destruct H as [H|[]]; auto.
  - apply IH. destruct (fst x =? h) eqn:Ex.
    + destruct H as [H|[H|H]]; auto. apply N.eqb_eq in Ex. congruence.
    + destruct H as [H|[H|H]]; auto.
      * left. apply armed_wake_all_mono; auto.
      * left. rewrite H. apply wake_all_arms.
Qed.

Lemma wake_consumers_arms_conn cfg s c h h' tag : cfg_rabbit cfg = false -> armed (wake_consumers cfg s c h) c h' tag.
Proof.
  intros Hr. destruct (N.eq_dec h' h) as [->|Hne]; [apply wake_consumers_arms_channel|].
  unfold wake_consumers. rewrite Hr. set (s1 := wake_all_of_chan s c h).
  destruct (get_conn s1 c) as [cn|] eqn:Ec.
  - apply fold_wake_all_arms; auto.
    destruct (alookup N.eqb h' (cn_chans cn)) as [ch|] eqn:Eh.
    + right. apply (alookup_in N.eqb Neqb_spec) in Eh. apply (in_map fst) in Eh. exact Eh.
    + left. unfold armed, consumer_at, get_chan. rewrite Ec, Eh. exact I.
  - unfold armed, consumer_at, get_chan. rewrite Ec. exact I.
Qed.

Lemma consumer_at_wake_consumers_other cfg s c h c' h' tag :
  c' <> c \/ (cfg_rabbit cfg = true /\ h' <> h) ->
  consumer_at (wake_consumers cfg s c h) c' h' tag = consumer_at s c' h' tag.
Proof.
  intros Hoth. unfold wake_consumers.
  assert (H1 : consumer_at (wake_all_of_chan s c h) c' h' tag = consumer_at s c' h' tag).
  { rewrite consumer_at_wake_all. destruct ((c' =? c) && (h' =? h)) eqn:Eb; auto.
    apply eqb2_true in Eb. destruct Eb; subst. destruct Hoth as [?|[_ ?]]; congruence. }
  destruct (cfg_rabbit cfg) eqn:Er; auto.
  destruct Hoth as [Hc|[? _]]; [|discriminate].
  destruct (get_conn _ c) as [cn|]; auto.
  rewrite <- H1. generalize (wake_all_of_chan s c h). induction (cn_chans cn) as [|x l IH]; intros s0; cbn [fold_left]; auto.
  rewrite IH. destruct (fst x =? h); auto. rewrite consumer_at_wake_all.
  destruct (c' =? c) eqn:E; auto. apply N.eqb_eq in E. congruence.
Qed.

Lemma cnq_wake_all s c h c' : cnq (wake_all_of_chan s c h) c' = cnq s c'.
Proof. apply cnq_upd_chan. Qed.
Lemma heap_wake_all s c h : heap (wake_all_of_chan s c h) = heap s.
Proof. apply heap_upd_chan. Qed.

Lemma cnq_wake_consumers cfg s c h c' : cnq (wake_consumers cfg s c h) c' = cnq s c'.
Proof.
  unfold wake_consumers. destruct (cfg_rabbit cfg); [apply cnq_wake_all|].
  destruct (get_conn _ c) as [cn|]; [|apply cnq_wake_all].
  rewrite <- (cnq_wake_all s c h c'). generalize (wake_all_of_chan s c h).
  induction (cn_chans cn) as [|x l IH]; intros s0; cbn [fold_left]; auto.
  rewrite IH. destruct (fst x =? h); auto. apply cnq_wake_all.
Qed.

Lemma heap_wake_consumers cfg s c h : heap (wake_consumers cfg s c h) = heap s.
Proof.
  unfold wake_consumers. destruct (cfg_rabbit cfg); [apply heap_wake_all|].
  destruct (get_conn _ c) as [cn|]; [|apply heap_wake_all].
  rewrite <- (heap_wake_all s c h). generalize (wake_all_of_chan s c h).
  induction (cn_chans cn) as [|x l IH]; intros s0; cbn [fold_left]; auto.
  rewrite IH. destruct (fst x =? h); auto. apply heap_wake_all.
Qed.

(* in the rabbit dialect the connection window is not one of a consumer's windows: only its presence is read *)
Definition cnq_rel (cfg : config) (a b : option qosw) : Prop := if cfg_rabbit cfg then (a = None <-> b = None) else a = b.

Lemma head_fits_ext2 cfg s s' c h cm cm' u :
  Wq s' c h = Wq s c h -> cnq_rel cfg (cnq s' c) (cnq s c) -> msg_size s' u = msg_size s u ->
  c_noack cm' = c_noack cm -> c_own cm' = c_own cm ->
  head_fits cfg s' c h cm' u = head_fits cfg s c h cm u.
Proof.
  intros E1 E2 E3 E4 E5. unfold head_fits. rewrite !window_list_eq, E1, E3, E4, E5.
  unfold cnq_rel in E2. destruct (cfg_rabbit cfg).
  - destruct (cnq s' c), (cnq s c); auto; destruct E2 as [A B]; try (specialize (A eq_refl); discriminate); try (specialize (B eq_refl); discriminate).
  - rewrite E2. reflexivity.
Qed.

(* release-then-wake: the windows of channel (c,h) - in the 0-9-1 dialect also the connection's - change in any way,
   then everybody who shares them is signalled *)
Lemma WI_release_wake cfg s s1 c h :
  wake_inv cfg s ->
  queues s1 = queues s -> (forall u, msg_size s1 u = msg_size s u) ->
  (forall c' h' tag, c' <> c \/ (cfg_rabbit cfg = true /\ h' <> h) -> consumer_at s1 c' h' tag = consumer_at s c' h' tag) ->
  (forall c' h', c' <> c \/ (cfg_rabbit cfg = true /\ h' <> h) -> Wq s1 c' h' = Wq s c' h') ->
  (forall c', c' <> c \/ cfg_rabbit cfg = true -> cnq_rel cfg (cnq s1 c') (cnq s c')) ->
  wake_inv cfg (wake_consumers cfg s1 c h).
Proof.
  intros HW EQ ES EC EWq ECn. revert HW. apply wake_inv_mono.
  - apply queue_ok_queues. rewrite queues_wake_consumers. exact EQ.
  - intros c' h' tag cm' Hc Hs.
    destruct (N.eq_dec c' c) as [->|Hc'].
    + destruct (cfg_rabbit cfg) eqn:Er.
      * destruct (N.eq_dec h' h) as [->|Hh'].
        -- left. eapply armed_token; eauto. apply wake_consumers_arms_channel.
        -- right. right. exists cm'.
           rewrite consumer_at_wake_consumers_other in Hc by (right; auto).
           rewrite <- (EC c h' tag) by (right; auto). repeat split; auto.
           intros u _ Had. rewrite <- Had. symmetry. apply head_fits_ext2; auto.
           ++ rewrite Wq_wake_consumers. apply EWq. right; auto.
           ++ rewrite cnq_wake_consumers. apply ECn. right. reflexivity.
           ++ rewrite (msg_size_same_heap _ _ _ (heap_wake_consumers cfg s1 c h)). apply ES.
      * left. eapply armed_token; eauto. apply wake_consumers_arms_conn. exact Er.
    + right. right. exists cm'.
      rewrite consumer_at_wake_consumers_other in Hc by (left; auto).
      rewrite <- (EC c' h' tag) by (left; auto). repeat split; auto.
      intros u _ Had. rewrite <- Had. symmetry. apply head_fits_ext2; auto.
      * rewrite Wq_wake_consumers. apply EWq. left; auto.
      * rewrite cnq_wake_consumers. apply ECn. left; auto.
      * rewrite (msg_size_same_heap _ _ _ (heap_wake_consumers cfg s1 c h)). apply ES.
Qed.

Lemma consumer_at_upd_chan_other s c h f c' h' tag :
  (c', h') <> (c, h) -> consumer_at (upd_chan s c h f) c' h' tag = consumer_at s c' h' tag.
Proof.
  intros Hne. unfold upd_chan. destruct (get_chan s c h) as [ch|] eqn:E; auto.
  rewrite (consumer_at_set_chan _ _ _ _ _ _ _ _ E). destruct ((c' =? c) && (h' =? h)) eqn:Eb; auto.
  apply eqb2_true in Eb. destruct Eb; subst. congruence.
Qed.
Lemma Wq_upd_chan_other s c h f c' h' : (c', h') <> (c, h) -> Wq (upd_chan s c h f) c' h' = Wq s c' h'.
Proof.
  intros Hne. rewrite Wq_upd_chan. destruct ((c' =? c) && (h' =? h)) eqn:Eb; auto.
  apply eqb2_true in Eb. destruct Eb; subst. congruence.
Qed.
Lemma consumer_at_set_conn_qos s c cn f c' h' tag : get_conn s c = Some cn ->
  consumer_at (s <| conns := aset N.eqb c (cn <| cn_qos ::= f |>) (conns s) |>) c' h' tag = consumer_at s c' h' tag.
Proof. intros E. unfold consumer_at. rewrite (get_chan_set_conn_qos _ _ _ _ _ _ E). reflexivity. Qed.
Lemma cnq_set_conn_qos s c cn f c' : get_conn s c = Some cn ->
  cnq (s <| conns := aset N.eqb c (cn <| cn_qos ::= f |>) (conns s) |>) c' = if c' =? c then Some (f (cn_qos cn)) else cnq s c'.
Proof.
  intros E. unfold cnq, get_conn in *. cbn. rewrite (alookup_aset N.eqb Neqb_spec). destruct (c' =? c); reflexivity.
Qed.
Lemma cnq_rel_eq cfg a b : a = b -> cnq_rel cfg a b.
Proof. intros ->. unfold cnq_rel. destruct (cfg_rabbit cfg); tauto. Qed.
Lemma cnq_rel_some cfg a b : cfg_rabbit cfg = true -> cnq_rel cfg (Some a) (Some b).
Proof. intros E. unfold cnq_rel. rewrite E. split; discriminate. Qed.

Lemma other_ne cfg (c h c' h' : N) : c' <> c \/ (cfg_rabbit cfg = true /\ h' <> h) -> (c', h') <> (c, h).
Proof. intros [H|[_ H]] E; inversion E; congruence. Qed.

Lemma cnq_rel_set_conn_qos cfg s c cn f c' : get_conn s c = Some cn -> c' <> c \/ cfg_rabbit cfg = true ->
  cnq_rel cfg (cnq (s <| conns := aset N.eqb c (cn <| cn_qos ::= f |>) (conns s) |>) c') (cnq s c').
Proof.
  intros E H. rewrite (cnq_set_conn_qos _ _ _ _ _ E). destruct (c' =? c) eqn:Ec; [|apply cnq_rel_eq; reflexivity].
  apply N.eqb_eq in Ec. subst. destruct H as [H|H]; [congruence|]. unfold cnq. rewrite E. cbn. apply cnq_rel_some; auto.
Qed.

Lemma WI_dec_qos cfg s c h u : wake_inv cfg s -> wake_inv cfg (dec_qos_and_consume_next cfg s c h u).
Proof.
  intros HW. unfold dec_qos_and_consume_next. destruct (get_chan s c h) as [ch|] eqn:Ech; auto.
  set (size := msg_size s (u_msg u) mod two32).
  set (s0 := upd_chan s c h (fun ch0 => ch0 <| ch_qos ::= fun w => qos_dec w size |>)).
  assert (Q0 : queues s0 = queues s) by apply queues_upd_chan.
  assert (M0 : forall x, msg_size s0 x = msg_size s x) by (intros; apply msg_size_upd_chan).
  assert (C0 : forall c' h' tag, c' <> c \/ (cfg_rabbit cfg = true /\ h' <> h) -> consumer_at s0 c' h' tag = consumer_at s c' h' tag).
  { intros. apply consumer_at_upd_chan_other. eapply other_ne; eauto. }
  assert (W0 : forall c' h', c' <> c \/ (cfg_rabbit cfg = true /\ h' <> h) -> Wq s0 c' h' = Wq s c' h').
  { intros. apply Wq_upd_chan_other. eapply other_ne; eauto. }
  assert (N0 : forall c', cnq s0 c' = cnq s c') by (intros; apply cnq_upd_chan).
  assert (Hconn : forall s1, s1 = match get_conn s0 c with
                     | Some cn => s0 <| conns := aset N.eqb c (cn <| cn_qos ::= fun w => qos_dec w size |>) (conns s0) |>
                     | None => s0 end -> wake_inv cfg (wake_consumers cfg s1 c h)).
  { intros s1 ->. destruct (get_conn s0 c) as [cn|] eqn:Ecn.
    - apply (WI_release_wake cfg s); auto.
      + intros. rewrite (consumer_at_set_conn_qos _ _ _ _ _ _ _ Ecn). auto.
      + intros. rewrite (Wq_set_conn_qos _ _ _ _ _ _ Ecn). auto.
      + intros c' Hc'. rewrite <- N0. apply cnq_rel_set_conn_qos; auto.
    - apply (WI_release_wake cfg s); auto. intros. apply cnq_rel_eq. auto. }
  destruct (find_consumer ch (u_ctag u)) as [cm|]; [|apply Hconn; reflexivity].
  case_eq (cfg_rabbit cfg); intros Er; [|apply Hconn; reflexivity].
  apply (WI_release_wake cfg s); auto.
  - rewrite queues_upd_chan. exact Q0.
  - intros. rewrite msg_size_upd_chan. auto.
  - intros. rewrite consumer_at_upd_chan_other by (eapply other_ne; eauto). auto.
  - intros. rewrite Wq_upd_chan_other by (eapply other_ne; eauto). auto.
  - intros. rewrite cnq_upd_chan, N0. apply cnq_rel_eq. reflexivity.
Qed.

Lemma WI_chan_ackmsg cfg s u : wake_inv cfg s -> wake_inv cfg (chan_ackmsg s u).
Proof.
  intros H. unfold chan_ackmsg. destruct (origin_queue s u).
  - revert H. apply sameview_inv. apply sameview_queue_ackmsg.
  - revert H. apply sameview_inv. apply sameview_fields; reflexivity.
Qed.

Lemma WI_chan_rejectmsg cfg s u r : wake_inv cfg s -> wake_inv cfg (chan_rejectmsg s u r).
Proof.
  intros H. unfold chan_rejectmsg. destruct (origin_queue s u).
  - destruct r; [apply WI_queue_requeue; auto|]. revert H. apply sameview_inv. apply sameview_queue_ackmsg.
  - revert H. apply sameview_inv. apply sameview_fields; reflexivity.
Qed.

Lemma WI_del_unacked cfg s c h tag : wake_inv cfg s -> wake_inv cfg (upd_chan s c h (fun ch => del_unacked ch tag)).
Proof. apply sameview_inv. apply sameview_upd_chan; reflexivity. Qed.

Lemma WI_handle_reject cfg s c h tag mult requeue cls mth :
  wake_inv cfg s -> wake_inv cfg (fst (handle_reject cfg s c h tag mult requeue cls mth)).
Proof.
  intros H. unfold handle_reject. destruct (get_chan s c h) as [ch|]; auto.
  destruct mult.
  - cbn [fst]. apply fold_left_preserves; [intros; apply WI_dec_qos; auto|].
    apply fold_left_preserves; auto. intros s0 a H0. apply WI_chan_rejectmsg. apply WI_del_unacked; auto.
  - destruct (find _ _); cbn [fst]; auto. apply WI_dec_qos. apply WI_chan_rejectmsg. apply WI_del_unacked; auto.
Qed.

Lemma WI_handle_ack cfg s c h tag mult : wake_inv cfg s -> wake_inv cfg (fst (handle_ack cfg s c h tag mult)).
Proof.
  intros H. unfold handle_ack. destruct (get_chan s c h) as [ch|]; auto.
  destruct mult.
  - cbn [fst]. apply fold_left_preserves; [intros; apply WI_dec_qos; auto|].
    apply fold_left_preserves; auto. intros s0 a H0. apply WI_chan_ackmsg. apply WI_del_unacked; auto.
  - destruct (find _ _); cbn [fst]; auto. apply WI_dec_qos. apply WI_chan_ackmsg. apply WI_del_unacked; auto.
Qed.

Lemma WI_channel_close cfg s c h : wake_inv cfg s -> wake_inv cfg (channel_close cfg s c h).
Proof.
  intros H. unfold channel_close. destruct (get_chan s c h) as [ch|] eqn:Ech; auto.
  set (s1 := fold_left _ (ch_consumers ch) s).
  assert (H1 : wake_inv cfg s1) by (subst s1; apply fold_left_preserves; auto; intros; apply WI_consumer_stop; auto).
  clearbody s1.
  assert (H2 : wake_inv cfg (upd_chan s1 c h (fun ch0 => ch0 <| ch_consumers := [] |>))).
  { revert H1. unfold upd_chan. destruct (get_chan s1 c h) as [ch1|] eqn:E1; auto.
    apply wake_inv_mono; [apply queue_ok_queues; apply queues_set_chan|].
    eapply consumer_ok_set_chan; [exact E1|reflexivity|]. intros tag' cm' Hf. unfold find_consumer in Hf. cbn in Hf. discriminate. }
  eapply sameview_inv; [apply sameview_upd_chan; reflexivity|].
  destruct (0 <? h); auto. apply WI_handle_reject; auto.
Qed.

Lemma WI_cancel_fold cfg l : forall s evs, wake_inv cfg s ->
  wake_inv cfg (fst (fold_left (fun acc x => let '(s, evs) := acc in let '(s', e) := consumer_cancel s x in (s', evs ++ e)) l (s, evs))).
Proof.
  induction l as [|[[c h] tag] t IH]; intros s evs H; simpl; auto.
  apply IH. apply WI_consumer_stop; auto.
Qed.

Lemma WI_vhost_delete_queue cfg b s qn iu ie : wake_inv cfg s -> wake_inv cfg (fst (fst (vhost_delete_queue b s qn iu ie))).
Proof.
  intros H. unfold vhost_delete_queue. destruct (get_queue s qn) as [qu|] eqn:Eq; auto.
  destruct (_ || _).
  - cbn [fst]. destruct b; auto. revert H. apply wake_inv_mono.
    + apply queue_ok_set_queue; [reflexivity|]. cbn. discriminate.
    + apply consumer_ok_conns; reflexivity.
  - pose proof (WI_cancel_fold cfg (q_consumers qu) s [] H) as Hf.
    destruct (fold_left _ (q_consumers qu) (s, [])) as [s1 e1]. cbn [fst] in *.
    revert Hf. apply wake_inv_mono.
    + intros q0 qu0 Hq0 Ha Hne. right. right. exists qu0.
      assert (Hq1 : get_queue s1 q0 = Some qu0).
      { unfold get_queue in *. cbn in Hq0. rewrite (alookup_adel seqb seqb_spec) in Hq0.
        destruct (seqb q0 qn); [discriminate|]. destruct (q_durable qu); exact Hq0. }
      repeat split; auto. apply incl_refl.
    + apply consumer_ok_conns; [destruct (q_durable qu); reflexivity|].
      intros. apply msg_size_same_heap. destruct (q_durable qu); reflexivity.
Qed.

(* ------------------------------------------------------------------ *)
(* the queue loop *)
Definition woken (cm cm' : consumer) : Prop := cm' = cm \/ cm' = fst (consume_msg cm).

Lemma woken_ok cm cm' : woken cm cm' -> c_status cm' = CStarted ->
  c_status cm = CStarted /\ c_queue cm = c_queue cm' /\ (c_token cm = true -> c_token cm' = true) /\
  c_noack cm' = c_noack cm /\ c_own cm' = c_own cm.
Proof. intros [->|H] Hs; [repeat split; auto|apply consume_msg_ok; auto]. Qed.

Lemma woken_trans a b c : woken a b -> woken b c -> woken a c.
Proof.
  intros [ -> | -> ] [ -> | -> ]; unfold woken; auto. right.
  unfold consume_msg. destruct a as [? ? ? ? [] [] ?]; reflexivity.
Qed.

Lemma consumer_at_fold_wake l : forall s c h tag cm',
  consumer_at (fold_left (fun s (x : N * N * string) => let '(c, h, tag) := x in fst (wake_consumer s c h tag)) l s) c h tag = Some cm' ->
  exists cm, consumer_at s c h tag = Some cm /\ woken cm cm'.
Proof.
  induction l as [|[[c0 h0] t0] l IH]; intros s c h tag cm' H; cbn [fold_left] in H.
  - exists cm'. split; auto. left. reflexivity.
  - apply IH in H. destruct H as (cm1 & H1 & Hw). rewrite consumer_at_wake in H1.
    destruct ((c =? c0) && (h =? h0) && seqb tag t0).
    + destruct (consumer_at s c h tag) as [cm|]; cbn in H1; inversion H1; subst. exists cm. split; auto.
      eapply woken_trans; [right; reflexivity|exact Hw].
    + exists cm1. auto.
Qed.

Lemma fold_wake_frame l : forall s,
  let s' := fold_left (fun s (x : N * N * string) => let '(c, h, tag) := x in fst (wake_consumer s c h tag)) l s in
  queues s' = queues s /\ heap s' = heap s /\ (forall c h, Wq s' c h = Wq s c h) /\ (forall c, cnq s' c = cnq s c).
Proof.
  induction l as [|[[c0 h0] t0] l IH]; intros s; cbn [fold_left]; [repeat split; auto|].
  destruct (IH (fst (wake_consumer s c0 h0 t0))) as (A & B & C & D).
  assert (Hh : heap (fst (wake_consumer s c0 h0 t0)) = heap s /\ forall c, cnq (fst (wake_consumer s c0 h0 t0)) c = cnq s c).
  { unfold wake_consumer. destruct (get_chan s c0 h0) as [ch|]; [|auto]. destruct (find_consumer ch t0) as [cm|]; [|auto].
    destruct (consume_msg cm). cbn [fst]. split; [apply heap_set_chan|intros; apply cnq_set_chan]. }
  destruct Hh as [Hh Hn]. repeat split.
  - rewrite A. apply queues_wake_consumer.
  - rewrite B. exact Hh.
  - intros. rewrite C. apply Wq_wake.
  - intros. rewrite D. apply Hn.
Qed.

Lemma WI_queue_loop_turn cfg s qn0 : wake_inv cfg s -> wake_inv cfg (queue_loop_turn s qn0).
Proof.
  intros HW. unfold queue_loop_turn. destruct (get_queue s qn0) as [qu0|] eqn:Eq0; auto.
  destruct (negb (q_call qu0)) eqn:Ecall; auto.
  destruct (Nat.eqb (List.length (q_consumers qu0)) 0) eqn:En.
  { (* nobody to call *)
    revert HW. apply wake_inv_mono.
    - apply queue_ok_set_queue; [reflexivity|]. intros _ _. right. left. cbn.
      apply Nat.eqb_eq in En. destruct (q_consumers qu0); [reflexivity|discriminate].
    - apply consumer_ok_conns; reflexivity. }
  set (s1 := set_queue s qn0 (qu0 <| q_call := false |>)).
  set (s2 := fold_left _ (q_consumers qu0) s1).
  destruct (fold_wake_frame (q_consumers qu0) s1) as (FQ & FH & FW & FN). fold s2 in FQ, FH, FW, FN.
  assert (Eq2 : get_queue s2 qn0 = Some (qu0 <| q_call := false |>)).
  { unfold get_queue. rewrite FQ. subst s1. fold (get_queue (set_queue s qn0 (qu0 <| q_call := false |>)) qn0).
    rewrite get_queue_set_queue, seqb_refl. reflexivity. }
  apply (wake_inv_transfer cfg s); auto.
  intros qn c h tag (qu' & cm' & u & rest & Hq & Ha & Hr & Hin & Hc & Hs & Hcq & Had).
  unfold upd_queue in Hq, Hc, Had |- *. rewrite Eq2 in Hq, Hc, Had |- *.
  rewrite get_queue_set_queue in Hq.
  assert (Hc2 : consumer_at s2 c h tag = Some cm') by exact Hc.
  destruct (consumer_at_fold_wake _ _ _ _ _ _ Hc2) as (cm & Hc1 & Hw).
  assert (Hc0 : consumer_at s c h tag = Some cm) by exact Hc1.
  destruct (woken_ok _ _ Hw Hs) as (Hs0 & Hq0 & Ht0 & Hn0 & Ho0).
  destruct (seqb qn qn0) eqn:Eqn.
  - apply seqb_spec in Eqn. subst qn0. inversion Hq; subst qu'. cbn in Hin.
    left. left. exists cm'. split; [exact Hc|].
    eapply armed_token; [|exact Hc2|exact Hs]. apply fold_wake_arms. left. exact Hin.
  - assert (Hqs : get_queue s qn = Some qu').
    { unfold get_queue in Hq |- *. rewrite FQ in Hq. subst s1. fold (get_queue (set_queue s qn0 (qu0 <| q_call := false |>)) qn) in Hq.
      rewrite get_queue_set_queue, Eqn in Hq. exact Hq. }
    right. split.
    + exists qu', cm, u, rest. repeat split; auto; try congruence.
      rewrite <- Had. apply head_fits_ext; auto.
      * transitivity (Wq s2 c h); [rewrite FW; reflexivity|reflexivity].
      * transitivity (cnq s2 c); [rewrite FN; reflexivity|reflexivity].
      * transitivity (msg_size s2 u); [symmetry; apply msg_size_same_heap; exact FH|reflexivity].
    + intros [(cm0 & Hc3 & Ht3)|(qu3 & Hq3 & Hcall3)].
      * left. exists cm'. split; [exact Hc|]. apply Ht0. congruence.
      * right. exists qu3. split; auto. rewrite get_queue_set_queue, Eqn.
        unfold get_queue in Hq3 |- *. rewrite FQ. subst s1. fold (get_queue (set_queue s qn0 (qu0 <| q_call := false |>)) qn).
        rewrite get_queue_set_queue, Eqn. exact Hq3.
Qed.

(* ------------------------------------------------------------------ *)
(* reservations: the windows a delivery attempt charges *)

(* no byte counter of a consumer's byte-limited windows would wrap (uint32) if a waiting message were charged to it;
   a window without a byte limit (prefetch-size 0) never reads its byte counter *)
Definition size_nowrap (cfg : config) (s : state) : Prop :=
  forall c h tag cm w u, consumer_at s c h tag = Some cm -> In w (window_list cfg s c h cm) -> queued s u ->
    ps w <> 0 -> cs w + msg_size s u < two32.

Lemma cnq_store_windows cfg s c h tag a b ch c' : get_chan s c h = Some ch ->
  cnq (store_windows cfg s c h tag [a; b]) c' =
  if cfg_rabbit cfg then cnq s c' else if c' =? c then Some b else cnq s c'.
Proof.
  intros Ech. unfold store_windows. destruct (cfg_rabbit cfg).
  - rewrite !cnq_upd_chan. reflexivity.
  - destruct (get_conn (upd_chan s c h (fun ch0 => ch0 <| ch_qos := a |>)) c) as [cn|] eqn:Ec.
    + rewrite (cnq_set_conn_qos _ _ _ _ _ Ec). destruct (c' =? c); [reflexivity|apply cnq_upd_chan].
    + assert (Hn : cnq (upd_chan s c h (fun ch0 => ch0 <| ch_qos := a |>)) c = None) by (unfold cnq; rewrite Ec; reflexivity).
      rewrite cnq_upd_chan in Hn. pose proof (get_chan_conn _ _ _ _ Ech) as Hc. apply cnq_conn in Hc. congruence.
Qed.

Lemma consumer_at_store_windows cfg s c h tag a b ch c' h' tag' : get_chan s c h = Some ch ->
  consumer_at (store_windows cfg s c h tag [a; b]) c' h' tag' =
  if cfg_rabbit cfg && ((c' =? c) && (h' =? h)) && seqb tag' tag
  then option_map (fun cm => cm <| c_own := b |>) (consumer_at s c' h' tag') else consumer_at s c' h' tag'.
Proof.
  intros Ech. unfold store_windows.
  assert (E1 : forall c1 h1 t1, consumer_at (upd_chan s c h (fun ch0 => ch0 <| ch_qos := a |>)) c1 h1 t1 = consumer_at s c1 h1 t1).
  { intros. unfold upd_chan. rewrite Ech. rewrite (consumer_at_set_chan _ _ _ _ _ _ _ _ Ech).
    destruct ((c1 =? c) && (h1 =? h)) eqn:Eb; auto. apply eqb2_true in Eb. destruct Eb; subst. unfold consumer_at. rewrite Ech. reflexivity. }
  destruct (cfg_rabbit cfg); cbn [andb].
  - set (s1 := upd_chan s c h (fun ch0 => ch0 <| ch_qos := a |>)).
    assert (G1 : get_chan s1 c h = Some (ch <| ch_qos := a |>)).
    { subst s1. unfold upd_chan. rewrite Ech, get_chan_set_chan. pose proof (get_chan_conn _ _ _ _ Ech). destruct (get_conn s c); [|congruence].
      rewrite !N.eqb_refl. reflexivity. }
    unfold upd_chan. rewrite G1. rewrite (consumer_at_set_chan _ _ _ _ _ _ _ _ G1).
    destruct ((c' =? c) && (h' =? h)) eqn:Eb; cbn [andb]; [|apply E1].
    apply eqb2_true in Eb. destruct Eb; subst c' h'.
    rewrite find_upd_consumer by (intros; assumption).
    rewrite <- E1. unfold consumer_at. fold s1. rewrite G1. reflexivity.
  - destruct (get_conn _ c) as [cn|] eqn:Ec; [rewrite (consumer_at_set_conn_qos _ _ _ _ _ _ _ Ec)|]; apply E1.
Qed.

Lemma Forall2_Rw_refl size l : Forall2 (Rw size) l l.
Proof. induction l; constructor; auto. apply Rw_refl. Qed.
Ltac f2rw := repeat first [ assumption | apply Rw_refl | apply Forall2_Rw_refl
                          | match goal with |- Forall2 _ _ _ => constructor end ].

Lemma window_list_two cfg s c h cm a b : window_list cfg s c h cm = [a; b] ->
  Wq s c h = Some a /\ exists b0, cnq s c = Some b0 /\ b = if cfg_rabbit cfg then c_own cm else b0.
Proof.
  rewrite window_list_eq. destruct (Wq s c h) as [a0|]; [|discriminate]. destruct (cnq s c) as [b0|]; [|discriminate].
  destruct (cfg_rabbit cfg); intros H; inversion H; subst; eauto.
Qed.

(* every consumer after a reservation attempt by (c,h,tag): the same record (but for the charged own window), windows
   related by Rw *)
Lemma store_windows_view cfg s0 c h tag ch0 cm0 a b a' b' size :
  get_chan s0 c h = Some ch0 -> find_consumer ch0 tag = Some cm0 ->
  window_list cfg s0 c h cm0 = [a; b] -> Rw size a a' -> Rw size b b' ->
  forall c' h' tag' cm1, consumer_at (store_windows cfg s0 c h tag [a'; b']) c' h' tag' = Some cm1 ->
    exists cm, consumer_at s0 c' h' tag' = Some cm /\ c_status cm1 = c_status cm /\ c_token cm1 = c_token cm /\
               c_queue cm1 = c_queue cm /\ c_noack cm1 = c_noack cm /\
               Forall2 (Rw size) (window_list cfg s0 c' h' cm) (window_list cfg (store_windows cfg s0 c h tag [a'; b']) c' h' cm1) /\
               (c' = c -> h' = h -> tag' = tag -> window_list cfg (store_windows cfg s0 c h tag [a'; b']) c' h' cm1 = [a'; b']).
Proof.
  intros Ech Ef Hwl Ra Rb c' h' tag' cm1 Hc.
  apply window_list_two in Hwl. destruct Hwl as (HWq & b0 & Hcn & Hb).
  rewrite (consumer_at_store_windows _ _ _ _ _ _ _ _ _ _ _ Ech) in Hc.
  rewrite window_list_eq.
  rewrite (Wq_store_windows _ _ _ _ _ _ _ _ _ _ Ech), (cnq_store_windows _ _ _ _ _ _ _ _ _ Ech).
  destruct (cfg_rabbit cfg) eqn:Er; cbn [andb] in Hc.
  - destruct ((c' =? c) && (h' =? h)) eqn:Eb; cbn [andb] in Hc.
    + apply eqb2_true in Eb. destruct Eb; subst c' h'. rewrite Hcn.
      destruct (seqb tag' tag) eqn:Et.
      * apply seqb_spec in Et. subst tag'.
        assert (Hc0 : consumer_at s0 c h tag = Some cm0) by (unfold consumer_at; rewrite Ech; exact Ef).
        rewrite Hc0 in Hc. cbn in Hc. inversion Hc; subst cm1. exists cm0. rewrite window_list_eq, HWq, Hcn, Er. cbn.
        repeat split; auto. subst b. f2rw.
      * exists cm1. rewrite window_list_eq, HWq, Hcn, Er. repeat split; auto.
        -- f2rw.
        -- intros _ _ ->. rewrite seqb_refl in Et. discriminate.
    + exists cm1. rewrite window_list_eq, Er. repeat split; auto.
      * f2rw.
      * intros -> ->. rewrite !N.eqb_refl in Eb. discriminate.
  - exists cm1. rewrite window_list_eq, Er. repeat split; auto.
    + destruct ((c' =? c) && (h' =? h)) eqn:Eb.
      * apply eqb2_true in Eb. destruct Eb; subst c' h'. rewrite N.eqb_refl, HWq, Hcn. subst b. f2rw.
      * destruct (Wq s0 c' h') as [x|]; [|constructor]. destruct (c' =? c) eqn:Ec.
        -- apply N.eqb_eq in Ec. subst c'. rewrite Hcn. subst b. f2rw.
        -- f2rw.
    + intros -> -> _. rewrite !N.eqb_refl. reflexivity.
Qed.

Lemma head_fits_Rw cfg s0 s1 c h cm cm1 size u :
  Forall2 (Rw size) (window_list cfg s0 c h cm) (window_list cfg s1 c h cm1) ->
  c_noack cm1 = c_noack cm -> msg_size s1 u = msg_size s0 u ->
  (forall w, In w (window_list cfg s0 c h cm) -> ps w <> 0 -> cs w + size < two32) ->
  (forall w, In w (window_list cfg s1 c h cm1) -> ps w <> 0 -> cs w + msg_size s1 u < two32) ->
  head_fits cfg s1 c h cm1 u = true -> head_fits cfg s0 c h cm u = true.
Proof.
  intros HF En Es B0 B1. unfold head_fits. rewrite En, Es.
  destruct (c_noack cm); cbn [orb]; auto.
  rewrite Es in B1. revert B0 B1. induction HF as [|w w' l l' HR HF IH]; intros B0 B1; cbn [forallb]; auto.
  intros H. apply andb_prop in H. destruct H as [H1 H2]. apply andb_true_intro. split.
  - eapply win_ok_Rw_mono; [exact HR| | |exact H1].
    + apply B0. left. reflexivity.
    + intros Hps. assert (Hps' : ps w' <> 0) by (rewrite (Rw_ps _ _ _ HR); exact Hps).
      assert (Hb : cs w' + msg_size s0 u < two32) by (apply B1; [left; reflexivity|exact Hps']).
      rewrite N.mod_small by lia. exact Hb.
  - apply IH; auto; intros; [apply B0|apply B1]; auto; right; auto.
Qed.

(* nowrap read backwards along steps that keep the view *)
Lemma window_list_ext cfg s s' c h cm : Wq s' c h = Wq s c h -> cnq s' c = cnq s c -> window_list cfg s' c h cm = window_list cfg s c h cm.
Proof. intros E1 E2. rewrite !window_list_eq, E1, E2. reflexivity. Qed.

Lemma queued_sameview s s' u : sameview s s' -> queued s u -> queued s' u.
Proof.
  intros (A & _) (qn & qu & Hq & Hin). specialize (A qn). rewrite Hq in A. cbn in A.
  destruct (get_queue s' qn) as [qu'|] eqn:Eq'; [|discriminate]. cbn in A. inversion A as [E].
  exists qn, qu'. split; auto. rewrite H. exact Hin.
Qed.

Lemma size_nowrap_back cfg s s' : sameview s s' -> size_nowrap cfg s' -> size_nowrap cfg s.
Proof.
  intros SV HN c h tag cm w u Hc Hw Hq Hps. pose proof (queued_sameview _ _ _ SV Hq) as Hq'.
  destruct SV as (A & B & C & D). rewrite <- B in Hc. destruct (C _ _ _ _ Hc) as [E1 E2].
  rewrite <- (D u). apply (HN c h tag cm w u Hc); auto. rewrite (window_list_ext cfg s s'); auto.
Qed.

Lemma size_nowrap_wake_back cfg s c0 h0 tag0 : size_nowrap cfg (fst (wake_consumer s c0 h0 tag0)) -> size_nowrap cfg s.
Proof.
  intros HN c h tag cm w u Hc Hw (qn & qu & Hq & Hin) Hps.
  set (s' := fst (wake_consumer s c0 h0 tag0)) in *.
  assert (Hh : heap s' = heap s /\ forall c, cnq s' c = cnq s c).
  { subst s'. unfold wake_consumer. destruct (get_chan s c0 h0) as [ch|]; [|auto]. destruct (find_consumer ch tag0) as [cm0|]; [|auto].
    destruct (consume_msg cm0). cbn [fst]. split; [apply heap_set_chan|intros; apply cnq_set_chan]. }
  destruct Hh as [Hh Hn].
  assert (Hc' : exists cm', consumer_at s' c h tag = Some cm' /\ c_own cm' = c_own cm).
  { subst s'. rewrite consumer_at_wake, Hc. destruct (_ && _ && _); cbn; eexists; split; eauto. apply consume_msg_fields. }
  destruct Hc' as (cm' & Hc' & Ho).
  rewrite <- (msg_size_same_heap s s' u Hh). apply (HN c h tag cm' w u Hc'); auto.
  - rewrite window_list_eq in Hw |- *. subst s'. rewrite Wq_wake, Hn, Ho. exact Hw.
  - exists qn, qu. split; auto. unfold get_queue in *. subst s'. rewrite queues_wake_consumer. exact Hq.
Qed.

Lemma popped_call_true rest qu : q_active (popped rest qu) = true -> q_ready (popped rest qu) <> [] -> q_call (popped rest qu) = true.
Proof.
  rewrite q_ready_popped. unfold popped. destruct rest as [|r rest']; [congruence|]. intros Ha _. apply call_consumers_call. exact Ha.
Qed.

(* the consumers other than the one taking its turn, after its reservation attempt *)
Lemma turn_others_ok cfg s c h tag cm size s0 s1 sF :
  size_nowrap cfg s -> size_nowrap cfg sF ->
  (exists uh, queued s uh /\ size <= msg_size s uh) ->
  (forall c' h' tag', consumer_at s0 c' h' tag' =
     if (c' =? c) && (h' =? h) && seqb tag' tag then Some (cm <| c_token := false |>) else consumer_at s c' h' tag') ->
  (forall c' h' cmx, window_list cfg s0 c' h' cmx = window_list cfg s c' h' cmx) ->
  (forall c' h' tag' cm1, consumer_at s1 c' h' tag' = Some cm1 ->
     exists cm0, consumer_at s0 c' h' tag' = Some cm0 /\ c_status cm1 = c_status cm0 /\ c_token cm1 = c_token cm0 /\
                 c_queue cm1 = c_queue cm0 /\ c_noack cm1 = c_noack cm0 /\
                 Forall2 (Rw size) (window_list cfg s0 c' h' cm0) (window_list cfg s1 c' h' cm1)) ->
  (forall c' h' tag', consumer_at sF c' h' tag' = consumer_at s1 c' h' tag') ->
  (forall c' h' cmx, window_list cfg sF c' h' cmx = window_list cfg s1 c' h' cmx) ->
  (forall u, msg_size sF u = msg_size s u) ->
  forall c' h' tag' cm', (c' =? c) && (h' =? h) && seqb tag' tag = false ->
    consumer_at sF c' h' tag' = Some cm' -> c_status cm' = CStarted ->
    exists cm2, consumer_at s c' h' tag' = Some cm2 /\ c_status cm2 = CStarted /\ c_queue cm2 = c_queue cm' /\
                (c_token cm2 = true -> c_token cm' = true) /\
                (forall u, queued sF u -> head_fits cfg sF c' h' cm' u = true -> head_fits cfg s c' h' cm2 u = true).
Proof.
  intros N0 NF (uh & Hquh & Hsz) C0 W0 P1 CF WF MF c' h' tag' cm' Hoth Hc Hs.
  rewrite CF in Hc. destruct (P1 _ _ _ _ Hc) as (cm0 & Hc0 & E1 & E2 & E3 & E4 & HF2).
  rewrite C0, Hoth in Hc0. exists cm0. repeat split; auto; try congruence.
  intros u Hq. apply (head_fits_Rw cfg s sF c' h' cm0 cm' size u); auto.
  - rewrite WF, <- W0. exact HF2.
  - intros w Hw Hps. pose proof (N0 c' h' tag' cm0 w uh Hc0 Hw Hquh Hps). lia.
  - intros w Hw Hps. apply (NF c' h' tag' cm' w u); auto. rewrite CF. exact Hc.
Qed.

Ltac sv_step :=
  match goal with
  | |- sameview ?a ?a => apply sameview_refl
  | |- sameview ?a (if ?b then _ else _) => destruct b
  | |- sameview ?a (@set state _ _ _ _ ?s) => apply (sameview_trans a s); [|apply sameview_fields; reflexivity]
  | |- sameview ?a (upd_queue ?s ?q ?f) => apply (sameview_trans a s); [|apply sameview_upd_queue; intros; reflexivity]
  | |- sameview ?a (upd_chan ?s ?c ?h ?f) => apply (sameview_trans a s); [|apply sameview_upd_chan; intros; reflexivity]
  | |- sameview ?a (queue_ackmsg ?s ?q ?u) => apply (sameview_trans a s); [|apply sameview_queue_ackmsg]
  end.

Theorem WI_consumer_turn cfg fx s c h tag :
  size_nowrap cfg s -> size_nowrap cfg (fst (consumer_turn cfg fx s c h tag)) ->
  wake_inv cfg s -> wake_inv cfg (fst (consumer_turn cfg fx s c h tag)).
Proof.
  intros N0 NF HW. unfold consumer_turn in *.
  destruct (get_chan s c h) as [ch|] eqn:Ech; auto.
  destruct (find_consumer ch tag) as [cm|] eqn:Ef; auto.
  destruct (negb (c_token cm)) eqn:Etok; auto.
  set (s0 := set_chan s c h (upd_consumer ch tag (fun cm0 => cm0 <| c_token := false |>))) in *.
  assert (Q0 : queues s0 = queues s) by apply queues_set_chan.
  assert (H0 : heap s0 = heap s) by apply heap_set_chan.
  assert (W0 : forall c' h', Wq s0 c' h' = Wq s c' h').
  { intros. subst s0. rewrite (Wq_set_chan _ _ _ _ _ _ _ Ech). destruct ((c' =? c) && (h' =? h)) eqn:Eb; auto.
    apply eqb2_true in Eb. destruct Eb; subst. unfold Wq. rewrite Ech. reflexivity. }
  assert (K0 : forall c', cnq s0 c' = cnq s c') by (intros; apply cnq_set_chan).
  assert (WL0 : forall c' h' cmx, window_list cfg s0 c' h' cmx = window_list cfg s c' h' cmx).
  { intros. apply window_list_ext; auto. }
  assert (Hcm : consumer_at s c h tag = Some cm) by (unfold consumer_at; rewrite Ech; exact Ef).
  assert (C0 : forall c' h' tag', consumer_at s0 c' h' tag' =
     if (c' =? c) && (h' =? h) && seqb tag' tag then Some (cm <| c_token := false |>) else consumer_at s c' h' tag').
  { intros. subst s0. rewrite (consumer_at_set_chan _ _ _ _ _ _ _ _ Ech).
    destruct ((c' =? c) && (h' =? h)) eqn:Eb; cbn [andb]; auto.
    apply eqb2_true in Eb. destruct Eb; subst. rewrite find_upd_consumer by (intros; assumption).
    destruct (seqb tag' tag) eqn:Et.
    - apply seqb_spec in Et. subst. rewrite Ef. reflexivity.
    - unfold consumer_at. rewrite Ech. reflexivity. }
  assert (G0 : get_chan s0 c h = Some (upd_consumer ch tag (fun cm0 => cm0 <| c_token := false |>))).
  { subst s0. rewrite get_chan_set_chan. pose proof (get_chan_conn _ _ _ _ Ech). destruct (get_conn s c); [|congruence]. rewrite !N.eqb_refl. reflexivity. }
  (* nothing delivered and nothing reserved: the turn consumer cannot be owed a wake-up *)
  assert (HA : (forall qu u rest, c_status cm = CStarted -> get_queue s (c_queue cm) = Some qu -> q_active qu = true ->
                                  q_ready qu = u :: rest -> False) -> wake_inv cfg s0).
  { intros Hno. revert HW. apply wake_inv_mono; [apply queue_ok_queues; exact Q0|].
    intros c' h' tag' cm' Hc Hs. rewrite C0 in Hc. destruct ((c' =? c) && (h' =? h) && seqb tag' tag) eqn:Eb.
    - inversion Hc; subst cm'. right. left. intros qu u rest Hq Ha Hr. exfalso. apply (Hno qu u rest); auto.
      unfold get_queue in *. rewrite Q0 in Hq. exact Hq.
    - right. right. exists cm'. repeat split; auto. intros u _ Had. rewrite <- Had. symmetry.
      apply head_fits_ext; auto. apply msg_size_same_heap. exact H0. }
  match goal with |- wake_inv _ (fst (match c_status cm with CStopped => _ | CStarted => ?B | CPaused => _ end)) => set (body := B) in * end.
  assert (CORE : size_nowrap cfg (fst body) -> wake_inv cfg (fst body)).
  2:{ destruct (c_status cm); [apply CORE; exact NF|apply HA; intros; discriminate|apply CORE; exact NF]. }
  clear NF. intros NF. subst body.
  destruct (get_queue s0 (c_queue cm)) as [qu|] eqn:Eq;
    [|apply HA; intros qu u rest _ Hq; unfold get_queue in *; rewrite Q0 in Eq; congruence].
  assert (Eqs : get_queue s (c_queue cm) = Some qu) by (unfold get_queue in *; rewrite <- Q0; exact Eq).
  destruct (negb (q_active qu)) eqn:Eact; [apply HA; intros qu' u rest _ Hq Ha; destruct (q_active qu) eqn:E; [discriminate|congruence]|].
  destruct (q_ready qu) as [|u rest] eqn:Er; [apply HA; intros qu' u rest _ Hq _ Hr; congruence|].
  assert (Eact' : q_active qu = true) by (destruct (q_active qu); [reflexivity|discriminate]).
  set (size := msg_size s0 u mod two32) in *.
  assert (Hsize : exists uh, queued s uh /\ size <= msg_size s uh).
  { exists u. split; [exists (c_queue cm), qu; rewrite Er; split; auto; left; reflexivity|].
    subst size. rewrite (msg_size_same_heap s s0 u H0). apply N.mod_le. discriminate. }
  (* a delivery: s1 is the state after the reservation, s7 the state before the consumer re-arms itself *)
  assert (DELIV : forall s1 s7,
    queues s1 = queues s0 -> heap s1 = heap s0 ->
    (forall c' h' tag' cm1, consumer_at s1 c' h' tag' = Some cm1 ->
       exists cm0, consumer_at s0 c' h' tag' = Some cm0 /\ c_status cm1 = c_status cm0 /\ c_token cm1 = c_token cm0 /\
                   c_queue cm1 = c_queue cm0 /\ c_noack cm1 = c_noack cm0 /\
                   Forall2 (Rw size) (window_list cfg s0 c' h' cm0) (window_list cfg s1 c' h' cm1)) ->
    sameview (upd_queue s1 (c_queue cm) (popped rest)) s7 ->
    size_nowrap cfg (fst (wake_consumer s7 c h tag)) -> wake_inv cfg (fst (wake_consumer s7 c h tag))).
  { intros s1 s7 Q1 H1 P1 SV N8. apply WI_wake_consumer. apply (sameview_inv cfg _ _ SV).
    apply size_nowrap_wake_back in N8. apply (size_nowrap_back cfg _ _ SV) in N8.
    set (s2 := upd_queue s1 (c_queue cm) (popped rest)) in *.
    assert (Eq1 : get_queue s1 (c_queue cm) = Some qu) by (unfold get_queue in *; rewrite Q1; exact Eq).
    assert (E2 : s2 = set_queue s1 (c_queue cm) (popped rest qu)) by (subst s2; unfold upd_queue; rewrite Eq1; reflexivity).
    revert HW. apply wake_inv_mono.
    - rewrite E2. apply queue_ok_set_queue; [congruence|]. intros Ha Hne. left. apply popped_call_true; auto.
    - intros c' h' tag' cm' Hc Hs.
      destruct ((c' =? c) && (h' =? h) && seqb tag' tag) eqn:Eb.
      + right. left. intros qu' u' rest' Hq' Ha' Hr'. left.
        assert (Hc1 : consumer_at s1 c' h' tag' = Some cm') by (rewrite <- Hc; symmetry; apply consumer_at_conns; apply conns_upd_queue).
        destruct (P1 _ _ _ _ Hc1) as (cm0 & Hc0 & _ & _ & Eq0 & _). rewrite C0, Eb in Hc0. inversion Hc0; subst cm0. cbn in Eq0.
        rewrite Eq0, E2, get_queue_set_queue, seqb_refl in Hq'. inversion Hq'; subst qu'.
        apply popped_call_true; auto. rewrite Hr'. discriminate.
      + right. right.
        apply (turn_others_ok cfg s c h tag cm size s0 s1 s2); auto.
        * intros. apply consumer_at_conns. apply conns_upd_queue.
        * intros. apply window_list_ext; [apply Wq_same_conns|apply cnq_same_conns]; apply conns_upd_queue.
        * intros. apply msg_size_same_heap. subst s2. rewrite heap_upd_queue. congruence. }
  destruct (c_noack cm) eqn:Ena.
  - (* no-ack: nothing is reserved *)
    cbv iota beta in NF |- *.
    match goal with |- context [wake_consumer ?st ?c0 ?h0 ?tag0] => set (s7 := st) in * end.
    assert (SV : sameview (upd_queue s0 (c_queue cm) (popped rest)) s7) by (subst s7; repeat sv_step).
    destruct (wake_consumer s7 c h tag) as [s9 b9] eqn:Ew. apply fst_pair in Ew. cbn [fst] in NF |- *. subst s9.
    apply (DELIV s0 s7); auto.
    intros c' h' tag' cm1 Hc1. exists cm1. repeat split; auto. apply Forall2_Rw_refl.
  - (* ack mode: the reservation loop runs over the consumer's two windows *)
    destruct (reserve (cfg_rollback cfg) (window_list cfg s0 c h cm) size) as [okr ws'] eqn:Eres.
    assert (Hwl : exists a b, window_list cfg s0 c h cm = [a; b]).
    { rewrite window_list_eq. unfold Wq. rewrite G0. pose proof (get_chan_conn _ _ _ _ G0) as Hcn. apply cnq_conn in Hcn.
      destruct (cnq s0 c); [|congruence]. destruct (cfg_rabbit cfg); eauto. }
    destruct Hwl as (a & b & Hwl). rewrite Hwl in Eres.
    pose proof (reserve_rel _ _ _ _ _ Eres) as HR. apply Forall2_two in HR. destruct HR as (a' & b' & -> & Ra & Rb).
    assert (F0 : find_consumer (upd_consumer ch tag (fun cm0 => cm0 <| c_token := false |>)) tag = Some (cm <| c_token := false |>)).
    { rewrite find_upd_consumer by (intros; assumption). rewrite seqb_refl, Ef. reflexivity. }
    assert (Hwl0 : window_list cfg s0 c h (cm <| c_token := false |>) = [a; b]) by (rewrite <- Hwl; rewrite !window_list_eq; reflexivity).
    pose proof (store_windows_view cfg s0 c h tag _ _ a b a' b' size G0 F0 Hwl0 Ra Rb) as VIEW.
    set (s1 := store_windows cfg s0 c h tag [a'; b']) in *.
    assert (Q1 : queues s1 = queues s0) by apply queues_store_windows.
    assert (H1 : heap s1 = heap s0) by apply heap_store_windows.
    assert (P1 : forall c' h' tag' cm1, consumer_at s1 c' h' tag' = Some cm1 ->
       exists cm0, consumer_at s0 c' h' tag' = Some cm0 /\ c_status cm1 = c_status cm0 /\ c_token cm1 = c_token cm0 /\
                   c_queue cm1 = c_queue cm0 /\ c_noack cm1 = c_noack cm0 /\
                   Forall2 (Rw size) (window_list cfg s0 c' h' cm0) (window_list cfg s1 c' h' cm1)).
    { intros c' h' tag' cm1 Hc1. destruct (VIEW _ _ _ _ Hc1) as (cm0 & A1 & A2 & A3 & A4 & A5 & A6 & _). exists cm0. repeat split; assumption. }
    destruct okr as [l|].
    + cbv iota beta in NF |- *.
      match goal with |- context [wake_consumer ?st ?c0 ?h0 ?tag0] => set (s7 := st) in * end.
      assert (SV : sameview (upd_queue s1 (c_queue cm) (popped rest)) s7) by (subst s7; repeat sv_step).
      destruct (wake_consumer s7 c h tag) as [s9 b9] eqn:Ew. apply fst_pair in Ew. cbn [fst] in NF |- *. subst s9.
      apply (DELIV s1 s7); auto.
    + (* refused: the refusing window is still there *)
      cbn [fst] in NF |- *. revert HW. apply wake_inv_mono; [apply queue_ok_queues; congruence|].
      intros c' h' tag' cm' Hc Hs.
      destruct ((c' =? c) && (h' =? h) && seqb tag' tag) eqn:Eb.
      * right. left. intros qu' u' rest' Hq' Ha' Hr'. right.
        apply andb_prop in Eb. destruct Eb as [Eb Et]. apply eqb2_true in Eb. destruct Eb; subst c' h'. apply seqb_spec in Et. subst tag'.
        destruct (VIEW _ _ _ _ Hc) as (cm0 & Hc0 & _ & _ & Eq0 & En0 & _ & Hws). specialize (Hws eq_refl eq_refl eq_refl).
        rewrite C0, !N.eqb_refl, seqb_refl in Hc0. inversion Hc0; subst cm0. cbn in Eq0, En0.
        assert (Hqu : get_queue s1 (c_queue cm) = Some qu) by (unfold get_queue in *; rewrite Q1; exact Eq).
        rewrite Eq0, Hqu in Hq'. inversion Hq'; subst qu'. rewrite Er in Hr'. inversion Hr'; subst u' rest'.
        unfold head_fits. rewrite En0, Ena, Hws. cbn [orb].
        rewrite (msg_size_same_heap s0 s1 u H1). fold size. apply (reserve_none _ _ _ _ Eres).
      * right. right.
        apply (turn_others_ok cfg s c h tag cm size s0 s1 s1); auto.
        intros. apply msg_size_same_heap. congruence.
Qed.

(* ------------------------------------------------------------------ *)
(* publish *)
Lemma WI_add_confirm cfg s c h t : wake_inv cfg s -> wake_inv cfg (add_confirm s c h t).
Proof. apply sameview_inv. apply sameview_add_confirm. Qed.

Lemma WI_push_one cfg s c h u pers hm qn : wake_inv cfg s -> wake_inv cfg (push_one s c h u pers hm qn).
Proof.
  intros H. unfold push_one. pose proof (WI_queue_push cfg s qn u H) as H1.
  destruct (get_msg (queue_push s qn u) u); auto. destruct (_ && _ && _); auto. apply WI_add_confirm; auto.
Qed.

Lemma WI_route_and_push cfg fx s c h u : wake_inv cfg s -> wake_inv cfg (fst (route_and_push fx s c h u)).
Proof.
  intros H. unfold route_and_push. destruct (get_msg s u) as [m|]; auto.
  destruct (alookup _ _ _) as [ex|]; cbn [fst]; [|apply WI_add_confirm; auto].
  destruct (matched_queues _ _ _) as [|q1 qs]; cbn [fst]; [apply WI_add_confirm; auto|].
  apply fold_left_preserves; [intros; apply WI_push_one; auto|].
  destruct (_ && _); auto. revert H. apply sameview_inv. apply sameview_upd_msg. reflexivity.
Qed.

Lemma WI_finish_publish cfg fx s c h u : wake_inv cfg s -> wake_inv cfg (fst (finish_publish fx s c h u)).
Proof.
  intros H. unfold finish_publish. pose proof (WI_route_and_push cfg fx s c h u H) as H1.
  destruct (route_and_push fx s c h u) as [s1 e1]. cbn [fst] in *.
  destruct (fx_clear_current fx); auto. revert H1. apply sameview_inv. apply sameview_upd_chan; reflexivity.
Qed.

(* the view is kept and the queues only gain messages *)
Definition grow (s s' : state) : Prop :=
  (forall c h tag, consumer_at s' c h tag = consumer_at s c h tag) /\
  (forall c h tag cm, consumer_at s' c h tag = Some cm -> Wq s' c h = Wq s c h /\ cnq s' c = cnq s c) /\
  (forall u, msg_size s' u = msg_size s u) /\
  (forall u, queued s u -> queued s' u).

Lemma grow_refl s : grow s s.
Proof. repeat split; auto. Qed.
Lemma grow_trans s1 s2 s3 : grow s1 s2 -> grow s2 s3 -> grow s1 s3.
Proof.
  intros (A1 & B1 & C1 & D1) (A2 & B2 & C2 & D2). repeat split; intros.
  - rewrite A2. apply A1.
  - destruct (B2 _ _ _ _ H) as [E _]. rewrite E. rewrite A2 in H. destruct (B1 _ _ _ _ H) as [E' _]. exact E'.
  - destruct (B2 _ _ _ _ H) as [_ E]. rewrite E. rewrite A2 in H. destruct (B1 _ _ _ _ H) as [_ E']. exact E'.
  - rewrite C2. apply C1.
  - auto.
Qed.
Lemma grow_sameview s s' : sameview s s' -> grow s s'.
Proof. intros SV. pose proof (fun u => queued_sameview s s' u SV) as Hq. destruct SV as (A & B & C & D). repeat split; auto; apply (C _ _ _ _ H). Qed.

Lemma size_nowrap_grow_back cfg s s' : grow s s' -> size_nowrap cfg s' -> size_nowrap cfg s.
Proof.
  intros (A & B & C & D) HN c h tag cm w u Hc Hw Hq Hps.
  rewrite <- A in Hc. destruct (B _ _ _ _ Hc) as [E1 E2].
  rewrite <- (C u). apply (HN c h tag cm w u Hc); auto. rewrite (window_list_ext cfg s s'); auto.
Qed.

Lemma grow_queue_push s qn u : grow s (queue_push s qn u).
Proof.
  assert (Ec : conns (queue_push s qn u) = conns s) by apply (proj1 conns_queue_ops).
  repeat split; intros.
  - apply consumer_at_conns; auto.
  - apply Wq_same_conns; auto.
  - apply cnq_same_conns; auto.
  - apply msg_size_queue_push.
  - destruct H as (q0 & qu0 & Hq0 & Hin). unfold queue_push.
    destruct (get_queue s qn) as [qu|] eqn:Eq; [|exists q0, qu0; auto].
    destruct (get_msg s u) as [m|]; [|exists q0, qu0; auto]. destruct (negb (q_active qu)); [exists q0, qu0; auto|].
    destruct (seqb q0 qn) eqn:Eb.
    + apply seqb_spec in Eb. subst q0. eexists qn, _. rewrite get_queue_set_queue, seqb_refl. split; [reflexivity|].
      unfold call_consumers. assert (qu0 = qu) by congruence. subst qu0.
      destruct (q_active _); cbn; apply in_or_app; left; exact Hin.
    + exists q0, qu0. rewrite get_queue_set_queue, Eb. split; auto.
      unfold get_queue in *. destruct (q_durable qu && m_pers m); [exact Hq0|]. destruct (m_conf m); [|exact Hq0].
      rewrite queues_upd_msg. exact Hq0.
Qed.

Lemma grow_finish_publish fx s c h u : grow s (fst (finish_publish fx s c h u)).
Proof.
  unfold finish_publish.
  assert (H1 : grow s (fst (route_and_push fx s c h u))).
  { unfold route_and_push. destruct (get_msg s u) as [m|]; [|apply grow_refl].
    destruct (alookup _ _ _) as [ex|]; cbn [fst]; [|apply grow_sameview; apply sameview_add_confirm].
    destruct (matched_queues _ _ _) as [|q1 qs]; cbn [fst]; [apply grow_sameview; apply sameview_add_confirm|].
    match goal with |- grow s (fold_left ?F ?l ?s0) => assert (H0 : grow s s0) end.
    { destruct (_ && _); [|apply grow_refl]. apply grow_sameview. apply sameview_upd_msg. reflexivity. }
    revert H0. match goal with |- grow s ?s0 -> _ => generalize s0 end.
    induction (q1 :: qs) as [|q l IH]; intros s0 H0; cbn [fold_left]; auto.
    apply IH. eapply grow_trans; [exact H0|]. unfold push_one.
    pose proof (grow_queue_push s0 q u) as Hp.
    destruct (get_msg (queue_push s0 q u) u); auto. destruct (_ && _ && _); auto.
    eapply grow_trans; [exact Hp|]. apply grow_sameview. apply sameview_add_confirm. }
  destruct (route_and_push fx s c h u) as [s1 e1]. cbn [fst] in *.
  destruct (fx_clear_current fx); auto. eapply grow_trans; [exact H1|]. apply grow_sameview. apply sameview_upd_chan; reflexivity.
Qed.

(* ------------------------------------------------------------------ *)
(* the two auxiliary invariants *)
Definition cep (c h : N) (ch : channel) : Prop := ch_status ch = ChClosed -> ch_consumers ch = [].
Notation closed_empty := (allch cep).
Definition heap_fresh (s : state) : Prop := forall u, next_uid s <= u -> get_msg s u = None.

(* a channel without consumers: whatever happens to its record *)
Lemma WI_set_chan_noconsumers cfg s c h ch ch' :
  get_chan s c h = Some ch -> ch_consumers ch' = [] -> wake_inv cfg s -> wake_inv cfg (set_chan s c h ch').
Proof.
  intros E En. apply wake_inv_mono; [apply queue_ok_queues; apply queues_set_chan|].
  intros c' h' tag' cm' Hc Hs. rewrite (consumer_at_set_chan _ _ _ _ _ _ _ _ E) in Hc.
  destruct ((c' =? c) && (h' =? h)) eqn:Eb.
  - unfold find_consumer in Hc. rewrite En in Hc. discriminate.
  - right. right. exists cm'. repeat split; auto. intros u _ Had. rewrite <- Had. symmetry. apply head_fits_ext; auto.
    + rewrite (Wq_set_chan _ _ _ _ _ _ _ E), Eb. reflexivity.
    + apply cnq_set_chan.
    + apply msg_size_set_chan.
Qed.

(* reservation by somebody who is not a consumer (basic.get), or by a consumer seen from the others *)
Lemma charged_ok cfg s size s1 sF :
  size_nowrap cfg s -> size_nowrap cfg sF ->
  (exists uh, queued s uh /\ size <= msg_size s uh) ->
  (forall c' h' tag' cm1, consumer_at s1 c' h' tag' = Some cm1 ->
     consumer_at s c' h' tag' = Some cm1 /\ Forall2 (Rw size) (window_list cfg s c' h' cm1) (window_list cfg s1 c' h' cm1)) ->
  (forall c' h' tag', consumer_at sF c' h' tag' = consumer_at s1 c' h' tag') ->
  (forall c' h' cmx, window_list cfg sF c' h' cmx = window_list cfg s1 c' h' cmx) ->
  (forall u, msg_size sF u = msg_size s u) ->
  consumer_ok cfg s sF.
Proof.
  intros N0 NF (uh & Hquh & Hsz) P1 CF WF MF c' h' tag' cm' Hc Hs. right. right.
  rewrite CF in Hc. destruct (P1 _ _ _ _ Hc) as (Hc0 & HF2). exists cm'. repeat split; auto.
  intros u Hq. apply (head_fits_Rw cfg s sF c' h' cm' cm' size u); auto.
  - rewrite WF. exact HF2.
  - intros w Hw Hps. pose proof (N0 c' h' tag' cm' w uh Hc0 Hw Hquh Hps). lia.
  - intros w Hw Hps. apply (NF c' h' tag' cm' w u); auto. rewrite CF. exact Hc.
Qed.

Lemma find_app_some {A} (f : A -> bool) l x y : find f l = Some y -> find f (l ++ [x]) = Some y.
Proof. induction l as [|a l IH]; cbn; [discriminate|]. destruct (f a); auto. Qed.

Lemma find_filter_tag l tag tag' :
  find (fun cm => seqb (c_tag cm) tag') (filter (fun cm => negb (seqb (c_tag cm) tag)) l) =
  if seqb tag' tag then None else find (fun cm => seqb (c_tag cm) tag') l.
Proof.
  induction l as [|a l IH]; cbn; [destruct (seqb tag' tag); reflexivity|].
  destruct (seqb (c_tag a) tag) eqn:E1; cbn.
  - rewrite IH. destruct (seqb tag' tag) eqn:E2; auto. destruct (seqb (c_tag a) tag') eqn:E3; auto.
    apply seqb_spec in E1, E3. subst. rewrite seqb_refl in E2. discriminate.
  - destruct (seqb (c_tag a) tag') eqn:E3; auto. destruct (seqb tag' tag) eqn:E2; auto.
    apply seqb_spec in E2, E3. subst. rewrite seqb_refl in E1. discriminate.
Qed.

Lemma queue_found_get s qn qu : queue_found s qn = Some qu -> get_queue s qn = Some qu.
Proof. unfold queue_found. destruct (get_queue s qn) as [q|]; [|discriminate]. destruct (q_active q); congruence. Qed.

Lemma queue_found_active s q qu : queue_found s q = Some qu -> q_active qu = true.
Proof. unfold queue_found. destruct (get_queue s q) as [q0|]; [|discriminate]. destruct (q_active q0) eqn:E; congruence. Qed.

Lemma msg_size_fresh s m u : heap_fresh s -> m_size m = 0 ->
  msg_size (s <| heap := aset N.eqb (next_uid s) m (heap s) |> <| next_uid := next_uid s + 1 |>) u = msg_size s u.
Proof.
  intros HF Hm. unfold msg_size, get_msg. cbn. rewrite (alookup_aset N.eqb Neqb_spec).
  destruct (u =? next_uid s) eqn:E; auto. apply N.eqb_eq in E. subst.
  specialize (HF (next_uid s) (N.le_refl _)). unfold get_msg in HF. rewrite HF. exact Hm.
Qed.

Lemma sameview_fresh_msg s m : heap_fresh s -> m_size m = 0 ->
  sameview s (s <| heap := aset N.eqb (next_uid s) m (heap s) |> <| next_uid := next_uid s + 1 |>).
Proof. intros HF Hm. repeat split; intros; auto. apply msg_size_fresh; auto. Qed.

Lemma WI_add_consumer cfg s s1 c h ch q qu' cm :
  get_chan s c h = Some ch -> conns s1 = conns s -> heap s1 = heap s -> queues s1 = queues (set_queue s q qu') ->
  (q_active qu' = true -> q_call qu' = true) ->
  find_consumer ch (c_tag cm) = None -> c_token cm = true ->
  wake_inv cfg s -> wake_inv cfg (set_chan s1 c h (ch <| ch_consumers ::= fun l => l ++ [cm] |>)).
Proof.
  intros Ech Ec Eh Eq Hcall Hnone Htok.
  assert (Ech1 : get_chan s1 c h = Some ch) by (rewrite (get_chan_same_conns s s1 c h Ec); exact Ech).
  apply wake_inv_mono.
  - intros qn qu1 Hq Ha Hne. unfold get_queue in Hq. rewrite queues_set_chan, Eq in Hq. fold (get_queue (set_queue s q qu') qn) in Hq.
    rewrite get_queue_set_queue in Hq. destruct (seqb qn q).
    + inversion Hq; subst. left. auto.
    + right. right. exists qu1. repeat split; auto. apply incl_refl.
  - intros c' h' tag' cm' Hc Hs. rewrite (consumer_at_set_chan _ _ _ _ _ _ _ _ Ech1) in Hc.
    assert (Hsame : forall u, head_fits cfg (set_chan s1 c h (ch <| ch_consumers ::= fun l => l ++ [cm] |>)) c' h' cm' u = head_fits cfg s c' h' cm' u).
    { intros u. apply head_fits_ext; auto.
      - rewrite (Wq_set_chan _ _ _ _ _ _ _ Ech1). rewrite (Wq_same_conns s s1 c' h' Ec).
        destruct ((c' =? c) && (h' =? h)) eqn:Eb; auto. apply eqb2_true in Eb. destruct Eb; subst. unfold Wq. rewrite Ech. reflexivity.
      - rewrite cnq_set_chan. apply cnq_same_conns; auto.
      - rewrite msg_size_set_chan. apply msg_size_same_heap; auto. }
    destruct ((c' =? c) && (h' =? h)) eqn:Eb.
    + apply eqb2_true in Eb. destruct Eb; subst c' h'. unfold find_consumer in Hc. cbn in Hc.
      destruct (find (fun cm0 => seqb (c_tag cm0) tag') (ch_consumers ch)) as [y|] eqn:Efy.
      * rewrite (find_app_some _ _ _ _ Efy) in Hc. inversion Hc; subst y.
        right. right. exists cm'. unfold consumer_at. rewrite Ech. unfold find_consumer. rewrite Efy. repeat split; auto.
        intros u _ Had. rewrite <- Had. symmetry. apply Hsame.
      * rewrite (find_app_none _ _ _ Efy) in Hc. destruct (seqb (c_tag cm) tag'); inversion Hc; subst. left. exact Htok.
    + right. right. exists cm'. rewrite <- (consumer_at_conns s s1 c' h' tag' Ec). repeat split; auto.
      intros u _ Had. rewrite <- Had. symmetry. apply Hsame.
Qed.

Lemma WI_filter_consumers cfg s c h tag : wake_inv cfg s ->
  wake_inv cfg (upd_chan s c h (fun ch => ch <| ch_consumers ::= filter (fun cm => negb (seqb (c_tag cm) tag)) |>)).
Proof.
  unfold upd_chan. destruct (get_chan s c h) as [ch|] eqn:Ech; auto.
  apply wake_inv_mono; [apply queue_ok_queues; apply queues_set_chan|].
  eapply consumer_ok_set_chan; [exact Ech|reflexivity|].
  intros tag' cm' Hf Hs. unfold find_consumer in Hf. cbn in Hf. rewrite find_filter_tag in Hf.
  destruct (seqb tag' tag); [discriminate|]. right. exists cm'. repeat split; auto.
Qed.

Lemma WI_flow cfg s c h ch (a : bool) : get_chan s c h = Some ch -> wake_inv cfg s ->
  wake_inv cfg (if a then
      set_chan s c h (ch <| ch_flow := a |> <| ch_consumers ::= map (fun cm =>
                          match c_status cm with
                          | CStopped => cm
                          | _ => fst (consume_msg (cm <| c_status := CStarted |>))
                          end) |>)
      else set_chan s c h (ch <| ch_flow := a |> <| ch_consumers ::= map (fun cm =>
                          match c_status cm with CStopped => cm | _ => cm <| c_status := CPaused |> end) |>)).
Proof.
  intros Hch. destruct a.
  - apply wake_inv_mono; [apply queue_ok_queues; apply queues_set_chan|].
    eapply consumer_ok_set_chan; [exact Hch|reflexivity|].
    intros tag' cm' Hf Hs. left. unfold find_consumer in Hf. cbn in Hf.
    rewrite find_map_consumers in Hf. 2:{ intros cm0. destruct cm0 as [? ? ? ? [] [] ?]; reflexivity. }
    destruct (find _ (ch_consumers ch)) as [cm0|]; cbn in Hf; inversion Hf; subst cm'.
    destruct cm0 as [? ? ? ? [] [] ?]; cbn in *; congruence.
  - apply wake_inv_mono; [apply queue_ok_queues; apply queues_set_chan|].
    eapply consumer_ok_set_chan; [exact Hch|reflexivity|].
    intros tag' cm' Hf Hs. exfalso. unfold find_consumer in Hf. cbn in Hf.
    rewrite find_map_consumers in Hf. 2:{ intros cm0. destruct cm0 as [? ? ? ? [] [] ?]; reflexivity. }
    destruct (find _ (ch_consumers ch)) as [cm0|]; cbn in Hf; inversion Hf; subst cm'.
    destruct cm0 as [? ? ? ? [] [] ?]; cbn in *; congruence.
Qed.

(* basic.qos: a limit of channel (c,h) - in the 0-9-1 dialect possibly the connection's - changes, then wakeConsumers *)
Lemma WI_qos_chan cfg s c h ch ch' : get_chan s c h = Some ch -> ch_consumers ch' = ch_consumers ch ->
  wake_inv cfg s -> wake_inv cfg (wake_consumers cfg (set_chan s c h ch') c h).
Proof.
  intros Hch Ec H. apply (WI_release_wake cfg s); auto.
  - apply queues_set_chan.
  - intros. apply msg_size_set_chan.
  - intros c' h' tag' Ho. rewrite (consumer_at_set_chan _ _ _ _ _ _ _ _ Hch).
    destruct ((c' =? c) && (h' =? h)) eqn:Eb; auto. apply eqb2_true in Eb. destruct Eb; subst. apply other_ne in Ho. congruence.
  - intros c' h' Ho. rewrite (Wq_set_chan _ _ _ _ _ _ _ Hch).
    destruct ((c' =? c) && (h' =? h)) eqn:Eb; auto. apply eqb2_true in Eb. destruct Eb; subst. apply other_ne in Ho. congruence.
  - intros. apply cnq_rel_eq. apply cnq_set_chan.
Qed.

Lemma WI_qos_conn cfg s c h cn f : get_conn s c = Some cn -> cfg_rabbit cfg = false ->
  wake_inv cfg s -> wake_inv cfg (wake_consumers cfg (s <| conns := aset N.eqb c (cn <| cn_qos ::= f |>) (conns s) |>) c h).
Proof.
  intros Ecn Er H. apply (WI_release_wake cfg s); auto.
  - intros. apply consumer_at_set_conn_qos. exact Ecn.
  - intros. apply Wq_set_conn_qos. exact Ecn.
  - intros c' Hc'. apply cnq_rel_set_conn_qos; auto.
Qed.

(* basic.get charges the channel's and the connection's window (in both dialects) *)
Lemma get_view cfg s c h ch a' b' size :
  get_chan s c h = Some ch -> Rw size (ch_qos ch) a' ->
  (forall cn, get_conn s c = Some cn -> Rw size (cn_qos cn) b') ->
  forall s1, s1 = (let s0 := set_chan s c h (ch <| ch_qos := a' |>) in
                   match get_conn s0 c with
                   | Some cn => s0 <| conns := aset N.eqb c (cn <| cn_qos := b' |>) (conns s0) |>
                   | None => s0
                   end) ->
  queues s1 = queues s /\ heap s1 = heap s /\
  (forall c' h' tag' cm1, consumer_at s1 c' h' tag' = Some cm1 ->
     consumer_at s c' h' tag' = Some cm1 /\ Forall2 (Rw size) (window_list cfg s c' h' cm1) (window_list cfg s1 c' h' cm1)).
Proof.
  intros Hch Ra Rb s1 ->. cbv zeta. set (s0 := set_chan s c h (ch <| ch_qos := a' |>)).
  assert (C0 : forall c' h' tag', consumer_at s0 c' h' tag' = consumer_at s c' h' tag').
  { intros. subst s0. rewrite (consumer_at_set_chan _ _ _ _ _ _ _ _ Hch). destruct ((c' =? c) && (h' =? h)) eqn:Eb; auto.
    apply eqb2_true in Eb. destruct Eb; subst. unfold consumer_at. rewrite Hch. reflexivity. }
  assert (W0 : forall c' h', Wq s0 c' h' = if (c' =? c) && (h' =? h) then Some a' else Wq s c' h').
  { intros. subst s0. rewrite (Wq_set_chan _ _ _ _ _ _ _ Hch). reflexivity. }
  assert (K0 : forall c', cnq s0 c' = cnq s c') by (intros; apply cnq_set_chan).
  assert (HWa : Wq s c h = Some (ch_qos ch)) by (unfold Wq; rewrite Hch; reflexivity).
  pose proof (get_chan_conn _ _ _ _ Hch) as Hcn. destruct (get_conn s c) as [cn0|] eqn:Ecn0; [|congruence].
  specialize (Rb cn0 eq_refl).
  assert (HKb : cnq s c = Some (cn_qos cn0)) by (unfold cnq; rewrite Ecn0; reflexivity).
  destruct (get_conn s0 c) as [cn|] eqn:Ecn.
  2:{ exfalso. assert (E : cnq s0 c = None) by (unfold cnq; rewrite Ecn; reflexivity). rewrite K0, HKb in E. discriminate. }
  split; [apply queues_set_chan|]. split; [apply heap_set_chan|].
  intros c' h' tag' cm1 Hc. rewrite (consumer_at_set_conn_qos _ _ _ _ _ _ _ Ecn), C0 in Hc. split; auto.
  rewrite !window_list_eq. rewrite (Wq_set_conn_qos _ _ _ _ _ _ Ecn), (cnq_set_conn_qos _ _ _ _ _ Ecn), W0, K0.
  destruct ((c' =? c) && (h' =? h)) eqn:Eb.
  - apply eqb2_true in Eb. destruct Eb; subst c' h'. rewrite N.eqb_refl, HWa, HKb. destruct (cfg_rabbit cfg); f2rw.
  - destruct (Wq s c' h') as [x|]; [|constructor]. destruct (c' =? c) eqn:Ec.
    + apply N.eqb_eq in Ec. subst c'. rewrite HKb. destruct (cfg_rabbit cfg); f2rw.
    + f2rw.
Qed.

Ltac sv_solve := repeat sv_step.
Ltac wi_same H := revert H; apply sameview_inv; first [ apply sameview_refl | sv_solve ].

Theorem WI_handle_method cfg fx s c h m :
  closed_empty s -> heap_fresh s ->
  size_nowrap cfg s -> (snd (handle_method cfg fx s c h m) = None -> size_nowrap cfg (fst (fst (handle_method cfg fx s c h m)))) ->
  wake_inv cfg s -> wake_inv cfg (fst (fst (handle_method cfg fx s c h m))).
Proof.
  intros HCE HHF N0 NF H. unfold handle_method in *.
  destruct (get_chan s c h) as [ch|] eqn:Hch; [|exact H].
  destruct m; unfold ok, refuse in *.
  - (* MChannelOpen *)
    destruct (ch_status ch) eqn:Est; cbn [fst]; auto.
    + revert H. apply sameview_inv. eapply sameview_set_chan; eauto.
    + revert H. apply sameview_inv. eapply sameview_set_chan; eauto.
    + pose proof (HCE _ _ _ Hch Est) as Hnil.
      eapply WI_set_chan_noconsumers; eauto. destruct (fx_reopen_resets fx); exact Hnil.
  - (* MChannelClose *) cbn [fst]. apply WI_channel_close. exact H.
  - (* MChannelCloseOk *) cbn [fst]. destruct (fx_closeok_releases fx); [apply WI_channel_close; auto|].
    revert H. apply sameview_inv. eapply sameview_set_chan; eauto.
  - (* MChannelFlow *)
    cbn [fst]. destruct (Bool.eqb (ch_flow ch) a); [exact H|]. apply (WI_flow cfg s c h ch a Hch H).
  - (* MExDeclare *) destruct (extype_of type); [|exact H].
    repeat match goal with |- context [if ?b then _ else _] => destruct b end; cbn [fst]; auto.
    all: repeat match goal with |- context [match ?x with _ => _ end] => destruct x end; cbn [fst]; auto.
    all: revert H; apply sameview_inv; apply sameview_fields; reflexivity.
  - (* MExDelete *) destruct (fx_not_impl fx); exact H.
  - (* MQDeclare *)
    destruct (seqb name ""); [exact H|].
    destruct (queue_found s name) as [qu|] eqn:Ef.
    + repeat match goal with |- context [if ?b then _ else _] => destruct b end; cbn [fst]; exact H.
    + destruct passive; [destruct nowait; exact H|]. cbn [fst].
      apply (sameview_inv cfg (set_queue (s <| next_qid ::= N.succ |>) name (new_queue (next_qid s) c dur excl ad)));
        [apply sameview_fields; reflexivity|].
      revert H. apply wake_inv_mono; [|apply consumer_ok_conns; reflexivity].
      apply queue_ok_set_queue; [reflexivity|]. intros _ Hne. exfalso. apply Hne. reflexivity.
  - (* MQBind *)
    destruct (alookup _ _ _); [|exact H]. destruct (seqb ex ""); [exact H|].
    destruct (queue_found s q); [|exact H]. destruct (locked _ _); [exact H|]. destruct (bad_xmatch _); [exact H|]. destruct (extype_eqb _ ExTopic && bad_pattern _)%bool; [exact H|]. cbn [fst].
    revert H; apply sameview_inv; apply sameview_fields; reflexivity.
  - (* MQUnbind *)
    destruct (alookup _ _ _); [|exact H]. destruct (queue_found s q); [|exact H]. destruct (locked _ _); [exact H|]. destruct (bad_xmatch _); [exact H|]. destruct (extype_eqb _ ExTopic && bad_pattern _)%bool; [exact H|]. cbn [fst].
    revert H; apply sameview_inv; apply sameview_fields; reflexivity.
  - (* MQPurge *)
    destruct (queue_found s q) as [qu|] eqn:Ef; [|exact H]. destruct (locked _ _); [exact H|]. cbn [fst].
    revert H. apply wake_inv_mono.
    + apply queue_ok_set_queue; [destruct (q_durable qu); reflexivity|]. intros _ Hne. exfalso. apply Hne. reflexivity.
    + apply consumer_ok_conns; [destruct (q_durable qu); reflexivity|].
      intros. apply msg_size_same_heap. destruct (q_durable qu); reflexivity.
  - (* MQDelete *)
    destruct (queue_found s q); [|exact H]. destruct (locked _ _); [exact H|].
    pose proof (WI_vhost_delete_queue cfg (negb (fx_delete_checks_first fx)) s q ifunused ifempty H) as Hd.
    destruct (vhost_delete_queue _ s q ifunused ifempty) as [[s1 e1] r1]. cbn [fst] in *.
    destruct r1; exact Hd.
  - (* MQos *)
    cbn [fst]. destruct (cfg_rabbit cfg) eqn:Er.
    + destruct glob; (eapply WI_qos_chan; [exact Hch|reflexivity|exact H]).
    + destruct glob; [|eapply WI_qos_chan; [exact Hch|reflexivity|exact H]].
      destruct (get_conn s c) as [cn|] eqn:Ecn; [apply WI_qos_conn; auto|apply WI_wake_consumers; auto].
  - (* MPublish *)
    destruct imm; [exact H|]. destruct (alookup _ _ _); [|exact H].
    destruct (ch_confirm ch); cbn [fst].
    all: match goal with |- wake_inv _ (set_chan ?s1 _ _ _) => apply (sameview_inv cfg s1) end.
    all: try (eapply sameview_set_chan; [exact Hch|reflexivity|reflexivity]).
    all: revert H; apply sameview_inv; apply sameview_fresh_msg; auto.
  - (* MConsume *)
    destruct (queue_found s q) as [qu|] eqn:Ef; [|exact H].
    pose proof (queue_found_get _ _ _ Ef) as Eq. pose proof (queue_found_active _ _ _ Ef) as Eact.
    destruct (fx_excl_owner fx && locked qu c); [exact H|].
    destruct (find_consumer ch (eff_tag s tag)) eqn:Efc; [exact H|].
    destruct (_ && _)%bool; cbn [fst].
    + revert H. apply sameview_inv. eapply sameview_set_queue; [exact Eq|reflexivity].
    + match goal with |- wake_inv _ (set_chan ?s1 _ _ (_ <| ch_consumers ::= fun l => l ++ [?cm0] |>)) =>
        eapply (WI_add_consumer cfg s s1 c h ch q _ cm0); [exact Hch| | | | | |reflexivity|exact H] end.
      * destruct (seqb tag ""); reflexivity.
      * destruct (seqb tag ""); reflexivity.
      * destruct (seqb tag ""); reflexivity.
      * intros _. unfold call_consumers. destruct excl; cbn; rewrite Eact; reflexivity.
      * exact Efc.
  - (* MCancel *)
    destruct (find_consumer ch tag); [|exact H]. cbn [fst].
    eapply sameview_inv; [apply sameview_upd_chan; reflexivity|].
    apply WI_filter_consumers. apply WI_consumer_stop. exact H.
  - (* MGet *)
    destruct (queue_found s q) as [qu|] eqn:Ef; [|exact H].
    pose proof (queue_found_get _ _ _ Ef) as Eq. pose proof (queue_found_active _ _ _ Ef) as Eact.
    destruct (fx_excl_owner fx && locked qu c); [exact H|].
    destruct (q_ready qu) as [|u rest] eqn:Er; [exact H|].
    set (size := msg_size s u mod two32) in *.
    assert (Hsize : exists uh, queued s uh /\ size <= msg_size s uh).
    { exists u. split; [exists q, qu; rewrite Er; split; auto; left; reflexivity|]. subst size. apply N.mod_le. discriminate. }
    assert (GETD : forall s1 s7, queues s1 = queues s -> heap s1 = heap s ->
      (forall c' h' tag' cm1, consumer_at s1 c' h' tag' = Some cm1 ->
         consumer_at s c' h' tag' = Some cm1 /\ Forall2 (Rw size) (window_list cfg s c' h' cm1) (window_list cfg s1 c' h' cm1)) ->
      sameview (upd_queue s1 q (popped rest)) s7 -> size_nowrap cfg s7 -> wake_inv cfg s7).
    { intros s1 s7 Q1 H1 P1 SV N7. apply (sameview_inv cfg _ _ SV). apply (size_nowrap_back cfg _ _ SV) in N7.
      set (s2 := upd_queue s1 q (popped rest)) in *.
      assert (Eq1 : get_queue s1 q = Some qu) by (unfold get_queue in *; rewrite Q1; exact Eq).
      assert (E2 : s2 = set_queue s1 q (popped rest qu)) by (subst s2; unfold upd_queue; rewrite Eq1; reflexivity).
      revert H. apply wake_inv_mono.
      - rewrite E2. apply queue_ok_set_queue; [congruence|]. intros Ha Hne. left. apply popped_call_true; auto.
      - apply (charged_ok cfg s size s1 s2); auto.
        + intros. apply consumer_at_conns. apply conns_upd_queue.
        + intros. apply window_list_ext; [apply Wq_same_conns|apply cnq_same_conns]; apply conns_upd_queue.
        + intros. apply msg_size_same_heap. subst s2. rewrite heap_upd_queue. congruence. }
    destruct noack.
    + cbv iota beta in NF |- *. cbn [fst snd] in NF |- *. specialize (NF eq_refl).
      match goal with |- wake_inv _ ?st => set (s7 := st) in * end.
      apply (GETD s s7); auto.
      * intros c' h' tag' cm1 Hc. split; auto. apply Forall2_Rw_refl.
      * subst s7. sv_solve.
    + destruct (reserve (cfg_rollback cfg) [ch_qos ch; match get_conn s c with Some cn => cn_qos cn | None => qos0 end] size)
        as [okr ws'] eqn:Eres.
      pose proof (reserve_rel _ _ _ _ _ Eres) as HR. apply Forall2_two in HR. destruct HR as (a' & b' & -> & Ra & Rb).
      set (s1 := match get_conn (set_chan s c h (ch <| ch_qos := a' |>)) c with
                 | Some cn => set_chan s c h (ch <| ch_qos := a' |>) <| conns := aset N.eqb c (cn <| cn_qos := b' |>) (conns (set_chan s c h (ch <| ch_qos := a' |>))) |>
                 | None => set_chan s c h (ch <| ch_qos := a' |>)
                 end) in *.
      destruct (get_view cfg s c h ch a' b' size Hch Ra) with (s1 := s1) as (Q1 & H1 & P1); [|reflexivity|].
      { intros cn Ecn. rewrite Ecn in Rb. exact Rb. }
      destruct okr as [l|].
      * cbn [fst snd] in NF |- *. specialize (NF eq_refl).
        match goal with |- wake_inv _ ?st => set (s7 := st) in * end.
        apply (GETD s1 s7); auto. subst s7. sv_solve.
      * cbn [fst snd] in NF |- *. specialize (NF eq_refl). revert H. apply wake_inv_mono; [apply queue_ok_queues; exact Q1|].
        apply (charged_ok cfg s size s1 s1); auto. intros. apply msg_size_same_heap. exact H1.
  - (* MAck *)
    pose proof (WI_handle_ack cfg s c h tag mult H) as Ha.
    destruct (handle_ack cfg s c h tag mult) as [s1 e1]. exact Ha.
  - (* MNack *)
    pose proof (WI_handle_reject cfg s c h tag mult requeue 60 120 H) as Ha.
    destruct (handle_reject cfg s c h tag mult requeue 60 120) as [s1 e1]. exact Ha.
  - (* MReject *)
    pose proof (WI_handle_reject cfg s c h tag false requeue 60 90 H) as Ha.
    destruct (handle_reject cfg s c h tag false requeue 60 90) as [s1 e1]. exact Ha.
  - (* MRecover *) exact H.
  - (* MConfirmSelect *) cbn [fst]. revert H. apply sameview_inv. eapply sameview_set_chan; eauto.
  - (* MTxSelect *) destruct (fx_not_impl fx); exact H.
  - (* MConnClose *) exact H.
  - (* MConnCloseOk *) exact H.
  - (* MStartOk *) destruct good; [cbn [fst]; revert H; apply sameview_inv; apply sameview_set_stage|exact H].
  - (* MTuneOk *) destruct within; [cbn [fst]; revert H; apply sameview_inv; apply sameview_set_stage|exact H].
  - (* MConnOpen *) destruct vhost_ok; [cbn [fst]; revert H; apply sameview_inv; apply sameview_set_stage|exact H].
Qed.

(* ------------------------------------------------------------------ *)
(* teardown *)
Lemma WI_delete_fold cfg b l : forall s evs, wake_inv cfg s ->
  wake_inv cfg (fst (fold_left (fun acc qn => let '(s, evs) := acc in
                                    let '(s', e, _) := vhost_delete_queue b s qn false false in (s', evs ++ e)) l (s, evs))).
Proof.
  induction l as [|x t IH]; intros s evs H; simpl; auto.
  pose proof (WI_vhost_delete_queue cfg b s x false false H) as Hd.
  destruct (vhost_delete_queue b s x false false) as [[s1 e1] r1]. cbn [fst] in Hd. apply IH. exact Hd.
Qed.

Lemma WI_del_conn cfg s c : wake_inv cfg s -> wake_inv cfg (s <| conns := adel N.eqb c (conns s) |>).
Proof.
  apply wake_inv_mono; [apply queue_ok_queues; reflexivity|].
  intros c' h' tag' cm' Hc Hs. right. right. exists cm'.
  assert (Hne : (c' =? c) = false).
  { destruct (c' =? c) eqn:E; auto. unfold consumer_at in Hc. rewrite get_chan_del_conn, E in Hc. discriminate. }
  assert (Hc0 : consumer_at s c' h' tag' = Some cm').
  { unfold consumer_at in *. rewrite get_chan_del_conn, Hne in Hc. exact Hc. }
  repeat split; auto. intros u _ Had. rewrite <- Had. symmetry. apply head_fits_ext; auto.
  - unfold Wq. rewrite get_chan_del_conn, Hne. reflexivity.
  - unfold cnq, get_conn. cbn. rewrite (alookup_adel N.eqb Neqb_spec), Hne. reflexivity.
Qed.

Lemma WI_conn_close cfg fx s c : wake_inv cfg s -> wake_inv cfg (fst (conn_close cfg fx s c)).
Proof.
  intros H. unfold conn_close. destruct (get_conn s c) as [cn|]; [|exact H].
  set (s1 := fold_left _ _ s).
  assert (H1 : wake_inv cfg s1) by (subst s1; apply fold_left_preserves; auto; intros; apply WI_channel_close; auto).
  clearbody s1.
  pose proof (WI_delete_fold cfg (negb (fx_delete_checks_first fx))
                (map fst (filter (fun kv => q_excl (snd kv) && (q_owner (snd kv) =? c)) (queues s1))) s1 [] H1) as Hd.
  destruct (fold_left _ _ (s1, [])) as [s2 e2]. cbn [fst] in *. apply WI_del_conn. exact Hd.
Qed.

Lemma WI_apply_err cfg s c h r : wake_inv cfg (fst (fst r)) -> wake_inv cfg (fst (apply_err s c h r)).
Proof.
  destruct r as [[s1 e1] [e|]]; cbn [fst]; auto.
  intros H. unfold apply_err. pose proof (sameview_send_error s1 c h e) as Hs.
  destruct (send_error s1 c h e) as [s2 e2]. cbn [fst] in *. revert H. apply sameview_inv. exact Hs.
Qed.

Lemma WI_apply_err_st cfg fx opened s c h r : wake_inv cfg (fst (fst r)) -> wake_inv cfg (fst (apply_err_st cfg fx opened s c h r)).
Proof.
  intros H. unfold apply_err_st. destruct opened; [apply WI_apply_err; auto|].
  destruct (snd r) as [[| ]|]; try (apply WI_apply_err; auto).
  pose proof (WI_apply_err cfg s c h r H) as H1. destruct (apply_err s c h r) as [s1 e1]. cbn [fst] in H1.
  pose proof (WI_conn_close cfg fx s1 c H1) as H2. destruct (conn_close cfg fx s1 c) as [s2 e2]. exact H2.
Qed.

Lemma apply_err_st_none cfg fx opened s c h r : snd r = None -> fst (apply_err_st cfg fx opened s c h r) = fst (fst r).
Proof.
  destruct r as [[s1 e1] e]. cbn [snd]. intros ->. unfold apply_err_st, apply_err. destruct opened; reflexivity.
Qed.

Lemma queued_sameview_rev s s' u : sameview s s' -> queued s' u -> queued s u.
Proof.
  intros (A & _) (qn & qu' & Hq & Hin). specialize (A qn). rewrite Hq in A. cbn in A.
  destruct (get_queue s qn) as [qu|] eqn:Eq'; [|discriminate]. cbn in A. inversion A as [E].
  exists qn, qu. split; auto. rewrite <- H. exact Hin.
Qed.

Lemma size_nowrap_fwd cfg s s' : sameview s s' -> size_nowrap cfg s -> size_nowrap cfg s'.
Proof.
  intros SV HN c h tag cm w u Hc Hw Hq Hps. pose proof (queued_sameview_rev _ _ _ SV Hq) as Hq'.
  destruct SV as (A & B & C & D). destruct (C _ _ _ _ Hc) as [E1 E2]. rewrite B in Hc.
  rewrite (D u). apply (HN c h tag cm w u Hc); auto. rewrite <- (window_list_ext cfg s s'); auto.
Qed.

Lemma closed_empty_ensure s c h : closed_empty s -> closed_empty (ensure_chan s c h).
Proof.
  intros H c' h' ch' Hg. apply get_chan_ensure in Hg. destruct Hg as [Hg|Hg]; [apply H; auto|subst; intros E; discriminate].
Qed.

Lemma heap_fresh_same s s' : heap s' = heap s -> next_uid s' = next_uid s -> heap_fresh s -> heap_fresh s'.
Proof. intros E1 E2 H u Hu. unfold get_msg. rewrite E1. apply H. rewrite <- E2. exact Hu. Qed.

(* a body frame makes its message larger: waiting messages can only become harder to take *)
Lemma WI_grow_msg cfg s u len :
  size_nowrap cfg (upd_msg s u (fun m => m <| m_body ::= fun b => b ++ [len] |> <| m_size ::= fun z => z + len |>)) ->
  wake_inv cfg s -> wake_inv cfg (upd_msg s u (fun m => m <| m_body ::= fun b => b ++ [len] |> <| m_size ::= fun z => z + len |>)).
Proof.
  intros NF. set (s' := upd_msg s u _) in *.
  assert (Ec : conns s' = conns s) by apply conns_upd_msg.
  assert (Hle : forall x, msg_size s x <= msg_size s' x).
  { intros x. subst s'. unfold upd_msg. destruct (get_msg s u) as [m|] eqn:E; [|lia].
    unfold msg_size, get_msg in *. cbn. rewrite (alookup_aset N.eqb Neqb_spec).
    destruct (x =? u) eqn:Ex; [|lia]. apply N.eqb_eq in Ex. subst. rewrite E. cbn. lia. }
  apply wake_inv_mono; [apply queue_ok_queues; apply queues_upd_msg|].
  intros c h tag cm' Hc Hs. right. right. exists cm'. rewrite <- (consumer_at_conns s s' c h tag Ec). repeat split; auto.
  intros x Hq. unfold head_fits. destruct (c_noack cm'); cbn [orb]; auto.
  rewrite (window_list_ext cfg s s' c h cm' (Wq_same_conns _ _ _ _ Ec) (cnq_same_conns _ _ _ Ec)).
  intros Hall. apply forallb_forall. intros w Hw. pose proof (proj1 (forallb_forall _ _) Hall w Hw) as Hok.
  rewrite win_ok_eq in *. destruct (ps w =? 0) eqn:Eps; [exact Hok|]. cbn [orb] in *.
  assert (Hps : ps w <> 0) by (apply N.eqb_neq; exact Eps).
  assert (Hb : cs w + msg_size s' x < two32).
  { apply (NF c h tag cm' w x Hc); auto.
    rewrite (window_list_ext cfg s s' c h cm' (Wq_same_conns _ _ _ _ Ec) (cnq_same_conns _ _ _ Ec)). exact Hw. }
  specialize (Hle x).
  rewrite (N.mod_small (msg_size s' x) two32) in Hok by lia.
  rewrite (N.mod_small (msg_size s x) two32) by lia.
  rewrite (N.mod_small (cs w + msg_size s' x) two32) in Hok by lia.
  rewrite (N.mod_small (cs w + msg_size s x) two32) by lia. lia.
Qed.

Lemma WI_store_confirm cfg s u : wake_inv cfg s -> wake_inv cfg (store_confirm s u).
Proof.
  intros H. unfold store_confirm. destruct (get_msg s u) as [m|]; auto. destruct (m_conf m); auto.
  destruct (_ =? _)%Z.
  - eapply sameview_inv; [apply sameview_fields; reflexivity|]. revert H. apply sameview_inv. apply sameview_upd_msg. reflexivity.
  - revert H. apply sameview_inv. apply sameview_upd_msg. reflexivity.
Qed.

Lemma WI_restart cfg s : wake_inv cfg (fst (restart cfg s)).
Proof.
  intros qn c h tag (qu & cm & u & rest & _ & _ & _ & _ & Hc & _). unfold restart, consumer_at, get_chan, get_conn in Hc. cbn in Hc. discriminate.
Qed.

Theorem WI_step cfg fx s l :
  closed_empty s -> heap_fresh s -> size_nowrap cfg s -> size_nowrap cfg (fst (step cfg fx s l)) ->
  wake_inv cfg s -> wake_inv cfg (fst (step cfg fx s l)).
Proof.
  intros HCE HHF N0 NF H. destruct l; cbn [step] in *.
  - (* LConnect *)
    destruct (get_conn s c) eqn:Ec; cbn [fst]; auto. revert H. apply sameview_inv. apply sameview_new_conn; auto.
  - (* LMethod *)
    destruct (get_conn s c) as [cn0|]; [|exact H].
    destruct (negb _ && negb _)%bool; [apply WI_conn_close; auto|].
    assert (H0 : wake_inv cfg (ensure_chan s c h)) by (revert H; apply sameview_inv; apply sameview_ensure_chan).
    assert (HCE0 : closed_empty (ensure_chan s c h)) by (apply closed_empty_ensure; auto).
    assert (HHF0 : heap_fresh (ensure_chan s c h)).
    { revert HHF. apply heap_fresh_same; unfold ensure_chan; destruct (get_conn s c) as [cn|]; auto; destruct (alookup _ _ _); reflexivity. }
    assert (N00 : size_nowrap cfg (ensure_chan s c h)) by (revert N0; apply size_nowrap_fwd; apply sameview_ensure_chan).
    assert (HM : forall m0 opened, size_nowrap cfg (fst (apply_err_st cfg fx opened (ensure_chan s c h) c h (handle_method cfg fx (ensure_chan s c h) c h m0))) ->
               wake_inv cfg (fst (apply_err_st cfg fx opened (ensure_chan s c h) c h (handle_method cfg fx (ensure_chan s c h) c h m0)))).
    { intros m0 opened NF0. apply WI_apply_err_st. apply WI_handle_method; auto.
      intros Hn. rewrite <- (apply_err_st_none cfg fx opened (ensure_chan s c h) c h _ Hn). exact NF0. }
    destruct m.
    all: try (repeat match goal with |- context [if ?b then _ else _] => destruct b end;
              first [ exact H0 | apply WI_apply_err; exact H0 | apply WI_apply_err_st; exact H0 | apply HM; exact NF ]).
    + destruct (fx_stage fx && negb (h =? 0)); [apply WI_apply_err; exact H0|].
      pose proof (WI_conn_close cfg fx _ c H0) as Hc.
      destruct (conn_close cfg fx (ensure_chan s c h) c) as [s1 e1]. exact Hc.
    + destruct (fx_stage fx && negb (h =? 0)); [apply WI_apply_err; exact H0|].
      apply WI_conn_close; auto.
  - (* LHeader *)
    destruct (get_conn s c) as [cn0|]; [|exact H].
    destruct (negb _ && negb _)%bool; [apply WI_conn_close; auto|].
    assert (H0 : wake_inv cfg (ensure_chan s c h)) by (revert H; apply sameview_inv; apply sameview_ensure_chan).
    destruct (get_chan _ c h) as [ch|]; [|exact H0].
    destruct (_ && _)%bool; [exact H0|].
    destruct (ch_cur ch) as [u|]; [|apply WI_apply_err_st; auto].
    destruct (get_msg _ u) as [m|]; [|exact H0].
    destruct (m_has_header m); [apply WI_apply_err_st; auto|].
    assert (H1 : wake_inv cfg (upd_msg (ensure_chan s c h) u (fun m0 => m0 <| m_has_header := true |> <| m_hsize := size |> <| m_pers := pers |> <| m_mid := mid |>))).
    { revert H0. apply sameview_inv. apply sameview_upd_msg. reflexivity. }
    destruct (_ && _)%bool; [apply WI_finish_publish|]; exact H1.
  - (* LBody *)
    destruct (get_conn s c) as [cn0|]; [|exact H].
    destruct (negb _ && negb _)%bool; [apply WI_conn_close; auto|].
    assert (H0 : wake_inv cfg (ensure_chan s c h)) by (revert H; apply sameview_inv; apply sameview_ensure_chan).
    destruct (get_chan _ c h) as [ch|]; [|exact H0].
    destruct (_ && _)%bool; [exact H0|].
    destruct (ch_cur ch) as [u|]; [|apply WI_apply_err_st; auto].
    destruct (get_msg _ u) as [m|]; [|exact H0].
    destruct (negb (m_has_header m)); [apply WI_apply_err_st; auto|].
    destruct (_ <? _).
    { apply WI_apply_err_st; auto. cbn [fst]. revert H0. apply sameview_inv. apply sameview_upd_chan; reflexivity. }
    destruct (_ <? _).
    + cbn [fst] in *. apply WI_grow_msg; auto.
    + apply WI_finish_publish. apply WI_grow_msg; auto.
      revert NF. apply size_nowrap_grow_back. apply grow_finish_publish.
  - (* LConsumerTurn *) apply WI_consumer_turn; auto.
  - (* LQueueLoop *) cbn [fst]. apply WI_queue_loop_turn; auto.
  - (* LAutoDelete *)
    destruct (autodel s) as [|qn rest]; [exact H|].
    assert (H0 : wake_inv cfg (s <| autodel := rest |>)) by (revert H; apply sameview_inv; apply sameview_fields; reflexivity).
    destruct (get_queue _ qn) as [qu0|]; [|exact H0]. destruct (q_autodel qu0); [|exact H0].
    pose proof (WI_vhost_delete_queue cfg (negb (fx_delete_checks_first fx)) _ qn true false H0) as Hd.
    destruct (vhost_delete_queue _ (s <| autodel := rest |>) qn true false) as [[s1 e1] r1]. exact Hd.
  - (* LPersistTick *)
    cbn [fst]. apply fold_left_preserves; [intros; apply WI_store_confirm; auto|].
    revert H. apply sameview_inv. apply sameview_fields; reflexivity.
  - (* LRelay *)
    destruct (relay s) as [|u rest]; [exact H|].
    assert (H0 : wake_inv cfg (s <| relay := rest |>)) by (revert H; apply sameview_inv; apply sameview_fields; reflexivity).
    destruct (get_msg _ u) as [m|]; cbn [fst]; auto.
    destruct (m_conf m) as [[[? ?] ?]|]; cbn [fst]; auto. apply WI_add_confirm; auto.
  - (* LConfirmTick *)
    destruct (get_chan s c h) as [ch|] eqn:Ech; [|exact H]. destruct (negb _); [exact H|].
    destruct (ch_status ch); cbn [fst]; (revert H; apply sameview_inv; eapply sameview_set_chan; eauto).
  - (* LSocketLoss *)
    pose proof (WI_conn_close cfg fx s c H) as Hc.
    destruct (conn_close cfg fx s c) as [s1 e1]. exact Hc.
  - (* LAccept *)
    destruct (get_conn s c) eqn:Ec; cbn [fst]; auto. revert H. apply sameview_inv. apply sameview_new_conn; auto.
  - (* LBadMethod *)
    destruct (get_conn s c) as [cn0|]; [|exact H].
    destruct (negb _ && negb _)%bool; [apply WI_conn_close; auto|].
    apply WI_apply_err_st; auto. cbn [fst]. revert H; apply sameview_inv; apply sameview_ensure_chan.
  - (* LHeartbeat *)
    destruct (get_conn s c); [|exact H]. destruct (h =? 0); [exact H|apply WI_conn_close; auto].
  - (* LRestart *) apply WI_restart.
Qed.

(* ------------------------------------------------------------------ *)
(* auxiliary invariant 1: a closed channel holds no consumer *)
Lemma cep_keep : forall c h ch ch',
  ch_unacked ch' = ch_unacked ch -> ch_status ch' = ch_status ch -> ch_dtag ch <= ch_dtag ch' ->
  (ch_consumers ch = [] -> ch_consumers ch' = []) -> cep c h ch -> cep c h ch'.
Proof. unfold cep. intros c h ch ch' _ E _ Hn H Hs. rewrite E in Hs. auto. Qed.
Lemma cep_del : forall c h ch tag, cep c h ch -> cep c h (del_unacked ch tag).
Proof. unfold cep. intros. cbn in *. auto. Qed.

Definition CE_wake := G_wake cep cep_keep.
Definition CE_consumer_stop := G_consumer_stop cep cep_keep.
Definition CE_wake_consumers := G_wake_consumers cep cep_keep.
Definition CE_handle_reject := G_handle_reject cep cep_keep cep_del.
Definition CE_handle_ack := G_handle_ack cep cep_keep cep_del.

Lemma CE_upd_chan s c h f :
  (forall ch, ch_status (f ch) = ch_status ch) -> (forall ch, ch_consumers ch = [] -> ch_consumers (f ch) = []) ->
  closed_empty s -> closed_empty (upd_chan s c h f).
Proof. intros H1 H2. apply allch_upd_chan. unfold cep. intros ch Hc Hs. rewrite H1 in Hs. auto. Qed.

Ltac ce_step := first
  [ assumption
  | match goal with |- allch _ (if ?b then _ else _) => destruct b end
  | match goal with |- allch _ (match ?x with _ => _ end) => destruct x eqn:? end
  | same_conns
  | apply CE_upd_chan; [intros; reflexivity|intros ? Hnil; cbn; try rewrite Hnil; reflexivity|]
  | eapply allch_set_conn_qos; [eassumption|] ].
Ltac ce := repeat ce_step.

Lemma get_chan_upd_chan_other s c h f c' h' : (c', h') <> (c, h) -> get_chan (upd_chan s c h f) c' h' = get_chan s c' h'.
Proof.
  intros Hne. unfold upd_chan. destruct (get_chan s c h) as [ch|] eqn:E; auto.
  rewrite get_chan_set_chan. destruct (get_conn s c); auto. destruct ((c' =? c) && (h' =? h)) eqn:Eb; auto.
  apply eqb2_true in Eb. destruct Eb; subst. congruence.
Qed.

Lemma CE_channel_close cfg s c h : closed_empty s -> closed_empty (channel_close cfg s c h).
Proof.
  intros H c' h' ch' Hg. destruct ((c' =? c) && (h' =? h)) eqn:Eb.
  - apply eqb2_true in Eb. destruct Eb; subst. intros _. apply (channel_close_releases cfg s c h ch' Hg).
  - assert (Hne : (c', h') <> (c, h)).
    { intros E. inversion E; subst. rewrite !N.eqb_refl in Eb. discriminate. }
    unfold channel_close in Hg. destruct (get_chan s c h) as [ch|] eqn:Ech; [|apply H; auto].
    rewrite get_chan_upd_chan_other in Hg by exact Hne.
    match type of Hg with get_chan ?X _ _ = _ => assert (HX : closed_empty X) end; [|exact (HX _ _ _ Hg)].
    assert (HY : closed_empty (upd_chan (fold_left (fun s cm => consumer_stop s c h (c_tag cm)) (ch_consumers ch) s) c h
                                 (fun ch0 => ch0 <| ch_consumers := [] |>))).
    { apply CE_upd_chan; [reflexivity|reflexivity|]. apply fold_left_preserves; auto. intros; apply CE_consumer_stop; auto. }
    destruct (0 <? h); auto. apply CE_handle_reject; auto.
Qed.

Lemma CE_cancel_fold l : forall s evs, closed_empty s ->
  closed_empty (fst (fold_left (fun acc x => let '(s, evs) := acc in let '(s', e) := consumer_cancel s x in (s', evs ++ e)) l (s, evs))).
Proof.
  induction l as [|[[c h] tag] t IH]; intros s evs H; simpl; auto.
  apply IH. apply CE_consumer_stop; auto.
Qed.

Lemma CE_vhost_delete_queue b s qn iu ie : closed_empty s -> closed_empty (fst (fst (vhost_delete_queue b s qn iu ie))).
Proof.
  intros H. unfold vhost_delete_queue. destruct (get_queue s qn) as [qu|] eqn:Eq; auto.
  destruct (_ || _).
  - cbn [fst]. destruct b; [eapply allch_same_conns; [apply conns_set_queue|exact H]|exact H].
  - pose proof (CE_cancel_fold (q_consumers qu) s [] H) as Hf.
    destruct (fold_left _ (q_consumers qu) (s, [])) as [s1 e1]. cbn [fst] in *. ce.
Qed.

Lemma CE_store_windows cfg s c h tag ws : closed_empty s -> closed_empty (store_windows cfg s c h tag ws).
Proof.
  intros H. unfold store_windows. destruct ws as [|w1 [|w2 [|]]]; auto.
  destruct (cfg_rabbit cfg).
  - apply CE_upd_chan; [reflexivity| |ce]. intros ch Hn. unfold upd_consumer. cbn. rewrite Hn. reflexivity.
  - destruct (get_conn _ c) eqn:Ec; ce.
Qed.

Lemma CE_consumer_turn cfg fx s c h tag : closed_empty s -> closed_empty (fst (consumer_turn cfg fx s c h tag)).
Proof.
  intros H. unfold consumer_turn.
  destruct (get_chan s c h) as [ch|] eqn:Ech; auto.
  destruct (find_consumer ch tag) as [cm|] eqn:Efc; auto.
  destruct (negb (c_token cm)); auto.
  set (s0 := set_chan s c h _).
  assert (H0 : closed_empty s0).
  { subst s0. apply allch_set_chan; auto. eapply cep_keep; [..|exact (H _ _ _ Ech)]; cbn; try reflexivity. apply map_nil_of_nil. }
  clearbody s0.
  destruct (c_status cm); auto.
  all: destruct (get_queue s0 (c_queue cm)) as [qu|]; auto.
  all: destruct (negb (q_active qu)); auto.
  all: destruct (q_ready qu) as [|u rest]; auto.
  all: match goal with |- context [if c_noack ?cm0 then (Some [], []) else ?r] => destruct (if c_noack cm0 then (Some [], []) else r) as [okr ws] end.
  all: set (s1 := if c_noack cm then s0 else store_windows cfg s0 c h tag ws).
  all: assert (H1 : closed_empty s1) by (subst s1; destruct (c_noack cm); auto; apply CE_store_windows; auto).
  all: clearbody s1.
  all: destruct okr; cbn [fst]; auto.
  all: match goal with |- context [wake_consumer ?st ?c0 ?h0 ?tag0] => destruct (wake_consumer st c0 h0 tag0) as [s9 b9] eqn:Ew;
         apply fst_pair in Ew; cbn [fst]; subst s9; apply CE_wake end.
  all: ce.
Qed.

Lemma CE_queue_loop_turn s qn : closed_empty s -> closed_empty (queue_loop_turn s qn).
Proof.
  intros H. unfold queue_loop_turn. destruct (get_queue s qn) as [qu|]; auto. destruct (negb (q_call qu)); auto.
  destruct (Nat.eqb _ 0); [same_conns; auto|]. same_conns.
  apply fold_left_preserves; [|same_conns; auto]. intros s0 [[c h] tag] H0. apply CE_wake; auto.
Qed.

Lemma CE_add_confirm s c h t : closed_empty s -> closed_empty (add_confirm s c h t).
Proof.
  intros H. unfold add_confirm. destruct (get_chan s c h) as [ch|] eqn:E; auto. destruct (negb _); auto.
  destruct (ch_status ch) eqn:Es; auto; destruct t as [[[? ?] ?]|]; auto;
    (apply allch_set_chan; auto; unfold cep; cbn; rewrite Es; discriminate).
Qed.

Lemma CE_route_and_push fx s c h u : closed_empty s -> closed_empty (fst (route_and_push fx s c h u)).
Proof.
  intros H. unfold route_and_push. destruct (get_msg s u) as [m|]; auto.
  destruct (alookup _ _ _) as [ex|]; cbn [fst]; [|apply CE_add_confirm; auto].
  destruct (matched_queues _ _ _) as [|q1 qs]; cbn [fst]; [apply CE_add_confirm; auto|].
  apply fold_left_preserves.
  - intros s0 qn H0. assert (H1 : closed_empty (queue_push s0 qn u)) by (same_conns; auto).
    unfold push_one. destruct (get_msg (queue_push s0 qn u) u); auto. destruct (_ && _)%bool; auto. apply CE_add_confirm; auto.
  - destruct (_ && _)%bool; [same_conns|]; auto.
Qed.

Lemma CE_finish_publish fx s c h u : closed_empty s -> closed_empty (fst (finish_publish fx s c h u)).
Proof.
  intros H. unfold finish_publish. pose proof (CE_route_and_push fx s c h u H) as H1.
  destruct (route_and_push fx s c h u) as [s1 e1]. cbn [fst] in *. ce.
Qed.

(* a record update of channel (c,h) whose result is not closed, or which keeps status and an empty consumer list *)
Lemma CE_set_chan_keep s c h ch ch' : get_chan s c h = Some ch ->
  ch_status ch' = ch_status ch -> (ch_consumers ch = [] -> ch_consumers ch' = []) ->
  closed_empty s -> closed_empty (set_chan s c h ch').
Proof. intros E E1 E2 H. apply allch_set_chan; auto. unfold cep. intros Hs. rewrite E1 in Hs. apply E2. exact (H _ _ _ E Hs). Qed.
Lemma CE_set_chan_open s c h ch' : ch_status ch' <> ChClosed -> closed_empty s -> closed_empty (set_chan s c h ch').
Proof. intros E H. apply allch_set_chan; auto. unfold cep. congruence. Qed.

Theorem CE_handle_method cfg fx s c h m :
  fx_closeok_releases fx = true ->
  (forall ch q t a b n, m = MConsume q t a b n -> get_chan s c h = Some ch -> ch_status ch <> ChClosed) ->
  closed_empty s -> closed_empty (fst (fst (handle_method cfg fx s c h m))).
Proof.
  intros Hfx Hm H. unfold handle_method.
  destruct (get_chan s c h) as [ch|] eqn:Hch; [|exact H].
  destruct m; unfold ok, refuse.
  - (* MChannelOpen *)
    destruct (ch_status ch); cbn [fst]; auto; apply CE_set_chan_open; auto; cbn; discriminate.
  - (* MChannelClose *) cbn [fst]. apply CE_channel_close; auto.
  - (* MChannelCloseOk *) cbn [fst]. rewrite Hfx. apply CE_channel_close; auto.
  - (* MChannelFlow *)
    cbn [fst]. destruct (Bool.eqb _ _); auto.
    destruct a; (eapply CE_set_chan_keep; [exact Hch|reflexivity|intros Hn; cbn; rewrite Hn; reflexivity|exact H]).
  - (* MExDeclare *)
    destruct (extype_of type); [|exact H].
    repeat match goal with |- context [if ?b then _ else _] => destruct b end; cbn [fst]; auto.
    all: repeat match goal with |- context [match ?x with _ => _ end] => destruct x end; cbn [fst]; auto.
    all: try (same_conns; auto).
  - (* MExDelete *) destruct (fx_not_impl fx); exact H.
  - (* MQDeclare *)
    destruct (seqb name ""); [exact H|].
    destruct (queue_found s name) as [qu|].
    + repeat match goal with |- context [if ?b then _ else _] => destruct b end; cbn [fst]; auto.
    + destruct passive; [destruct nowait; exact H|]. cbn [fst]. repeat same_conns. auto.
  - (* MQBind *)
    destruct (alookup _ _ _); [|exact H]. destruct (seqb ex ""); [exact H|].
    destruct (queue_found s q); [|exact H]. destruct (locked _ _); [exact H|]. destruct (bad_xmatch _); [exact H|]. destruct (extype_eqb _ ExTopic && bad_pattern _)%bool; [exact H|]. cbn [fst]. same_conns. auto.
  - (* MQUnbind *)
    destruct (alookup _ _ _); [|exact H]. destruct (queue_found s q); [|exact H]. destruct (locked _ _); [exact H|]. destruct (bad_xmatch _); [exact H|]. destruct (extype_eqb _ ExTopic && bad_pattern _)%bool; [exact H|]. cbn [fst]. same_conns. auto.
  - (* MQPurge *)
    destruct (queue_found s q) as [qu|]; [|exact H]. destruct (locked _ _); [exact H|]. cbn [fst]. ce.
  - (* MQDelete *)
    destruct (queue_found s q); [|exact H]. destruct (locked _ _); [exact H|].
    pose proof (CE_vhost_delete_queue (negb (fx_delete_checks_first fx)) s q ifunused ifempty H) as Hd.
    destruct (vhost_delete_queue _ s q ifunused ifempty) as [[s1 e1] r1]. cbn [fst] in *.
    destruct r1; exact Hd.
  - (* MQos *)
    cbn [fst]. apply CE_wake_consumers.
    destruct (cfg_rabbit cfg); [destruct glob; (eapply CE_set_chan_keep; [exact Hch|reflexivity|auto|exact H])|].
    destruct glob; [|eapply CE_set_chan_keep; [exact Hch|reflexivity|auto|exact H]].
    destruct (get_conn s c) eqn:Ec; auto. eapply allch_set_conn_qos; eauto.
  - (* MPublish *)
    destruct imm; [exact H|]. destruct (alookup _ _ _); [|exact H].
    destruct (ch_confirm ch); cbn [fst].
    + apply allch_set_chan; [exact (H _ _ _ Hch)|]. repeat same_conns. auto.
    + apply allch_set_chan; [exact (H _ _ _ Hch)|]. repeat same_conns. auto.
  - (* MConsume *)
    destruct (queue_found s q) as [qu|]; [|exact H].
    destruct (fx_excl_owner fx && locked qu c); [exact H|].
    destruct (find_consumer ch _); [exact H|].
    destruct (_ && _)%bool; cbn [fst].
    + same_conns. auto.
    + apply CE_set_chan_open; [cbn; eapply Hm; eauto|].
      destruct (seqb tag ""%string); repeat same_conns; auto.
  - (* MCancel *)
    destruct (find_consumer ch tag); [|exact H]. cbn [fst].
    apply CE_upd_chan; [reflexivity|auto|]. apply CE_upd_chan; [reflexivity|intros ? Hn; cbn; rewrite Hn; reflexivity|].
    apply CE_consumer_stop. exact H.
  - (* MGet *)
    destruct (queue_found s q) as [qu|]; [|exact H].
    destruct (fx_excl_owner fx && locked qu c); [exact H|].
    destruct (q_ready qu) as [|u rest]; [exact H|].
    match goal with |- context [if noack then (Some [], []) else ?r] => destruct (if noack then (Some [], []) else r) as [okr ws] end.
    set (s1 := match ws with [w1; w2] => _ | _ => s end).
    assert (H1 : closed_empty s1).
    { subst s1. destruct ws as [|w1 [|w2 [|]]]; auto.
      destruct (get_conn _ c) eqn:Ec.
      - eapply allch_set_conn_qos; eauto. eapply CE_set_chan_keep; [exact Hch|reflexivity|auto|exact H].
      - eapply CE_set_chan_keep; [exact Hch|reflexivity|auto|exact H]. }
    clearbody s1.
    destruct okr; cbn [fst]; [|exact H1]. ce.
  - (* MAck *)
    pose proof (CE_handle_ack cfg s c h tag mult H) as Ha.
    destruct (handle_ack cfg s c h tag mult) as [s1 e1]. exact Ha.
  - (* MNack *)
    pose proof (CE_handle_reject cfg s c h tag mult requeue 60 120 H) as Ha.
    destruct (handle_reject cfg s c h tag mult requeue 60 120) as [s1 e1]. exact Ha.
  - (* MReject *)
    pose proof (CE_handle_reject cfg s c h tag false requeue 60 90 H) as Ha.
    destruct (handle_reject cfg s c h tag false requeue 60 90) as [s1 e1]. exact Ha.
  - (* MRecover *) exact H.
  - (* MConfirmSelect *) cbn [fst]. eapply CE_set_chan_keep; [exact Hch|reflexivity|auto|exact H].
  - (* MTxSelect *) destruct (fx_not_impl fx); exact H.
  - (* MConnClose *) exact H.
  - (* MConnCloseOk *) exact H.
  - (* MStartOk *) destruct good; [cbn [fst]; apply allch_set_stage; exact H|exact H].
  - (* MTuneOk *) destruct within; [cbn [fst]; apply allch_set_stage; exact H|exact H].
  - (* MConnOpen *) destruct vhost_ok; [cbn [fst]; apply allch_set_stage; exact H|exact H].
Qed.

Lemma CE_delete_fold b l : forall s evs, closed_empty s ->
  closed_empty (fst (fold_left (fun acc qn => let '(s, evs) := acc in
                                    let '(s', e, _) := vhost_delete_queue b s qn false false in (s', evs ++ e)) l (s, evs))).
Proof.
  induction l as [|x t IH]; intros s evs H; simpl; auto.
  pose proof (CE_vhost_delete_queue b s x false false H) as Hd.
  destruct (vhost_delete_queue b s x false false) as [[s1 e1] r1]. cbn [fst] in Hd. apply IH. exact Hd.
Qed.

Lemma CE_conn_close cfg fx s c : closed_empty s -> closed_empty (fst (conn_close cfg fx s c)).
Proof.
  intros H. unfold conn_close. destruct (get_conn s c) as [cn|]; [|exact H].
  set (s1 := fold_left _ _ s).
  assert (H1 : closed_empty s1) by (subst s1; apply fold_left_preserves; auto; intros; apply CE_channel_close; auto).
  clearbody s1.
  pose proof (CE_delete_fold (negb (fx_delete_checks_first fx))
                (map fst (filter (fun kv => q_excl (snd kv) && (q_owner (snd kv) =? c)) (queues s1))) s1 [] H1) as Hd.
  destruct (fold_left _ _ (s1, [])) as [s2 e2]. cbn [fst] in *. apply allch_del_conn. exact Hd.
Qed.

Lemma CE_send_error s c h e : closed_empty s -> closed_empty (fst (send_error s c h e)).
Proof.
  intros H. destruct e; cbn [send_error fst]; auto.
  unfold upd_chan. destruct (get_chan s c h); auto. apply CE_set_chan_open; auto. cbn. discriminate.
Qed.

Lemma CE_apply_err s c h r : closed_empty (fst (fst r)) -> closed_empty (fst (apply_err s c h r)).
Proof.
  destruct r as [[s1 e1] [e|]]; cbn [fst]; auto.
  intros H. unfold apply_err. pose proof (CE_send_error s1 c h e H) as Hs.
  destruct (send_error s1 c h e) as [s2 e2]. exact Hs.
Qed.

Lemma CE_apply_err_st cfg fx opened s c h r : closed_empty (fst (fst r)) -> closed_empty (fst (apply_err_st cfg fx opened s c h r)).
Proof.
  intros H. unfold apply_err_st. destruct opened; [apply CE_apply_err; auto|].
  destruct (snd r) as [[| ]|]; try (apply CE_apply_err; auto).
  pose proof (CE_apply_err s c h r H) as H1. destruct (apply_err s c h r) as [s1 e1]. cbn [fst] in H1.
  pose proof (CE_conn_close cfg fx s1 c H1) as H2. destruct (conn_close cfg fx s1 c) as [s2 e2]. exact H2.
Qed.

Lemma CE_method_tail cfg fx s0 c h m opened e :
  fx_closeok_releases fx = true -> fx_chan_open fx = true -> closed_empty s0 ->
  closed_empty (fst (if fx_chan_open fx && negb (is_conn_class m) && negb (chan_usable s0 c h) &&
                        negb (match m with MChannelOpen => true | _ => false end)
                     then apply_err s0 c h (refuse s0 e)
                     else apply_err_st cfg fx opened s0 c h (handle_method cfg fx s0 c h m))).
Proof.
  intros Hf1 Hf2 H. destruct (_ && _ && _ && _)%bool eqn:E.
  - apply CE_apply_err. exact H.
  - apply CE_apply_err_st. apply CE_handle_method; auto.
    intros ch q t a b n -> Hg. rewrite Hf2 in E. cbn in E. unfold chan_usable in E. rewrite Hg in E.
    destruct (ch_status ch); cbn in E; congruence.
Qed.

Theorem CE_step cfg fx s l :
  fx_closeok_releases fx = true -> fx_chan_open fx = true -> closed_empty s -> closed_empty (fst (step cfg fx s l)).
Proof.
  intros Hf1 Hf2 H. destruct l; cbn [step].
  - (* LConnect *)
    destruct (get_conn s c) eqn:Ec; cbn [fst]; auto.
    intros c' h' ch' Hg. unfold get_chan, get_conn in Hg. cbn in Hg. rewrite (alookup_aset N.eqb Neqb_spec) in Hg.
    destruct (c' =? c) eqn:E1.
    + cbn in Hg. destruct (h' =? 0); inversion Hg; subst. intros Hs; discriminate.
    + apply H. unfold get_chan, get_conn. exact Hg.
  - (* LMethod *)
    destruct (get_conn s c) as [cn0|]; [|exact H].
    destruct (negb _ && negb _)%bool; [apply CE_conn_close; auto|].
    assert (H0 : closed_empty (ensure_chan s c h)) by (apply closed_empty_ensure; auto).
    destruct m.
    all: try (match goal with |- context [if ?b then apply_err ?s0 ?c0 ?h0 (refuse ?s0 ?e) else apply_err_st ?cfg0 ?fx0 ?o ?s0 ?c0 ?h0 (handle_method _ _ _ _ _ ?m0)] =>
                pose proof (CE_method_tail cfg0 fx0 s0 c0 h0 m0 o e Hf1 Hf2 H0) as HT end;
              repeat match goal with |- context [if ?b then _ else _] => destruct b end;
              first [ exact H0 | exact HT | apply CE_apply_err; exact H0 | apply CE_apply_err_st; exact H0 ]).
    + destruct (fx_stage fx && negb (h =? 0)); [apply CE_apply_err; exact H0|].
      pose proof (CE_conn_close cfg fx _ c H0) as Hc.
      destruct (conn_close cfg fx (ensure_chan s c h) c) as [s1 e1]. exact Hc.
    + destruct (fx_stage fx && negb (h =? 0)); [apply CE_apply_err; exact H0|].
      apply CE_conn_close; auto.
  - (* LHeader *)
    destruct (get_conn s c) as [cn0|]; [|exact H].
    destruct (negb _ && negb _)%bool; [apply CE_conn_close; auto|].
    assert (H0 : closed_empty (ensure_chan s c h)) by (apply closed_empty_ensure; auto).
    destruct (get_chan _ c h) as [ch|]; [|exact H0].
    destruct (_ && _)%bool; [exact H0|].
    destruct (ch_cur ch) as [u|]; [|apply CE_apply_err_st; auto].
    destruct (get_msg _ u) as [m|]; [|exact H0].
    destruct (m_has_header m); [apply CE_apply_err_st; auto|].
    destruct (_ && _)%bool; [apply CE_finish_publish|]; same_conns; auto.
  - (* LBody *)
    destruct (get_conn s c) as [cn0|]; [|exact H].
    destruct (negb _ && negb _)%bool; [apply CE_conn_close; auto|].
    assert (H0 : closed_empty (ensure_chan s c h)) by (apply closed_empty_ensure; auto).
    destruct (get_chan _ c h) as [ch|]; [|exact H0].
    destruct (_ && _)%bool; [exact H0|].
    destruct (ch_cur ch) as [u|]; [|apply CE_apply_err_st; auto].
    destruct (get_msg _ u) as [m|]; [|exact H0].
    destruct (negb (m_has_header m)); [apply CE_apply_err_st; auto|].
    destruct (_ <? _); [apply CE_apply_err_st; auto; cbn [fst]; ce|].
    destruct (_ <? _); [|apply CE_finish_publish]; same_conns; auto.
  - (* LConsumerTurn *) apply CE_consumer_turn; auto.
  - (* LQueueLoop *) cbn [fst]. apply CE_queue_loop_turn; auto.
  - (* LAutoDelete *)
    destruct (autodel s) as [|qn rest]; [exact H|].
    assert (H0 : closed_empty (s <| autodel := rest |>)) by (same_conns; auto).
    destruct (get_queue _ qn) as [qu0|]; [|exact H0]. destruct (q_autodel qu0); [|exact H0].
    pose proof (CE_vhost_delete_queue (negb (fx_delete_checks_first fx)) _ qn true false H0) as Hd.
    destruct (vhost_delete_queue _ (s <| autodel := rest |>) qn true false) as [[s1 e1] r1]. exact Hd.
  - (* LPersistTick *)
    cbn [fst]. apply fold_left_preserves.
    + intros s0 k H0. eapply allch_same_conns; [apply conns_store_confirm|exact H0].
    + repeat same_conns. auto.
  - (* LRelay *)
    destruct (relay s) as [|u rest]; [exact H|].
    assert (H0 : closed_empty (s <| relay := rest |>)) by (same_conns; auto).
    destruct (get_msg _ u) as [m|]; cbn [fst]; auto.
    destruct (m_conf m) as [[[? ?] ?]|]; cbn [fst]; auto. apply CE_add_confirm; auto.
  - (* LConfirmTick *)
    destruct (get_chan s c h) as [ch|] eqn:Ech; [|exact H]. destruct (negb _); [exact H|].
    destruct (ch_status ch); cbn [fst]; (eapply CE_set_chan_keep; [exact Ech|reflexivity|auto|exact H]).
  - (* LSocketLoss *)
    pose proof (CE_conn_close cfg fx s c H) as Hc.
    destruct (conn_close cfg fx s c) as [s1 e1]. exact Hc.
  - (* LAccept *)
    destruct (get_conn s c) eqn:Ec; cbn [fst]; auto.
    intros c' h' ch' Hg. unfold get_chan, get_conn in Hg. cbn in Hg. rewrite (alookup_aset N.eqb Neqb_spec) in Hg.
    destruct (c' =? c) eqn:E1.
    + cbn in Hg. destruct (h' =? 0); inversion Hg; subst. intros Hs; discriminate.
    + apply H. unfold get_chan, get_conn. exact Hg.
  - (* LBadMethod *)
    destruct (get_conn s c) as [cn0|]; [|exact H].
    destruct (negb _ && negb _)%bool; [apply CE_conn_close; auto|].
    apply CE_apply_err_st; auto. cbn [fst]. apply closed_empty_ensure; auto.
  - (* LHeartbeat *)
    destruct (get_conn s c); [|exact H]. destruct (h =? 0); [exact H|apply CE_conn_close; auto].
  - (* LRestart *)
    unfold restart. cbn [fst]. intros c h ch Hg. unfold get_chan, get_conn in Hg. cbn in Hg. discriminate.
Qed.

(* ------------------------------------------------------------------ *)
(* auxiliary invariant 2: the publish ordinal is fresh - no message of the heap is numbered at or above it *)
Definition hle (s s' : state) : Prop :=
  next_uid s <= next_uid s' /\ forall u, next_uid s' <= u -> get_msg s u = None -> get_msg s' u = None.

Lemma hle_refl s : hle s s.
Proof. split; auto. lia. Qed.
Lemma hle_trans s1 s2 s3 : hle s1 s2 -> hle s2 s3 -> hle s1 s3.
Proof. intros [A1 B1] [A2 B2]. split; [lia|]. intros u Hu Hn. apply B2; auto. apply B1; auto. lia. Qed.
Lemma hle_same s s' : heap s' = heap s -> next_uid s' = next_uid s -> hle s s'.
Proof. intros E1 E2. split; [lia|]. intros u _ Hn. unfold get_msg in *. rewrite E1. exact Hn. Qed.
Lemma heap_fresh_hle s s' : hle s s' -> heap_fresh s -> heap_fresh s'.
Proof. intros [A B] H u Hu. apply B; auto. apply H. lia. Qed.

Lemma nuid_set_chan s c h ch : next_uid (set_chan s c h ch) = next_uid s.
Proof. unfold set_chan. destruct (get_conn s c); reflexivity. Qed.
Lemma hle_set_chan s c h ch : hle s (set_chan s c h ch).
Proof. apply hle_same; [apply heap_set_chan|apply nuid_set_chan]. Qed.
Lemma hle_upd_chan s c h f : hle s (upd_chan s c h f).
Proof. unfold upd_chan. destruct (get_chan s c h); [apply hle_set_chan|apply hle_refl]. Qed.
Lemma hle_set_queue s q v : hle s (set_queue s q v).
Proof. apply hle_same; reflexivity. Qed.
Lemma hle_upd_queue s q f : hle s (upd_queue s q f).
Proof. unfold upd_queue. destruct (get_queue s q); [apply hle_set_queue|apply hle_refl]. Qed.
Lemma hle_upd_msg s u f : hle s (upd_msg s u f).
Proof.
  unfold upd_msg. destruct (get_msg s u) as [m|] eqn:E; [|apply hle_refl]. split; [cbn; lia|].
  intros x _ Hn. unfold get_msg in *. cbn. rewrite (alookup_aset N.eqb Neqb_spec). destruct (x =? u) eqn:Ex; auto.
  apply N.eqb_eq in Ex. subst. congruence.
Qed.
Lemma hle_wake s c h tag : hle s (fst (wake_consumer s c h tag)).
Proof.
  unfold wake_consumer. destruct (get_chan s c h) as [ch|]; [|apply hle_refl]. destruct (find_consumer ch tag) as [cm|]; [|apply hle_refl].
  destruct (consume_msg cm). apply hle_set_chan.
Qed.
Lemma hle_wake_all s c h : hle s (wake_all_of_chan s c h).
Proof. apply hle_upd_chan. Qed.
Lemma hle_fold {A} (f : state -> A -> state) l : (forall s a, hle s (f s a)) -> forall s, hle s (fold_left f l s).
Proof. intros Hf. induction l as [|a l IH]; intros s; cbn; [apply hle_refl|]. eapply hle_trans; [apply Hf|apply IH]. Qed.
Lemma hle_wake_consumers cfg s c h : hle s (wake_consumers cfg s c h).
Proof.
  unfold wake_consumers. destruct (cfg_rabbit cfg); [apply hle_wake_all|].
  destruct (get_conn _ c) as [cn|]; [|apply hle_wake_all].
  eapply hle_trans; [apply hle_wake_all|]. apply hle_fold. intros s0 x. destruct (fst x =? h); [apply hle_refl|apply hle_wake_all].
Qed.

Ltac hl_leaf := first
  [ apply hle_set_chan | apply hle_upd_chan | apply hle_set_queue | apply hle_upd_queue | apply hle_upd_msg
  | apply hle_wake | apply hle_wake_all | apply hle_wake_consumers
  | apply hle_same; reflexivity ].
Ltac hl_step := first
  [ apply hle_refl
  | match goal with |- hle _ (if ?b then _ else _) => destruct b end
  | match goal with |- hle _ (match ?x with _ => _ end) => destruct x eqn:? end
  | hl_leaf
  | match goal with |- hle _ ?e => match e with context [if ?b then _ else _] => destruct b end end
  | eapply hle_trans; [|hl_leaf] ].
Ltac hl := repeat hl_step.

Lemma hle_queue_push s qn u : hle s (queue_push s qn u).
Proof. unfold queue_push. hl. Qed.
Lemma hle_store_writeback s qn u d : hle s (store_writeback s qn u d).
Proof. apply hle_same; apply store_writeback_frame || (unfold store_writeback; destruct (_ && _ && _); reflexivity). Qed.

Lemma hle_queue_requeue s qn u : hle s (queue_requeue s qn u).
Proof.
  unfold queue_requeue. destruct (get_queue s qn) as [qu|]; [|apply hle_refl]. destruct (negb _); [apply hle_refl|].
  eapply hle_trans; [|apply hle_set_queue]. eapply hle_trans; [|apply hle_same; reflexivity].
  eapply hle_trans; [|apply hle_upd_msg]. apply hle_store_writeback.
Qed.
Lemma hle_queue_ackmsg s qn u : hle s (queue_ackmsg s qn u).
Proof. unfold queue_ackmsg. hl. Qed.
Lemma hle_queue_remove_consumer s qn c h tag : hle s (queue_remove_consumer s qn c h tag).
Proof. unfold queue_remove_consumer. hl. Qed.
Ltac hl_leaf ::= first
  [ apply hle_set_chan | apply hle_upd_chan | apply hle_set_queue | apply hle_upd_queue | apply hle_upd_msg
  | apply hle_wake | apply hle_wake_all | apply hle_wake_consumers
  | apply hle_queue_push | apply hle_queue_requeue | apply hle_queue_ackmsg | apply hle_queue_remove_consumer
  | apply hle_same; reflexivity ].
Lemma hle_consumer_stop s c h tag : hle s (consumer_stop s c h tag).
Proof. unfold consumer_stop. hl. Qed.
Lemma hle_set_conn_qos s c (cn : conn) f : hle s (s <| conns := aset N.eqb c (cn <| cn_qos ::= f |>) (conns s) |>).
Proof. apply hle_same; reflexivity. Qed.
Lemma hle_dec_qos cfg s c h u : hle s (dec_qos_and_consume_next cfg s c h u).
Proof. unfold dec_qos_and_consume_next. hl. Qed.
Lemma hle_chan_ackmsg s u : hle s (chan_ackmsg s u).
Proof. unfold chan_ackmsg. hl. Qed.
Lemma hle_chan_rejectmsg s u r : hle s (chan_rejectmsg s u r).
Proof. unfold chan_rejectmsg. hl. Qed.
Lemma hle_handle_reject cfg s c h tag mult requeue cls mth : hle s (fst (handle_reject cfg s c h tag mult requeue cls mth)).
Proof.
  unfold handle_reject. destruct (get_chan s c h) as [ch|]; [|apply hle_refl]. destruct mult; cbn [fst].
  - eapply hle_trans; [|apply hle_fold; intros; apply hle_dec_qos]. apply hle_fold. intros s0 a.
    eapply hle_trans; [apply hle_upd_chan|apply hle_chan_rejectmsg].
  - destruct (find _ _); cbn [fst]; [|apply hle_refl].
    eapply hle_trans; [|apply hle_dec_qos]. eapply hle_trans; [apply hle_upd_chan|apply hle_chan_rejectmsg].
Qed.
Lemma hle_handle_ack cfg s c h tag mult : hle s (fst (handle_ack cfg s c h tag mult)).
Proof.
  unfold handle_ack. destruct (get_chan s c h) as [ch|]; [|apply hle_refl]. destruct mult; cbn [fst].
  - eapply hle_trans; [|apply hle_fold; intros; apply hle_dec_qos]. apply hle_fold. intros s0 a.
    eapply hle_trans; [apply hle_upd_chan|apply hle_chan_ackmsg].
  - destruct (find _ _); cbn [fst]; [|apply hle_refl].
    eapply hle_trans; [|apply hle_dec_qos]. eapply hle_trans; [apply hle_upd_chan|apply hle_chan_ackmsg].
Qed.
Lemma hle_channel_close cfg s c h : hle s (channel_close cfg s c h).
Proof.
  unfold channel_close. destruct (get_chan s c h) as [ch|]; [|apply hle_refl].
  eapply hle_trans; [|apply hle_upd_chan].
  assert (H1 : hle s (upd_chan (fold_left (fun s cm => consumer_stop s c h (c_tag cm)) (ch_consumers ch) s) c h (fun ch0 => ch0 <| ch_consumers := [] |>))).
  { eapply hle_trans; [|apply hle_upd_chan]. apply hle_fold. intros; apply hle_consumer_stop. }
  destruct (0 <? h); auto. eapply hle_trans; [exact H1|apply hle_handle_reject].
Qed.
Lemma hle_cancel_fold l : forall s evs,
  hle s (fst (fold_left (fun acc x => let '(s, evs) := acc in let '(s', e) := consumer_cancel s x in (s', evs ++ e)) l (s, evs))).
Proof.
  induction l as [|[[c h] tag] t IH]; intros s evs; simpl; [apply hle_refl|].
  eapply hle_trans; [apply hle_consumer_stop|apply IH].
Qed.
Lemma hle_vhost_delete_queue b s qn iu ie : hle s (fst (fst (vhost_delete_queue b s qn iu ie))).
Proof.
  unfold vhost_delete_queue. destruct (get_queue s qn) as [qu|]; [|apply hle_refl].
  destruct (_ || _).
  - cbn [fst]. destruct b; [apply hle_set_queue|apply hle_refl].
  - pose proof (hle_cancel_fold (q_consumers qu) s []) as Hf.
    destruct (fold_left _ (q_consumers qu) (s, [])) as [s1 e1]. cbn [fst] in *.
    eapply hle_trans; [exact Hf|]. apply hle_same; destruct (q_durable qu); reflexivity.
Qed.
Lemma hle_store_windows cfg s c h tag ws : hle s (store_windows cfg s c h tag ws).
Proof. unfold store_windows. destruct ws as [|w1 [|w2 [|]]]; try apply hle_refl. hl. Qed.
Ltac hl_leaf ::= first
  [ apply hle_set_chan | apply hle_upd_chan | apply hle_set_queue | apply hle_upd_queue | apply hle_upd_msg
  | apply hle_wake | apply hle_wake_all | apply hle_wake_consumers
  | apply hle_queue_push | apply hle_queue_requeue | apply hle_queue_ackmsg | apply hle_queue_remove_consumer
  | apply hle_consumer_stop | apply hle_store_windows | apply hle_dec_qos
  | apply hle_same; reflexivity ].
Lemma hle_consumer_turn cfg fx s c h tag : hle s (fst (consumer_turn cfg fx s c h tag)).
Proof.
  unfold consumer_turn.
  destruct (get_chan s c h) as [ch|]; [|apply hle_refl].
  destruct (find_consumer ch tag) as [cm|]; [|apply hle_refl].
  destruct (negb (c_token cm)); [apply hle_refl|].
  destruct (c_status cm); cbn [fst]; try apply hle_set_chan.
  all: destruct (get_queue _ (c_queue cm)) as [qu|]; cbn [fst]; try apply hle_set_chan.
  all: destruct (negb (q_active qu)); cbn [fst]; try apply hle_set_chan.
  all: destruct (q_ready qu) as [|u rest]; cbn [fst]; try apply hle_set_chan.
  all: match goal with |- context [if c_noack ?cm0 then (Some [], []) else ?r] => destruct (if c_noack cm0 then (Some [], []) else r) as [okr ws] end.
  all: destruct okr; cbn [fst]; [|hl].
  all: match goal with |- context [wake_consumer ?st ?c0 ?h0 ?tag0] => destruct (wake_consumer st c0 h0 tag0) as [s9 b9] eqn:Ew;
         apply fst_pair in Ew; cbn [fst]; subst s9 end.
  all: hl.
Qed.
Lemma hle_queue_loop_turn s qn : hle s (queue_loop_turn s qn).
Proof.
  unfold queue_loop_turn. destruct (get_queue s qn) as [qu|]; [|apply hle_refl]. destruct (negb _); [apply hle_refl|].
  destruct (Nat.eqb _ 0); [apply hle_set_queue|]. eapply hle_trans; [|apply hle_upd_queue].
  eapply hle_trans; [apply hle_set_queue|]. apply hle_fold. intros s0 [[c h] tag]. apply hle_wake.
Qed.
Lemma hle_add_confirm s c h t : hle s (add_confirm s c h t).
Proof. unfold add_confirm. hl; try (match goal with p : (N * N * N)%type |- _ => destruct p as [[? ?] ?] end; hl). Qed.
Ltac hl_leaf ::= first
  [ apply hle_set_chan | apply hle_upd_chan | apply hle_set_queue | apply hle_upd_queue | apply hle_upd_msg
  | apply hle_wake | apply hle_wake_all | apply hle_wake_consumers
  | apply hle_queue_push | apply hle_queue_requeue | apply hle_queue_ackmsg | apply hle_queue_remove_consumer
  | apply hle_consumer_stop | apply hle_store_windows | apply hle_dec_qos | apply hle_add_confirm
  | apply hle_channel_close
  | apply hle_same; reflexivity ].

Lemma hle_store_confirm s u : hle s (store_confirm s u).
Proof. unfold store_confirm. hl. Qed.
Lemma hle_push_one s c h u pers hm qn : hle s (push_one s c h u pers hm qn).
Proof. unfold push_one. hl. Qed.
Lemma hle_route_and_push fx s c h u : hle s (fst (route_and_push fx s c h u)).
Proof.
  unfold route_and_push. destruct (get_msg s u) as [m|]; [|apply hle_refl].
  destruct (alookup _ _ _) as [ex|]; cbn [fst]; [|apply hle_add_confirm].
  destruct (matched_queues _ _ _) as [|q1 qs]; cbn [fst]; [apply hle_add_confirm|].
  eapply hle_trans; [|apply hle_fold; intros; apply hle_push_one]. hl.
Qed.
Lemma hle_finish_publish fx s c h u : hle s (fst (finish_publish fx s c h u)).
Proof.
  unfold finish_publish. pose proof (hle_route_and_push fx s c h u) as H1.
  destruct (route_and_push fx s c h u) as [s1 e1]. cbn [fst] in *.
  destruct (fx_clear_current fx); auto. eapply hle_trans; [exact H1|apply hle_upd_chan].
Qed.
Lemma hle_set_stage s c st : hle s (set_stage s c st).
Proof. apply hle_same; unfold set_stage; destruct (get_conn s c); reflexivity. Qed.

Lemma hle_handle_method cfg fx s c h m : hle s (fst (fst (handle_method cfg fx s c h m))).
Proof.
  unfold handle_method. destruct (get_chan s c h) as [ch|] eqn:Hch; [|apply hle_refl].
  destruct m; unfold ok, refuse.
  - destruct (ch_status ch); cbn [fst]; hl.
  - cbn [fst]. apply hle_channel_close.
  - cbn [fst]. hl.
  - cbn [fst]. hl.
  - destruct (extype_of type); [|apply hle_refl].
    repeat match goal with |- context [if ?b then _ else _] => destruct b end; cbn [fst]; try apply hle_refl.
    all: repeat match goal with |- context [match ?x with _ => _ end] => destruct x end; cbn [fst]; hl.
  - destruct (fx_not_impl fx); apply hle_refl.
  - destruct (seqb name ""); [apply hle_refl|].
    destruct (queue_found s name) as [qu|].
    + repeat match goal with |- context [if ?b then _ else _] => destruct b end; cbn [fst]; apply hle_refl.
    + destruct passive; [destruct nowait; apply hle_refl|]. cbn [fst]. apply hle_same; reflexivity.
  - destruct (alookup _ _ _); [|apply hle_refl]. destruct (seqb ex ""); [apply hle_refl|].
    destruct (queue_found s q); [|apply hle_refl]. destruct (locked _ _); [apply hle_refl|]. destruct (bad_xmatch _); [apply hle_refl|]. destruct (extype_eqb _ ExTopic && bad_pattern _)%bool; [apply hle_refl|]. cbn [fst]. hl.
  - destruct (alookup _ _ _); [|apply hle_refl]. destruct (queue_found s q); [|apply hle_refl]. destruct (locked _ _); [apply hle_refl|]. destruct (bad_xmatch _); [apply hle_refl|]. destruct (extype_eqb _ ExTopic && bad_pattern _)%bool; [apply hle_refl|]. cbn [fst]. hl.
  - destruct (queue_found s q) as [qu|]; [|apply hle_refl]. destruct (locked _ _); [apply hle_refl|]. cbn [fst].
    apply hle_same; destruct (q_durable qu); reflexivity.
  - destruct (queue_found s q); [|apply hle_refl]. destruct (locked _ _); [apply hle_refl|].
    pose proof (hle_vhost_delete_queue (negb (fx_delete_checks_first fx)) s q ifunused ifempty) as Hd.
    destruct (vhost_delete_queue _ s q ifunused ifempty) as [[s1 e1] r1]. cbn [fst] in *.
    destruct r1; exact Hd.
  - cbn [fst]. eapply hle_trans; [|apply hle_wake_consumers]. hl.
  - (* MPublish *)
    destruct imm; [apply hle_refl|]. destruct (alookup _ _ _); [|apply hle_refl].
    assert (HP : forall m0, hle s (s <| heap := aset N.eqb (next_uid s) m0 (heap s) |> <| next_uid := next_uid s + 1 |>)).
    { intros m0. split; [cbn; lia|]. intros u Hu Hn. cbn in Hu. unfold get_msg in *. cbn. rewrite (alookup_aset N.eqb Neqb_spec).
      destruct (u =? next_uid s) eqn:E; auto. apply N.eqb_eq in E. lia. }
    destruct (ch_confirm ch); cbn [fst]; (eapply hle_trans; [apply HP|apply hle_set_chan]).
  - destruct (queue_found s q) as [qu|]; [|apply hle_refl].
    destruct (fx_excl_owner fx && locked qu c); [apply hle_refl|].
    destruct (find_consumer ch _); [apply hle_refl|].
    destruct (_ && _)%bool; cbn [fst]; hl.
  - destruct (find_consumer ch tag); [|apply hle_refl]. cbn [fst]. hl.
  - (* MGet *)
    destruct (queue_found s q) as [qu|]; [|apply hle_refl].
    destruct (fx_excl_owner fx && locked qu c); [apply hle_refl|].
    destruct (q_ready qu) as [|u rest]; [apply hle_refl|].
    match goal with |- context [if noack then (Some [], []) else ?r] => destruct (if noack then (Some [], []) else r) as [okr ws] end.
    set (s1 := match ws with [w1; w2] => _ | _ => s end).
    assert (H1 : hle s s1).
    { subst s1. destruct ws as [|w1 [|w2 [|]]]; try apply hle_refl.
      destruct (get_conn _ c) eqn:Ec; hl. }
    clearbody s1.
    destruct okr; cbn [fst]; [|exact H1]. eapply hle_trans; [exact H1|]. hl.
  - pose proof (hle_handle_ack cfg s c h tag mult) as Ha. destruct (handle_ack cfg s c h tag mult) as [s1 e1]. exact Ha.
  - pose proof (hle_handle_reject cfg s c h tag mult requeue 60 120) as Ha.
    destruct (handle_reject cfg s c h tag mult requeue 60 120) as [s1 e1]. exact Ha.
  - pose proof (hle_handle_reject cfg s c h tag false requeue 60 90) as Ha.
    destruct (handle_reject cfg s c h tag false requeue 60 90) as [s1 e1]. exact Ha.
  - apply hle_refl.
  - cbn [fst]. hl.
  - destruct (fx_not_impl fx); apply hle_refl.
  - apply hle_refl.
  - apply hle_refl.
  - destruct good; [cbn [fst]; apply hle_set_stage|apply hle_refl].
  - destruct within; [cbn [fst]; apply hle_set_stage|apply hle_refl].
  - destruct vhost_ok; [cbn [fst]; apply hle_set_stage|apply hle_refl].
Qed.

Lemma hle_delete_fold b l : forall s evs,
  hle s (fst (fold_left (fun acc qn => let '(s, evs) := acc in
                                    let '(s', e, _) := vhost_delete_queue b s qn false false in (s', evs ++ e)) l (s, evs))).
Proof.
  induction l as [|x t IH]; intros s evs; simpl; [apply hle_refl|].
  pose proof (hle_vhost_delete_queue b s x false false) as Hd.
  destruct (vhost_delete_queue b s x false false) as [[s1 e1] r1]. cbn [fst] in Hd. eapply hle_trans; [exact Hd|apply IH].
Qed.

Lemma hle_conn_close cfg fx s c : hle s (fst (conn_close cfg fx s c)).
Proof.
  unfold conn_close. destruct (get_conn s c) as [cn|]; [|apply hle_refl].
  set (s1 := fold_left _ _ s).
  assert (H1 : hle s s1) by (subst s1; apply hle_fold; intros; apply hle_channel_close).
  clearbody s1.
  pose proof (hle_delete_fold (negb (fx_delete_checks_first fx))
                (map fst (filter (fun kv => q_excl (snd kv) && (q_owner (snd kv) =? c)) (queues s1))) s1 []) as Hd.
  destruct (fold_left _ _ (s1, [])) as [s2 e2]. cbn [fst] in *.
  eapply hle_trans; [exact H1|]. eapply hle_trans; [exact Hd|]. apply hle_same; reflexivity.
Qed.

Lemma hle_send_error s c h e : hle s (fst (send_error s c h e)).
Proof. destruct e; cbn [send_error fst]; [apply hle_upd_chan|apply hle_refl]. Qed.

Lemma hle_apply_err s0 s c h r : hle s0 (fst (fst r)) -> hle s0 (fst (apply_err s c h r)).
Proof.
  destruct r as [[s1 e1] [e|]]; cbn [fst]; auto.
  intros H. unfold apply_err. pose proof (hle_send_error s1 c h e) as Hs.
  destruct (send_error s1 c h e) as [s2 e2]. cbn [fst] in *. eapply hle_trans; eauto.
Qed.

Lemma hle_apply_err_st cfg fx opened s0 s c h r : hle s0 (fst (fst r)) -> hle s0 (fst (apply_err_st cfg fx opened s c h r)).
Proof.
  intros H. unfold apply_err_st. destruct opened; [apply hle_apply_err; auto|].
  destruct (snd r) as [[| ]|]; try (apply hle_apply_err; auto).
  pose proof (hle_apply_err s0 s c h r H) as H1. destruct (apply_err s c h r) as [s1 e1]. cbn [fst] in H1.
  pose proof (hle_conn_close cfg fx s1 c) as H2. destruct (conn_close cfg fx s1 c) as [s2 e2]. cbn [fst] in *. eapply hle_trans; eauto.
Qed.

Lemma hle_ensure_chan s c h : hle s (ensure_chan s c h).
Proof. apply hle_same; unfold ensure_chan; destruct (get_conn s c) as [cn|]; auto; destruct (alookup _ _ _); reflexivity. Qed.

Lemma alookup_map_snd {V} (f : V -> V) (l : list (N * V)) k :
  alookup N.eqb k (map (fun kv => (fst kv, f (snd kv))) l) = option_map f (alookup N.eqb k l).
Proof. induction l as [|[k0 v0] t IH]; cbn; auto. destruct (k =? k0); auto. Qed.

Theorem hle_step cfg fx s l : hle s (fst (step cfg fx s l)).
Proof.
  destruct l; cbn [step].
  - destruct (get_conn s c); cbn [fst]; [apply hle_refl|apply hle_same; reflexivity].
  - (* LMethod *)
    destruct (get_conn s c) as [cn0|]; [|apply hle_refl].
    destruct (negb _ && negb _)%bool; [apply hle_conn_close|].
    pose proof (hle_ensure_chan s c h) as H0.
    destruct m.
    all: try (repeat match goal with |- context [if ?b then _ else _] => destruct b end;
              first [ exact H0 | apply hle_apply_err; exact H0 | apply hle_apply_err_st; first [exact H0 | eapply hle_trans; [exact H0|apply hle_handle_method]] ]).
    + destruct (fx_stage fx && negb (h =? 0)); [apply hle_apply_err; exact H0|].
      pose proof (hle_conn_close cfg fx (ensure_chan s c h) c) as Hc.
      destruct (conn_close cfg fx (ensure_chan s c h) c) as [s1 e1]. cbn [fst] in *. eapply hle_trans; eauto.
    + destruct (fx_stage fx && negb (h =? 0)); [apply hle_apply_err; exact H0|].
      eapply hle_trans; [exact H0|apply hle_conn_close].
  - (* LHeader *)
    destruct (get_conn s c) as [cn0|]; [|apply hle_refl].
    destruct (negb _ && negb _)%bool; [apply hle_conn_close|].
    pose proof (hle_ensure_chan s c h) as H0.
    destruct (get_chan _ c h) as [ch|]; [|exact H0].
    destruct (_ && _)%bool; [exact H0|].
    destruct (ch_cur ch) as [u|]; [|apply hle_apply_err_st; exact H0].
    destruct (get_msg _ u) as [m|]; [|exact H0].
    destruct (m_has_header m); [apply hle_apply_err_st; exact H0|].
    destruct (_ && _)%bool; cbn [fst].
    + eapply hle_trans; [exact H0|]. eapply hle_trans; [apply hle_upd_msg|apply hle_finish_publish].
    + eapply hle_trans; [exact H0|apply hle_upd_msg].
  - (* LBody *)
    destruct (get_conn s c) as [cn0|]; [|apply hle_refl].
    destruct (negb _ && negb _)%bool; [apply hle_conn_close|].
    pose proof (hle_ensure_chan s c h) as H0.
    destruct (get_chan _ c h) as [ch|]; [|exact H0].
    destruct (_ && _)%bool; [exact H0|].
    destruct (ch_cur ch) as [u|]; [|apply hle_apply_err_st; exact H0].
    destruct (get_msg _ u) as [m|]; [|exact H0].
    destruct (negb (m_has_header m)); [apply hle_apply_err_st; exact H0|].
    destruct (_ <? _); [apply hle_apply_err_st; cbn [fst]; eapply hle_trans; [exact H0|apply hle_upd_chan]|].
    destruct (_ <? _); cbn [fst].
    + eapply hle_trans; [exact H0|apply hle_upd_msg].
    + eapply hle_trans; [exact H0|]. eapply hle_trans; [apply hle_upd_msg|apply hle_finish_publish].
  - apply hle_consumer_turn.
  - cbn [fst]. apply hle_queue_loop_turn.
  - (* LAutoDelete *)
    destruct (autodel s) as [|qn rest]; [apply hle_refl|].
    destruct (get_queue _ qn) as [qu0|]; [|apply hle_same; reflexivity]. destruct (q_autodel qu0); [|apply hle_same; reflexivity].
    pose proof (hle_vhost_delete_queue (negb (fx_delete_checks_first fx)) (s <| autodel := rest |>) qn true false) as Hd.
    destruct (vhost_delete_queue _ (s <| autodel := rest |>) qn true false) as [[s1 e1] r1]. cbn [fst] in *.
    eapply hle_trans; [|exact Hd]. apply hle_same; reflexivity.
  - (* LPersistTick *)
    cbn [fst]. eapply hle_trans; [|apply hle_fold; intros; apply hle_store_confirm]. apply hle_same; reflexivity.
  - (* LRelay *)
    destruct (relay s) as [|u rest]; [apply hle_refl|].
    destruct (get_msg _ u) as [m|]; cbn [fst]; [|apply hle_same; reflexivity].
    destruct (m_conf m) as [[[? ?] ?]|]; cbn [fst]; [|apply hle_same; reflexivity].
    eapply hle_trans; [|apply hle_add_confirm]. apply hle_same; reflexivity.
  - (* LConfirmTick *)
    destruct (get_chan s c h) as [ch|]; [|apply hle_refl]. destruct (negb _); [apply hle_refl|].
    destruct (ch_status ch); cbn [fst]; apply hle_set_chan.
  - pose proof (hle_conn_close cfg fx s c) as Hc. destruct (conn_close cfg fx s c) as [s1 e1]. exact Hc.
  - destruct (get_conn s c); cbn [fst]; [apply hle_refl|apply hle_same; reflexivity].
  - (* LBadMethod *)
    destruct (get_conn s c) as [cn0|]; [|apply hle_refl].
    destruct (negb _ && negb _)%bool; [apply hle_conn_close|].
    apply hle_apply_err_st. cbn [fst]. apply hle_ensure_chan.
  - destruct (get_conn s c); [|apply hle_refl]. destruct (h =? 0); [apply hle_refl|apply hle_conn_close].
  - (* LRestart *)
    unfold restart. cbn [fst]. split; [cbn; lia|]. intros u _ Hn. unfold get_msg in *. cbn.
    rewrite (alookup_map_snd (fun m => m <| m_conf := None |>)). rewrite Hn. reflexivity.
Qed.

(* ------------------------------------------------------------------ *)
(* every reachable state *)
Record live_inv (cfg : config) (s : state) : Prop :=
  { li_wake : wake_inv cfg s; li_closed : closed_empty s; li_fresh : heap_fresh s }.

Theorem wake_step cfg fx s l :
  fx_closeok_releases fx = true -> fx_chan_open fx = true ->
  size_nowrap cfg s -> size_nowrap cfg (fst (step cfg fx s l)) ->
  live_inv cfg s -> live_inv cfg (fst (step cfg fx s l)).
Proof.
  intros Hf1 Hf2 N0 NF [HW HC HF]. constructor.
  - apply WI_step; auto.
  - apply CE_step; auto.
  - eapply heap_fresh_hle; [apply hle_step|exact HF].
Qed.

Theorem wake_init cfg : live_inv cfg (init cfg).
Proof.
  constructor.
  - intros qn c h tag (qu & cm & u & rest & Hq & _). unfold get_queue in Hq. cbn in Hq. discriminate.
  - intros c h ch Hg. unfold get_chan, get_conn in Hg. cbn in Hg. discriminate.
  - intros u _. reflexivity.
Qed.

(* the byte counters do not wrap in any state the run passes through *)
Definition nowrap_run (cfg : config) (fx : fixes) (ls : list label) : Prop :=
  forall k, size_nowrap cfg (fst (run cfg fx (init cfg) (firstn k ls))).

Lemma run_app cfg fx l1 : forall s l2,
  fst (run cfg fx s (l1 ++ l2)) = fst (run cfg fx (fst (run cfg fx s l1)) l2).
Proof.
  induction l1 as [|a l1 IH]; intros s l2; cbn [app run]; auto.
  destruct (step cfg fx s a) as [s1 e1] eqn:Es. specialize (IH s1 l2).
  destruct (run cfg fx s1 (l1 ++ l2)) as [s2 e2]. destruct (run cfg fx s1 l1) as [s3 e3]. cbn [fst] in *. exact IH.
Qed.

Lemma run_snoc cfg fx s ls l : fst (run cfg fx s (ls ++ [l])) = fst (step cfg fx (fst (run cfg fx s ls)) l).
Proof.
  rewrite run_app. cbn [run]. destruct (step cfg fx (fst (run cfg fx s ls)) l) as [s1 e1]. reflexivity.
Qed.

Theorem wake_reachable cfg fx ls :
  fx_closeok_releases fx = true -> fx_chan_open fx = true -> nowrap_run cfg fx ls ->
  live_inv cfg (fst (run cfg fx (init cfg) ls)).
Proof.
  intros Hf1 Hf2. induction ls as [|l ls IH] using rev_ind; intros HN.
  - apply wake_init.
  - rewrite run_snoc. apply wake_step; auto.
    + specialize (HN (List.length ls)). rewrite firstn_app, firstn_all, Nat.sub_diag in HN. cbn in HN. rewrite app_nil_r in HN. exact HN.
    + specialize (HN (List.length (ls ++ [l]))). rewrite firstn_all, run_snoc in HN. exact HN.
    + apply IH. intros k. specialize (HN (Nat.min k (List.length ls))).
      destruct (Nat.le_ge_cases k (List.length ls)) as [Hk|Hk].
      * rewrite Nat.min_l in HN by exact Hk. rewrite firstn_app in HN.
        replace (k - List.length ls)%nat with O in HN by lia. cbn in HN. rewrite app_nil_r in HN. exact HN.
      * rewrite Nat.min_r in HN by exact Hk. rewrite firstn_app, firstn_all, Nat.sub_diag in HN. cbn in HN. rewrite app_nil_r in HN.
        rewrite firstn_all2 by exact Hk. exact HN.
Qed.

(* ------------------------------------------------------------------ *)
(* the composition *)
Lemma needs_wake_not_idle cfg s qn c h tag :
  wake_inv cfg s -> quiescent s = true -> ~ needs_wake cfg s qn c h tag.
Proof.
  intros HW Hq Hn. destruct (quiescent_no_pending_wake s Hq) as [HQ HC].
  destruct (HW _ _ _ _ Hn) as [(cm & Hc & Ht)|(qu & Hg & Hcall)].
  - apply consumer_at_chan in Hc. destruct Hc as (ch & Hg & Hf).
    unfold get_chan in Hg. destruct (get_conn s c) as [cn|] eqn:Ecn; [|discriminate].
    apply (alookup_in N.eqb Neqb_spec) in Ecn. apply (alookup_in N.eqb Neqb_spec) in Hg.
    apply find_consumer_tag in Hf. destruct Hf as [_ Hin].
    rewrite (HC c cn h ch cm Ecn Hg Hin) in Ht. discriminate.
  - apply (alookup_in seqb seqb_spec) in Hg. rewrite (HQ qn qu Hg) in Hcall. discriminate.
Qed.

Lemma deliverable_needs_wake cfg s qn c h tag : deliverable cfg s qn c h tag -> needs_wake cfg s qn c h tag.
Proof. intros [H _]. exact H. Qed.

(* a reachable idle state has no pair that could deliver (while no byte counter wrapped on the way) *)
Theorem no_idle_with_waiting_work cfg fx ls :
  fx_closeok_releases fx = true -> fx_chan_open fx = true -> nowrap_run cfg fx ls ->
  let s := fst (run cfg fx (init cfg) ls) in
  quiescent s = true -> forall qn c h tag, ~ needs_wake cfg s qn c h tag.
Proof.
  intros Hf1 Hf2 HN s Hq qn c h tag. apply needs_wake_not_idle; auto.
  apply (li_wake cfg s). apply wake_reachable; auto.
Qed.

Theorem no_idle_with_work cfg fx ls :
  fx_closeok_releases fx = true -> fx_chan_open fx = true -> nowrap_run cfg fx ls ->
  let s := fst (run cfg fx (init cfg) ls) in
  quiescent s = true -> forall qn c h tag, ~ deliverable cfg s qn c h tag.
Proof.
  intros Hf1 Hf2 HN s Hq qn c h tag Hd. apply deliverable_needs_wake in Hd.
  exact (no_idle_with_waiting_work cfg fx ls Hf1 Hf2 HN Hq qn c h tag Hd).
Qed.

(* [deliverable] is a condition under which a turn of the consumer, once it holds its token, delivers the head *)
Theorem deliverable_armed_turn_delivers cfg fx s qn c h tag cm :
  deliverable cfg s qn c h tag -> consumer_at s c h tag = Some cm -> c_token cm = true ->
  exists d r ex k, In (c, h, SDeliver tag d r ex k) (snd (consumer_turn cfg fx s c h tag)).
Proof.
  intros ((qu & cm0 & u & rest & Hq & Ha & Hr & Hin & Hc & Hs & Hcq & Had) & (qu1 & u1 & rest1 & m & Hq1 & Hr1 & Hm) & _) Hc' Ht.
  assert (cm0 = cm) by congruence. subst cm0. assert (qu1 = qu) by congruence. subst qu1.
  rewrite Hr in Hr1. inversion Hr1; subst u1 rest1.
  apply consumer_at_chan in Hc. destruct Hc as (ch & Hg & Hf).
  assert (Hqc : get_queue s (c_queue cm) = Some qu) by (rewrite Hcq; exact Hq).
  destruct (armed_turn_delivers cfg fx s c h tag ch cm qu u rest m Hg Hf Ht Hs Hqc Ha Hr Hm) as (d & r & Hd).
  - unfold head_fits in Had. apply orb_true_iff in Had. destruct Had as [Hn|Hall]; [left; exact Hn|right].
    apply reserve_some. exact Hall.
  - exists d, r, (m_ex m), (m_key m). exact Hd.
Qed.

(* ------------------------------------------------------------------ *)
(* progress: the enabled turn the invariant points to delivers the head *)
Definition chsf (ch : channel) : chstatus * bool := (ch_status ch, ch_flow ch).

Lemma chsf_wake s c0 h0 t0 c h : option_map chsf (get_chan (fst (wake_consumer s c0 h0 t0)) c h) = option_map chsf (get_chan s c h).
Proof.
  unfold wake_consumer. destruct (get_chan s c0 h0) as [ch0|] eqn:E0; auto. destruct (find_consumer ch0 t0) as [cm|]; auto.
  destruct (consume_msg cm) as [cm1 b]. cbn [fst]. rewrite get_chan_set_chan. pose proof (get_chan_conn _ _ _ _ E0). destruct (get_conn s c0); [|congruence].
  destruct ((c =? c0) && (h =? h0)) eqn:Eb; auto. apply eqb2_true in Eb. destruct Eb; subst. rewrite E0. reflexivity.
Qed.

Lemma fold_wake_fwd l : forall s c h tag cm,
  consumer_at s c h tag = Some cm ->
  exists cm', consumer_at (fold_left (fun s (x : N * N * string) => let '(c, h, tag) := x in fst (wake_consumer s c h tag)) l s) c h tag = Some cm' /\ woken cm cm'.
Proof.
  induction l as [|[[c0 h0] t0] l IH]; intros s c h tag cm H; cbn [fold_left].
  - exists cm. split; auto. left. reflexivity.
  - assert (H1 : exists cm1, consumer_at (fst (wake_consumer s c0 h0 t0)) c h tag = Some cm1 /\ woken cm cm1).
    { rewrite consumer_at_wake, H. destruct (_ && _ && _); cbn; eexists; split; eauto; [right|left]; reflexivity. }
    destruct H1 as (cm1 & H1 & Hw1). destruct (IH _ _ _ _ _ H1) as (cm' & H2 & Hw2). exists cm'. split; auto. eapply woken_trans; eauto.
Qed.

Lemma fold_wake_chsf l : forall s c h,
  option_map chsf (get_chan (fold_left (fun s (x : N * N * string) => let '(c, h, tag) := x in fst (wake_consumer s c h tag)) l s) c h) =
  option_map chsf (get_chan s c h).
Proof. induction l as [|[[c0 h0] t0] l IH]; intros s c h; cbn [fold_left]; auto. rewrite IH. apply chsf_wake. Qed.

Lemma loop_keeps_deliverable cfg s qn c h tag qu :
  deliverable cfg s qn c h tag -> get_queue s qn = Some qu -> q_call qu = true ->
  deliverable cfg (queue_loop_turn s qn) qn c h tag /\
  exists cm1, consumer_at (queue_loop_turn s qn) c h tag = Some cm1 /\ c_token cm1 = true.
Proof.
  intros ((qu0 & cm & u & rest & Hq & Ha & Hr & Hin & Hc & Hs & Hcq & Had) & (qu1 & u1 & rest1 & m & Hq1 & Hr1 & Hm) & (ch & Hg & Hst & Hfl)) Hq' Hcall.
  assert (qu0 = qu) by congruence. subst qu0. assert (qu1 = qu) by congruence. subst qu1.
  rewrite Hr in Hr1. inversion Hr1; subst u1 rest1.
  unfold queue_loop_turn. rewrite Hq', Hcall. cbn [negb].
  destruct (Nat.eqb (List.length (q_consumers qu)) 0) eqn:En.
  { apply Nat.eqb_eq in En. destruct (q_consumers qu); [destruct Hin|discriminate]. }
  set (s1 := set_queue s qn (qu <| q_call := false |>)).
  set (s2 := fold_left _ (q_consumers qu) s1).
  destruct (fold_wake_frame (q_consumers qu) s1) as (FQ & FH & FW & FN). fold s2 in FQ, FH, FW, FN.
  assert (Eq2 : get_queue s2 qn = Some (qu <| q_call := false |>)).
  { unfold get_queue. rewrite FQ. subst s1. fold (get_queue (set_queue s qn (qu <| q_call := false |>)) qn).
    rewrite get_queue_set_queue, seqb_refl. reflexivity. }
  assert (Hc1 : consumer_at s1 c h tag = Some cm) by exact Hc.
  destruct (fold_wake_fwd (q_consumers qu) s1 c h tag cm Hc1) as (cm' & Hc2 & Hw). fold s2 in Hc2.
  assert (Hs' : c_status cm' = CStarted) by (destruct Hw as [ -> | -> ]; [exact Hs|rewrite consume_msg_status; exact Hs]).
  destruct (woken_ok _ _ Hw Hs') as (_ & Hq0 & _ & Hn0 & Ho0).
  assert (Htok : c_token cm' = true).
  { eapply armed_token; [|exact Hc2|exact Hs']. subst s2. apply fold_wake_arms. left. exact Hin. }
  unfold upd_queue. rewrite Eq2.
  match goal with |- context [set_queue s2 qn ?q0] => set (qf := q0) end.
  assert (EqF : get_queue (set_queue s2 qn qf) qn = Some qf) by (rewrite get_queue_set_queue, seqb_refl; reflexivity).
  split; [|exists cm'; split; [exact Hc2|exact Htok]].
  split; [|split].
  - exists qf, cm', u, rest. repeat split; auto; try congruence.
    rewrite <- Had. apply head_fits_ext; auto.
    + transitivity (Wq s2 c h); [reflexivity|rewrite FW; reflexivity].
    + transitivity (cnq s2 c); [reflexivity|rewrite FN; reflexivity].
    + transitivity (msg_size s2 u); [reflexivity|apply msg_size_same_heap; exact FH].
  - exists qf, u, rest, m. repeat split; auto.
    transitivity (get_msg s2 u); [reflexivity|]. unfold get_msg. rewrite FH. exact Hm.
  - pose proof (fold_wake_chsf (q_consumers qu) s1 c h) as Hsf. fold s2 in Hsf.
    assert (Hg1 : get_chan s1 c h = Some ch) by exact Hg. rewrite Hg1 in Hsf.
    assert (HgF : get_chan (set_queue s2 qn qf) c h = get_chan s2 c h) by reflexivity. rewrite HgF.
    destruct (get_chan s2 c h) as [ch2|]; [|discriminate]. cbn in Hsf. inversion Hsf as [[E1 E2]].
    exists ch2. repeat split; congruence.
Qed.

Lemma enabled_consumer_turn s c h tag cm :
  consumer_at s c h tag = Some cm -> c_token cm = true -> In (LConsumerTurn c h tag) (enabled_internal s).
Proof.
  intros Hc Ht. apply consumer_at_chan in Hc. destruct Hc as (ch & Hg & Hf).
  unfold get_chan in Hg. destruct (get_conn s c) as [cn|] eqn:Ecn; [|discriminate].
  apply (alookup_in N.eqb Neqb_spec) in Ecn. apply (alookup_in N.eqb Neqb_spec) in Hg.
  apply find_consumer_tag in Hf. destruct Hf as [Etag Hin].
  unfold enabled_internal. apply in_or_app. right. apply in_or_app. left.
  apply in_flat_map. exists (c, cn). split; auto. apply in_flat_map. exists (h, ch). split; auto.
  cbn [fst snd]. rewrite <- Etag. apply (in_map (fun cm0 => LConsumerTurn c h (c_tag cm0))). apply filter_In. auto.
Qed.

Lemma enabled_queue_loop s qn qu : get_queue s qn = Some qu -> q_call qu = true -> In (LQueueLoop qn) (enabled_internal s).
Proof.
  intros Hq Hc. apply (alookup_in seqb seqb_spec) in Hq. unfold enabled_internal. apply in_or_app. left.
  apply (in_map (fun kv => LQueueLoop (fst kv)) _ (qn, qu)). apply filter_In. auto.
Qed.

(* from a state that satisfies the invariant, a deliverable pair is served by internal turns alone: either the
   consumer's turn is enabled and delivers, or the queue loop's turn is enabled, and after it the consumer's turn is
   enabled and delivers *)
Theorem deliverable_progress cfg fx s qn c h tag :
  wake_inv cfg s -> deliverable cfg s qn c h tag ->
  (In (LConsumerTurn c h tag) (enabled_internal s) /\
   exists d r ex k, In (c, h, SDeliver tag d r ex k) (snd (step cfg fx s (LConsumerTurn c h tag)))) \/
  (In (LQueueLoop qn) (enabled_internal s) /\
   let s1 := fst (step cfg fx s (LQueueLoop qn)) in
   In (LConsumerTurn c h tag) (enabled_internal s1) /\
   exists d r ex k, In (c, h, SDeliver tag d r ex k) (snd (step cfg fx s1 (LConsumerTurn c h tag)))).
Proof.
  intros HW Hd. destruct (HW _ _ _ _ (deliverable_needs_wake _ _ _ _ _ _ Hd)) as [(cm & Hc & Ht)|(qu & Hq & Hcall)].
  - left. split; [eapply enabled_consumer_turn; eauto|]. cbn [step]. eapply deliverable_armed_turn_delivers; eauto.
  - right. split; [eapply enabled_queue_loop; eauto|]. cbn [step fst].
    destruct (loop_keeps_deliverable cfg s qn c h tag qu Hd Hq Hcall) as (Hd1 & cm1 & Hc1 & Ht1).
    split; [eapply enabled_consumer_turn; eauto|]. eapply deliverable_armed_turn_delivers; eauto.
Qed.

Theorem deliverable_progress_reachable cfg fx ls qn c h tag :
  fx_closeok_releases fx = true -> fx_chan_open fx = true -> nowrap_run cfg fx ls ->
  let s := fst (run cfg fx (init cfg) ls) in
  deliverable cfg s qn c h tag ->
  (In (LConsumerTurn c h tag) (enabled_internal s) /\
   exists d r ex k, In (c, h, SDeliver tag d r ex k) (snd (step cfg fx s (LConsumerTurn c h tag)))) \/
  (In (LQueueLoop qn) (enabled_internal s) /\
   let s1 := fst (step cfg fx s (LQueueLoop qn)) in
   In (LConsumerTurn c h tag) (enabled_internal s1) /\
   exists d r ex k, In (c, h, SDeliver tag d r ex k) (snd (step cfg fx s1 (LConsumerTurn c h tag)))).
Proof.
  intros Hf1 Hf2 HN s Hd. apply deliverable_progress; auto. apply (li_wake cfg s). apply wake_reachable; auto.
Qed.

(* ------------------------------------------------------------------ *)
(* the no-wrap hypothesis, decidable on concrete runs *)
Definition size_nowrapb (cfg : config) (s : state) : bool :=
  forallb (fun ckv => forallb (fun hkv => forallb (fun cm => forallb (fun w =>
    forallb (fun qkv => forallb (fun u => (ps w =? 0) || (cs w + msg_size s u <? two32)) (q_ready (snd qkv))) (queues s))
    (window_list cfg s (fst ckv) (fst hkv) cm)) (ch_consumers (snd hkv))) (cn_chans (snd ckv))) (conns s).

Lemma size_nowrapb_spec cfg s : size_nowrapb cfg s = true -> size_nowrap cfg s.
Proof.
  intros H c h tag cm w u Hc Hw (qn & qu & Hq & Hu) Hps.
  apply consumer_at_chan in Hc. destruct Hc as (ch & Hg & Hf).
  unfold get_chan in Hg. destruct (get_conn s c) as [cn|] eqn:Ecn; [|discriminate].
  apply (alookup_in N.eqb Neqb_spec) in Ecn. apply (alookup_in N.eqb Neqb_spec) in Hg.
  apply find_consumer_tag in Hf. destruct Hf as [_ Hin]. apply (alookup_in seqb seqb_spec) in Hq.
  unfold size_nowrapb in H.
  pose proof (proj1 (forallb_forall _ _) H _ Ecn) as H1. cbn [fst snd] in H1.
  pose proof (proj1 (forallb_forall _ _) H1 _ Hg) as H2. cbn [fst snd] in H2.
  pose proof (proj1 (forallb_forall _ _) H2 _ Hin) as H3.
  pose proof (proj1 (forallb_forall _ _) H3 _ Hw) as H4.
  pose proof (proj1 (forallb_forall _ _) H4 _ Hq) as H5. cbn [snd] in H5.
  pose proof (proj1 (forallb_forall _ _) H5 _ Hu) as H6. apply orb_true_iff in H6. destruct H6 as [H6|H6]; [apply N.eqb_eq in H6; congruence|apply N.ltb_lt in H6; exact H6].
Qed.

Definition nowrap_runb (cfg : config) (fx : fixes) (ls : list label) : bool :=
  forallb (fun k => size_nowrapb cfg (fst (run cfg fx (init cfg) (firstn k ls)))) (seq 0 (S (List.length ls))).

Lemma nowrap_runb_spec cfg fx ls : nowrap_runb cfg fx ls = true -> nowrap_run cfg fx ls.
Proof.
  intros H k. apply size_nowrapb_spec. unfold nowrap_runb in H.
  destruct (Nat.le_ge_cases k (List.length ls)) as [Hk|Hk].
  - apply (proj1 (forallb_forall _ _) H k). apply in_seq. lia.
  - rewrite firstn_all2 by exact Hk. rewrite <- (firstn_all ls) at 1.
    apply (proj1 (forallb_forall _ _) H (List.length ls)). apply in_seq. lia.
Qed.
