(* Round-trip lemmas for the wire primitives (Base/Bytes.v, Codec/Prim.v). *)
From Coq Require Import List NArith Bool Lia ZifyN ZifyNat ZifyBool.
Import ListNotations.
From GMQ Require Import Base.Bytes Codec.Desc Codec.Prim.
Open Scope N_scope.

Lemma take_app : forall (a r : bytes), take (length a) (a ++ r) = Some (a, r).
Proof.
  induction a as [|x a IH]; intros r; cbn [length take app]; [reflexivity|].
  rewrite IH. reflexivity.
Qed.

Lemma take_length : forall k bs h r, take k bs = Some (h, r) -> length h = k /\ bs = h ++ r.
Proof.
  induction k as [|k IH]; intros bs h r Hk; cbn [take] in Hk.
  - inversion Hk; subst. split; reflexivity.
  - destruct bs as [|b t]; [discriminate|].
    destruct (take k t) as [[h' r']|] eqn:E; [|discriminate].
    inversion Hk; subst. destruct (IH _ _ _ E) as [Hl Ht]. subst t.
    split; cbn [length app]; congruence.
Qed.

Lemma take_none : forall k bs, take k bs = None -> (length bs < k)%nat.
Proof.
  induction k as [|k IH]; intros bs Hk; cbn [take] in Hk; [discriminate|].
  destruct bs as [|b t]; cbn [length]; [lia|].
  destruct (take k t) as [[h' r']|] eqn:E; [discriminate|].
  apply IH in E. lia.
Qed.

Lemma blen_app : forall a b : bytes, blen (a ++ b) = blen a + blen b.
Proof. intros. unfold blen. rewrite app_length. lia. Qed.

Lemma takeN_app : forall (a r : bytes), takeN (blen a) (a ++ r) = Some (a, r).
Proof.
  intros a r. unfold takeN. rewrite blen_app.
  destruct (N.ltb_spec (blen a + blen r) (blen a)) as [H|H]; [lia|].
  unfold blen. rewrite Nat2N.id. apply take_app.
Qed.

Lemma takeN_spec : forall n bs h r, takeN n bs = Some (h, r) -> blen h = n /\ bs = h ++ r.
Proof.
  intros n bs h r H. unfold takeN in H.
  destruct (blen bs <? n); [discriminate|].
  apply take_length in H. destruct H as [Hl Hb]. split; [|assumption].
  unfold blen. rewrite Hl. apply N2Nat.id.
Qed.

Lemma takeN_none : forall n bs, takeN n bs = None -> blen bs < n.
Proof.
  intros n bs H. unfold takeN in H.
  destruct (N.ltb_spec (blen bs) n) as [L|L]; [assumption|].
  apply take_none in H. unfold blen in *. lia.
Qed.

Lemma be_dec_acc_app : forall a b acc, be_dec_acc (a ++ b) acc = be_dec_acc b (be_dec_acc a acc).
Proof. induction a as [|x a IH]; intros; cbn [app be_dec_acc]; [reflexivity|apply IH]. Qed.

Lemma length_be_enc : forall k n, length (be_enc k n) = k.
Proof.
  induction k as [|k IH]; intros n; cbn [be_enc length]; [reflexivity|].
  rewrite app_length, IH. cbn [length]. lia.
Qed.

Lemma pow_8S : forall k : nat, 2 ^ (8 * N.of_nat (S k)) = 256 * 2 ^ (8 * N.of_nat k).
Proof.
  intros k. replace (8 * N.of_nat (S k)) with (8 + 8 * N.of_nat k) by lia.
  rewrite N.pow_add_r. reflexivity.
Qed.

Lemma be_dec_enc : forall k n, be_dec (be_enc k n) = n mod 2 ^ (8 * N.of_nat k).
Proof.
  unfold be_dec. induction k as [|k IH]; intros n.
  - cbn [be_enc be_dec_acc]. change (8 * N.of_nat 0) with 0. rewrite N.pow_0_r, N.mod_1_r. reflexivity.
  - cbn [be_enc]. rewrite be_dec_acc_app. cbn [be_dec_acc]. rewrite IH, pow_8S.
    assert (P : 2 ^ (8 * N.of_nat k) <> 0) by (apply N.pow_nonzero; discriminate).
    rewrite (N.mod_mul_r n 256 (2 ^ (8 * N.of_nat k))) by (try discriminate; exact P). lia.
Qed.

Lemma be_enc_bytes : forall k n, forallb (fun x => x <? 256) (be_enc k n) = true.
Proof.
  induction k as [|k IH]; intros n; cbn [be_enc]; [reflexivity|].
  rewrite forallb_app, IH. cbn [forallb]. rewrite andb_true_r.
  apply N.ltb_lt. apply N.mod_lt. discriminate.
Qed.

Lemma dec_fixed_enc : forall k n r, n < 2 ^ (8 * N.of_nat k) -> dec_fixed k (be_enc k n ++ r) = Ok (n, r).
Proof.
  intros k n r H. unfold dec_fixed.
  rewrite <- (length_be_enc k n) at 1. rewrite take_app, be_dec_enc, N.mod_small by exact H. reflexivity.
Qed.

Lemma dec_fixed_spec : forall k bs n r, dec_fixed k bs = Ok (n, r) -> exists h, bs = h ++ r /\ length h = k /\ n = be_dec h.
Proof.
  intros k bs n r H. unfold dec_fixed in H.
  destruct (take k bs) as [[h r']|] eqn:E; [|discriminate].
  inversion H; subst. apply take_length in E. destruct E. exists h. auto.
Qed.

Lemma dec_octet_enc : forall n r, n < 2 ^ 8 -> dec_octet (enc_octet n ++ r) = Ok (n, r).
Proof. intros. apply (dec_fixed_enc 1). assumption. Qed.
Lemma dec_short_enc : forall n r, n < 2 ^ 16 -> dec_short (enc_short n ++ r) = Ok (n, r).
Proof. intros. apply (dec_fixed_enc 2). assumption. Qed.
Lemma dec_long_enc : forall n r, n < 2 ^ 32 -> dec_long (enc_long n ++ r) = Ok (n, r).
Proof. intros. apply (dec_fixed_enc 4). assumption. Qed.
Lemma dec_longlong_enc : forall n r, n < 2 ^ 64 -> dec_longlong (enc_longlong n ++ r) = Ok (n, r).
Proof. intros. apply (dec_fixed_enc 8). assumption. Qed.
Lemma dec_timestamp_enc : forall n r, n < 2 ^ 64 -> dec_timestamp (enc_timestamp n ++ r) = Ok (n, r).
Proof. intros. apply (dec_fixed_enc 8). assumption. Qed.

Lemma dec_octet_cons : forall b r, dec_octet (b :: r) = Ok (b, r).
Proof.
  intros b r. unfold dec_octet, dec_fixed. cbn [take]. unfold be_dec. cbn [be_dec_acc].
  rewrite N.mul_0_l, N.add_0_l. reflexivity.
Qed.

Lemma dec_shortstr_enc : forall s r, blen s < 256 -> dec_shortstr (enc_shortstr s ++ r) = Ok (s, r).
Proof.
  intros s r H. unfold dec_shortstr, enc_shortstr.
  rewrite N.mod_small by exact H. cbn [app].
  rewrite dec_octet_cons. cbn [bind fst snd].
  rewrite takeN_app. reflexivity.
Qed.

Lemma dec_longstr_enc : forall st s r, blen s < 2 ^ 32 -> dec_longstr st (enc_longstr s ++ r) = Ok (s, r).
Proof.
  intros st s r H. unfold dec_longstr, enc_longstr, dec_long.
  rewrite <- app_assoc, dec_fixed_enc by exact H. cbn [bind fst snd].
  rewrite takeN_app. reflexivity.
Qed.

(* the F31 shape: a short string of 256 or more bytes does not come back *)
Lemma shortstr_too_long_refuted : exists s r, dec_shortstr (enc_shortstr s ++ r) <> Ok (s, r).
Proof. exists (repeat 97 256), []. vm_compute. discriminate. Qed.
