(* C08: the routing model (Route.Exchange) against the AMQP rules (Route.Spec). *)
From Coq Require Import List NArith ZArith Bool Arith Lia Permutation.
Import ListNotations.
From GMQ Require Import Route.Value Route.Cfg Route.Topic Route.Exchange Route.Spec Proofs.RouteTopicProofs.
Open Scope N_scope.

(* ------------------------------------------------------------------ bytes *)
Lemma bytes_eqb_spec : forall a b, bytes_eqb a b = true <-> a = b.
Proof.
  induction a as [|x a IH]; destruct b as [|y b]; simpl; split; intro H; try reflexivity; try discriminate.
  - apply andb_true_iff in H. destruct H as [H1 H2]. apply N.eqb_eq in H1. apply IH in H2. subst. reflexivity.
  - inversion H; subst. rewrite N.eqb_refl. simpl. apply IH. reflexivity.
Qed.

Lemma bytes_eqb_refl : forall a, bytes_eqb a a = true.
Proof. intro a. apply bytes_eqb_spec. reflexivity. Qed.

Lemma bytes_eqb_false : forall a b, bytes_eqb a b = false <-> a <> b.
Proof.
  intros a b. split; intro H.
  - intro E. apply bytes_eqb_spec in E. congruence.
  - destruct (bytes_eqb a b) eqn:E; auto. apply bytes_eqb_spec in E. contradiction.
Qed.

Lemma bytes_eqb_sym : forall a b, bytes_eqb a b = bytes_eqb b a.
Proof.
  intros a b. destruct (bytes_eqb a b) eqn:E.
  - apply bytes_eqb_spec in E. subst. symmetry. apply bytes_eqb_refl.
  - symmetry. apply bytes_eqb_false. apply bytes_eqb_false in E. congruence.
Qed.

Lemma existsb_bytes_In : forall q l, existsb (bytes_eqb q) l = true <-> In q l.
Proof.
  intros q l. rewrite existsb_exists. split.
  - intros [x [Hx E]]. apply bytes_eqb_spec in E. subst. assumption.
  - intro H. exists q. split; [assumption | apply bytes_eqb_refl].
Qed.

(* ------------------------------------------------------------------ words *)
Lemma spec_split_nonempty : forall s, spec_split s <> [].
Proof.
  induction s as [|c s IH]; simpl; [discriminate|].
  destruct (N.eqb c 46); [discriminate|]. destruct (spec_split s); discriminate.
Qed.

Lemma split_dots_acc_spec : forall s cur,
  split_dots_acc s cur = match spec_split s with w :: ws => (rev cur ++ w) :: ws | [] => [] end.
Proof.
  induction s as [|c s IH]; intro cur; simpl.
  - rewrite app_nil_r. reflexivity.
  - unfold dot. destruct (N.eqb c 46).
    + rewrite app_nil_r. rewrite IH. simpl.
      destruct (spec_split s) eqn:E; [exfalso; eapply spec_split_nonempty; eassumption | reflexivity].
    + rewrite IH. destruct (spec_split s) eqn:E; [exfalso; eapply spec_split_nonempty; eassumption |].
      simpl. rewrite <- app_assoc. reflexivity.
Qed.

Lemma topic_words_spec : forall s, topic_words s = spec_words s.
Proof.
  intro s. unfold topic_words, spec_words. destruct s as [|c s]; [reflexivity|].
  rewrite split_dots_acc_spec. simpl rev. simpl app.
  destruct (spec_split (c :: s)) eqn:E; [exfalso; eapply spec_split_nonempty; eassumption | reflexivity].
Qed.

Lemma topic_match_bytes_correct : forall pat ws,
  topic_match_bytes pat ws = true <-> topic_matches bytes [42] [35] pat ws.
Proof.
  intros. unfold topic_match_bytes, star_b, hash_b.
  apply topic_match_correct; [apply bytes_eqb_spec | discriminate].
Qed.

(* ------------------------------------------------------------------ values *)
Lemma ikind_eqb_spec : forall a b, ikind_eqb a b = true <-> a = b.
Proof. destruct a, b; simpl; split; intro H; try reflexivity; try discriminate. Qed.

Lemma fkind_eqb_spec : forall a b, fkind_eqb a b = true <-> a = b.
Proof. destruct a, b; simpl; split; intro H; try reflexivity; try discriminate. Qed.

Lemma deep_eqb_field_equal : forall a b, deep_eqb a b = true <-> field_equal a b.
Proof.
  intros a b. destruct a, b; simpl; split; intro H;
    try reflexivity; try discriminate; try (inversion H; fail).
  - apply eqb_prop in H. subst. reflexivity.
  - inversion H. apply eqb_reflx.
  - apply andb_true_iff in H. destruct H as [H1 H2]. apply ikind_eqb_spec in H1. apply Z.eqb_eq in H2. subst. reflexivity.
  - inversion H; subst. rewrite Z.eqb_refl. rewrite (proj2 (ikind_eqb_spec k0 k0)) by reflexivity. reflexivity.
  - apply andb_true_iff in H. destruct H as [H1 H2]. apply fkind_eqb_spec in H1. subst. split; [reflexivity | assumption].
  - destruct H as [H1 H2]. subst. rewrite (proj2 (fkind_eqb_spec k0 k0)) by reflexivity. simpl. assumption.
  - apply andb_true_iff in H. destruct H as [H1 H2]. apply N.eqb_eq in H1. apply Z.eqb_eq in H2. subst. reflexivity.
  - inversion H; subst. rewrite N.eqb_refl, Z.eqb_refl. reflexivity.
  - apply bytes_eqb_spec in H. subst. reflexivity.
  - inversion H; subst. apply bytes_eqb_refl.
  - apply bytes_eqb_spec in H. subst. reflexivity.
  - inversion H; subst. apply bytes_eqb_refl.
  - apply Z.eqb_eq in H. subst. reflexivity.
  - inversion H; subst. apply Z.eqb_refl.
Qed.

(* ------------------------------------------------------------------ cfg *)
Record sane (c : route_cfg) : Prop := {
  s_ids : n_distinct4 (c_direct c) (c_fanout c) (c_topic c) (c_headers c) = true;
  s_ed : c_early_direct c = false; s_ef : c_early_fanout c = false;
  s_et : c_early_topic c = false; s_eh : c_early_headers c = false;
  s_xp : c_x_prefix c = str_x_prefix; s_xm : c_x_match c = str_x_match;
  s_all : c_all c = str_all; s_any : c_any c = str_any;
  s_def : c_default_all c = true; s_cmp : c_cmp c = CmpDeepEqual
}.

Lemma cfg_sane_sane : forall c, cfg_sane c = true -> sane c.
Proof.
  intros c H. unfold cfg_sane in H.
  remember (n_distinct4 (c_direct c) (c_fanout c) (c_topic c) (c_headers c)) as d eqn:Ed.
  destruct (c_cmp c) eqn:Ec.
  2:{ rewrite andb_false_r in H. simpl in H. discriminate. }
  repeat (apply andb_true_iff in H; let H' := fresh "H" in destruct H as [H H']).
  subst d.
  constructor; try assumption; try reflexivity;
    try (apply negb_true_iff; assumption); try (apply bytes_eqb_spec; assumption).
Qed.

(* ------------------------------------------------------------------ headers *)
Definition is_nil (v : value) : bool := match v with VNil => true | _ => false end.

Definition arg_matched_b (hdrs : table) (kv : bytes * value) : bool :=
  match lookup (fst kv) hdrs with
  | None => false
  | Some hv => is_nil (snd kv) || deep_eqb (snd kv) hv
  end.

Lemma arg_matched_b_spec : forall h kv, arg_matched_b h kv = true <-> arg_matched h kv.
Proof.
  intros h [k v]. unfold arg_matched_b, arg_matched. simpl. destruct (lookup k h) as [hv|].
  - split.
    + intro H. exists hv. split; [reflexivity|]. apply orb_true_iff in H. destruct H as [H|H].
      * left. destruct v; try discriminate. reflexivity.
      * right. apply deep_eqb_field_equal. assumption.
    + intros [hv' [E [H|H]]]; inversion E; subst; apply orb_true_iff.
      * left. reflexivity.
      * right. apply deep_eqb_field_equal. assumption.
  - split; [discriminate | intros [hv [E _]]; discriminate].
Qed.

Definition nil_list {A} (l : list A) : bool := match l with [] => true | _ => false end.

Lemma header_loop_spec : forall c, sane c -> forall mt args h hx,
  header_loop c mt args h hx =
  Some (match mt with
        | MatchAll => forallb (arg_matched_b h) (match_args args)
        | MatchAny => existsb (arg_matched_b h) (match_args args) || (negb hx && nil_list (match_args args))
        end).
Proof.
  intros c S mt args h. induction args as [|[k v] rest IH]; intro hx.
  - simpl. destruct mt; simpl; [reflexivity | rewrite andb_true_r; reflexivity].
  - cbn [header_loop match_args filter fst]. rewrite (s_xp c S). unfold reserved_arg, str_x_prefix.
    destruct (has_prefix [120; 45] k) eqn:Ex; cbn [negb].
    + apply IH.
    + cbn [forallb existsb nil_list]. unfold arg_matched_b at 1 3. cbn [fst snd].
      destruct (lookup k h) as [hv|].
      * rewrite (s_cmp c S). cbn [value_cmp]. remember (deep_eqb v hv) as d eqn:Ed. clear Ed.
        destruct mt; cbn [is_all]; destruct v; cbn [is_nil orb andb]; try destruct d;
          cbn [orb andb]; rewrite ?IH; cbn [negb andb orb]; rewrite ?orb_false_r, ?andb_false_r, ?orb_false_r;
          reflexivity.
      * destruct mt; cbn [is_all andb orb]; [reflexivity|].
        rewrite IH. cbn [negb andb]. rewrite orb_false_r, andb_false_r, orb_false_r. reflexivity.
Qed.

Lemma spec_mode_of_wf : forall c k b t, sane c -> binding_wf c k b -> b_args b = Some t ->
  spec_mode t = match b_match b with MatchAll => XAll | MatchAny => XAny end.
Proof.
  intros c k b t S W E. unfold binding_wf, new_binding in W. rewrite E in W.
  destruct (is_topic_kind k && negb (pattern_ok (b_key b))); [discriminate|].
  unfold spec_mode. rewrite (s_xm c S) in W. unfold str_x_match in W.
  destruct (lookup [120; 45; 109; 97; 116; 99; 104] t) as [v|].
  - destruct v; try discriminate.
    rewrite (s_all c S), (s_any c S) in W. unfold str_all, str_any in W.
    destruct (bytes_eqb s [97; 108; 108]) eqn:Ea.
    + apply bytes_eqb_spec in Ea. subst s. inversion W as [W']. rewrite <- W' at 1. simpl. reflexivity.
    + destruct (bytes_eqb s [97; 110; 121]); [|discriminate].
      inversion W as [W']. rewrite <- W' at 1. simpl. reflexivity.
  - rewrite (s_def c S) in W. inversion W as [W']. rewrite <- W' at 1. simpl. reflexivity.
Qed.

Lemma match_args_nil_b : forall (l : table), nil_list l = true <-> l = [].
Proof. destruct l; simpl; split; intro; try reflexivity; discriminate. Qed.

Lemma match_header_spec : forall c k b m, sane c -> binding_wf c k b -> no_f50 m b ->
  exists r, match_header c b (m_exchange m) (m_headers m) = Some r /\
            (r = true <-> b_exchange b = m_exchange m /\ headers_rule true (tbl (b_args b)) (tbl (m_headers m))).
Proof.
  intros c k b m S W NF. unfold match_header.
  destruct (bytes_eqb (b_exchange b) (m_exchange m)) eqn:Ee; cbn [negb].
  2:{ exists false. split; [reflexivity|]. split; [discriminate|]. intros [E _]. apply bytes_eqb_false in Ee. contradiction. }
  apply bytes_eqb_spec in Ee.
  destruct (b_args b) as [t|] eqn:Ea.
  - pose proof (spec_mode_of_wf c k b t S W Ea) as Hm.
    destruct (m_headers m) as [h|] eqn:Eh.
    + rewrite (header_loop_spec c S). eexists. split; [reflexivity|].
      unfold headers_rule. cbn [tbl]. rewrite Hm. destruct (b_match b).
      * rewrite forallb_forall, Forall_forall. split.
        -- intro H. split; [assumption|]. intros x Hx. apply arg_matched_b_spec. apply H. assumption.
        -- intros [_ H] x Hx. apply arg_matched_b_spec. apply H. assumption.
      * cbn [negb andb]. rewrite orb_true_iff, existsb_exists, Exists_exists, match_args_nil_b. split.
        -- intros [[x [Hx Hb]]|Hn]; (split; [assumption|]).
           ++ left. exists x. split; [assumption | apply arg_matched_b_spec; assumption].
           ++ right. split; [assumption | reflexivity].
        -- intros [_ [[x [Hx Hb]]|[Hn _]]].
           ++ left. exists x. split; [assumption | apply arg_matched_b_spec; assumption].
           ++ right. assumption.
    + exists false. split; [reflexivity|]. split; [discriminate|]. intros [_ H]. exfalso.
      specialize (NF Eh t Ea).
      unfold headers_rule in H. cbn [tbl] in H. destruct (spec_mode t).
      * destruct (match_args t) as [|x l]; [contradiction|]. inversion H as [|? ? Hx _]; subst.
        destruct Hx as [hv [E _]]. discriminate.
      * destruct H as [H|[H _]]; [|contradiction].
        apply Exists_exists in H. destruct H as [x [_ [hv [E _]]]]. discriminate.
  - exists true. split; [reflexivity|]. split; [|reflexivity]. intros _. split; [assumption|].
    unfold headers_rule. cbn [tbl]. unfold spec_mode. simpl. constructor.
Qed.

(* ------------------------------------------------------------------ the matched set *)
Lemma mq_insert_In : forall q acc x, In x (mq_insert q acc) <-> x = q \/ In x acc.
Proof.
  intros q acc x. unfold mq_insert. destruct (existsb (bytes_eqb q) acc) eqn:E.
  - apply existsb_bytes_In in E. split; [intro; right; assumption | intros [H|H]; subst; assumption].
  - rewrite in_app_iff. simpl. split; [intros [H|[H|[]]]; auto | intros [H|H]; auto].
Qed.

Lemma mq_insert_NoDup : forall q acc, NoDup acc -> NoDup (mq_insert q acc).
Proof.
  intros q acc H. unfold mq_insert. destruct (existsb (bytes_eqb q) acc) eqn:E; [assumption|].
  assert (~ In q acc) as N by (intro I; apply existsb_bytes_In in I; congruence).
  clear E. induction H as [|x l Hx Hl IH]; simpl.
  - constructor; [intros []| constructor].
  - constructor.
    + rewrite in_app_iff. simpl. intros [I|[I|[]]]; [contradiction | subst; apply N; left; reflexivity].
    + apply IH. intro I. apply N. right. assumption.
Qed.

(* whatever the loop does (early return or not, panic or not), its result has no duplicates *)
Lemma mq_loop_NoDup : forall early m bs acc l, NoDup acc -> mq_loop early m bs acc = Some l -> NoDup l.
Proof.
  intros early m bs. induction bs as [|b t IH]; intros acc l Hn H; simpl in H.
  - inversion H; subst. assumption.
  - destruct (m b) as [[|]|]; try discriminate.
    + destruct early.
      * inversion H; subst. apply mq_insert_NoDup. assumption.
      * eapply IH; [|eassumption]. apply mq_insert_NoDup. assumption.
    + eapply IH; eassumption.
Qed.

Lemma matched_queues_nodup : forall c ex m l, matched_queues c ex m = Some l -> NoDup l.
Proof.
  intros c ex m l H. unfold matched_queues in H.
  repeat match type of H with
         | (if ?x then _ else _) = _ => destruct x
         end;
    try (eapply mq_loop_NoDup; [constructor | eassumption]).
  inversion H. constructor.
Qed.

(* without early return and without panic the loop collects exactly the queues of matching bindings *)
Lemma mq_loop_spec : forall (m : binding -> option bool) (f : binding -> bool) bs,
  (forall b, In b bs -> m b = Some (f b)) ->
  forall acc, exists l, mq_loop false m bs acc = Some l /\
    forall q, In q l <-> In q acc \/ exists b, In b bs /\ f b = true /\ b_queue b = q.
Proof.
  intros m f bs. induction bs as [|b t IH]; intros Hm acc.
  - exists acc. split; [reflexivity|]. intro q. split; [auto | intros [H|[b [[] _]]]; assumption].
  - simpl. rewrite (Hm b) by (left; reflexivity).
    assert (forall b0, In b0 t -> m b0 = Some (f b0)) as Hm' by (intros; apply Hm; right; assumption).
    destruct (f b) eqn:Ef.
    + destruct (IH Hm' (mq_insert (b_queue b) acc)) as [l [Hl Hq]]. exists l. split; [assumption|].
      intro q. rewrite Hq, mq_insert_In. split.
      * intros [[H|H]|[b0 [Hi H]]]; auto.
        -- right. exists b. subst. auto.
        -- right. exists b0. split; [right; assumption | assumption].
      * intros [H|[b0 [[Hi|Hi] [H1 H2]]]]; auto.
        -- subst. left. left. reflexivity.
        -- right. exists b0. auto.
    + destruct (IH Hm' acc) as [l [Hl Hq]]. exists l. split; [assumption|].
      intro q. rewrite Hq. split.
      * intros [H|[b0 [Hi H]]]; auto. right. exists b0. split; [right; assumption | assumption].
      * intros [H|[b0 [[Hi|Hi] [H1 H2]]]]; auto.
        -- subst. congruence.
        -- right. exists b0. auto.
Qed.

Lemma n_distinct4_spec : forall a b c d, n_distinct4 a b c d = true ->
  a <> b /\ a <> c /\ a <> d /\ b <> c /\ b <> d /\ c <> d.
Proof.
  intros a b c d H. unfold n_distinct4 in H.
  repeat (apply andb_true_iff in H; let H' := fresh "H" in destruct H as [H H']).
  repeat match goal with X : negb (N.eqb _ _) = true |- _ => apply negb_true_iff in X; apply N.eqb_neq in X end.
  repeat split; assumption.
Qed.

Lemma match_direct_spec : forall b ex key,
  match_direct b ex key = true <-> b_exchange b = ex /\ b_key b = key.
Proof. intros. unfold match_direct. rewrite andb_true_iff, !bytes_eqb_spec. reflexivity. Qed.

Lemma match_topic_spec : forall b ex key, b_topic b = true ->
  match_topic b ex key = true <-> b_exchange b = ex /\ spec_topic (b_key b) key.
Proof.
  intros b ex key T. unfold match_topic, binding_pattern, spec_topic. rewrite T.
  rewrite andb_true_iff, bytes_eqb_spec, topic_match_bytes_correct, !topic_words_spec. reflexivity.
Qed.

Lemma wf_topic : forall c k b, binding_wf c k b -> b_topic b = is_topic_kind k.
Proof.
  intros c k b W. unfold binding_wf, new_binding in W.
  destruct (is_topic_kind k && negb (pattern_ok (b_key b))); [discriminate|].
  destruct (b_args b) as [t|].
  - destruct (lookup (c_x_match c) t) as [v|].
    + destruct v; try discriminate.
      destruct (bytes_eqb s (c_all c)); [inversion W as [W']; rewrite <- W' at 1; reflexivity|].
      destruct (bytes_eqb s (c_any c)); [inversion W as [W']; rewrite <- W' at 1; reflexivity | discriminate].
    + inversion W as [W']; rewrite <- W' at 1; reflexivity.
  - inversion W as [W']; rewrite <- W' at 1; reflexivity.
Qed.

Theorem route_eq_spec : forall c, cfg_sane c = true ->
  forall ex k m, kind_of c (ex_type ex) = Some k ->
  Forall (binding_wf c k) (ex_bindings ex) ->
  Forall (no_f50 m) (ex_bindings ex) ->
  exists l, matched_queues c ex m = Some l /\ NoDup l /\
            forall q, In q l <-> route_spec true k (ex_bindings ex) m q.
Proof.
  intros c Hc ex k m Hk Hwf Hnf. pose proof (cfg_sane_sane c Hc) as S.
  destruct (n_distinct4_spec _ _ _ _ (s_ids c S)) as [D1 [D2 [D3 [D4 [D5 D6]]]]].
  rewrite Forall_forall in Hwf, Hnf.
  assert (forall (mm : binding -> option bool) (f : binding -> bool),
            (forall b, In b (ex_bindings ex) -> mm b = Some (f b)) ->
            (forall b, In b (ex_bindings ex) ->
                       (f b = true <-> b_exchange b = m_exchange m /\ binding_matches true k b m)) ->
            exists l, mq_loop false mm (ex_bindings ex) [] = Some l /\ NoDup l /\
                      forall q, In q l <-> route_spec true k (ex_bindings ex) m q) as Core.
  { intros mm f Hm Hf. destruct (mq_loop_spec mm f (ex_bindings ex) Hm []) as [l [Hl Hq]].
    exists l. split; [assumption|]. split; [eapply mq_loop_NoDup; [constructor | eassumption]|].
    intro q. rewrite Hq. unfold route_spec. split.
    - intros [[]|[b [Hi [Hfb Hqb]]]]. exists b. apply Hf in Hfb; [|assumption]. tauto.
    - intros [b [Hi [Hqb [He Hb]]]]. right. exists b. split; [assumption|]. split; [|assumption].
      apply Hf; auto. }
  unfold matched_queues. unfold kind_of in Hk.
  destruct (N.eqb (ex_type ex) (c_direct c)) eqn:E1.
  { inversion Hk; subst k. rewrite (s_ed c S).
    apply (Core _ (fun b => match_direct b (m_exchange m) (m_key m))); [reflexivity|].
    intros b _. apply match_direct_spec. }
  destruct (N.eqb (ex_type ex) (c_fanout c)) eqn:E2.
  { inversion Hk; subst k. rewrite (s_ef c S).
    apply (Core _ (fun b => match_fanout b (m_exchange m))); [reflexivity|].
    intros b _. unfold match_fanout. rewrite bytes_eqb_spec. simpl. tauto. }
  destruct (N.eqb (ex_type ex) (c_topic c)) eqn:E3.
  { inversion Hk; subst k. rewrite (s_et c S).
    apply (Core _ (fun b => match_topic b (m_exchange m) (m_key m))); [reflexivity|].
    intros b Hi. apply match_topic_spec. rewrite (wf_topic c KTopic b (Hwf b Hi)). reflexivity. }
  destruct (N.eqb (ex_type ex) (c_headers c)) eqn:E4; [|discriminate].
  inversion Hk; subst k. rewrite (s_eh c S).
  apply (Core _ (fun b => match match_header c b (m_exchange m) (m_headers m) with Some r => r | None => false end)).
  - intros b Hi. destruct (match_header_spec c KHeaders b m S (Hwf b Hi) (Hnf b Hi)) as [r [Hr _]].
    rewrite Hr. reflexivity.
  - intros b Hi. destruct (match_header_spec c KHeaders b m S (Hwf b Hi) (Hnf b Hi)) as [r [Hr Hiff]].
    rewrite Hr. exact Hiff.
Qed.

(* ------------------------------------------------------------------ the publish decision *)
Lemma pushes_to_map : forall q l, pushes_to q (map PPush l) = count_occ (list_eq_dec N.eq_dec) l q.
Proof.
  intros q l. unfold pushes_to. induction l as [|x l IH]; simpl; [reflexivity|].
  destruct (bytes_eqb x q) eqn:E.
  - apply bytes_eqb_spec in E. subst. destruct (list_eq_dec N.eq_dec q q); [|contradiction]. simpl. rewrite IH. reflexivity.
  - apply bytes_eqb_false in E. destruct (list_eq_dec N.eq_dec x q); [contradiction|]. assumption.
Qed.

Lemma push_loop_all_exist : forall qe mand l, (forall q, In q l -> qe q = true) ->
  push_loop qe mand l = map PPush l.
Proof.
  intros qe mand l. induction l as [|x l IH]; intro H; simpl; [reflexivity|].
  rewrite (H x) by (left; reflexivity). rewrite IH; [reflexivity|]. intros; apply H; right; assumption.
Qed.

Theorem placed_once : forall c find_ex qe m ex l acts,
  find_ex (m_exchange m) = Some ex ->
  matched_queues c ex m = Some l ->
  (forall q, In q l -> qe q = true) ->
  publish_decision c find_ex qe m = Some acts ->
  publish_spec (fun q => In q l) (m_mandatory m) acts.
Proof.
  intros c find_ex qe m ex l acts Hf Hm Hq Hp.
  pose proof (matched_queues_nodup c ex m l Hm) as Hn.
  unfold publish_decision in Hp. rewrite Hf, Hm in Hp.
  destruct l as [|q0 l'].
  - inversion Hp; subst acts. unfold publish_spec. split; [|split; [|split]].
    + intros q [].
    + intros q _. unfold unroutable, pushes_to. destruct (m_mandatory m); reflexivity.
    + intros [q []].
    + intros _. unfold unroutable. destruct (m_mandatory m); simpl; split; try split; auto;
        try (intros [H|[H|[]]]; discriminate); try (intros [H|[]]; discriminate); try discriminate.
  - rewrite push_loop_all_exist in Hp by assumption.
    assert (acts = map PPush (q0 :: l')) as E by (inversion Hp; reflexivity). rewrite E. clear Hp E.
    unfold publish_spec. split; [|split; [|split]].
    + intros q Hi. rewrite pushes_to_map. apply NoDup_count_occ'; assumption.
    + intros q Hi. rewrite pushes_to_map. apply count_occ_not_In. assumption.
    + intros _ Hr. apply in_map_iff in Hr. destruct Hr as [x [Hx _]]. discriminate.
    + intro H. exfalso. apply (H q0). left. reflexivity.
Qed.

Theorem unroutable_decision : forall c find_ex qe m,
  (find_ex (m_exchange m) = None ->
     publish_decision c find_ex qe m = Some [PReturn; PConfirm]) /\
  (forall ex, find_ex (m_exchange m) = Some ex -> matched_queues c ex m = Some [] ->
     publish_decision c find_ex qe m = Some ((if m_mandatory m then [PReturn] else []) ++ [PConfirm])).
Proof.
  intros. unfold publish_decision. split.
  - intro H. rewrite H. reflexivity.
  - intros ex H1 H2. rewrite H1, H2. reflexivity.
Qed.
