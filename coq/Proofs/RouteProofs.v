(* C08: the routing model (Route.Exchange) against the AMQP rules (Route.Spec). *)
From Coq Require Import List NArith ZArith Bool Arith Lia Permutation.
Import ListNotations.
From GMQ Require Import Route.Value Route.Cfg Route.Topic Route.Exchange Route.Spec Route.gen.RouteGen Proofs.RouteTopicProofs.
Open Scope N_scope.

(* ------------------------------------------------------------------ bytes *)
Lemma bytes_eqb_spec : forall a b, bytes_eqb a b = true <-> a = b.
Proof.
  induction a as [|x a IH]; destruct b as [|y b]; simpl; split; intro H; try reflexivity; try discriminate.
  - apply andb_true_iff in H. destruct H as [H1 H2]. apply N.eqb_eq in H1. apply IH in H2. subst. reflexivity.
  - inversion H; subst. rewrite N.eqb_refl. simpl. apply IH. reflexivity.
Qed.

Lemma bytes_eqb_refl : forall a, bytes_eqb a a = true.
Proof. intro a. apply bytes_eqb_spec. reflexivity. Qed.

Lemma bytes_eqb_false : forall a b, bytes_eqb a b = false <-> a <> b.
Proof.
  intros a b. split; intro H.
  - intro E. apply bytes_eqb_spec in E. congruence.
  - destruct (bytes_eqb a b) eqn:E; auto. apply bytes_eqb_spec in E. contradiction.
Qed.

Lemma bytes_eqb_sym : forall a b, bytes_eqb a b = bytes_eqb b a.
Proof.
  intros a b. destruct (bytes_eqb a b) eqn:E.
  - apply bytes_eqb_spec in E. subst. symmetry. apply bytes_eqb_refl.
  - symmetry. apply bytes_eqb_false. apply bytes_eqb_false in E. congruence.
Qed.

Lemma existsb_bytes_In : forall q l, existsb (bytes_eqb q) l = true <-> In q l.
Proof.
  intros q l. rewrite existsb_exists. split.
  - intros [x [Hx E]]. apply bytes_eqb_spec in E. subst. assumption.
  - intro H. exists q. split; [assumption | apply bytes_eqb_refl].
Qed.

(* ------------------------------------------------------------------ words *)
Lemma spec_split_nonempty : forall s, spec_split s <> [].
Proof.
  induction s as [|c s IH]; simpl; [discriminate|].
  destruct (N.eqb c 46); [discriminate|]. destruct (spec_split s); discriminate.
Qed.

Lemma split_dots_acc_spec : forall s cur,
  split_dots_acc s cur = match spec_split s with w :: ws => (rev cur ++ w) :: ws | [] => [] end.
Proof.
  induction s as [|c s IH]; intro cur; simpl.
  - rewrite app_nil_r. reflexivity.
  - unfold dot. destruct (N.eqb c 46).
    + rewrite app_nil_r. rewrite IH. simpl.
      destruct (spec_split s) eqn:E; [exfalso; eapply spec_split_nonempty; eassumption | reflexivity].
    + rewrite IH. destruct (spec_split s) eqn:E; [exfalso; eapply spec_split_nonempty; eassumption |].
      simpl. rewrite <- app_assoc. reflexivity.
Qed.

Lemma topic_words_spec : forall s, topic_words s = spec_words s.
Proof.
  intro s. unfold topic_words, spec_words. destruct s as [|c s]; [reflexivity|].
  rewrite split_dots_acc_spec. simpl rev. simpl app.
  destruct (spec_split (c :: s)) eqn:E; [exfalso; eapply spec_split_nonempty; eassumption | reflexivity].
Qed.

Lemma topic_match_bytes_correct : forall pat ws,
  topic_match_bytes pat ws = true <-> topic_matches bytes [42] [35] pat ws.
Proof.
  intros. unfold topic_match_bytes, star_b, hash_b.
  apply topic_match_correct; [apply bytes_eqb_spec | discriminate].
Qed.

(* ------------------------------------------------------------------ values *)
Lemma ikind_eqb_spec : forall a b, ikind_eqb a b = true <-> a = b.
Proof. destruct a, b; simpl; split; intro H; try reflexivity; try discriminate. Qed.

Lemma fkind_eqb_spec : forall a b, fkind_eqb a b = true <-> a = b.
Proof. destruct a, b; simpl; split; intro H; try reflexivity; try discriminate. Qed.

Lemma deep_eqb_field_equal : forall a b, deep_eqb a b = true <-> field_equal a b.
Proof.
  intros a b. destruct a, b; simpl; split; intro H;
    try reflexivity; try discriminate; try (inversion H; fail).
  - apply eqb_prop in H. subst. reflexivity.
  - inversion H. apply eqb_reflx.
  - apply andb_true_iff in H. destruct H as [H1 H2]. apply ikind_eqb_spec in H1. apply Z.eqb_eq in H2. subst. reflexivity.
  - inversion H; subst. rewrite Z.eqb_refl. rewrite (proj2 (ikind_eqb_spec k0 k0)) by reflexivity. reflexivity.
  - apply andb_true_iff in H. destruct H as [H1 H2]. apply fkind_eqb_spec in H1. subst. split; [reflexivity | assumption].
  - destruct H as [H1 H2]. subst. rewrite (proj2 (fkind_eqb_spec k0 k0)) by reflexivity. simpl. assumption.
  - apply andb_true_iff in H. destruct H as [H1 H2]. apply N.eqb_eq in H1. apply Z.eqb_eq in H2. subst. reflexivity.
  - inversion H; subst. rewrite N.eqb_refl, Z.eqb_refl. reflexivity.
  - apply bytes_eqb_spec in H. subst. reflexivity.
  - inversion H; subst. apply bytes_eqb_refl.
  - apply bytes_eqb_spec in H. subst. reflexivity.
  - inversion H; subst. apply bytes_eqb_refl.
  - apply Z.eqb_eq in H. subst. reflexivity.
  - inversion H; subst. apply Z.eqb_refl.
Qed.

(* ------------------------------------------------------------------ cfg *)
Record sane (c : route_cfg) : Prop := {
  s_ids : n_distinct4 (c_direct c) (c_fanout c) (c_topic c) (c_headers c) = true;
  s_ed : c_early_direct c = false; s_ef : c_early_fanout c = false;
  s_et : c_early_topic c = false; s_eh : c_early_headers c = false;
  s_xp : c_x_prefix c = str_x_prefix; s_xm : c_x_match c = str_x_match;
  s_all : c_all c = str_all; s_any : c_any c = str_any;
  s_def : c_default_all c = true; s_cmp : c_cmp c = CmpDeepEqual
}.

Lemma cfg_sane_sane : forall c, cfg_sane c = true -> sane c.
Proof.
  intros c H. unfold cfg_sane in H.
  remember (n_distinct4 (c_direct c) (c_fanout c) (c_topic c) (c_headers c)) as d eqn:Ed.
  destruct (c_cmp c) eqn:Ec.
  2:{ rewrite andb_false_r in H. simpl in H. discriminate. }
  repeat (apply andb_true_iff in H; let H' := fresh "H" in destruct H as [H H']).
  subst d.
  constructor; try assumption; try reflexivity;
    try (apply negb_true_iff; assumption); try (apply bytes_eqb_spec; assumption).
Qed.

(* ------------------------------------------------------------------ headers *)
Definition is_nil (v : value) : bool := match v with VNil => true | _ => false end.

Definition arg_matched_b (hdrs : table) (kv : bytes * value) : bool :=
  match lookup (fst kv) hdrs with
  | None => false
  | Some hv => is_nil (snd kv) || deep_eqb (snd kv) hv
  end.

Lemma arg_matched_b_spec : forall h kv, arg_matched_b h kv = true <-> arg_matched h kv.
Proof.
  intros h [k v]. unfold arg_matched_b, arg_matched. simpl. destruct (lookup k h) as [hv|].
  - split.
    + intro H. exists hv. split; [reflexivity|]. apply orb_true_iff in H. destruct H as [H|H].
      * left. destruct v; try discriminate. reflexivity.
      * right. apply deep_eqb_field_equal. assumption.
    + intros [hv' [E [H|H]]]; inversion E; subst; apply orb_true_iff.
      * left. reflexivity.
      * right. apply deep_eqb_field_equal. assumption.
  - split; [discriminate | intros [hv [E _]]; discriminate].
Qed.

Definition nil_list {A} (l : list A) : bool := match l with [] => true | _ => false end.

Lemma header_loop_spec : forall c, sane c -> forall mt args h hx,
  header_loop c mt args h hx =
  Some (match mt with
        | MatchAll => forallb (arg_matched_b h) (match_args args)
        | MatchAny => existsb (arg_matched_b h) (match_args args) || (negb hx && nil_list (match_args args))
        end).
Proof.
  intros c S mt args h. induction args as [|[k v] rest IH]; intro hx.
  - simpl. destruct mt; simpl; [reflexivity | rewrite andb_true_r; reflexivity].
  - cbn [header_loop match_args filter fst]. rewrite (s_xp c S). unfold reserved_arg, str_x_prefix.
    destruct (has_prefix [120; 45] k) eqn:Ex; cbn [negb].
    + apply IH.
    + cbn [forallb existsb nil_list]. unfold arg_matched_b at 1 3. cbn [fst snd].
      destruct (lookup k h) as [hv|].
      * rewrite (s_cmp c S). cbn [value_cmp]. remember (deep_eqb v hv) as d eqn:Ed. clear Ed.
        destruct mt; cbn [is_all]; destruct v; cbn [is_nil orb andb]; try destruct d;
          cbn [orb andb]; rewrite ?IH; cbn [negb andb orb]; rewrite ?orb_false_r, ?andb_false_r, ?orb_false_r;
          reflexivity.
      * destruct mt; cbn [is_all andb orb]; [reflexivity|].
        rewrite IH. cbn [negb andb]. rewrite orb_false_r, andb_false_r, orb_false_r. reflexivity.
Qed.

Lemma spec_mode_of_wf : forall c k b t, sane c -> binding_wf c k b -> b_args b = Some t ->
  spec_mode t = match b_match b with MatchAll => XAll | MatchAny => XAny end.
Proof.
  intros c k b t S W E. unfold binding_wf, new_binding in W. rewrite E in W.
  destruct (is_topic_kind k && negb (pattern_ok (b_key b))); [discriminate|].
  unfold spec_mode. rewrite (s_xm c S) in W. unfold str_x_match in W.
  destruct (lookup [120; 45; 109; 97; 116; 99; 104] t) as [v|].
  - rewrite (s_all c S), (s_any c S) in W. unfold str_all, str_any in W. cbv zeta in W.
    destruct v; try discriminate; try (destruct (c_xmatch_bytes c); [|discriminate]);
      (destruct (bytes_eqb s [97; 108; 108]) eqn:Ea;
       [ apply bytes_eqb_spec in Ea; subst s; inversion W as [W']; rewrite <- W' at 1; simpl; reflexivity
       | destruct (bytes_eqb s [97; 110; 121]); [|discriminate];
         inversion W as [W']; rewrite <- W' at 1; simpl; reflexivity ]).
  - rewrite (s_def c S) in W. inversion W as [W']. rewrite <- W' at 1. simpl. reflexivity.
Qed.

Lemma match_args_nil_b : forall (l : table), nil_list l = true <-> l = [].
Proof. destruct l; simpl; split; intro; try reflexivity; discriminate. Qed.

Lemma match_header_spec : forall c k b m, sane c -> binding_wf c k b -> no_f50 m b ->
  exists r, match_header c b (m_exchange m) (m_headers m) = Some r /\
            (r = true <-> b_exchange b = m_exchange m /\ headers_rule true (tbl (b_args b)) (tbl (m_headers m))).
Proof.
  intros c k b m S W NF. unfold match_header.
  destruct (bytes_eqb (b_exchange b) (m_exchange m)) eqn:Ee; cbn [negb].
  2:{ exists false. split; [reflexivity|]. split; [discriminate|]. intros [E _]. apply bytes_eqb_false in Ee. contradiction. }
  apply bytes_eqb_spec in Ee.
  destruct (b_args b) as [t|] eqn:Ea.
  - pose proof (spec_mode_of_wf c k b t S W Ea) as Hm.
    destruct (m_headers m) as [h|] eqn:Eh.
    + rewrite (header_loop_spec c S). eexists. split; [reflexivity|].
      unfold headers_rule. cbn [tbl]. rewrite Hm. destruct (b_match b).
      * rewrite forallb_forall, Forall_forall. split.
        -- intro H. split; [assumption|]. intros x Hx. apply arg_matched_b_spec. apply H. assumption.
        -- intros [_ H] x Hx. apply arg_matched_b_spec. apply H. assumption.
      * cbn [negb andb]. rewrite orb_true_iff, existsb_exists, Exists_exists, match_args_nil_b. split.
        -- intros [[x [Hx Hb]]|Hn]; (split; [assumption|]).
           ++ left. exists x. split; [assumption | apply arg_matched_b_spec; assumption].
           ++ right. split; [assumption | reflexivity].
        -- intros [_ [[x [Hx Hb]]|[Hn _]]].
           ++ left. exists x. split; [assumption | apply arg_matched_b_spec; assumption].
           ++ right. assumption.
    + exists false. split; [reflexivity|]. split; [discriminate|]. intros [_ H]. exfalso.
      specialize (NF Eh t Ea).
      unfold headers_rule in H. cbn [tbl] in H. destruct (spec_mode t).
      * destruct (match_args t) as [|x l]; [contradiction|]. inversion H as [|? ? Hx _]; subst.
        destruct Hx as [hv [E _]]. discriminate.
      * destruct H as [H|[H _]]; [|contradiction].
        apply Exists_exists in H. destruct H as [x [_ [hv [E _]]]]. discriminate.
  - exists true. split; [reflexivity|]. split; [|reflexivity]. intros _. split; [assumption|].
    unfold headers_rule. cbn [tbl]. unfold spec_mode. simpl. constructor.
Qed.

(* ------------------------------------------------------------------ the matched set *)
Lemma mq_insert_In : forall q acc x, In x (mq_insert q acc) <-> x = q \/ In x acc.
Proof.
  intros q acc x. unfold mq_insert. destruct (existsb (bytes_eqb q) acc) eqn:E.
  - apply existsb_bytes_In in E. split; [intro; right; assumption | intros [H|H]; subst; assumption].
  - rewrite in_app_iff. simpl. split; [intros [H|[H|[]]]; auto | intros [H|H]; auto].
Qed.

Lemma mq_insert_NoDup : forall q acc, NoDup acc -> NoDup (mq_insert q acc).
Proof.
  intros q acc H. unfold mq_insert. destruct (existsb (bytes_eqb q) acc) eqn:E; [assumption|].
  assert (~ In q acc) as N by (intro I; apply existsb_bytes_In in I; congruence).
  clear E. induction H as [|x l Hx Hl IH]; simpl.
  - constructor; [intros []| constructor].
  - constructor.
    + rewrite in_app_iff. simpl. intros [I|[I|[]]]; [contradiction | subst; apply N; left; reflexivity].
    + apply IH. intro I. apply N. right. assumption.
Qed.

(* whatever the loop does (early return or not, panic or not), its result has no duplicates *)
Lemma mq_loop_NoDup : forall early m bs acc l, NoDup acc -> mq_loop early m bs acc = Some l -> NoDup l.
Proof.
  intros early m bs. induction bs as [|b t IH]; intros acc l Hn H; simpl in H.
  - inversion H; subst. assumption.
  - destruct (m b) as [[|]|]; try discriminate.
    + destruct early.
      * inversion H; subst. apply mq_insert_NoDup. assumption.
      * eapply IH; [|eassumption]. apply mq_insert_NoDup. assumption.
    + eapply IH; eassumption.
Qed.

Lemma matched_queues_nodup : forall c ex m l, matched_queues c ex m = Some l -> NoDup l.
Proof.
  intros c ex m l H. unfold matched_queues in H.
  repeat match type of H with
         | (if ?x then _ else _) = _ => destruct x
         end;
    try (eapply mq_loop_NoDup; [constructor | eassumption]).
  inversion H. constructor.
Qed.

(* without early return and without panic the loop collects exactly the queues of matching bindings *)
Lemma mq_loop_spec : forall (m : binding -> option bool) (f : binding -> bool) bs,
  (forall b, In b bs -> m b = Some (f b)) ->
  forall acc, exists l, mq_loop false m bs acc = Some l /\
    forall q, In q l <-> In q acc \/ exists b, In b bs /\ f b = true /\ b_queue b = q.
Proof.
  intros m f bs. induction bs as [|b t IH]; intros Hm acc.
  - exists acc. split; [reflexivity|]. intro q. split; [auto | intros [H|[b [[] _]]]; assumption].
  - simpl. rewrite (Hm b) by (left; reflexivity).
    assert (forall b0, In b0 t -> m b0 = Some (f b0)) as Hm' by (intros; apply Hm; right; assumption).
    destruct (f b) eqn:Ef.
    + destruct (IH Hm' (mq_insert (b_queue b) acc)) as [l [Hl Hq]]. exists l. split; [assumption|].
      intro q. rewrite Hq, mq_insert_In. split.
      * intros [[H|H]|[b0 [Hi H]]]; auto.
        -- right. exists b. subst. auto.
        -- right. exists b0. split; [right; assumption | assumption].
      * intros [H|[b0 [[Hi|Hi] [H1 H2]]]]; auto.
        -- subst. left. left. reflexivity.
        -- right. exists b0. auto.
    + destruct (IH Hm' acc) as [l [Hl Hq]]. exists l. split; [assumption|].
      intro q. rewrite Hq. split.
      * intros [H|[b0 [Hi H]]]; auto. right. exists b0. split; [right; assumption | assumption].
      * intros [H|[b0 [[Hi|Hi] [H1 H2]]]]; auto.
        -- subst. congruence.
        -- right. exists b0. auto.
Qed.

Lemma n_distinct4_spec : forall a b c d, n_distinct4 a b c d = true ->
  a <> b /\ a <> c /\ a <> d /\ b <> c /\ b <> d /\ c <> d.
Proof.
  intros a b c d H. unfold n_distinct4 in H.
  repeat (apply andb_true_iff in H; let H' := fresh "H" in destruct H as [H H']).
  repeat match goal with X : negb (N.eqb _ _) = true |- _ => apply negb_true_iff in X; apply N.eqb_neq in X end.
  repeat split; assumption.
Qed.

Lemma match_direct_spec : forall b ex key,
  match_direct b ex key = true <-> b_exchange b = ex /\ b_key b = key.
Proof. intros. unfold match_direct. rewrite andb_true_iff, !bytes_eqb_spec. reflexivity. Qed.

Lemma match_topic_spec : forall b ex key, b_topic b = true ->
  match_topic b ex key = true <-> b_exchange b = ex /\ spec_topic (b_key b) key.
Proof.
  intros b ex key T. unfold match_topic, binding_pattern, spec_topic. rewrite T.
  rewrite andb_true_iff, bytes_eqb_spec, topic_match_bytes_correct, !topic_words_spec. reflexivity.
Qed.

Lemma wf_topic : forall c k b, binding_wf c k b -> b_topic b = is_topic_kind k.
Proof.
  intros c k b W. unfold binding_wf, new_binding in W.
  destruct (is_topic_kind k && negb (pattern_ok (b_key b))); [discriminate|].
  destruct (b_args b) as [t|].
  - destruct (lookup (c_x_match c) t) as [v|].
    + cbv zeta in W. destruct v; try discriminate; try (destruct (c_xmatch_bytes c); [|discriminate]);
        (destruct (bytes_eqb s (c_all c)); [inversion W as [W']; rewrite <- W' at 1; reflexivity|];
         destruct (bytes_eqb s (c_any c)); [inversion W as [W']; rewrite <- W' at 1; reflexivity | discriminate]).
    + inversion W as [W']; rewrite <- W' at 1; reflexivity.
  - inversion W as [W']; rewrite <- W' at 1; reflexivity.
Qed.

(* NewBinding accepts every binding AMQP allows a client to make: a pattern whose wildcards are
   whole words, and an x-match that is absent or the string (short or long) all / any *)
Definition xmatch_allowed (args : option table) : Prop :=
  match args with
  | None => True
  | Some t => match lookup str_x_match t with
              | None => True
              | Some (VStr s) | Some (VBytes s) => s = str_all \/ s = str_any
              | Some _ => False
              end
  end.

Lemma new_binding_accepts : forall c q ex key args topic, sane c -> c_xmatch_bytes c = true ->
  (topic = true -> pattern_ok key = true) -> xmatch_allowed args ->
  exists b, new_binding c q ex key args topic = Some b.
Proof.
  intros c q ex key args topic S Hb Hp Hx. unfold new_binding.
  assert (topic && negb (pattern_ok key) = false) as E.
  { destruct topic; [rewrite Hp by reflexivity|]; reflexivity. }
  rewrite E. destruct args as [t|]; [|eexists; reflexivity].
  unfold xmatch_allowed in Hx. rewrite (s_xm c S), (s_all c S), (s_any c S), Hb. cbv zeta.
  destruct (lookup str_x_match t) as [v|]; [|eexists; reflexivity].
  destruct v; try contradiction; destruct Hx as [Hx|Hx]; subst s; eexists; reflexivity.
Qed.

Theorem route_eq_spec : forall c, cfg_sane c = true ->
  forall ex k m, kind_of c (ex_type ex) = Some k ->
  Forall (binding_wf c k) (ex_bindings ex) ->
  Forall (no_f50 m) (ex_bindings ex) ->
  exists l, matched_queues c ex m = Some l /\ NoDup l /\
            forall q, In q l <-> route_spec true k (ex_bindings ex) m q.
Proof.
  intros c Hc ex k m Hk Hwf Hnf. pose proof (cfg_sane_sane c Hc) as S.
  destruct (n_distinct4_spec _ _ _ _ (s_ids c S)) as [D1 [D2 [D3 [D4 [D5 D6]]]]].
  rewrite Forall_forall in Hwf, Hnf.
  assert (forall (mm : binding -> option bool) (f : binding -> bool),
            (forall b, In b (ex_bindings ex) -> mm b = Some (f b)) ->
            (forall b, In b (ex_bindings ex) ->
                       (f b = true <-> b_exchange b = m_exchange m /\ binding_matches true k b m)) ->
            exists l, mq_loop false mm (ex_bindings ex) [] = Some l /\ NoDup l /\
                      forall q, In q l <-> route_spec true k (ex_bindings ex) m q) as Core.
  { intros mm f Hm Hf. destruct (mq_loop_spec mm f (ex_bindings ex) Hm []) as [l [Hl Hq]].
    exists l. split; [assumption|]. split; [eapply mq_loop_NoDup; [constructor | eassumption]|].
    intro q. rewrite Hq. unfold route_spec. split.
    - intros [[]|[b [Hi [Hfb Hqb]]]]. exists b. apply Hf in Hfb; [|assumption]. tauto.
    - intros [b [Hi [Hqb [He Hb]]]]. right. exists b. split; [assumption|]. split; [|assumption].
      apply Hf; auto. }
  unfold matched_queues. unfold kind_of in Hk.
  destruct (N.eqb (ex_type ex) (c_direct c)) eqn:E1.
  { inversion Hk; subst k. rewrite (s_ed c S).
    apply (Core _ (fun b => match_direct b (m_exchange m) (m_key m))); [reflexivity|].
    intros b _. apply match_direct_spec. }
  destruct (N.eqb (ex_type ex) (c_fanout c)) eqn:E2.
  { inversion Hk; subst k. rewrite (s_ef c S).
    apply (Core _ (fun b => match_fanout b (m_exchange m))); [reflexivity|].
    intros b _. unfold match_fanout. rewrite bytes_eqb_spec. simpl. tauto. }
  destruct (N.eqb (ex_type ex) (c_topic c)) eqn:E3.
  { inversion Hk; subst k. rewrite (s_et c S).
    apply (Core _ (fun b => match_topic b (m_exchange m) (m_key m))); [reflexivity|].
    intros b Hi. apply match_topic_spec. rewrite (wf_topic c KTopic b (Hwf b Hi)). reflexivity. }
  destruct (N.eqb (ex_type ex) (c_headers c)) eqn:E4; [|discriminate].
  inversion Hk; subst k. rewrite (s_eh c S).
  apply (Core _ (fun b => match match_header c b (m_exchange m) (m_headers m) with Some r => r | None => false end)).
  - intros b Hi. destruct (match_header_spec c KHeaders b m S (Hwf b Hi) (Hnf b Hi)) as [r [Hr _]].
    rewrite Hr. reflexivity.
  - intros b Hi. destruct (match_header_spec c KHeaders b m S (Hwf b Hi) (Hnf b Hi)) as [r [Hr Hiff]].
    rewrite Hr. exact Hiff.
Qed.

(* ------------------------------------------------------------------ the publish decision *)
Lemma pushes_to_map : forall q l, pushes_to q (map PPush l) = count_occ (list_eq_dec N.eq_dec) l q.
Proof.
  intros q l. unfold pushes_to. induction l as [|x l IH]; simpl; [reflexivity|].
  destruct (bytes_eqb x q) eqn:E.
  - apply bytes_eqb_spec in E. subst. destruct (list_eq_dec N.eq_dec q q); [|contradiction]. simpl. rewrite IH. reflexivity.
  - apply bytes_eqb_false in E. destruct (list_eq_dec N.eq_dec x q); [contradiction|]. assumption.
Qed.

Lemma push_loop_all_exist : forall qe mand l, (forall q, In q l -> qe q = true) ->
  push_loop qe mand l = map PPush l.
Proof.
  intros qe mand l. induction l as [|x l IH]; intro H; simpl; [reflexivity|].
  rewrite (H x) by (left; reflexivity). rewrite IH; [reflexivity|]. intros; apply H; right; assumption.
Qed.

Theorem placed_once : forall c find_ex qe m ex l acts,
  find_ex (m_exchange m) = Some ex ->
  matched_queues c ex m = Some l ->
  (forall q, In q l -> qe q = true) ->
  publish_decision c find_ex qe m = Some acts ->
  publish_spec (fun q => In q l) (m_mandatory m) acts.
Proof.
  intros c find_ex qe m ex l acts Hf Hm Hq Hp.
  pose proof (matched_queues_nodup c ex m l Hm) as Hn.
  unfold publish_decision in Hp. rewrite Hf, Hm in Hp.
  destruct l as [|q0 l'].
  - inversion Hp; subst acts. unfold publish_spec. split; [|split; [|split]].
    + intros q [].
    + intros q _. unfold unroutable, pushes_to. destruct (m_mandatory m); reflexivity.
    + intros [q []].
    + intros _. unfold unroutable. destruct (m_mandatory m); simpl; split; try split; auto;
        try (intros [H|[H|[]]]; discriminate); try (intros [H|[]]; discriminate); try discriminate.
  - rewrite push_loop_all_exist in Hp by assumption.
    assert (acts = map PPush (q0 :: l')) as E by (inversion Hp; reflexivity). rewrite E. clear Hp E.
    unfold publish_spec. split; [|split; [|split]].
    + intros q Hi. rewrite pushes_to_map. apply NoDup_count_occ'; assumption.
    + intros q Hi. rewrite pushes_to_map. apply count_occ_not_In. assumption.
    + intros _ Hr. apply in_map_iff in Hr. destruct Hr as [x [Hx _]]. discriminate.
    + intro H. exfalso. apply (H q0). left. reflexivity.
Qed.

Theorem unroutable_decision : forall c find_ex qe m,
  (find_ex (m_exchange m) = None ->
     publish_decision c find_ex qe m = Some [PReturn; PConfirm]) /\
  (forall ex, find_ex (m_exchange m) = Some ex -> matched_queues c ex m = Some [] ->
     publish_decision c find_ex qe m = Some ((if m_mandatory m then [PReturn] else []) ++ [PConfirm])).
Proof.
  intros. unfold publish_decision. split.
  - intro H. rewrite H. reflexivity.
  - intros ex H1 H2. rewrite H1, H2. reflexivity.
Qed.

(* ------------------------------------------------------------------ Equal is a partial equivalence *)
Ltac eqs := repeat match goal with
  | H : _ && _ = true |- _ => apply andb_true_iff in H; destruct H
  | H : N.eqb _ _ = true |- _ => apply N.eqb_eq in H
  | H : Z.eqb _ _ = true |- _ => apply Z.eqb_eq in H
  | H : bytes_eqb _ _ = true |- _ => apply bytes_eqb_spec in H
  | H : ikind_eqb _ _ = true |- _ => apply ikind_eqb_spec in H
  | H : fkind_eqb _ _ = true |- _ => apply fkind_eqb_spec in H
  | H : Bool.eqb _ _ = true |- _ => apply eqb_prop in H
  end; subst.

Lemma float_eqb_sym : forall k a b, float_eqb k a b = float_eqb k b a.
Proof.
  intros. unfold float_eqb. rewrite (N.eqb_sym a b).
  destruct (f_is_nan k a), (f_is_nan k b), (f_is_zero k a), (f_is_zero k b), (N.eqb b a); reflexivity.
Qed.

Lemma float_eqb_trans : forall k a b c, float_eqb k a b = true -> float_eqb k b c = true -> float_eqb k a c = true.
Proof.
  intros k a b c H1 H2. unfold float_eqb in *.
  destruct (f_is_nan k a), (f_is_nan k b), (f_is_nan k c); simpl in *; try discriminate.
  destruct (N.eqb_spec a b), (N.eqb_spec b c); subst; simpl in *.
  - rewrite N.eqb_refl. reflexivity.
  - rewrite H2. apply orb_true_r.
  - rewrite H1. apply orb_true_r.
  - apply andb_true_iff in H1. apply andb_true_iff in H2. destruct H1 as [Ha _]. destruct H2 as [_ Hc].
    rewrite Ha, Hc. apply orb_true_r.
Qed.

Lemma ikind_eqb_refl : forall k, ikind_eqb k k = true.
Proof. destruct k; reflexivity. Qed.
Lemma fkind_eqb_refl : forall k, fkind_eqb k k = true.
Proof. destruct k; reflexivity. Qed.

Lemma deep_eqb_sym : forall a b, deep_eqb a b = deep_eqb b a.
Proof.
  destruct a as [|x|k x|k x|s x|x|x|x], b as [|y|k' y|k' y|s' y|y|y|y]; simpl; try reflexivity.
  - destruct x, y; reflexivity.
  - rewrite Z.eqb_sym. destruct k, k'; reflexivity.
  - destruct k, k'; simpl; try reflexivity; apply float_eqb_sym.
  - rewrite N.eqb_sym, Z.eqb_sym. reflexivity.
  - apply bytes_eqb_sym.
  - apply bytes_eqb_sym.
  - apply Z.eqb_sym.
Qed.

Lemma deep_eqb_trans : forall a b c, deep_eqb a b = true -> deep_eqb b c = true -> deep_eqb a c = true.
Proof.
  intros a b c H1 H2.
  destruct a, b; simpl in H1; try discriminate; destruct c; simpl in H2; try discriminate; simpl; eqs;
    rewrite ?N.eqb_refl, ?Z.eqb_refl, ?bytes_eqb_refl, ?eqb_reflx, ?ikind_eqb_refl, ?fkind_eqb_refl; try reflexivity.
  simpl. eapply float_eqb_trans; eassumption.
Qed.

Lemma table_eqb_sym : forall a b, table_eqb a b = table_eqb b a.
Proof.
  induction a as [|[k v] a IH]; destruct b as [|[k' v'] b]; simpl; try reflexivity.
  rewrite IH, bytes_eqb_sym, deep_eqb_sym. reflexivity.
Qed.

Lemma table_eqb_trans : forall a b c, table_eqb a b = true -> table_eqb b c = true -> table_eqb a c = true.
Proof.
  induction a as [|[k v] a IH]; destruct b as [|[k' v'] b]; simpl; intros c H1 H2; try discriminate.
  - assumption.
  - destruct c as [|[k'' v''] c]; simpl in *; try discriminate.
    apply andb_true_iff in H1. destruct H1 as [H1 H1c]. apply andb_true_iff in H1. destruct H1 as [H1a H1b].
    apply andb_true_iff in H2. destruct H2 as [H2 H2c]. apply andb_true_iff in H2. destruct H2 as [H2a H2b].
    apply bytes_eqb_spec in H1a. apply bytes_eqb_spec in H2a. subst.
    rewrite bytes_eqb_refl, (deep_eqb_trans _ _ _ H1b H2b), (IH _ _ H1c H2c). reflexivity.
Qed.

Lemma binding_equal_sym : forall a b, binding_equal a b = binding_equal b a.
Proof.
  intros. unfold binding_equal.
  rewrite (bytes_eqb_sym (b_exchange a)), (bytes_eqb_sym (b_queue a)), (bytes_eqb_sym (b_key a)).
  f_equal. destruct (b_args a), (b_args b); simpl; try reflexivity. apply table_eqb_sym.
Qed.

Lemma binding_equal_trans : forall a b c,
  binding_equal a b = true -> binding_equal b c = true -> binding_equal a c = true.
Proof.
  intros a b c H1 H2. unfold binding_equal in *.
  apply andb_true_iff in H1; destruct H1 as [H1 A4]; apply andb_true_iff in H1; destruct H1 as [H1 A3];
    apply andb_true_iff in H1; destruct H1 as [A1 A2].
  apply andb_true_iff in H2; destruct H2 as [H2 B4]; apply andb_true_iff in H2; destruct H2 as [H2 B3];
    apply andb_true_iff in H2; destruct H2 as [B1 B2].
  apply bytes_eqb_spec in A1, A2, A3, B1, B2, B3.
  rewrite A1, B1, A2, B2, A3, B3, !bytes_eqb_refl. simpl.
  destruct (b_args a), (b_args b), (b_args c); simpl in *; try discriminate; try reflexivity.
  eapply table_eqb_trans; eassumption.
Qed.

Lemma binding_equal_queue : forall a b, binding_equal a b = true -> b_queue a = b_queue b.
Proof.
  intros a b H. unfold binding_equal in H.
  apply andb_true_iff in H; destruct H as [H _]; apply andb_true_iff in H; destruct H as [H _];
    apply andb_true_iff in H; destruct H as [_ H].
  apply bytes_eqb_spec. assumption.
Qed.

(* ------------------------------------------------------------------ binding list maintenance *)
Notation beq := binding_equal.
Definition held (bs : list binding) (b : binding) : bool := existsb (fun x => beq x b) bs.
Notation nep := (no_equal_pair binding_equal).

Lemma held_true : forall bs b, held bs b = true <-> exists x, In x bs /\ beq x b = true.
Proof. intros. unfold held. apply existsb_exists. Qed.

Lemma held_false : forall bs b, held bs b = false <-> forall x, In x bs -> beq x b = false.
Proof.
  intros. unfold held. split.
  - intros H x Hx. destruct (beq x b) eqn:E; [|reflexivity].
    assert (existsb (fun x => beq x b) bs = true) by (apply existsb_exists; exists x; auto). congruence.
  - intro H. destruct (existsb (fun x => beq x b) bs) eqn:E; [|reflexivity].
    apply existsb_exists in E. destruct E as [x [Hx Hb]]. rewrite (H x Hx) in Hb. discriminate.
Qed.

Lemma nep_app : forall bs nb, nep bs -> (forall x, In x bs -> beq x nb = false) -> nep (bs ++ [nb]).
Proof.
  induction bs as [|b t IH]; intros nb Hn Hx; simpl.
  - split; [intros x []| exact I].
  - destruct Hn as [Hb Ht]. split.
    + intros x Hi. apply in_app_iff in Hi. destruct Hi as [Hi|[Hi|[]]].
      * apply Hb. assumption.
      * subst. apply Hx. left. reflexivity.
    + apply IH; [assumption|]. intros; apply Hx; right; assumption.
Qed.

Lemma nep_sub : forall (f : list binding -> list binding),
  (forall bs x, In x (f bs) -> In x bs) ->
  (forall b t, f (b :: t) = b :: f t \/ f (b :: t) = f t \/ f (b :: t) = t) ->
  forall bs, nep bs -> nep (f bs).
Proof.
  intros f Hin Hstep. induction bs as [|b t IH]; intro Hn.
  - destruct (f []) as [|x l] eqn:E; [exact I|]. exfalso. apply (Hin [] x). rewrite E. left. reflexivity.
  - destruct Hn as [Hb Ht]. destruct (Hstep b t) as [E|[E|E]]; rewrite E.
    + split; [|apply IH; assumption]. intros x Hx. apply Hb. apply Hin. assumption.
    + apply IH. assumption.
    + assumption.
Qed.

Lemma remove_binding_In : forall bs rm x, In x (remove_binding bs rm) -> In x bs.
Proof.
  induction bs as [|b t IH]; intros rm x H; simpl in *; [assumption|].
  destruct (beq b rm); [right; assumption|]. destruct H as [H|H]; [left; assumption | right; eapply IH; eassumption].
Qed.

Lemma nep_remove : forall bs rm, nep bs -> nep (remove_binding bs rm).
Proof.
  induction bs as [|b t IH]; intros rm Hn; simpl; [exact I|].
  destruct Hn as [Hb Ht]. destruct (beq b rm); [assumption|].
  split; [|apply IH; assumption]. intros x Hx. apply Hb. eapply remove_binding_In. eassumption.
Qed.

Lemma nep_filter : forall p bs, nep bs -> nep (filter p bs).
Proof.
  induction bs as [|b t IH]; intro Hn; simpl; [exact I|].
  destruct Hn as [Hb Ht]. destruct (p b); [|apply IH; assumption].
  split; [|apply IH; assumption]. intros x Hx. apply Hb. apply filter_In in Hx. tauto.
Qed.

Lemma held_append : forall bs nb b,
  held (append_binding bs nb) b = if beq nb b then true else held bs b.
Proof.
  intros bs nb b. unfold append_binding. fold (held bs nb). destruct (held bs nb) eqn:E.
  - destruct (beq nb b) eqn:Eb; [|reflexivity].
    apply held_true in E. destruct E as [x [Hx Hxn]]. apply held_true. exists x. split; [assumption|].
    eapply binding_equal_trans; eassumption.
  - unfold held. rewrite existsb_app. simpl. rewrite orb_false_r.
    destruct (beq nb b); [apply orb_true_r | apply orb_false_r].
Qed.

Lemma held_remove : forall bs rm b, nep bs ->
  held (remove_binding bs rm) b = if beq rm b then false else held bs b.
Proof.
  induction bs as [|b0 t IH]; intros rm b Hn; simpl.
  - destruct (beq rm b); reflexivity.
  - destruct Hn as [Hb Ht]. destruct (beq b0 rm) eqn:E0.
    + destruct (beq rm b) eqn:Er.
      * apply held_false. intros y Hy. destruct (beq y b) eqn:Ey; [|reflexivity]. exfalso.
        assert (beq y rm = true) as Hyr by (eapply binding_equal_trans; [eassumption | rewrite binding_equal_sym; assumption]).
        assert (beq y b0 = true) as Hy0 by (eapply binding_equal_trans; [eassumption | rewrite binding_equal_sym; assumption]).
        rewrite binding_equal_sym in Hy0. rewrite (Hb y Hy) in Hy0. discriminate.
      * destruct (beq b0 b) eqn:E0b; [|reflexivity]. exfalso.
        assert (beq rm b = true); [|congruence].
        eapply binding_equal_trans; [rewrite binding_equal_sym; eassumption | assumption].
    + simpl. fold (held (remove_binding t rm) b). rewrite IH by assumption.
      destruct (beq rm b) eqn:Er; [|reflexivity].
      rewrite orb_false_r. destruct (beq b0 b) eqn:E0b; [|reflexivity]. exfalso.
      assert (beq b0 rm = true); [|congruence].
      eapply binding_equal_trans; [eassumption | rewrite binding_equal_sym; assumption].
Qed.

Lemma held_remove_queue : forall bs q b,
  held (remove_queue_bindings bs q) b = if bytes_eqb (b_queue b) q then false else held bs b.
Proof.
  induction bs as [|b0 t IH]; intros q b; simpl.
  - destruct (bytes_eqb (b_queue b) q); reflexivity.
  - destruct (bytes_eqb (b_queue b0) q) eqn:E0; simpl.
    + rewrite IH. destruct (bytes_eqb (b_queue b) q) eqn:Eb; [reflexivity|].
      destruct (beq b0 b) eqn:E; [|reflexivity]. apply binding_equal_queue in E.
      rewrite E in E0. congruence.
    + fold (held (remove_queue_bindings t q) b). rewrite IH.
      destruct (bytes_eqb (b_queue b) q) eqn:Eb; [|reflexivity].
      rewrite orb_false_r. destruct (beq b0 b) eqn:E; [|reflexivity]. apply binding_equal_queue in E.
      rewrite E in E0. congruence.
Qed.

Theorem binding_maintenance : forall ops,
  no_equal_pair binding_equal (bl_run ops) /\
  forall b, held (bl_run ops) b = bound_after binding_equal (rev ops) b.
Proof.
  induction ops as [|op ops IH] using rev_ind.
  - split; [exact I | reflexivity].
  - destruct IH as [Hn Hh]. unfold bl_run in *. rewrite fold_left_app. simpl fold_left.
    rewrite rev_app_distr. simpl rev. simpl app. set (bs := fold_left bl_step ops []) in *.
    destruct op as [nb|rm|q]; simpl bl_step; simpl bound_after.
    + split.
      * unfold append_binding. fold (held bs nb). destruct (held bs nb) eqn:E; [assumption|].
        apply nep_app; [assumption|]. apply held_false. assumption.
      * intro b. rewrite held_append, Hh. reflexivity.
    + split; [apply nep_remove; assumption|]. intro b. rewrite held_remove by assumption. rewrite Hh. reflexivity.
    + split; [apply nep_filter; assumption|]. intro b. rewrite held_remove_queue, Hh. reflexivity.
Qed.

(* ------------------------------------------------------------------ the default exchange *)
Definition default_binding (q : name) : binding :=
  {| b_queue := q; b_exchange := []; b_key := q; b_args := Some []; b_topic := false; b_match := MatchAll |}.

(* the only way to damage the default bindings: an unbind that names the default exchange *)
Definition op_ok (c : route_cfg) (op : topo_op) : Prop :=
  match op with
  | TUnbind _ exn _ _ => c_unbind_refuses_default c = true \/ exn <> []
  | _ => True
  end.

Lemma new_default_binding : forall c q, sane c ->
  new_binding c q [] q (Some []) false = Some (default_binding q).
Proof. intros c q S. unfold new_binding. simpl. rewrite (s_def c S). reflexivity. Qed.

Lemma find_exchange_name : forall exs n e, find_exchange exs n = Some e -> ex_name e = n.
Proof.
  induction exs as [|x t IH]; intros n e H; simpl in H; [discriminate|].
  destruct (bytes_eqb (ex_name x) n) eqn:E; [inversion H; subst; apply bytes_eqb_spec; assumption | eapply IH; eassumption].
Qed.

Lemma find_update_same : forall exs n f e, find_exchange exs n = Some e ->
  find_exchange (update_exchange exs n f) n =
  Some {| ex_name := ex_name e; ex_type := ex_type e; ex_bindings := f (ex_bindings e) |}.
Proof.
  induction exs as [|x t IH]; intros n f e H; simpl in *; [discriminate|].
  destruct (bytes_eqb (ex_name x) n) eqn:E; simpl.
  - rewrite E. inversion H; subst. reflexivity.
  - rewrite E. apply IH. assumption.
Qed.

Lemma find_update_other : forall exs n n' f, n <> n' ->
  find_exchange (update_exchange exs n f) n' = find_exchange exs n'.
Proof.
  induction exs as [|x t IH]; intros n n' f D; simpl; [reflexivity|].
  destruct (bytes_eqb (ex_name x) n) eqn:E; simpl.
  - apply bytes_eqb_spec in E. rewrite E.
    destruct (bytes_eqb n n') eqn:E'; [apply bytes_eqb_spec in E'; contradiction | reflexivity].
  - destruct (bytes_eqb (ex_name x) n'); [reflexivity | apply IH; assumption].
Qed.

Lemma find_app : forall exs l n e, find_exchange exs n = Some e -> find_exchange (exs ++ l) n = Some e.
Proof.
  induction exs as [|x t IH]; intros l n e H; simpl in *; [discriminate|].
  destruct (bytes_eqb (ex_name x) n); [assumption | apply IH; assumption].
Qed.

Lemma find_map : forall (g : exchange -> exchange) exs n, (forall e, ex_name (g e) = ex_name e) ->
  find_exchange (map g exs) n = option_map g (find_exchange exs n).
Proof.
  intros g exs n Hg. induction exs as [|x t IH]; simpl; [reflexivity|].
  rewrite Hg. destruct (bytes_eqb (ex_name x) n); [reflexivity | assumption].
Qed.

Lemma queue_declared_In : forall t q, queue_declared t q = true <-> In q (t_queues t).
Proof. intros. unfold queue_declared. apply existsb_bytes_In. Qed.

Definition default_inv (c : route_cfg) (t : topo) : Prop :=
  exists e, find_exchange (t_exchanges t) [] = Some e /\ ex_type e = c_direct c /\
            forall b, In b (ex_bindings e) <-> exists q, In q (t_queues t) /\ b = default_binding q.

Lemma default_inv_step : forall c t op, sane c ->
  c_bind_refuses_default c = true -> c_default_binding_on_declare c = true ->
  op_ok c op -> default_inv c t -> default_inv c (topo_step c t op).
Proof.
  intros c t op S Hb Hd Hok [e [Hf [Ht Hbs]]].
  destruct op as [n ty|q|q exn key args|q exn key args|q]; simpl; unfold default_exchange_name in *.
  - (* declare exchange *)
    destruct (find_exchange (t_exchanges t) n) eqn:En.
    + exists e. auto.
    + exists e. simpl. split; [apply find_app; assumption | auto].
  - (* declare queue *)
    destruct (queue_declared t q) eqn:Eq.
    + exists e. auto.
    + rewrite Hd. rewrite (s_def c S). fold (default_binding q). unfold default_inv. simpl.
      rewrite (find_update_same _ _ _ e Hf). eexists. split; [reflexivity|]. simpl. split; [assumption|].
      assert (~ In q (t_queues t)) as Nq by (intro I; apply queue_declared_In in I; congruence).
      intro b. unfold append_binding. fold (held (ex_bindings e) (default_binding q)).
      destruct (held (ex_bindings e) (default_binding q)) eqn:Eh.
      * exfalso. apply held_true in Eh. destruct Eh as [x [Hx Hxe]]. apply Hbs in Hx.
        destruct Hx as [q' [Hq' Ex]]. subst x. apply binding_equal_queue in Hxe. simpl in Hxe. subst. contradiction.
      * rewrite in_app_iff, Hbs. simpl. split.
        -- intros [[q' [Hq' Ex]]|[Ex|[]]].
           ++ exists q'. split; [apply in_app_iff; left; assumption | assumption].
           ++ exists q. split; [apply in_app_iff; right; left; reflexivity | symmetry; assumption].
        -- intros [q' [Hq' Ex]]. apply in_app_iff in Hq'. destruct Hq' as [Hq'|[Hq'|[]]].
           ++ left. exists q'. auto.
           ++ right. left. subst. reflexivity.
  - (* bind *)
    destruct (find_exchange (t_exchanges t) exn) as [e'|] eqn:En; [|exists e; auto].
    rewrite Hb. cbn [andb]. destruct (bytes_eqb (ex_name e') []) eqn:Ed; [exists e; auto|].
    destruct (negb (queue_declared t q)); [exists e; auto|].
    destruct (new_binding c q exn key args (N.eqb (ex_type e') (c_topic c))); [|exists e; auto].
    exists e. simpl. split; [|auto].
    rewrite find_update_other; [assumption|].
    apply find_exchange_name in En. apply bytes_eqb_false in Ed. congruence.
  - (* unbind *)
    destruct (find_exchange (t_exchanges t) exn) as [e'|] eqn:En; [|exists e; auto].
    simpl in Hok. pose proof (find_exchange_name _ _ _ En) as Hn.
    destruct (c_unbind_refuses_default c && bytes_eqb (ex_name e') []) eqn:Er; [exists e; auto|].
    destruct (negb (queue_declared t q)); [exists e; auto|].
    destruct (new_binding c q exn key args (N.eqb (ex_type e') (c_topic c))); [|exists e; auto].
    exists e. simpl. split; [|auto].
    rewrite find_update_other; [assumption|].
    destruct Hok as [Hr|Hne]; [|assumption].
    rewrite Hr in Er. simpl in Er. apply bytes_eqb_false in Er. congruence.
  - (* delete queue *)
    destruct (negb (queue_declared t q)); [exists e; auto|]. unfold default_inv. cbn [t_exchanges t_queues].
    rewrite find_map by reflexivity. rewrite Hf. simpl. eexists. split; [reflexivity|]. simpl. split; [assumption|].
    intro b. unfold remove_queue_bindings. rewrite filter_In, Hbs. split.
    + intros [[q' [Hq' Ex]] Hn]. exists q'. split; [|assumption]. apply filter_In. split; [assumption|].
      subst b. simpl in Hn. assumption.
    + intros [q' [Hq' Ex]]. apply filter_In in Hq'. destruct Hq' as [Hq' Hn]. split; [exists q'; auto|].
      subst b. simpl. assumption.
Qed.

Lemma default_inv_run : forall c ops t, sane c ->
  c_bind_refuses_default c = true -> c_default_binding_on_declare c = true ->
  Forall (op_ok c) ops -> default_inv c t -> default_inv c (topo_run c t ops).
Proof.
  intros c ops. induction ops as [|op ops IH]; intros t S Hb Hd Hok Hi; [assumption|].
  unfold topo_run. simpl. inversion Hok; subst. apply IH; try assumption.
  apply default_inv_step; assumption.
Qed.

Theorem default_exchange_routes_by_name : forall c ops, cfg_sane c = true ->
  c_bind_refuses_default c = true -> c_default_binding_on_declare c = true ->
  Forall (op_ok c) ops ->
  let t := topo_run c (topo_init c) ops in
  exists e, find_exchange (t_exchanges t) [] = Some e /\
    forall m, m_exchange m = [] ->
      exists l, matched_queues c e m = Some l /\ forall q, In q l <-> default_route_spec (t_queues t) m q.
Proof.
  intros c ops Hc Hb Hd Hok t. pose proof (cfg_sane_sane c Hc) as S.
  assert (default_inv c t) as [e [Hf [Ht Hbs]]].
  { apply default_inv_run; try assumption.
    eexists. split; [reflexivity|]. simpl. split; [reflexivity|]. intro b. split; [intros [] | intros [q [[] _]]]. }
  exists e. split; [assumption|]. intros m Hm.
  unfold matched_queues. rewrite Ht, N.eqb_refl, (s_ed c S).
  destruct (mq_loop_spec (fun b => Some (match_direct b (m_exchange m) (m_key m)))
              (fun b => match_direct b (m_exchange m) (m_key m)) (ex_bindings e) (fun _ _ => eq_refl) [])
    as [l [Hl Hq]].
  exists l. split; [assumption|]. intro q. rewrite Hq. unfold default_route_spec. split.
  - intros [[]|[b [Hi [Hmd Hqb]]]]. apply Hbs in Hi. destruct Hi as [q' [Hq' Eb]]. subst b.
    apply match_direct_spec in Hmd. simpl in *. destruct Hmd as [_ Hk]. subst. auto.
  - intros [Hi Hk]. right. exists (default_binding q). split; [apply Hbs; exists q; auto|].
    split; [|reflexivity]. apply match_direct_spec. simpl. rewrite Hm. auto.
Qed.

Corollary default_exchange_routes_by_name_full : forall c ops, cfg_sane c = true ->
  c_bind_refuses_default c = true -> c_unbind_refuses_default c = true ->
  c_default_binding_on_declare c = true ->
  let t := topo_run c (topo_init c) ops in
  exists e, find_exchange (t_exchanges t) [] = Some e /\
    forall m, m_exchange m = [] ->
      exists l, matched_queues c e m = Some l /\ forall q, In q l <-> default_route_spec (t_queues t) m q.
Proof.
  intros c ops Hc Hb Hu Hd. apply default_exchange_routes_by_name; try assumption.
  apply Forall_forall. intros op _. destruct op; simpl; auto.
Qed.

(* ------------------------------------------------------------------ refutations of the unrepaired code *)
Definition bq (q key : bytes) (args : option table) (mt : match_type) : binding :=
  {| b_queue := q; b_exchange := [101]; b_key := key; b_args := args; b_topic := false; b_match := mt |}.

(* F04: with the early return of the direct loop, the second queue bound with the same key is missed *)
Lemma direct_early_return_refuted : forall c, cfg_sane c = true ->
  exists ex m q, kind_of c (ex_type ex) = Some KDirect /\ Forall (binding_wf c KDirect) (ex_bindings ex) /\
    route_spec true KDirect (ex_bindings ex) m q /\
    exists l, matched_queues (cfg_set c true (c_cmp c) (c_unbind_refuses_default c)) ex m = Some l /\ ~ In q l.
Proof.
  intros c Hc. pose proof (cfg_sane_sane c Hc) as S.
  exists {| ex_name := [101]; ex_type := c_direct c;
            ex_bindings := [bq [113; 49] [107] None MatchAll; bq [113; 50] [107] None MatchAll] |}.
  exists {| m_exchange := [101]; m_key := [107]; m_headers := None; m_mandatory := false |}.
  exists [113; 50]. split; [unfold kind_of; simpl; rewrite N.eqb_refl; reflexivity|].
  split; [repeat constructor|].
  split.
  - exists (bq [113; 50] [107] None MatchAll). simpl. auto.
  - exists [[113; 49]]. split.
    + unfold matched_queues. simpl. rewrite N.eqb_refl. reflexivity.
    + simpl. intros [H|[]]. discriminate.
Qed.

(* F11: with `==` on interface values a []byte argument met by a []byte header panics *)
Lemma iface_eq_panics : forall c, cfg_sane c = true ->
  exists ex m, kind_of c (ex_type ex) = Some KHeaders /\ Forall (binding_wf c KHeaders) (ex_bindings ex) /\
    matched_queues (cfg_set c (c_early_direct c) CmpIfaceEq (c_unbind_refuses_default c)) ex m = None.
Proof.
  intros c Hc. pose proof (cfg_sane_sane c Hc) as S.
  destruct (n_distinct4_spec _ _ _ _ (s_ids c S)) as [D1 [D2 [D3 [D4 [D5 D6]]]]].
  exists {| ex_name := [101]; ex_type := c_headers c;
            ex_bindings := [bq [113] [] (Some [([104], VBytes [1])]) MatchAll] |}.
  exists {| m_exchange := [101]; m_key := []; m_headers := Some [([104], VBytes [1])]; m_mandatory := false |}.
  split; [|split].
  - unfold kind_of. simpl.
    rewrite (proj2 (N.eqb_neq _ _)) by congruence. rewrite (proj2 (N.eqb_neq _ _)) by congruence.
    rewrite (proj2 (N.eqb_neq _ _)) by congruence. rewrite N.eqb_refl. reflexivity.
  - constructor; [|constructor]. unfold binding_wf, new_binding. simpl.
    rewrite (s_xm c S). simpl. rewrite (s_def c S). reflexivity.
  - unfold matched_queues. simpl.
    rewrite (proj2 (N.eqb_neq _ _)) by congruence. rewrite (proj2 (N.eqb_neq _ _)) by congruence.
    rewrite (proj2 (N.eqb_neq _ _)) by congruence. rewrite N.eqb_refl.
    unfold match_header. simpl. rewrite (s_xp c S). reflexivity.
Qed.

(* F51 (open): a message without a headers table misses a binding whose argument table has
   nothing to match, although `all` over zero arguments holds *)
Lemma no_headers_table_refuted : forall c, cfg_sane c = true ->
  exists ex m q, kind_of c (ex_type ex) = Some KHeaders /\ Forall (binding_wf c KHeaders) (ex_bindings ex) /\
    route_spec true KHeaders (ex_bindings ex) m q /\ matched_queues c ex m = Some [].
Proof.
  intros c Hc. pose proof (cfg_sane_sane c Hc) as S.
  destruct (n_distinct4_spec _ _ _ _ (s_ids c S)) as [D1 [D2 [D3 [D4 [D5 D6]]]]].
  exists {| ex_name := [101]; ex_type := c_headers c; ex_bindings := [bq [113] [] (Some []) MatchAll] |}.
  exists {| m_exchange := [101]; m_key := []; m_headers := None; m_mandatory := false |}.
  exists [113]. split; [|split; [|split]].
  - unfold kind_of. simpl.
    rewrite (proj2 (N.eqb_neq _ _)) by congruence. rewrite (proj2 (N.eqb_neq _ _)) by congruence.
    rewrite (proj2 (N.eqb_neq _ _)) by congruence. rewrite N.eqb_refl. reflexivity.
  - constructor; [|constructor]. unfold binding_wf, new_binding. simpl. rewrite (s_def c S). reflexivity.
  - exists (bq [113] [] (Some []) MatchAll). simpl. repeat split; auto.
    unfold headers_rule. simpl. constructor.
  - unfold matched_queues. simpl.
    rewrite (proj2 (N.eqb_neq _ _)) by congruence. rewrite (proj2 (N.eqb_neq _ _)) by congruence.
    rewrite (proj2 (N.eqb_neq _ _)) by congruence. rewrite N.eqb_refl.
    reflexivity.
Qed.

(* F50: when queue.unbind accepts the default exchange, the implicit binding can be removed
   (stated for the configuration read from the code, with the refusal switched off) *)
Lemma unbind_default_refuted :
  let c' := cfg_set gen_cfg (c_early_direct gen_cfg) (c_cmp gen_cfg) false in
  exists ops q e, let t := topo_run c' (topo_init c') ops in
    In q (t_queues t) /\ find_exchange (t_exchanges t) [] = Some e /\
    matched_queues c' e {| m_exchange := []; m_key := q; m_headers := None; m_mandatory := true |} = Some [].
Proof.
  exists [TDeclareQueue [113]; TUnbind [113] [] [113] (Some [])]. exists [113].
  eexists. vm_compute. split; [left; reflexivity|]. split; reflexivity.
Qed.

(* ------------------------------------------------------------------ never twice, never elsewhere (no hypothesis on the queues) *)
Lemma pushes_to_app : forall q a b, pushes_to q (a ++ b) = (pushes_to q a + pushes_to q b)%nat.
Proof. intros. unfold pushes_to. rewrite filter_app, app_length. reflexivity. Qed.

Lemma pushes_to_unroutable : forall q mand, pushes_to q (unroutable mand) = 0%nat.
Proof. intros. unfold unroutable. destruct mand; reflexivity. Qed.

Lemma push_loop_prefix : forall qe mand l,
  exists pre post, l = pre ++ post /\
    (push_loop qe mand l = map PPush pre \/ push_loop qe mand l = map PPush pre ++ unroutable mand).
Proof.
  intros qe mand l. induction l as [|x l IH]; simpl.
  - exists [], []. auto.
  - destruct (qe x).
    + destruct IH as [pre [post [E [H|H]]]]; exists (x :: pre), post; subst; simpl; rewrite H; auto.
    + exists [], (x :: l). simpl. auto.
Qed.

Lemma NoDup_app_l : forall (A : Type) (a b : list A), NoDup (a ++ b) -> NoDup a.
Proof.
  induction a as [|x a IH]; intros b H; [constructor|].
  simpl in H. inversion H; subst. constructor.
  - intro I. apply H2. apply in_app_iff. left. assumption.
  - eapply IH. eassumption.
Qed.

Theorem placed_at_most_once : forall c find_ex qe m ex l acts,
  find_ex (m_exchange m) = Some ex ->
  matched_queues c ex m = Some l ->
  publish_decision c find_ex qe m = Some acts ->
  forall q, (pushes_to q acts <= 1)%nat /\ (pushes_to q acts = 1%nat -> In q l).
Proof.
  intros c find_ex qe m ex l acts Hf Hm Hp q.
  pose proof (matched_queues_nodup c ex m l Hm) as Hn.
  unfold publish_decision in Hp. rewrite Hf, Hm in Hp.
  assert (acts = unroutable (m_mandatory m) \/ acts = push_loop qe (m_mandatory m) l) as [E|E].
  { destruct l; inversion Hp; auto. }
  - subst. rewrite pushes_to_unroutable. split; [lia | discriminate].
  - subst. destruct (push_loop_prefix qe (m_mandatory m) l) as [pre [post [El [H|H]]]]; rewrite H;
      rewrite ?pushes_to_app, ?pushes_to_unroutable, ?Nat.add_0_r, pushes_to_map;
      subst l; apply NoDup_app_l in Hn.
    + split.
      * rewrite (NoDup_count_occ (list_eq_dec N.eq_dec)) in Hn. apply Hn.
      * intro H1. apply in_app_iff. left. apply (count_occ_In (list_eq_dec N.eq_dec)). lia.
    + split.
      * rewrite (NoDup_count_occ (list_eq_dec N.eq_dec)) in Hn. apply Hn.
      * intro H1. apply in_app_iff. left. apply (count_occ_In (list_eq_dec N.eq_dec)). lia.
Qed.

Corollary wellformed_binding_accepted : forall c q ex key args topic, cfg_sane c = true -> c_xmatch_bytes c = true ->
  (topic = true -> pattern_ok key = true) -> xmatch_allowed args ->
  exists b, new_binding c q ex key args topic = Some b.
Proof. intros c q ex key args topic Hc. apply new_binding_accepts. apply cfg_sane_sane. assumption. Qed.
