(* C20: what the count-carrying replies say, in every reachable state. *)
From Coq Require Import List String NArith ZArith Bool Lia.
From RecordUpdate Require Import RecordUpdate.
Import ListNotations.
From GMQ Require Import Broker.Model Proofs.BrokerFrames Proofs.BrokerQueueInv.
Open Scope N_scope.

Lemma length_counter_exact cfg fx ls qn qu :
    fx_delete_checks_first fx = true ->
    get_queue (fst (run cfg fx (init cfg) ls)) qn = Some qu ->
    q_len qu = Z.of_nat (List.length (q_ready qu)) /\ q_mready qu = Z.of_nat (List.length (q_ready qu)).
Proof. intros Hfx Hg. pose proof (queue_invariant_reachable cfg fx ls qn qu Hfx Hg). tauto. Qed.

Lemma Z_to_N_of_nat n : Z.to_N (Z.of_nat n) = N.of_nat n.
Proof. rewrite <- nat_N_Z. apply N2Z.id. Qed.

Lemma declare_ok_counts cfg fx ls c h name s' evs :
    fx_delete_checks_first fx = true ->
    let s := fst (run cfg fx (init cfg) ls) in
    get_chan s c h <> None ->
    handle_method cfg fx s c h (MQDeclare name false false false true false) = (s', evs, None) ->
    exists qu, get_queue s name = Some qu /\
      evs = [(c, h, SQDeclareOk name (N.of_nat (List.length (q_ready qu)) mod two32) (N.of_nat (List.length (q_consumers qu))))].
Proof.
  intros Hfx s Hc H. unfold handle_method in H.
  destruct (get_chan s c h) as [ch|]; [|congruence].
  destruct (seqb name ""); [inversion H|]. cbv iota beta in H.
  destruct (queue_found s name) as [qu|] eqn:Ef; [|inversion H].
  apply queue_found_get in Ef.
  destruct (locked qu c); cbv iota beta in H; [inversion H|].
  unfold ok, out1 in H. inversion H; subst. exists qu. split; auto.
  destruct (length_counter_exact cfg fx ls name qu Hfx Ef) as [E _]. rewrite E, Z_to_N_of_nat. reflexivity.
Qed.

Lemma get_queue_set_queue s q v q' : get_queue (set_queue s q v) q' = if seqb q' q then Some v else get_queue s q'.
Proof. unfold get_queue, set_queue. cbn. apply alookup_aset. apply seqb_spec. Qed.

Lemma purge_ok_count cfg fx ls c h name s' evs :
    fx_delete_checks_first fx = true ->
    let s := fst (run cfg fx (init cfg) ls) in
    get_chan s c h <> None ->
    handle_method cfg fx s c h (MQPurge name false) = (s', evs, None) ->
    exists qu qu', get_queue s name = Some qu /\ get_queue s' name = Some qu' /\ q_ready qu' = [] /\
      evs = [(c, h, SQPurgeOk (N.of_nat (List.length (q_ready qu)) mod two32))].
Proof.
  intros Hfx s Hc H. unfold handle_method in H.
  destruct (get_chan s c h) as [ch|]; [|congruence].
  destruct (queue_found s name) as [qu|] eqn:Ef; [|inversion H].
  apply queue_found_get in Ef.
  destruct (locked qu c); [inversion H|].
  unfold ok, out1 in H. inversion H; subst. clear H.
  destruct (length_counter_exact cfg fx ls name qu Hfx Ef) as [E _].
  eexists qu, _. split; [exact Ef|]. split.
  - rewrite get_queue_set_queue. rewrite (proj2 (seqb_spec name name) eq_refl). reflexivity.
  - split; [reflexivity|]. rewrite E, Z_to_N_of_nat. reflexivity.
Qed.

Lemma get_empty_iff cfg fx ls c h name s' evs :
    fx_delete_checks_first fx = true ->
    let s := fst (run cfg fx (init cfg) ls) in
    get_chan s c h <> None ->
    handle_method cfg fx s c h (MGet name true) = (s', evs, None) ->
    exists qu, get_queue s name = Some qu /\ (evs = [(c, h, SGetEmpty)] <-> q_ready qu = []).
Proof.
  intros Hfx s Hc H. unfold handle_method in H.
  destruct (get_chan s c h) as [ch|]; [|congruence].
  destruct (queue_found s name) as [qu|] eqn:Ef; [|inversion H].
  apply queue_found_get in Ef.
  destruct (_ && _)%bool; [inversion H|].
  exists qu. split; auto.
  destruct (q_ready qu) as [|u rest] eqn:Er.
  - unfold ok, out1 in H. inversion H; subst. tauto.
  - cbn [reserve] in H. unfold ok in H.
    match type of H with (_, ?e, None) = _ => assert (Hne : e <> [(c, h, SGetEmpty)]) end.
    { destruct (get_msg _ u); unfold out1; cbn; congruence. }
    inversion H; subst. split; [intros Hx; contradiction|discriminate].
Qed.
