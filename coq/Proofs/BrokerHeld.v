(* What a queue object "holds": the messages waiting in it and the messages delivered from it and not yet settled.
   A queue object is identified by its id (q_id; a name that is deleted and declared again is a new object, and an
   unsettled delivery remembers the object it came from in u_qid).  Shared by the conservation theorems (C01), the
   single-holder theorems (C02) and the liveness invariant (C07).  Definitions only. *)
From Coq Require Import List String NArith ZArith Bool.
Import ListNotations.
From GMQ Require Import Broker.Model.
Open Scope N_scope.

(* every unsettled delivery of every channel of every connection, in connection / channel order *)
Definition chan_unacked_all (cn : conn) : list unacked := flat_map (fun kh => ch_unacked (snd kh)) (cn_chans cn).
Definition all_unacked (s : state) : list unacked := flat_map (fun kc => chan_unacked_all (snd kc)) (conns s).

(* the waiting messages of the queue object qid (oldest first) *)
Definition ready_of (s : state) (qid : N) : list N :=
  flat_map (fun kq => if q_id (snd kq) =? qid then q_ready (snd kq) else []) (queues s).

(* the messages delivered from the queue object qid and not yet settled *)
Definition unacked_of (s : state) (qid : N) : list N :=
  map u_msg (filter (fun u => u_qid u =? qid) (all_unacked s)).

Definition held (s : state) (qid : N) : list N := ready_of s qid ++ unacked_of s qid.

(* the queue object qid exists (under whatever name) *)
Definition queue_alive (s : state) (qid : N) : bool := existsb (fun kq => q_id (snd kq) =? qid) (queues s).
