(* Invariant of every channel over ALL label sequences (C15 core): the unacknowledged deliveries of a channel carry
   distinct tags, none above the channel's delivery-tag counter; a closed channel holds none. *)
From Coq Require Import List String NArith ZArith Bool Lia.
From RecordUpdate Require Import RecordUpdate.
Import ListNotations.
From GMQ Require Import Broker.Model Proofs.BrokerFrames Proofs.BrokerTags.
Open Scope N_scope.

Definition chinv (h : N) (ch : channel) : Prop :=
  NoDup (map u_tag (ch_unacked ch)) /\
  (forall u, In u (ch_unacked ch) -> u_tag u <= ch_dtag ch).

Definition allch (P : N -> N -> channel -> Prop) (s : state) : Prop :=
  forall c h ch, get_chan s c h = Some ch -> P c h ch.

Lemma allch_get (P : N -> N -> channel -> Prop) s c h ch : allch P s -> get_chan s c h = Some ch -> P c h ch.
Proof. intros H Hg. apply H; auto. Qed.

Lemma allch_same_conns (P : N -> N -> channel -> Prop) s s' : conns s' = conns s -> allch P s -> allch P s'.
Proof. unfold allch. intros E H c h ch Hg. apply H. rewrite <- (get_chan_same_conns s s' c h E). exact Hg. Qed.

Lemma allch_set_stage (P : N -> N -> channel -> Prop) s c st : allch P s -> allch P (set_stage s c st).
Proof. unfold allch. intros H c' h' ch Hg. rewrite get_chan_set_stage in Hg. apply H. exact Hg. Qed.

Lemma allch_set_chan (P : N -> N -> channel -> Prop) s c h ch : P c h ch -> allch P s -> allch P (set_chan s c h ch).
Proof.
  intros Hp H c' h' ch' Hg. rewrite get_chan_set_chan in Hg.
  destruct (get_conn s c); [|apply H; auto].
  destruct ((c' =? c) && (h' =? h)) eqn:Eb; [|apply H; auto].
  apply andb_prop in Eb. destruct Eb as [E1 E2]. apply N.eqb_eq in E1, E2. subst. inversion Hg; subst. auto.
Qed.

Lemma allch_upd_chan (P : N -> N -> channel -> Prop) s c h f : (forall ch, P c h ch -> P c h (f ch)) -> allch P s -> allch P (upd_chan s c h f).
Proof.
  intros Hf H. unfold upd_chan. destruct (get_chan s c h) as [ch|] eqn:E; auto.
  apply allch_set_chan; auto.
Qed.

Lemma allch_upd_chan_at (P : N -> N -> channel -> Prop) s c h f ch :
  get_chan s c h = Some ch -> P c h (f ch) -> allch P s -> allch P (upd_chan s c h f).
Proof. intros Hg Hp H. unfold upd_chan. rewrite Hg. apply allch_set_chan; auto. Qed.

Lemma get_chan_set_conn_qos s c cn f c' h' :
  get_conn s c = Some cn ->
  get_chan (s <| conns := aset N.eqb c (cn <| cn_qos ::= f |>) (conns s) |>) c' h' = get_chan s c' h'.
Proof.
  intros E. unfold get_chan, get_conn in *. cbn. rewrite (alookup_aset N.eqb Neqb_spec).
  destruct (c' =? c) eqn:E1; [|reflexivity]. apply N.eqb_eq in E1. subst. rewrite E. reflexivity.
Qed.

Lemma allch_set_conn_qos (P : N -> N -> channel -> Prop) s c cn f :
  get_conn s c = Some cn -> allch P s -> allch P (s <| conns := aset N.eqb c (cn <| cn_qos ::= f |>) (conns s) |>).
Proof. intros Ec H c' h' ch' Hg. rewrite (get_chan_set_conn_qos _ _ _ _ _ _ Ec) in Hg. apply H; auto. Qed.

Lemma get_chan_del_conn s c c' h' :
  get_chan (s <| conns := adel N.eqb c (conns s) |>) c' h' = if c' =? c then None else get_chan s c' h'.
Proof.
  unfold get_chan, get_conn. cbn. rewrite (alookup_adel N.eqb Neqb_spec). destruct (c' =? c); reflexivity.
Qed.

Lemma allch_del_conn (P : N -> N -> channel -> Prop) s c : allch P s -> allch P (s <| conns := adel N.eqb c (conns s) |>).
Proof. intros H c' h' ch' Hg. rewrite get_chan_del_conn in Hg. destruct (c' =? c); [discriminate|]. apply H; auto. Qed.

Definition chinvp (c h : N) (ch : channel) : Prop := chinv h ch.
Notation CI := (allch chinvp).

Lemma NoDup_map_filter {A B} (f : A -> B) (p : A -> bool) l : NoDup (map f l) -> NoDup (map f (filter p l)).
Proof.
  induction l as [|a l IH]; simpl; auto. intros H. inversion H as [|? ? Hni Hnd]; subst.
  destruct (p a); simpl; auto. constructor; auto.
  intros Hin. apply Hni. apply in_map_iff in Hin. destruct Hin as (x & Ex & Hx). apply filter_In in Hx.
  rewrite <- Ex. apply in_map. tauto.
Qed.

Lemma chinv_orphan h ch tag : chinv h ch -> chinv h (ch <| ch_unacked ::= map (orphan tag) |>).
Proof.
  unfold chinv. cbn. intros (A & B). rewrite map_orphan_tag. split; auto.
  intros u Hu. apply in_map_iff in Hu. destruct Hu as (u0 & E & Hu0). subst u.
  destruct (orphan_fields tag u0) as (Et & _). rewrite Et. auto.
Qed.

Lemma chinv_del h ch tag : chinv h ch -> chinv h (del_unacked ch tag).
Proof.
  unfold chinv, del_unacked. cbn. intros (A & B). split.
  - apply NoDup_map_filter; auto.
  - intros u Hu. apply filter_In in Hu. apply B. tauto.
Qed.

Lemma NoDup_snoc {A} (l : list A) x : NoDup l -> ~ In x l -> NoDup (l ++ [x]).
Proof.
  induction l as [|a l IH]; simpl; intros Hnd Hni; [constructor; auto; constructor|].
  inversion Hnd; subst. constructor.
  - intros Hin. apply in_app_or in Hin. destruct Hin as [Hin|[Hin|[]]]; [auto|subst; apply Hni; auto].
  - apply IH; auto.
Qed.

Lemma chinv_deliver h ch un : u_tag un = ch_dtag ch + 1 -> chinv h ch ->
  chinv h (ch <| ch_dtag := ch_dtag ch + 1 |> <| ch_unacked ::= fun l => l ++ [un] |>).
Proof.
  unfold chinv. cbn. intros Et (A & B). split.
  - rewrite map_app. cbn. apply NoDup_snoc; auto.
    intros Hx. apply in_map_iff in Hx. destruct Hx as (u & Eu & Hu). specialize (B u Hu). lia.
  - intros u Hu. apply in_app_or in Hu. destruct Hu as [Hu|[Hu|[]]]; [specialize (B u Hu); lia|subst; lia].
Qed.

Lemma chinv_consumers h ch ch' :
  ch_unacked ch' = ch_unacked ch -> ch_status ch' = ch_status ch -> ch_dtag ch <= ch_dtag ch' ->
  (ch_consumers ch = [] -> ch_consumers ch' = []) -> chinv h ch -> chinv h ch'.
Proof.
  unfold chinv. intros E1 E3 E4 E2 (A & B). rewrite E1. split; auto.
  intros u Hu. specialize (B u Hu). lia.
Qed.

Lemma map_nil_of_nil {A B} (f : A -> B) l : l = [] -> map f l = [].
Proof. intros ->. reflexivity. Qed.
Lemma filter_nil_of_nil' {A} (p : A -> bool) l : l = [] -> filter p l = [].
Proof. intros ->. reflexivity. Qed.

Lemma conns_queue_ops :
  (forall s qn u, conns (queue_push s qn u) = conns s) /\
  (forall s qn u, conns (queue_ackmsg s qn u) = conns s) /\
  (forall s qn u, conns (queue_requeue s qn u) = conns s) /\
  (forall s qn c h tag, conns (queue_remove_consumer s qn c h tag) = conns s).
Proof.
  repeat split; intros.
  - unfold queue_push. destruct (get_queue s qn); auto. destruct (get_msg s u) as [m|]; auto. destruct (negb _); auto.
    cbn. destruct (_ && _); cbn; auto. destruct (m_conf m); cbn; auto. rewrite conns_upd_msg. reflexivity.
  - unfold queue_ackmsg. destruct (get_queue s qn); auto. destruct (get_msg s u); auto. destruct (negb _); auto.
    cbn. destruct (_ && _); auto.
  - unfold queue_requeue. destruct (get_queue s qn); auto. destruct (negb _); auto. cbn. rewrite conns_upd_msg. apply store_writeback_frame.
  - unfold queue_remove_consumer. destruct (get_queue s qn); auto. cbn.
    repeat match goal with |- context [if ?b then _ else _] => destruct b end; reflexivity.
Qed.

Ltac same_conns := first
  [ eapply allch_same_conns; [first
      [ apply conns_set_queue | apply conns_upd_queue | apply conns_upd_msg
      | apply (proj1 conns_queue_ops) | apply (proj1 (proj2 conns_queue_ops))
      | apply (proj1 (proj2 (proj2 conns_queue_ops))) | apply (proj2 (proj2 (proj2 conns_queue_ops))) ] | ]
  | match goal with |- allch _ (@set _ _ _ _ _ ?s) => apply (allch_same_conns _ s); [reflexivity|] end ].

(* ------------------------------------------------------------------ *)
(* Preservation through the settlement primitives, for ANY channel predicate closed under
   (a) updates that keep unacked list and status, do not lower the tag counter and keep an empty consumer list empty,
   (b) removal of one unacked entry. *)
Section Generic.
Variable P : N -> N -> channel -> Prop.
Hypothesis P_keep : forall c h ch ch',
  ch_unacked ch' = ch_unacked ch -> ch_status ch' = ch_status ch -> ch_dtag ch <= ch_dtag ch' ->
  (ch_consumers ch = [] -> ch_consumers ch' = []) -> P c h ch -> P c h ch'.
Hypothesis P_del : forall c h ch tag, P c h ch -> P c h (del_unacked ch tag).

Ltac keep_upd :=
  first [ apply allch_upd_chan; [intros ch0 Hch0; eapply P_keep; [..|exact Hch0]; cbn;
                                 first [reflexivity | apply N.le_refl | apply map_nil_of_nil | apply filter_nil_of_nil' | lia | auto]|]
        | eapply allch_set_conn_qos; [eassumption|] ].

Ltac sc := repeat (first [ assumption
                         | match goal with |- allch _ (if ?b then _ else _) => destruct b end
                         | match goal with |- allch _ (match ?x with _ => _ end) => destruct x eqn:? end
                         | same_conns | keep_upd ]).

Lemma G_wake s c h tag : allch P s -> allch P (fst (wake_consumer s c h tag)).
Proof.
  intros H. unfold wake_consumer. destruct (get_chan s c h) as [ch|] eqn:E; auto.
  destruct (find_consumer ch tag) as [cm|]; auto. destruct (consume_msg cm) as [cm' b]. cbn [fst].
  apply allch_set_chan; auto. eapply P_keep; [..|eapply allch_get; eauto]; cbn; try reflexivity.
  apply map_nil_of_nil.
Qed.

Lemma G_queue_remove_consumer s qn c h tag : allch P s -> allch P (queue_remove_consumer s qn c h tag).
Proof. intros H. same_conns. exact H. Qed.

Lemma G_consumer_stop s c h tag : allch P s -> allch P (consumer_stop s c h tag).
Proof.
  intros H. unfold consumer_stop. destruct (get_chan s c h) as [ch|] eqn:E; auto.
  destruct (find_consumer ch tag) as [cm|]; auto.
  destruct (c_status cm); auto; apply G_queue_remove_consumer; apply allch_set_chan; auto;
    (eapply P_keep; [..|eapply allch_get; eauto]; cbn; try reflexivity; apply map_nil_of_nil).
Qed.

Lemma G_wake_all s c h : allch P s -> allch P (wake_all_of_chan s c h).
Proof.
  intros H. unfold wake_all_of_chan. apply allch_upd_chan; auto.
  intros ch0 Hch0. eapply P_keep; [..|exact Hch0]; cbn; try reflexivity. apply map_nil_of_nil.
Qed.

Lemma G_wake_consumers cfg s c h : allch P s -> allch P (wake_consumers cfg s c h).
Proof.
  intros H. unfold wake_consumers. pose proof (G_wake_all s c h H) as H1.
  destruct (cfg_rabbit cfg); auto. destruct (get_conn _ c) as [cn|]; auto.
  apply fold_left_preserves; auto. intros s0 x H0. destruct (fst x =? h); auto. apply G_wake_all; auto.
Qed.

Lemma G_dec_qos cfg s c h u : allch P s -> allch P (dec_qos_and_consume_next cfg s c h u).
Proof.
  intros H. unfold dec_qos_and_consume_next. destruct (get_chan s c h) as [ch|]; auto.
  apply G_wake_consumers. sc.
Qed.

Lemma G_chan_ackmsg s u : allch P s -> allch P (chan_ackmsg s u).
Proof. intros H. unfold chan_ackmsg. destruct (origin_queue s u); [same_conns; auto|sc]. Qed.
Lemma G_chan_rejectmsg s u r : allch P s -> allch P (chan_rejectmsg s u r).
Proof.
  intros H. unfold chan_rejectmsg. destruct (origin_queue s u); [|sc].
  destruct r; same_conns; auto.
Qed.

Lemma G_del_unacked s c h tag : allch P s -> allch P (upd_chan s c h (fun ch => del_unacked ch tag)).
Proof. intros H. apply allch_upd_chan; auto. Qed.

Lemma G_handle_reject cfg s c h tag mult requeue cls mth : allch P s -> allch P (fst (handle_reject cfg s c h tag mult requeue cls mth)).
Proof.
  intros H. unfold handle_reject. destruct (get_chan s c h) as [ch|]; auto.
  destruct mult.
  - cbn [fst]. apply fold_left_preserves; [intros; apply G_dec_qos; auto|].
    apply fold_left_preserves; auto. intros s0 a H0. apply G_chan_rejectmsg. apply G_del_unacked; auto.
  - destruct (find _ _); cbn [fst]; auto. apply G_dec_qos. apply G_chan_rejectmsg. apply G_del_unacked; auto.
Qed.

Lemma G_handle_ack cfg s c h tag mult : allch P s -> allch P (fst (handle_ack cfg s c h tag mult)).
Proof.
  intros H. unfold handle_ack. destruct (get_chan s c h) as [ch|]; auto.
  destruct mult.
  - cbn [fst]. apply fold_left_preserves; [intros; apply G_dec_qos; auto|].
    apply fold_left_preserves; auto. intros s0 a H0. apply G_chan_ackmsg. apply G_del_unacked; auto.
  - destruct (find _ _); cbn [fst]; auto. apply G_dec_qos. apply G_chan_ackmsg. apply G_del_unacked; auto.
Qed.
End Generic.

(* the two instances *)
Lemma chinvp_keep : forall c h ch ch',
  ch_unacked ch' = ch_unacked ch -> ch_status ch' = ch_status ch -> ch_dtag ch <= ch_dtag ch' ->
  (ch_consumers ch = [] -> ch_consumers ch' = []) -> chinvp c h ch -> chinvp c h ch'.
Proof. intros. unfold chinvp in *. eapply chinv_consumers; eauto. Qed.
Lemma chinvp_del : forall c h ch tag, chinvp c h ch -> chinvp c h (del_unacked ch tag).
Proof. intros. unfold chinvp in *. apply chinv_del; auto. Qed.

Definition emptyat (c0 h0 : N) (c h : N) (ch : channel) : Prop := c = c0 -> h = h0 -> ch_consumers ch = [].
Lemma emptyat_keep c0 h0 : forall c h ch ch',
  ch_unacked ch' = ch_unacked ch -> ch_status ch' = ch_status ch -> ch_dtag ch <= ch_dtag ch' ->
  (ch_consumers ch = [] -> ch_consumers ch' = []) -> emptyat c0 h0 c h ch -> emptyat c0 h0 c h ch'.
Proof. unfold emptyat. intros. auto. Qed.
Lemma emptyat_del c0 h0 : forall c h ch tag, emptyat c0 h0 c h ch -> emptyat c0 h0 c h (del_unacked ch tag).
Proof. unfold emptyat. intros. cbn. auto. Qed.

Definition CI_wake := G_wake chinvp chinvp_keep.
Definition CI_consumer_stop := G_consumer_stop chinvp chinvp_keep.
Definition CI_dec_qos := G_dec_qos chinvp chinvp_keep.
Definition CI_wake_consumers := G_wake_consumers chinvp chinvp_keep.
Definition CI_handle_reject := G_handle_reject chinvp chinvp_keep chinvp_del.
Definition CI_handle_ack := G_handle_ack chinvp chinvp_keep chinvp_del.


Ltac keep_upd :=
  first [ apply allch_upd_chan; [intros ch0 Hch0; eapply chinvp_keep; [..|exact Hch0]; cbn;
                                 first [reflexivity | apply N.le_refl | apply map_nil_of_nil | apply filter_nil_of_nil' | lia | auto]|]
        | eapply allch_set_conn_qos; [eassumption|] ].
Ltac sc := repeat (first [ assumption
                         | match goal with |- allch _ (if ?b then _ else _) => destruct b end
                         | match goal with |- allch _ (match ?x with _ => _ end) => destruct x eqn:? end
                         | same_conns | keep_upd ]).

(* a channel-record update that only changes fields other than unacked/dtag *)
Lemma chinvp_set c h ch ch' : ch_unacked ch' = ch_unacked ch -> ch_dtag ch' = ch_dtag ch -> chinvp c h ch -> chinvp c h ch'.
Proof. unfold chinvp, chinv. intros E1 E2 (A & B). rewrite E1, E2. auto. Qed.

Lemma CI_channel_close cfg s c h : CI s -> CI (channel_close cfg s c h).
Proof.
  intros H. unfold channel_close. destruct (get_chan s c h) as [ch|] eqn:Ech; auto.
  apply allch_upd_chan; [intros ch0 Hc0; eapply chinvp_set; [..|exact Hc0]; reflexivity|].
  assert (H2 : CI (upd_chan (fold_left (fun s cm => consumer_stop s c h (c_tag cm)) (ch_consumers ch) s) c h
                     (fun ch => ch <| ch_consumers := [] |>))).
  { apply allch_upd_chan; [intros ch0 Hc0; eapply chinvp_set; [..|exact Hc0]; reflexivity|].
    apply fold_left_preserves; auto. intros; apply CI_consumer_stop; auto. }
  destruct (0 <? h); auto. apply CI_handle_reject; auto.
Qed.

Lemma CI_cancel_fold l : forall s evs, CI s ->
  CI (fst (fold_left (fun acc x => let '(s, evs) := acc in let '(s', e) := consumer_cancel s x in (s', evs ++ e)) l (s, evs))).
Proof.
  induction l as [|[[c h] tag] t IH]; intros s evs H; simpl; auto.
  apply IH. apply CI_consumer_stop; auto.
Qed.

Lemma CI_vhost_delete_queue b s qn iu ie : CI s -> CI (fst (fst (vhost_delete_queue b s qn iu ie))).
Proof.
  intros H. unfold vhost_delete_queue. destruct (get_queue s qn) as [qu|] eqn:Eq; auto.
  destruct (_ || _).
  - cbn [fst]. destruct b; [eapply allch_same_conns; [apply conns_set_queue|exact H]|exact H].
  - pose proof (CI_cancel_fold (q_consumers qu) s [] H) as Hf.
    destruct (fold_left _ (q_consumers qu) (s, [])) as [s1 e1]. cbn [fst] in *.
    repeat (first [ assumption | match goal with |- allch _ (if ?b then _ else _) => destruct b end | same_conns ]).
Qed.

Lemma CI_store_windows cfg s c h tag ws : CI s -> CI (store_windows cfg s c h tag ws).
Proof.
  intros H. unfold store_windows. destruct ws as [|w1 [|w2 [|]]]; auto.
  destruct (cfg_rabbit cfg); [sc|]. destruct (get_conn _ c) eqn:Ec; sc.
Qed.

Lemma fst_pair {A B} (p : A * B) a b : p = (a, b) -> a = fst p.
Proof. intros ->. reflexivity. Qed.

(* the delivery bookkeeping on channel (c,h): tag counter + unacked entry, written as in consumer_turn / MGet *)
Lemma CI_deliver s c h (mk : N -> unacked) :
  (forall d, u_tag (mk d) = d) -> CI s ->
  CI (upd_chan (upd_chan s c h (fun ch => ch <| ch_dtag := match get_chan s c h with Some ch => ch_dtag ch + 1 | None => 0 end |>)) c h
        (fun ch => ch <| ch_unacked ::= fun l => l ++ [mk (match get_chan s c h with Some ch => ch_dtag ch + 1 | None => 0 end)] |>)).
Proof.
  intros Hmk H. destruct (get_chan s c h) as [ch|] eqn:Ech.
  - unfold upd_chan at 2. rewrite Ech.
    unfold upd_chan. rewrite get_chan_set_chan. pose proof (get_chan_conn _ _ _ _ Ech). destruct (get_conn s c) eqn:Ecn; [|congruence].
    rewrite !N.eqb_refl. cbn [andb].
    apply allch_set_chan; [|apply allch_set_chan; auto].
    + pose proof (chinv_deliver h ch (mk (ch_dtag ch + 1)) (Hmk _) (H _ _ _ Ech)) as Hd. exact Hd.
    + pose proof (H _ _ _ Ech) as (A & B). unfold chinvp, chinv. cbn. split; auto. intros u Hu. specialize (B u Hu). lia.
  - unfold upd_chan at 2. rewrite Ech. unfold upd_chan. rewrite Ech. exact H.
Qed.

Lemma CI_bump s c h d : (forall ch, get_chan s c h = Some ch -> ch_dtag ch <= d) -> CI s ->
  CI (upd_chan s c h (fun ch => ch <| ch_dtag := d |>)).
Proof.
  intros Hd H. unfold upd_chan. destruct (get_chan s c h) as [ch|] eqn:E; auto.
  apply allch_set_chan; auto. pose proof (H _ _ _ E) as (A & B). unfold chinvp, chinv. cbn. split; auto.
  intros u Hu. specialize (B u Hu). specialize (Hd _ eq_refl). lia.
Qed.

Lemma CI_consumer_turn cfg fx s c h tag : CI s -> CI (fst (consumer_turn cfg fx s c h tag)).
Proof.
  intros H. unfold consumer_turn.
  destruct (get_chan s c h) as [ch|] eqn:Ech; auto.
  destruct (find_consumer ch tag) as [cm|] eqn:Efc; auto.
  destruct (negb (c_token cm)); auto.
  set (s0 := set_chan s c h _).
  assert (H0 : CI s0).
  { subst s0. apply allch_set_chan; auto. eapply chinvp_keep; [..|exact (H _ _ _ Ech)]; cbn; try reflexivity. apply map_nil_of_nil. }
  clearbody s0.
  destruct (c_status cm); auto.
  all: destruct (get_queue s0 (c_queue cm)) as [qu|]; auto.
  all: destruct (negb (q_active qu)); auto.
  all: destruct (q_ready qu) as [|u rest]; auto.
  all: match goal with |- context [if c_noack ?cm0 then (Some [], []) else ?r] => destruct (if c_noack cm0 then (Some [], []) else r) as [okr ws] end.
  all: set (s1 := if c_noack cm then s0 else store_windows cfg s0 c h tag ws).
  all: assert (H1 : CI s1) by (subst s1; destruct (c_noack cm); auto; apply CI_store_windows; auto).
  all: clearbody s1.
  all: destruct okr; cbn [fst]; auto.
  all: match goal with |- context [wake_consumer ?st ?c0 ?h0 ?tag0] => destruct (wake_consumer st c0 h0 tag0) as [s9 b9] eqn:Ew;
         apply fst_pair in Ew; cbn [fst]; subst s9; apply CI_wake end.
  all: same_conns.
  all: set (s3 := if c_noack cm then queue_ackmsg (upd_queue s1 (c_queue cm) _) (c_queue cm) u else upd_queue s1 (c_queue cm) _).
  all: assert (H3 : CI s3) by (subst s3; destruct (c_noack cm); repeat same_conns; auto).
  all: clearbody s3.
  all: destruct (c_noack cm).
  all: repeat (first [ assumption | same_conns | match goal with |- allch _ (if ?b then _ else _) => destruct b end ]).
  all: first [ apply CI_bump; [intros ch0 Hg; rewrite Hg; lia|assumption]
             | apply (CI_deliver s3 c h (fun d => {| u_tag := d; u_ctag := tag; u_queue := c_queue cm;
                                             u_qid := qid_of (upd_chan s3 c h (fun ch => ch <| ch_dtag := d |>)) (c_queue cm); u_msg := u |})); auto ].
Qed.

Lemma CI_queue_loop_turn s qn : CI s -> CI (queue_loop_turn s qn).
Proof.
  intros H. unfold queue_loop_turn. destruct (get_queue s qn) as [qu|]; auto. destruct (negb (q_call qu)); auto.
  destruct (Nat.eqb _ 0); [same_conns; auto|]. same_conns.
  apply fold_left_preserves; [|same_conns; auto]. intros s0 [[c h] tag] H0. apply CI_wake; auto.
Qed.

Lemma CI_add_confirm s c h t : CI s -> CI (add_confirm s c h t).
Proof.
  intros H. unfold add_confirm. destruct (get_chan s c h) as [ch|] eqn:E; auto. destruct (negb _); auto.
  destruct (ch_status ch); auto; destruct t as [[[? ?] ?]|]; auto;
    (apply allch_set_chan; auto; eapply chinvp_set; [..|exact (H _ _ _ E)]; reflexivity).
Qed.

Lemma CI_route_and_push fx s c h u : CI s -> CI (fst (route_and_push fx s c h u)).
Proof.
  intros H. unfold route_and_push. destruct (get_msg s u) as [m|]; auto.
  destruct (alookup _ _ _) as [ex|]; cbn [fst]; [|apply CI_add_confirm; auto].
  destruct (matched_queues _ _ _) as [|q1 qs]; cbn [fst]; [apply CI_add_confirm; auto|].
  apply fold_left_preserves.
  - intros s0 qn H0. assert (H1 : CI (queue_push s0 qn u)) by (same_conns; auto).
    unfold push_one. destruct (get_msg (queue_push s0 qn u) u); auto. destruct (_ && _)%bool; auto. apply CI_add_confirm; auto.
  - destruct (_ && _)%bool; [same_conns|]; auto.
Qed.

Lemma CI_finish_publish fx s c h u : CI s -> CI (fst (finish_publish fx s c h u)).
Proof.
  intros H. unfold finish_publish. pose proof (CI_route_and_push fx s c h u H) as H1.
  destruct (route_and_push fx s c h u) as [s1 e1]. cbn [fst] in *.
  destruct (fx_clear_current fx); auto.
  apply allch_upd_chan; auto.
Qed.

(* a record update of channel (c,h), known from get_chan, that keeps unacked and dtag *)
Ltac set_keep Ech H := apply allch_set_chan; [eapply chinvp_set; [..|exact (H _ _ _ Ech)]; reflexivity|].

Lemma CI_handle_method cfg fx s c h m : CI s -> CI (fst (fst (handle_method cfg fx s c h m))).
Proof.
  intros H. unfold handle_method.
  destruct (get_chan s c h) as [ch|] eqn:Hch; [|exact H].
  destruct m; unfold ok, refuse.
  - (* MChannelOpen *)
    destruct (ch_status ch); cbn [fst]; auto.
    + set_keep Hch H. auto.
    + set_keep Hch H. auto.
    + (* closed: reset *)
      apply allch_set_chan; auto. destruct (fx_reopen_resets fx).
      * unfold chinvp, chinv. cbn. split; [constructor|intros u []].
      * eapply chinvp_set; [..|exact (H _ _ _ Hch)]; reflexivity.
  - (* MChannelClose *) cbn [fst]. apply CI_channel_close; auto.
  - (* MChannelCloseOk *) cbn [fst]. destruct (fx_closeok_releases fx); [apply CI_channel_close; auto|set_keep Hch H; auto].
  - (* MChannelFlow *)
    cbn [fst]. destruct (Bool.eqb _ _); auto. destruct a; (set_keep Hch H; auto).
  - (* MExDeclare *)
    destruct (extype_of type); [|exact H].
    repeat match goal with |- context [if ?b then _ else _] => destruct b end; cbn [fst]; auto.
    all: repeat match goal with |- context [match ?x with _ => _ end] => destruct x end; cbn [fst]; auto.
    all: try (same_conns; auto).
  - (* MExDelete *) destruct (fx_not_impl fx); exact H.
  - (* MQDeclare *)
    destruct (seqb name ""); [exact H|].
    destruct (queue_found s name) as [qu|].
    + repeat match goal with |- context [if ?b then _ else _] => destruct b end; cbn [fst]; auto.
    + destruct passive; [destruct nowait; exact H|]. cbn [fst]. repeat same_conns. auto.
  - (* MQBind *)
    destruct (alookup _ _ _); [|exact H]. destruct (seqb ex ""); [exact H|].
    destruct (queue_found s q); [|exact H]. destruct (locked _ _); [exact H|]. destruct (bad_xmatch _); [exact H|]. destruct (extype_eqb _ ExTopic && bad_pattern _)%bool; [exact H|]. cbn [fst]. same_conns. auto.
  - (* MQUnbind *)
    destruct (alookup _ _ _); [|exact H]. destruct (queue_found s q); [|exact H]. destruct (locked _ _); [exact H|]. destruct (bad_xmatch _); [exact H|]. destruct (extype_eqb _ ExTopic && bad_pattern _)%bool; [exact H|]. cbn [fst]. same_conns. auto.
  - (* MQPurge *)
    destruct (queue_found s q) as [qu|]; [|exact H]. destruct (locked _ _); [exact H|]. cbn [fst].
    repeat (first [assumption | same_conns | match goal with |- allch _ (if ?b then _ else _) => destruct b end]).
  - (* MQDelete *)
    destruct (queue_found s q); [|exact H]. destruct (locked _ _); [exact H|].
    pose proof (CI_vhost_delete_queue (negb (fx_delete_checks_first fx)) s q ifunused ifempty H) as Hd.
    destruct (vhost_delete_queue _ s q ifunused ifempty) as [[s1 e1] r1]. cbn [fst] in *.
    destruct r1; exact Hd.
  - (* MQos *)
    cbn [fst]. apply CI_wake_consumers. destruct (cfg_rabbit cfg); [destruct glob; (set_keep Hch H; auto)|].
    destruct glob; [|set_keep Hch H; auto]. destruct (get_conn s c) eqn:Ec; auto. eapply allch_set_conn_qos; eauto.
  - (* MPublish *)
    destruct imm; [exact H|]. destruct (alookup _ _ _); [|exact H].
    destruct (ch_confirm ch); cbn [fst].
    + apply allch_set_chan; [eapply chinvp_set; [..|exact (H _ _ _ Hch)]; reflexivity|]. repeat same_conns. auto.
    + apply allch_set_chan; [eapply chinvp_set; [..|exact (H _ _ _ Hch)]; reflexivity|]. repeat same_conns. auto.
  - (* MConsume *)
    destruct (queue_found s q) as [qu|]; [|exact H].
    destruct (fx_excl_owner fx && locked qu c); [exact H|].
    destruct (find_consumer ch _); [exact H|].
    destruct (_ && _)%bool; cbn [fst].
    + same_conns. auto.
    + apply allch_set_chan; [eapply chinvp_set; [..|exact (H _ _ _ Hch)]; reflexivity|].
      destruct (seqb tag ""%string); repeat same_conns; auto.
  - (* MCancel *)
    destruct (find_consumer ch tag); [|exact H]. cbn [fst].
    apply allch_upd_chan; [intros ch0 Hc0; apply chinv_orphan; exact Hc0|].
    apply allch_upd_chan; [intros ch0 Hc0; eapply chinvp_set; [..|exact Hc0]; reflexivity|]. apply CI_consumer_stop. exact H.
  - (* MGet *)
    destruct (queue_found s q) as [qu|]; [|exact H].
    destruct (fx_excl_owner fx && locked qu c); [exact H|].
    destruct (q_ready qu) as [|u rest]; [exact H|].
    match goal with |- context [if noack then (Some [], []) else ?r] => destruct (if noack then (Some [], []) else r) as [okr ws] end.
    set (s1 := match ws with [w1; w2] => _ | _ => s end).
    assert (H1 : CI s1).
    { subst s1. destruct ws as [|w1 [|w2 [|]]]; auto.
      destruct (get_conn _ c) eqn:Ec.
      - eapply allch_set_conn_qos; eauto. set_keep Hch H. auto.
      - set_keep Hch H. auto. }
    clearbody s1.
    destruct okr; cbn [fst]; [|exact H1].
    same_conns.
    set (s3 := upd_queue s1 q _). assert (H3 : CI s3) by (subst s3; same_conns; auto). clearbody s3.
    destruct noack.
    all: repeat (first [ assumption | same_conns | match goal with |- allch _ (if ?b then _ else _) => destruct b end ]).
    all: first [ apply CI_bump; [intros ch0 Hg; rewrite Hg; lia|assumption]
               | apply (CI_deliver s3 c h (fun d => {| u_tag := d; u_ctag := ""%string; u_queue := q;
                                               u_qid := qid_of (upd_chan s3 c h (fun ch => ch <| ch_dtag := d |>)) q; u_msg := u |})); auto ].
  - (* MAck *)
    pose proof (CI_handle_ack cfg s c h tag mult H) as Ha.
    destruct (handle_ack cfg s c h tag mult) as [s1 e1]. exact Ha.
  - (* MNack *)
    pose proof (CI_handle_reject cfg s c h tag mult requeue 60 120 H) as Ha.
    destruct (handle_reject cfg s c h tag mult requeue 60 120) as [s1 e1]. exact Ha.
  - (* MReject *)
    pose proof (CI_handle_reject cfg s c h tag false requeue 60 90 H) as Ha.
    destruct (handle_reject cfg s c h tag false requeue 60 90) as [s1 e1]. exact Ha.
  - (* MRecover *) exact H.
  - (* MConfirmSelect *) cbn [fst]. set_keep Hch H. auto.
  - (* MTxSelect *) destruct (fx_not_impl fx); exact H.
  - (* MConnClose *) exact H.
  - (* MConnCloseOk *) exact H.
  - (* MStartOk *) destruct good; [cbn [fst]; apply allch_set_stage; exact H|exact H].
  - (* MTuneOk *) destruct within; [cbn [fst]; apply allch_set_stage; exact H|exact H].
  - (* MConnOpen *) destruct vhost_ok; [cbn [fst]; apply allch_set_stage; exact H|exact H].
Qed.

Lemma CI_delete_fold b l : forall s evs, CI s ->
  CI (fst (fold_left (fun acc qn => let '(s, evs) := acc in
                                    let '(s', e, _) := vhost_delete_queue b s qn false false in (s', evs ++ e)) l (s, evs))).
Proof.
  induction l as [|x t IH]; intros s evs H; simpl; auto.
  pose proof (CI_vhost_delete_queue b s x false false H) as Hd.
  destruct (vhost_delete_queue b s x false false) as [[s1 e1] r1]. cbn [fst] in Hd. apply IH. exact Hd.
Qed.

Lemma CI_conn_close cfg fx s c : CI s -> CI (fst (conn_close cfg fx s c)).
Proof.
  intros H. unfold conn_close. destruct (get_conn s c) as [cn|]; [|exact H].
  set (s1 := fold_left _ _ s).
  assert (H1 : CI s1) by (subst s1; apply fold_left_preserves; auto; intros; apply CI_channel_close; auto).
  clearbody s1.
  pose proof (CI_delete_fold (negb (fx_delete_checks_first fx))
                (map fst (filter (fun kv => q_excl (snd kv) && (q_owner (snd kv) =? c)) (queues s1))) s1 [] H1) as Hd.
  destruct (fold_left _ _ (s1, [])) as [s2 e2]. cbn [fst] in *. apply allch_del_conn. exact Hd.
Qed.

Lemma CI_send_error s c h e : CI s -> CI (fst (send_error s c h e)).
Proof. intros H. destruct e; cbn [send_error fst]; auto. apply allch_upd_chan; auto. Qed.

Lemma CI_apply_err s c h r : CI (fst (fst r)) -> CI (fst (apply_err s c h r)).
Proof.
  destruct r as [[s1 e1] [e|]]; cbn [fst]; auto.
  intros H. unfold apply_err. pose proof (CI_send_error s1 c h e H) as Hs.
  destruct (send_error s1 c h e) as [s2 e2]. exact Hs.
Qed.

Lemma chinv_channel0 h : chinv h channel0.
Proof. unfold chinv, channel0. cbn. split; [constructor|intros u []]. Qed.

Lemma get_chan_ensure s c h c' h' ch' :
  get_chan (ensure_chan s c h) c' h' = Some ch' -> get_chan s c' h' = Some ch' \/ ch' = channel0.
Proof.
  unfold ensure_chan. destruct (get_conn s c) as [cn|] eqn:Ec; auto.
  destruct (alookup N.eqb h (cn_chans cn)) eqn:Eh; auto.
  unfold get_chan, get_conn in *. cbn. rewrite (alookup_aset N.eqb Neqb_spec).
  destruct (c' =? c) eqn:E1.
  - apply N.eqb_eq in E1. subst. rewrite Ec. cbn. rewrite (alookup_aset N.eqb Neqb_spec).
    destruct (h' =? h); intros Hg; [inversion Hg; auto|auto].
  - auto.
Qed.

Lemma CI_ensure_chan s c h : CI s -> CI (ensure_chan s c h).
Proof.
  intros H c' h' ch' Hg. apply get_chan_ensure in Hg. destruct Hg as [Hg|Hg]; [apply H; auto|subst; apply chinv_channel0].
Qed.

Lemma CI_apply_err_st cfg fx opened s c h r : CI (fst (fst r)) -> CI (fst (apply_err_st cfg fx opened s c h r)).
Proof.
  intros H. unfold apply_err_st. destruct opened; [apply CI_apply_err; auto|].
  destruct (snd r) as [[| ]|]; try (apply CI_apply_err; auto).
  pose proof (CI_apply_err s c h r H) as H1. destruct (apply_err s c h r) as [s1 e1]. cbn [fst] in H1.
  pose proof (CI_conn_close cfg fx s1 c H1) as H2. destruct (conn_close cfg fx s1 c) as [s2 e2]. exact H2.
Qed.

Theorem CI_step cfg fx s l : CI s -> CI (fst (step cfg fx s l)).
Proof.
  intros H. destruct l; cbn [step].
  - (* LConnect *)
    destruct (get_conn s c) eqn:Ec; cbn [fst]; auto.
    intros c' h' ch' Hg. unfold get_chan, get_conn in Hg. cbn in Hg. rewrite (alookup_aset N.eqb Neqb_spec) in Hg.
    destruct (c' =? c) eqn:E1.
    + cbn in Hg. destruct (h' =? 0); inversion Hg; subst. apply chinv_channel0.
    + apply H. unfold get_chan, get_conn. exact Hg.
  - (* LMethod *)
    destruct (get_conn s c) as [cn0|]; [|exact H].
    destruct (negb _ && negb _)%bool; [apply CI_conn_close; auto|].
    assert (H0 : CI (ensure_chan s c h)) by (apply CI_ensure_chan; auto).
    destruct m.
    all: try (repeat match goal with |- context [if ?b then _ else _] => destruct b end;
              first [ exact H0 | apply CI_apply_err; first [ apply CI_handle_method; auto | exact H0 ] | apply CI_apply_err_st; auto; first [ apply CI_handle_method; auto | exact H0 ] ]).
    + destruct (fx_stage fx && negb (h =? 0)); [apply CI_apply_err; exact H0|].
      pose proof (CI_conn_close cfg fx _ c H0) as Hc.
      destruct (conn_close cfg fx (ensure_chan s c h) c) as [s1 e1]. exact Hc.
    + destruct (fx_stage fx && negb (h =? 0)); [apply CI_apply_err; exact H0|].
      apply CI_conn_close; auto.
  - (* LHeader *)
    destruct (get_conn s c) as [cn0|]; [|exact H].
    destruct (negb _ && negb _)%bool; [apply CI_conn_close; auto|].
    assert (H0 : CI (ensure_chan s c h)) by (apply CI_ensure_chan; auto).
    destruct (get_chan _ c h) as [ch|]; [|exact H0].
    destruct (_ && _)%bool; [exact H0|].
    destruct (ch_cur ch) as [u|]; [|apply CI_apply_err_st; auto].
    destruct (get_msg _ u) as [m|]; [|exact H0].
    destruct (m_has_header m); [apply CI_apply_err_st; auto|].
    destruct (_ && _)%bool; [apply CI_finish_publish|]; same_conns; auto.
  - (* LBody *)
    destruct (get_conn s c) as [cn0|]; [|exact H].
    destruct (negb _ && negb _)%bool; [apply CI_conn_close; auto|].
    assert (H0 : CI (ensure_chan s c h)) by (apply CI_ensure_chan; auto).
    destruct (get_chan _ c h) as [ch|]; [|exact H0].
    destruct (_ && _)%bool; [exact H0|].
    destruct (ch_cur ch) as [u|]; [|apply CI_apply_err_st; auto].
    destruct (get_msg _ u) as [m|]; [|exact H0].
    destruct (negb (m_has_header m)); [apply CI_apply_err_st; auto|].
    destruct (_ <? _); [apply CI_apply_err_st; auto; cbn [fst]; apply allch_upd_chan; auto|].
    destruct (_ <? _); [|apply CI_finish_publish]; same_conns; auto.
  - (* LConsumerTurn *) apply CI_consumer_turn; auto.
  - (* LQueueLoop *) cbn [fst]. apply CI_queue_loop_turn; auto.
  - (* LAutoDelete *)
    destruct (autodel s) as [|qn rest]; [exact H|].
    assert (H0 : CI (s <| autodel := rest |>)) by (same_conns; auto).
    destruct (get_queue _ qn) as [qu0|]; [|exact H0]. destruct (q_autodel qu0); [|exact H0].
    pose proof (CI_vhost_delete_queue (negb (fx_delete_checks_first fx)) _ qn true false H0) as Hd.
    destruct (vhost_delete_queue _ (s <| autodel := rest |>) qn true false) as [[s1 e1] r1]. exact Hd.
  - (* LPersistTick *)
    cbn [fst]. apply fold_left_preserves.
    + intros s0 k H0. eapply allch_same_conns; [apply conns_store_confirm|exact H0].
    + repeat same_conns. auto.
  - (* LRelay *)
    destruct (relay s) as [|u rest]; [exact H|].
    assert (H0 : CI (s <| relay := rest |>)) by (same_conns; auto).
    destruct (get_msg _ u) as [m|]; cbn [fst]; auto.
    destruct (m_conf m) as [[[? ?] ?]|]; cbn [fst]; auto. apply CI_add_confirm; auto.
  - (* LConfirmTick *)
    destruct (get_chan s c h) as [ch|] eqn:Ech; [|exact H]. destruct (negb _); [exact H|].
    destruct (ch_status ch); cbn [fst]; (set_keep Ech H; auto).
  - (* LSocketLoss *)
    pose proof (CI_conn_close cfg fx s c H) as Hc.
    destruct (conn_close cfg fx s c) as [s1 e1]. exact Hc.
  - (* LAccept *)
    destruct (get_conn s c) eqn:Ec; cbn [fst]; auto.
    intros c' h' ch' Hg. unfold get_chan, get_conn in Hg. cbn in Hg. rewrite (alookup_aset N.eqb Neqb_spec) in Hg.
    destruct (c' =? c) eqn:E1.
    + cbn in Hg. destruct (h' =? 0); inversion Hg; subst. apply chinv_channel0.
    + apply H. unfold get_chan, get_conn. exact Hg.
  - (* LBadMethod *)
    destruct (get_conn s c) as [cn0|]; [|exact H].
    destruct (negb _ && negb _)%bool; [apply CI_conn_close; auto|].
    apply CI_apply_err_st; auto. cbn [fst]. apply CI_ensure_chan; auto.
  - (* LHeartbeat *)
    destruct (get_conn s c); [|exact H]. destruct (h =? 0); [exact H|apply CI_conn_close; auto].
  - (* LRestart *)
    unfold restart. cbn [fst]. intros c h ch Hg. unfold get_chan, get_conn in Hg. cbn in Hg. discriminate.
Qed.

Lemma CI_init cfg : CI (init cfg).
Proof. intros c h ch Hg. unfold get_chan, get_conn in Hg. simpl in Hg. discriminate. Qed.

Theorem CI_run cfg fx ls : forall s, CI s -> CI (fst (run cfg fx s ls)).
Proof.
  induction ls as [|l t IH]; intros s H; simpl; auto.
  pose proof (CI_step cfg fx s l H) as H1.
  destruct (step cfg fx s l) as [s1 e1]. cbn [fst] in H1.
  specialize (IH s1 H1). destruct (run cfg fx s1 t) as [s2 e2]. exact IH.
Qed.

(* every reachable state: distinct tags, none above the counter *)
Theorem tags_invariant_reachable cfg fx ls c h ch :
  get_chan (fst (run cfg fx (init cfg) ls)) c h = Some ch ->
  NoDup (map u_tag (ch_unacked ch)) /\ (forall u, In u (ch_unacked ch) -> u_tag u <= ch_dtag ch).
Proof. intros Hg. exact (CI_run cfg fx ls (init cfg) (CI_init cfg) c h ch Hg). Qed.
