(* Invariant of every channel over ALL label sequences (C15 core): the unacknowledged deliveries of a channel carry
   distinct tags, none above the channel's delivery-tag counter; a closed channel holds none. *)
From Coq Require Import List String NArith ZArith Bool Lia.
From RecordUpdate Require Import RecordUpdate.
Import ListNotations.
From GMQ Require Import Broker.Model Proofs.BrokerFrames Proofs.BrokerTags.
Open Scope N_scope.

Definition chinv (ch : channel) : Prop :=
  NoDup (map u_tag (ch_unacked ch)) /\
  (forall u, In u (ch_unacked ch) -> u_tag u <= ch_dtag ch).

Definition allch (P : channel -> Prop) (s : state) : Prop :=
  forall c cn h ch, In (c, cn) (conns s) -> In (h, ch) (cn_chans cn) -> P ch.

Lemma allch_get (P : channel -> Prop) s c h ch : allch P s -> get_chan s c h = Some ch -> P ch.
Proof.
  intros H Hg. unfold get_chan, get_conn in Hg. destruct (alookup N.eqb c (conns s)) as [cn|] eqn:Ec; [|discriminate].
  eapply H; eapply alookup_in; try apply Neqb_spec; eauto.
Qed.

Lemma allch_same_conns (P : channel -> Prop) s s' : conns s' = conns s -> allch P s -> allch P s'.
Proof. unfold allch. intros E H. rewrite E. exact H. Qed.

Lemma allch_set_chan (P : channel -> Prop) s c h ch : P ch -> allch P s -> allch P (set_chan s c h ch).
Proof.
  intros Hp H. unfold set_chan. destruct (get_conn s c) as [cn|] eqn:Ec; auto.
  unfold allch. cbn. intros c' cn' h' ch' Hin1 Hin2.
  apply in_aset in Hin1. destruct Hin1 as [E|Hin1].
  - inversion E; subst. cbn in Hin2. apply in_aset in Hin2. destruct Hin2 as [E2|Hin2].
    + inversion E2; subst. auto.
    + unfold get_conn in Ec. eapply H; [eapply alookup_in; [apply Neqb_spec|exact Ec]|exact Hin2].
  - eapply H; eauto.
Qed.

Lemma allch_upd_chan (P : channel -> Prop) s c h f : (forall ch, P ch -> P (f ch)) -> allch P s -> allch P (upd_chan s c h f).
Proof.
  intros Hf H. unfold upd_chan. destruct (get_chan s c h) as [ch|] eqn:E; auto.
  apply allch_set_chan; auto. apply Hf. eapply allch_get; eauto.
Qed.

Lemma allch_upd_chan_at (P : channel -> Prop) s c h f ch :
  get_chan s c h = Some ch -> P (f ch) -> allch P s -> allch P (upd_chan s c h f).
Proof. intros Hg Hp H. unfold upd_chan. rewrite Hg. apply allch_set_chan; auto. Qed.

Lemma allch_set_conn_qos (P : channel -> Prop) s c cn f :
  get_conn s c = Some cn -> allch P s -> allch P (s <| conns := aset N.eqb c (cn <| cn_qos ::= f |>) (conns s) |>).
Proof.
  intros Ec H. unfold allch. cbn. intros c' cn' h' ch' Hin1 Hin2.
  apply in_aset in Hin1. destruct Hin1 as [E|Hin1].
  - inversion E; subst. cbn in Hin2. unfold get_conn in Ec. eapply H; [eapply alookup_in; [apply Neqb_spec|exact Ec]|exact Hin2].
  - eapply H; eauto.
Qed.

Lemma allch_del_conn (P : channel -> Prop) s c : allch P s -> allch P (s <| conns := adel N.eqb c (conns s) |>).
Proof. unfold allch. cbn. intros H c' cn' h' ch' Hin1 Hin2. apply in_adel in Hin1. eauto. Qed.

Notation CI := (allch chinv).

(* channel-record updates that keep the unacked list and do not lower the tag counter *)
Lemma chinv_keep ch ch' : ch_unacked ch' = ch_unacked ch -> ch_dtag ch <= ch_dtag ch' -> chinv ch -> chinv ch'.
Proof. unfold chinv. intros E1 E2 [A B]. rewrite E1. split; auto. intros u Hu. specialize (B u Hu). lia. Qed.

Lemma NoDup_map_filter {A B} (f : A -> B) (p : A -> bool) l : NoDup (map f l) -> NoDup (map f (filter p l)).
Proof.
  induction l as [|a l IH]; simpl; auto. intros H. inversion H as [|? ? Hni Hnd]; subst.
  destruct (p a); simpl; auto. constructor; auto.
  intros Hin. apply Hni. apply in_map_iff in Hin. destruct Hin as (x & Ex & Hx). apply filter_In in Hx.
  rewrite <- Ex. apply in_map. tauto.
Qed.

Lemma chinv_del ch tag : chinv ch -> chinv (del_unacked ch tag).
Proof.
  unfold chinv, del_unacked. cbn. intros [A B]. split.
  - apply NoDup_map_filter; auto.
  - intros u Hu. apply filter_In in Hu. apply B. tauto.
Qed.

Lemma NoDup_snoc {A} (l : list A) x : NoDup l -> ~ In x l -> NoDup (l ++ [x]).
Proof.
  induction l as [|a l IH]; simpl; intros Hnd Hni; [constructor; auto; constructor|].
  inversion Hnd; subst. constructor.
  - intros Hin. apply in_app_or in Hin. destruct Hin as [Hin|[Hin|[]]]; [auto|subst; apply Hni; auto].
  - apply IH; auto.
Qed.

Lemma chinv_deliver ch un : u_tag un = ch_dtag ch + 1 -> chinv ch ->
  chinv (ch <| ch_dtag := ch_dtag ch + 1 |> <| ch_unacked ::= fun l => l ++ [un] |>).
Proof.
  unfold chinv. cbn. intros Et [A B]. split.
  - rewrite map_app. cbn. apply NoDup_snoc; auto.
    intros Hx. apply in_map_iff in Hx. destruct Hx as (u & Eu & Hu). specialize (B u Hu). lia.
  - intros u Hu. apply in_app_or in Hu. destruct Hu as [Hu|[Hu|[]]]; [specialize (B u Hu); lia|subst; lia].
Qed.
